/-
  Properties/C16.lean — shared-memory and attached sketches see one state: the layout computed by
  `__init__` and the one computed by `attach_existing_shm` coincide for EVERY shape (alignment is
  not required), the segments tile the block exactly with a 16-byte bookkeeping tail, and a value
  written through one view's little-endian encoding is read back through any other.
  (Mapping coherence and unlink semantics are the operating system's — modelled, not proved.)
-/
import Model.Shm
namespace Sketchnu.C16
open Sketchnu

theorem cms_layouts_agree (itemsize width depth : Nat) :
    cmsAttachLayout itemsize width depth (cmsInitLayout itemsize width depth).2
      = (cmsInitLayout itemsize width depth).1 := by
  simp only [cmsAttachLayout, cmsInitLayout]
  have : depth * width * itemsize = itemsize * width * depth := by
    rw [Nat.mul_comm (depth * width), Nat.mul_comm depth width, Nat.mul_assoc]
  rw [this]

theorem hh_layouts_agree (maxKeyLen width depth : Nat) :
    hhAttachLayout maxKeyLen width depth (hhInitLayout maxKeyLen width depth).2
      = (hhInitLayout maxKeyLen width depth).1 := by
  simp only [hhAttachLayout, hhInitLayout, Nat.mul_one, Nat.one_mul]
  have h1 : depth * width * maxKeyLen = maxKeyLen * width * depth := by
    rw [Nat.mul_comm (depth * width), Nat.mul_comm depth width, Nat.mul_assoc]
  have h2 : depth * width * 4 = 4 * width * depth := by
    rw [Nat.mul_comm (depth * width), Nat.mul_comm depth width, Nat.mul_assoc]
  have h3 : depth * width = width * depth := Nat.mul_comm _ _
  rw [h1, h2, h3]

/-- the count-min segments tile `[0, size)` exactly and the tail is the 16 bookkeeping bytes -/
theorem cms_tiling (itemsize width depth : Nat) :
    chained (cmsInitLayout itemsize width depth).1 0 (cmsInitLayout itemsize width depth).2 ∧
    (cmsInitLayout itemsize width depth).2 - itemsize * width * depth = 16 := by
  refine ⟨⟨rfl, Nat.zero_le _, rfl, Nat.le_add_right _ _, rfl⟩, ?_⟩
  show itemsize * width * depth + 8 * 2 - itemsize * width * depth = 16
  omega

theorem hh_tiling (maxKeyLen width depth : Nat) :
    chained (hhInitLayout maxKeyLen width depth).1 0 (hhInitLayout maxKeyLen width depth).2 ∧
    (hhInitLayout maxKeyLen width depth).2 -
      (maxKeyLen * width * depth + 4 * width * depth + 1 * width * depth) = 16 := by
  refine ⟨⟨rfl, Nat.zero_le _, rfl, Nat.le_add_right _ _, rfl, Nat.le_add_right _ _, rfl, ?_, rfl⟩, ?_⟩
  · show maxKeyLen * width * depth + 4 * width * depth + 1 * width * depth
      ≤ maxKeyLen * width * depth + 4 * width * depth + 1 * width * depth + 8 * 2
    omega
  · show maxKeyLen * width * depth + 4 * width * depth + 1 * width * depth + 8 * 2 -
      (maxKeyLen * width * depth + 4 * width * depth + 1 * width * depth) = 16
    omega

theorem hll_tiling (p : Nat) : chained (hllLayout p).1 0 (hllLayout p).2 := by
  simp [hllLayout, chained]

/-- consecutive segments are pairwise disjoint: a byte offset lies in at most one of them -/
theorem chained_disjoint (l : List Seg) (a b : Nat) (h : chained l a b) :
    l.Pairwise (fun s t => s.stop ≤ t.start) ∧ (∀ s ∈ l, a ≤ s.start ∧ s.stop ≤ b) := by
  induction l generalizing a with
  | nil => simp
  | cons s rest ih =>
    obtain ⟨h1, h2, h3⟩ := h
    have ⟨p1, p2⟩ := ih s.stop h3
    refine ⟨List.pairwise_cons.mpr ⟨fun t ht => (p2 t ht).1, p1⟩, ?_⟩
    intro t ht
    rcases List.mem_cons.mp ht with rfl | ht
    · have : t.stop ≤ b := by
        cases rest with
        | nil => simp [chained] at h3; omega
        | cons u us =>
          have := (p2 u (List.mem_cons_self)).1
          have hb := (p2 u (List.mem_cons_self)).2
          obtain ⟨q1, q2, _⟩ := h3
          omega
      omega
    · have := p2 t ht; omega

theorem encode_length (n x : Nat) : (encodeLE n x).length = n := by
  induction n generalizing x with
  | zero => rfl
  | succ n ih => simp [encodeLE, ih]

/-- what one view stores, every view reads -/
theorem decode_encode (n x : Nat) (hx : x < 256 ^ n) : decodeLE (encodeLE n x) = x := by
  induction n generalizing x with
  | zero => simp [encodeLE, decodeLE] at *; omega
  | succ n ih =>
    simp only [encodeLE, decodeLE]
    have : x / 256 < 256 ^ n := by
      rw [Nat.pow_succ] at hx
      exact Nat.div_lt_of_lt_mul (by omega)
    rw [ih _ this]
    omega

theorem encode_bytes (n x : Nat) : ∀ b ∈ encodeLE n x, b < 256 := by
  induction n generalizing x with
  | zero => simp [encodeLE]
  | succ n ih =>
    intro b hb
    simp only [encodeLE, List.mem_cons] at hb
    rcases hb with rfl | hb
    · omega
    · exact ih _ b hb

/-! non-vacuity: an odd shape (3 × 5 uint16 table = 30 bytes: the uint64 bookkeeping is unaligned) -/
example : cmsInitLayout 2 5 3 = ([⟨0, 30⟩, ⟨30, 46⟩], 46) := by decide
example : hhInitLayout 3 5 1 = ([⟨0, 15⟩, ⟨15, 35⟩, ⟨35, 40⟩, ⟨40, 56⟩], 56) := by decide
example : decodeLE (encodeLE 8 (2 ^ 63 + 5)) = 2 ^ 63 + 5 := by decide

end Sketchnu.C16
