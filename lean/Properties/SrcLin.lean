/-
  Properties/SrcLin.lean — `_merge_linear`'s cell rule and `_add_linear`'s scalar logic as translated
  from the current source equal the model (`Lin.merge`, `Lin.add`), for all inputs.
-/
import Model.Generated.KernelsLin
import Proofs.Lin
namespace Sketchnu.SrcLin
open Sketchnu
variable {K : Type}

theorem mergeLinear_src (a b : Lin) (r c : Nat) :
    (Lin.merge a b).tab r c = Src.mergeLinearCell (a.tab r c) (b.tab r c) CAP := rfl

/-- `Lin.add` is: API cap, then the source's scalar logic on (query, value), then the conservative
    raise loop when something changed -/
theorem addLinear_src (g : Geom K) (s : Lin) (k : K) (v : Nat) :
    let r := Src.addLinearScalar (Lin.query g s k) (min v CAP) CAP s.nAdded
    (Lin.add g s k v).nAdded = r.2.2 ∧
    (Lin.add g s k v).tab = (if r.1 = 0 then s.tab else raiseTo g s.tab k r.2.1) := by
  unfold Lin.add Src.addLinearScalar
  simp only []
  split <;> simp_all

/-- the row loop of `_query_*` as translated from the source is the step of the model's running minimum
    (all three counter types) -/
theorem queryStep_src (g : Geom K) (cap : Nat) (T : Tab) (k : K) (d : Nat) :
    qrows g cap T k (d + 1) = Src.queryStepLinear (qrows g cap T k d) (T d (g.col d k)) ∧
    qrows g cap T k (d + 1) = Src.queryStepLog16 (qrows g cap T k d) (T d (g.col d k)) ∧
    qrows g cap T k (d + 1) = Src.queryStepLog8 (qrows g cap T k d) (T d (g.col d k)) := ⟨rfl, rfl, rfl⟩

end Sketchnu.SrcLin
