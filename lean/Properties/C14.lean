/-
  Properties/C14.lean — row hashes are independent, so depth buys the exp(-depth) bound.

  Layer 2 of DESIGN §4 C14 (finite counting, no measure theory): if the column functions of the
  rows are drawn uniformly and independently from ALL functions `keys → columns`, then for a fixed
  key `x` the fraction of hash tuples for which the classic count-min collision error of `x`
  reaches `T` in EVERY row is at most ((N - w x) / (W·T))^d.  With T = e·N/W this is ≤ e^-d.
  By C01 (`upper_contract`) the conservative-update estimate is ≤ the classic value of every row,
  so the bound transfers to this implementation.

  That FastHash with seeds 0..d-1 behaves like such a family is an ASSUMPTION (searched, not proved);
  the exact column rule `fasthash64(key, row) % width` is checked by correspondence (`cols`).

  STATEMENTS ARE FIXED.  Helper lemmas go to Proofs/Ideal.lean (may import single Mathlib modules).
-/
import Proofs.Ideal
namespace Sketchnu.C14
open Finset

variable {n W d : ℕ}

/-- classic count-min collision error of key `x` in one row with column function `h`:
    total weight of the OTHER keys that share `x`'s column -/
def err (w : Fin n → ℕ) (x : Fin n) (h : Fin n → Fin W) : ℕ :=
  ∑ y : Fin n, if y ≠ x ∧ h y = h x then w y else 0

/-- total weight of the other keys -/
def others (w : Fin n → ℕ) (x : Fin n) : ℕ := ∑ y : Fin n, if y ≠ x then w y else 0

/-- summed over ALL column functions, the error is `others · W^(n-1)`
    (each other key collides with `x` under exactly `W^(n-1)` of the `W^n` functions) -/
theorem sum_err (hW : 0 < W) (hn : 0 < n) (w : Fin n → ℕ) (x : Fin n) :
    ∑ h : Fin n → Fin W, err w x h = others w x * W ^ (n - 1) := by
  unfold err others
  rw [Finset.sum_comm, Ideal.sum_mul_nat]
  exact Finset.sum_congr rfl fun y _ => Ideal.sum_collide w x y

/-- Markov by counting, one row: #{h | err ≥ T} · T ≤ others · W^(n-1) -/
theorem row_markov (hW : 0 < W) (hn : 0 < n) (w : Fin n → ℕ) (x : Fin n) (T : ℕ) :
    (univ.filter fun h : Fin n → Fin W => T ≤ err w x h).card * T ≤ others w x * W ^ (n - 1) := by
  rw [← sum_err hW hn w x]
  calc (univ.filter fun h : Fin n → Fin W => T ≤ err w x h).card * T
      = ∑ _h ∈ univ.filter (fun h : Fin n → Fin W => T ≤ err w x h), T :=
        (Finset.sum_const_nat fun _ _ => rfl).symm
    _ ≤ ∑ h ∈ univ.filter (fun h : Fin n → Fin W => T ≤ err w x h), err w x h :=
        Finset.sum_le_sum fun h hh => (Finset.mem_filter.mp hh).2
    _ ≤ ∑ h : Fin n → Fin W, err w x h :=
        Finset.sum_le_sum_of_subset (Finset.filter_subset _ _)

/-- independence across rows: the tuples of `d` column functions that are bad in EVERY row are
    exactly the `d`-th power of the bad set -/
theorem depth_product (w : Fin n → ℕ) (x : Fin n) (T : ℕ) :
    (univ.filter fun hs : Fin d → (Fin n → Fin W) => ∀ r, T ≤ err w x (hs r)).card
      = (univ.filter fun h : Fin n → Fin W => T ≤ err w x h).card ^ d := by
  exact Ideal.card_filter_forall (fun h : Fin n → Fin W => T ≤ err w x h)

/-- the depth bound: (#bad tuples) · T^d ≤ (others · W^(n-1))^d, i.e. the fraction of the
    (W^n)^d hash tuples that are bad in every row is ≤ (others / (W·T))^d -/
theorem C14_ideal (hW : 0 < W) (hn : 0 < n) (w : Fin n → ℕ) (x : Fin n) (T : ℕ) :
    (univ.filter fun hs : Fin d → (Fin n → Fin W) => ∀ r, T ≤ err w x (hs r)).card * T ^ d
      ≤ (others w x * W ^ (n - 1)) ^ d := by
  rw [depth_product, ← mul_pow]
  exact Nat.pow_le_pow_left (row_markov hW hn w x T) d

/-- number of all hash tuples, for reading the bound as a fraction -/
theorem card_tuples : Fintype.card (Fin d → (Fin n → Fin W)) = (W ^ n) ^ d := by
  rw [Fintype.card_fun, Fintype.card_fun, Fintype.card_fin, Fintype.card_fin, Fintype.card_fin]

/-- transfer to the sketch: if the estimate of `x` exceeds its true count by at least `T` then the
    classic error is ≥ T in every row (contrapositive of C01's upper bound, stated arithmetically:
    `est ≤ w x + err_r` for every row `r`) -/
theorem bad_estimate_all_rows (w : Fin n → ℕ) (x : Fin n) (hs : Fin d → (Fin n → Fin W)) (est T : ℕ)
    (hupper : ∀ r, est ≤ w x + err w x (hs r)) (hbad : w x + T ≤ est) : ∀ r, T ≤ err w x (hs r) := by
  intro r
  have := hupper r
  omega

/-! non-vacuity: 3 keys of weight 1,2,3, width 2: of the 8 functions, key 0 collides with weight ≥ 2
    in 6 of them (sum of errors = 5 · 2^2 = 20) -/
example : ∑ h : Fin 3 → Fin 2, err ![1, 2, 3] 0 h = 20 := by decide
example : (univ.filter fun h : Fin 3 → Fin 2 => 2 ≤ err ![1, 2, 3] 0 h).card = 6 := by decide

end Sketchnu.C14
