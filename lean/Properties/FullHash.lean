/-
  Properties/FullHash.lean — the hash functions of `sketchnu/hashes.py` as translated, whole, from the current source
  (`Model/Generated/FullHash.lean`) equal the structural model `Impl.*` — and therefore, by `C11.fasthash64_eq` etc., the published
  FastHash / MurmurHash3_x86_32 — for every seed and every key shorter than 2^64 (murmur3: 2^32) bytes.
-/
import Model.Generated.FullHash
import Properties.C11
namespace Sketchnu.FullHash
open Sketchnu

/-! ### helpers -/

theorem fhmix64_full (h : UInt64) : SrcHash.fhmix64 h = Impl.fhmix64 h := rfl
theorem xor_shiftl_full (v : UInt64) (t : UInt8) (l : UInt64) : SrcHash.xor_shiftl v t.toUInt64 l = Impl.xorShiftl v t l := rfl
theorem rotl32_full (x r : UInt32) : SrcHash.rotl32 x r = Impl.rotl32 x r := rfl
theorem fmix32_full (h : UInt32) : SrcHash.fmix32 h = Impl.fmix32 h := rfl

/-! ### `chunks`: uniqueness of the decomposition into complete blocks and a short tail -/

theorem chunks_unique (n : Nat) (hn : 0 < n) : ∀ (cs : List Bytes) (t bs : Bytes) (fuel : Nat),
    cs.flatten ++ t = bs → (∀ c ∈ cs, c.length = n) → t.length < n → bs.length ≤ fuel → chunks n bs fuel = (cs, t)
  | [], t, bs, fuel, hbs, _, ht, _ => by
    simp at hbs; subst hbs
    cases fuel with
    | zero => simp [chunks]
    | succ f => simp [chunks, ht]
  | c :: cs, t, bs, fuel, hbs, hc, ht, hf => by
    have hcl : c.length = n := hc c (List.mem_cons_self)
    have hlen : bs.length = n + (cs.flatten ++ t).length := by
      rw [← hbs]; simp [List.length_append, hcl]
    cases fuel with
    | zero => omega
    | succ f =>
      have hcond : ¬ (n = 0 ∨ bs.length < n) := by omega
      have htake : bs.take n = c := by rw [← hbs]; simp [List.flatten_cons, List.append_assoc, ← hcl]
      have hdrop : bs.drop n = cs.flatten ++ t := by rw [← hbs]; simp [List.flatten_cons, List.append_assoc, ← hcl]
      have ih := chunks_unique n hn cs t (bs.drop n) f hdrop.symm (fun x hx => hc x (List.mem_cons_of_mem _ hx)) ht (by rw [hdrop]; omega)
      simp only [chunks, hcond, if_false, ih, htake]

theorem blocks_take (n : Nat) (hn : 0 < n) (key : Bytes) :
    blocksOf n (key.take (key.length / n * n)) = ((blocksOf n key).1, []) ∧ key.drop (key.length / n * n) = (blocksOf n key).2 := by
  obtain ⟨h1, h2, h3⟩ := blocksOf_spec n hn key
  generalize blocksOf n key = p at h1 h2 h3
  obtain ⟨bl, tl⟩ := p
  simp only at h1 h2 h3 ⊢
  have hlen : bl.flatten.length = key.length / n * n := by
    have : key.length = bl.flatten.length + tl.length := by rw [← h1]; simp
    have hdm := Nat.div_add_mod key.length n
    rw [Nat.mul_comm] at hdm
    omega
  have htake : key.take (key.length / n * n) = bl.flatten := by
    rw [← hlen, ← h1]; simp
  have hdrop : key.drop (key.length / n * n) = tl := by
    rw [← hlen, ← h1]; simp
  refine ⟨?_, hdrop⟩
  rw [htake]
  unfold blocksOf
  exact chunks_unique n hn bl [] bl.flatten _ (by simp) h2 (by simpa using hn) (Nat.le_refl _)

/-! ### machine-word arithmetic on the key length -/

theorem len64 (n : Nat) (hn : n < 2 ^ 64) : n.toUInt64.toNat = n := by
  simp [Nat.toUInt64, UInt64.toNat_ofNat']; omega

theorem nblocks64 (n : Nat) (hn : n < 2 ^ 64) : (n.toUInt64 / 8).toNat = n / 8 := by
  rw [UInt64.toNat_div]; simp [Nat.toUInt64, UInt64.toNat_ofNat']
  have : n % 18446744073709551616 = n := Nat.mod_eq_of_lt (by omega)
  rw [this]

theorem nbytes64 (n : Nat) (hn : n < 2 ^ 64) : ((n.toUInt64 / 8) * 8).toNat = n / 8 * 8 := by
  rw [UInt64.toNat_mul, UInt64.toNat_div]; simp [Nat.toUInt64, UInt64.toNat_ofNat']
  have : n % 18446744073709551616 = n := Nat.mod_eq_of_lt (by omega)
  rw [this]; omega

theorem switch64 (n : Nat) (hn : n < 2 ^ 64) : n.toUInt64 &&& 7 = (n % 8).toUInt64 := by
  apply UInt64.toNat_inj.mp
  rw [UInt64.toNat_and, len64 (n % 8) (by omega)]
  simp [Nat.toUInt64, UInt64.toNat_ofNat']
  have : n % 18446744073709551616 = n := Nat.mod_eq_of_lt (by omega)
  rw [this]
  exact Nat.and_two_pow_sub_one_eq_mod n 3

theorem nblocks_pos64 (n : Nat) (hn : n < 2 ^ 64) : (n.toUInt64 / 8 > 0) ↔ 0 < n / 8 := by
  rw [gt_iff_lt, UInt64.lt_iff_toNat_lt, nblocks64 n hn]
  simp

theorem blocks_length (key : Bytes) : (blocksOf 8 key).1.length = key.length / 8 := by
  obtain ⟨h1, h2, h3⟩ := blocksOf_spec 8 (by decide) key
  have hl : ((blocksOf 8 key).1.flatten).length = 8 * (blocksOf 8 key).1.length := by
    generalize (blocksOf 8 key).1 = bl at h2
    induction bl with
    | nil => simp
    | cons b bl ih =>
      simp only [List.flatten_cons, List.length_append, List.length_cons]
      rw [ih (fun x hx => h2 x (List.mem_cons_of_mem _ hx)), h2 b List.mem_cons_self]
      omega
  have : key.length = ((blocksOf 8 key).1.flatten).length + (blocksOf 8 key).2.length := by
    conv => lhs; rw [← h1]
    simp
  omega

/-! ### fasthash64 -/

theorem fasthash64_full (key : Bytes) (seed : UInt64) (hn : key.length < 2 ^ 64) :
    SrcHash.fasthash64 key seed = Impl.fasthash64 key seed := by
  unfold SrcHash.fasthash64 Impl.fasthash64
  obtain ⟨hbt, hdrop⟩ := blocks_take 8 (by decide) key
  have hbl := blocks_length key
  obtain ⟨-, -, h3⟩ := blocksOf_spec 8 (by decide) key
  have hsw := switch64 key.length hn
  have hpos := nblocks_pos64 key.length hn
  simp only [nbytes64 key.length hn, hdrop, frombuffer64, hbt, hsw, List.foldl_map]
  generalize blocksOf 8 key = p at hbl h3 ⊢
  obtain ⟨blocks, tail⟩ := p
  simp only at hbl h3 ⊢
  rw [← h3]
  have hlt : tail.length < 8 := by omega
  have hfold : (if (List.length key).toUInt64 / 8 > 0 then
        List.foldl (fun x y => (x ^^^ SrcHash.fhmix64 (le64 y)) * 9800771712469244261) (seed ^^^ (List.length key).toUInt64 * 9800771712469244261) blocks
      else seed ^^^ (List.length key).toUInt64 * 9800771712469244261) =
      List.foldl (fun x y => (x ^^^ SrcHash.fhmix64 (le64 y)) * 9800771712469244261) (seed ^^^ (List.length key).toUInt64 * 9800771712469244261) blocks := by
    by_cases hp : 0 < key.length / 8
    · rw [if_pos (hpos.mpr hp)]
    · have : blocks = [] := List.eq_nil_of_length_eq_zero (by omega)
      rw [if_neg (fun h => hp (hpos.mp h)), this]; rfl
  simp only [hfold]
  rcases tail with _ | ⟨b0, _ | ⟨b1, _ | ⟨b2, _ | ⟨b3, _ | ⟨b4, _ | ⟨b5, _ | ⟨b6, _ | ⟨b7, t⟩⟩⟩⟩⟩⟩⟩⟩
  case cons.cons.cons.cons.cons.cons.cons.cons => simp at hlt; omega
  all_goals rfl

theorem fasthash32_full (key : Bytes) (seed : UInt64) (hn : key.length < 2 ^ 64) :
    SrcHash.fasthash32 key seed = Impl.fasthash32 key seed := by
  unfold SrcHash.fasthash32 Impl.fasthash32
  rw [fasthash64_full key seed hn]
  rfl

/-! ### murmur3 -/

theorem len32 (n : Nat) (hn : n < 2 ^ 32) : n.toUInt32.toNat = n := by
  simp [Nat.toUInt32, UInt32.toNat_ofNat']; omega

theorem nblocks32 (n : Nat) (hn : n < 2 ^ 32) : (n.toUInt32 / 4).toNat = n / 4 := by
  rw [UInt32.toNat_div]; simp [Nat.toUInt32, UInt32.toNat_ofNat']
  have : n % 4294967296 = n := Nat.mod_eq_of_lt (by omega)
  rw [this]

theorem nbytes32 (n : Nat) (hn : n < 2 ^ 32) : ((n.toUInt32 / 4) * 4).toNat = n / 4 * 4 := by
  rw [UInt32.toNat_mul, UInt32.toNat_div]; simp [Nat.toUInt32, UInt32.toNat_ofNat']
  have : n % 4294967296 = n := Nat.mod_eq_of_lt (by omega)
  rw [this]; omega

theorem switch32 (n : Nat) (hn : n < 2 ^ 32) : n.toUInt32 &&& 3 = (n % 4).toUInt32 := by
  apply UInt32.toNat_inj.mp
  rw [UInt32.toNat_and, len32 (n % 4) (by omega)]
  simp [Nat.toUInt32, UInt32.toNat_ofNat']
  have : n % 4294967296 = n := Nat.mod_eq_of_lt (by omega)
  rw [this]
  exact Nat.and_two_pow_sub_one_eq_mod n 2

theorem blocks_length4 (key : Bytes) : (blocksOf 4 key).1.length = key.length / 4 := by
  obtain ⟨h1, h2, h3⟩ := blocksOf_spec 4 (by decide) key
  have hl : ((blocksOf 4 key).1.flatten).length = 4 * (blocksOf 4 key).1.length := by
    generalize (blocksOf 4 key).1 = bl at h2
    induction bl with
    | nil => simp
    | cons b bl ih =>
      simp only [List.flatten_cons, List.length_append, List.length_cons]
      rw [ih (fun x hx => h2 x (List.mem_cons_of_mem _ hx)), h2 b List.mem_cons_self]
      omega
  have : key.length = ((blocksOf 4 key).1.flatten).length + (blocksOf 4 key).2.length := by
    conv => lhs; rw [← h1]
    simp
  omega

/-- `for i in range(len(l)): f(h, l[i])` is the fold over `l` -/
theorem foldl_range_getD {α β : Type} (f : β → α → β) (d : α) (l : List α) (b : β) :
    (List.range l.length).foldl (fun h i => f h (l.getD i d)) b = l.foldl f b := by
  induction l generalizing b with
  | nil => rfl
  | cons x l ih =>
    rw [List.length_cons, List.range_succ_eq_map, List.foldl_cons, List.foldl_map]
    simp only [List.getD_cons_zero, List.getD_cons_succ]
    exact ih _

theorem murmur3_full (key : Bytes) (seed : UInt32) (hn : key.length < 2 ^ 32) :
    SrcHash.murmur3 key seed = Impl.murmur3 key seed := by
  unfold SrcHash.murmur3 Impl.murmur3
  obtain ⟨hbt, hdrop⟩ := blocks_take 4 (by decide) key
  have hbl := blocks_length4 key
  obtain ⟨-, -, h3⟩ := blocksOf_spec 4 (by decide) key
  have hsw := switch32 key.length hn
  simp only [nbytes32 key.length hn, nblocks32 key.length hn, hdrop, frombuffer32, hbt, hsw]
  generalize blocksOf 4 key = p at hbl h3 ⊢
  obtain ⟨blocks, tail⟩ := p
  simp only at hbl h3 ⊢
  rw [← h3, ← hbl]
  have hlt : tail.length < 4 := by omega
  have hl : (List.map le32 blocks).length = blocks.length := List.length_map _
  rw [← hl, foldl_range_getD (fun h k1 => SrcHash.rotl32 (SrcHash.xor32 h (SrcHash.rotl32 (k1 * 3432918353) 15 * 461845907)) 13 * 5 + 3864292196) 0 (List.map le32 blocks) seed,
    List.foldl_map]
  rcases tail with _ | ⟨b0, _ | ⟨b1, _ | ⟨b2, _ | ⟨b3, t⟩⟩⟩⟩
  case cons.cons.cons.cons => simp at hlt; omega
  all_goals rfl

/-! ### the source, as it reads now, computes the published algorithms -/

theorem fasthash64_src_ref (key : Bytes) (seed : UInt64) (hn : key.length < 2 ^ 64) :
    SrcHash.fasthash64 key seed = Ref.fasthash64 key seed := by
  rw [fasthash64_full key seed hn, C11.fasthash64_eq]

theorem fasthash32_src_ref (key : Bytes) (seed : UInt64) (hn : key.length < 2 ^ 64) :
    SrcHash.fasthash32 key seed = Ref.fasthash32 key seed := by
  rw [fasthash32_full key seed hn, C11.fasthash32_eq]

theorem murmur3_src_ref (key : Bytes) (seed : UInt32) (hn : key.length < 2 ^ 32) :
    SrcHash.murmur3 key seed = Ref.murmur3 key seed := by
  rw [murmur3_full key seed hn, C11.murmur3_eq]

end Sketchnu.FullHash
