/-
  Properties/C18.lean — counters saturate at their ceiling; they never wrap around.

  STATEMENTS ARE FIXED.  Helper lemmas go to Proofs/LogCounter.lean / Proofs/HeavyHitters.lean
  is NOT available here — heavy-hitter cell facts needed below are proved locally.
-/
import Proofs.Lin
import Proofs.LogCounter
import Properties.C09
import Model.HeavyHitters
namespace Sketchnu.C18
open Sketchnu
variable {K D : Type} [DecidableEq K]

/-! ### linear count-min: no add or merge ever lowers an estimate; the ceiling is sticky -/

theorem lin_add_query_mono (g : Geom K) (s : Lin) (k k' : K) (v : Nat) :
    Lin.query g s k' ≤ Lin.query g (Lin.add g s k v) k' := Lin.add_mono g s k v k'

theorem lin_merge_query_mono (g : Geom K) (a b : Lin) (ha : Lin.Bounded a) (hb : Lin.Bounded b) (k : K) :
    Lin.query g a k ≤ Lin.query g (Lin.merge a b) k ∧ Lin.query g b k ≤ Lin.query g (Lin.merge a b) k := by
  constructor
  · apply tquery_mono
    intro r _
    rw [Lin.merge_cell a b ha]
    have := hb r (g.col r k); have := ha r (g.col r k); omega
  · apply tquery_mono
    intro r _
    rw [Lin.merge_cell a b ha]
    have := hb r (g.col r k); have := ha r (g.col r k); omega

/-- steps that can be applied to a sketch: adds, and merges with any reachable sketch on
    either side -/
inductive LinOp (K : Type) where
  | add (k : K) (v : Nat)
  | mergeR (other : Hist K)      -- self.merge(other)
  | mergeL (other : Hist K)      -- other.merge(self)

def LinOp.run (g : Geom K) (s : Lin) : LinOp K → Lin
  | .add k v => Lin.add g s k v
  | .mergeR o => Lin.merge s (Lin.eval g o)
  | .mergeL o => Lin.merge (Lin.eval g o) s

private theorem run_bounded (g : Geom K) (s : Lin) (hs : Lin.Bounded s) (op : LinOp K) :
    Lin.Bounded (LinOp.run g s op) := by
  cases op with
  | add k v => exact Lin.add_bounded g s k v hs
  | mergeR o => exact Lin.merge_bounded _ _ hs
  | mergeL o => exact Lin.merge_bounded _ _ (Lin.eval_bounded g o)

private theorem run_mono (g : Geom K) (s : Lin) (hs : Lin.Bounded s) (op : LinOp K) (k : K) :
    Lin.query g s k ≤ Lin.query g (LinOp.run g s op) k := by
  cases op with
  | add k' v => exact Lin.add_mono g s k' v k
  | mergeR o => exact (lin_merge_query_mono g s _ hs (Lin.eval_bounded g o) k).1
  | mergeL o => exact (lin_merge_query_mono g _ s (Lin.eval_bounded g o) hs k).2

private theorem ops_mono (g : Geom K) (ops : List (LinOp K)) (k : K) (s : Lin) (hs : Lin.Bounded s) :
    Lin.query g s k ≤ Lin.query g (ops.foldl (LinOp.run g) s) k := by
  induction ops generalizing s with
  | nil => exact Nat.le_refl _
  | cons op ops ih =>
    simp only [List.foldl_cons]
    exact Nat.le_trans (run_mono g s hs op k) (ih _ (run_bounded g s hs op))

/-- once a key's estimate reaches 2^32-1, any further history leaves it there; and no estimate
    ever decreases -/
theorem lin_sticky (g : Geom K) (h : Hist K) (ops : List (LinOp K)) (k : K) :
    Lin.query g (Lin.eval g h) k ≤ Lin.query g (ops.foldl (LinOp.run g) (Lin.eval g h)) k ∧
    (Lin.query g (Lin.eval g h) k = CAP →
      Lin.query g (ops.foldl (LinOp.run g) (Lin.eval g h)) k = CAP) := by
  have hm := ops_mono g ops k (Lin.eval g h) (Lin.eval_bounded g h)
  refine ⟨hm, fun he => ?_⟩
  have hc : Lin.query g (ops.foldl (LinOp.run g) (Lin.eval g h)) k ≤ CAP := tquery_le_cap g CAP _ k
  omega

/-! ### log counters -/

/-- at the maximum the counter returns unchanged and consumes no draw -/
theorem counter_stop (cfg : LogCfg D) (draws : Nat → Nat → D) (v c : Nat) (rs : RandState)
    (hc : cfg.maxc ≤ c) : logCounter cfg draws v c rs = (c, rs) :=
  logCounter_stop cfg draws v c rs hc

/-- no log add lowers any estimate, and the ceiling is sticky under adds … -/
theorem log_add_sticky (g : Geom K) (cfg : LogCfg D) (draws : Nat → Nat → D) (s : Log) (k k' : K) (v : Nat) :
    Log.queryC g cfg s k' ≤ Log.queryC g cfg (Log.add g cfg draws s k v) k' ∧
    (Log.queryC g cfg s k' = cfg.maxc → Log.queryC g cfg (Log.add g cfg draws s k v) k' = cfg.maxc) := by
  have hm := Log.add_mono g cfg draws s k k' v
  refine ⟨hm, fun he => ?_⟩
  have hc : Log.queryC g cfg (Log.add g cfg draws s k v) k' ≤ cfg.maxc := tquery_le_cap g cfg.maxc _ k'
  omega

/-- … and under merges (specification level): a merged counter is never below either input and
    stays at the maximum -/
theorem log_merge_sticky (d : Nat → Nat) (u nr maxc mcS : Nat) (hd : DecOK d u nr maxc) (a b : Nat)
    (ha : a ≤ maxc) (hb : b ≤ maxc) :
    a ≤ mergeLogSpec d maxc mcS a b ∧ b ≤ mergeLogSpec d maxc mcS a b ∧
    (a = maxc ∨ b = maxc → mergeLogSpec d maxc mcS a b = maxc) := by
  obtain ⟨h1, h2, h3⟩ := C09.merge_ge d u nr maxc mcS hd a b ha hb
  refine ⟨h1, h2, fun h => ?_⟩
  rcases h with h | h <;> omega

/-! ### heavy hitters: a key that fills its cells alone only grows, saturating at 2^32-1 -/

/-- cell level: adding the stored key is a saturating add -/
theorem hh_cell_add_same (c : HCell K) (v : Nat) (hc : c.cnt ≤ CAP) (hv : v ≤ CAP) :
    (c.add c.key v).key = c.key ∧ (c.add c.key v).cnt = min (c.cnt + v) CAP := by
  unfold HCell.add; grind [CAP]

theorem hh_cell_merge_same (a b : HCell K) (hk : a.key = b.key) (ha : a.cnt ≤ CAP) :
    (a.merge b).key = a.key ∧ (a.merge b).cnt = min (a.cnt + b.cnt) CAP := by
  unfold HCell.merge; grind [CAP]

private theorem cell_add_zero (c : HCell K) (k : K) (v : Nat) (hc : c.cnt = 0) :
    (v = 0 → (c.add k (min v CAP)).cnt = 0) ∧ (0 < v → c.add k (min v CAP) = ⟨k, min v CAP⟩) := by
  obtain ⟨ck, cc⟩ := c
  unfold HCell.add; grind [CAP]

private theorem cell_add_pos (k : K) (t v : Nat) :
    (⟨k, min t CAP⟩ : HCell K).add k (min v CAP) = ⟨k, min (t + v) CAP⟩ := by
  unfold HCell.add; grind [CAP]

private theorem cell_merge_zz (a b : HCell K) (ha : a.cnt = 0) (hb : b.cnt = 0) :
    (a.merge b).cnt = 0 := by
  unfold HCell.merge; grind [CAP]

private theorem cell_merge_zp (a : HCell K) (k : K) (t : Nat) (ha : a.cnt = 0) (ht : 0 < t) :
    a.merge ⟨k, min t CAP⟩ = ⟨k, min t CAP⟩ := by
  obtain ⟨ck, cc⟩ := a
  unfold HCell.merge; grind [CAP]

private theorem cell_merge_pz (b : HCell K) (k : K) (t : Nat) (hb : b.cnt = 0) :
    (⟨k, min t CAP⟩ : HCell K).merge b = ⟨k, min t CAP⟩ := by
  obtain ⟨ck, cc⟩ := b
  unfold HCell.merge; grind [CAP]

private theorem cell_merge_pp (k : K) (ta tb : Nat) :
    (⟨k, min ta CAP⟩ : HCell K).merge ⟨k, min tb CAP⟩ = ⟨k, min (ta + tb) CAP⟩ := by
  unfold HCell.merge; grind [CAP]

/-- invariant behind `hh_alone`: the cell has count 0 while `k` has not been added, and holds
    exactly `(k, min (true count) CAP)` afterwards -/
private theorem alone_inv (g : Geom K) (e : K) (h : Hist K) (k : K) (r : Nat) (hr : r < g.depth)
    (hfree : ∀ k', k' ≠ k → h.mem k' → g.col r k' ≠ g.col r k) :
    (h.trueCount k = 0 → ((HH.eval g e h).tab r (g.col r k)).cnt = 0) ∧
    (0 < h.trueCount k →
      (HH.eval g e h).tab r (g.col r k) = { key := k, cnt := min (h.trueCount k) CAP }) := by
  induction h with
  | new => simp [HH.eval, HH.empty, Hist.trueCount]
  | add h k' v ih =>
    replace ih := ih (fun k'' hne hm => hfree k'' hne (Or.inr hm))
    simp only [HH.eval, HH.add, Hist.trueCount]
    by_cases hk : k' = k
    · subst hk
      simp only [hr, true_and, if_true]
      generalize (HH.eval g e h).tab r (g.col r k') = cell at ih
      generalize h.trueCount k' = t at ih
      obtain ⟨i1, i2⟩ := ih
      by_cases ht : t = 0
      · have hz := cell_add_zero cell k' v (i1 ht)
        subst ht
        simp only [Nat.zero_add]
        exact hz
      · rw [i2 (by omega), cell_add_pos]
        exact ⟨fun hv => by omega, fun _ => rfl⟩
    · have hcol := hfree k' hk (Or.inl rfl)
      have hne : ¬ (r < g.depth ∧ g.col r k = g.col r k') := fun hh => hcol hh.2.symm
      simp only [hne, if_false, hk, Nat.add_zero]
      exact ih
  | merge a b iha ihb =>
    replace iha := iha (fun k'' hne hm => hfree k'' hne (Or.inl hm))
    replace ihb := ihb (fun k'' hne hm => hfree k'' hne (Or.inr hm))
    simp only [HH.eval, HH.merge, Hist.trueCount]
    generalize (HH.eval g e a).tab r (g.col r k) = ca at iha
    generalize (HH.eval g e b).tab r (g.col r k) = cb at ihb
    generalize a.trueCount k = ta at iha
    generalize b.trueCount k = tb at ihb
    obtain ⟨a1, a2⟩ := iha
    obtain ⟨b1, b2⟩ := ihb
    by_cases hta : ta = 0 <;> by_cases htb : tb = 0
    · exact ⟨fun _ => cell_merge_zz ca cb (a1 hta) (b1 htb), fun hh => by omega⟩
    · refine ⟨fun hh => by omega, fun _ => ?_⟩
      rw [b2 (by omega), cell_merge_zp ca k tb (a1 hta) (by omega)]
      subst hta; simp only [Nat.zero_add]
    · refine ⟨fun hh => by omega, fun _ => ?_⟩
      rw [a2 (by omega), cell_merge_pz cb k ta (b1 htb)]
      subst htb; simp only [Nat.add_zero]
    · refine ⟨fun hh => by omega, fun _ => ?_⟩
      rw [a2 (by omega), b2 (by omega), cell_merge_pp]

/-- If no other key of the history maps to `k`'s cell in row `r`, that cell holds
    `min (true count of k) CAP`: it only grows and sticks at the ceiling. -/
theorem hh_alone (g : Geom K) (e : K) (h : Hist K) (k : K) (r : Nat) (hr : r < g.depth)
    (hfree : ∀ k', k' ≠ k → h.mem k' → g.col r k' ≠ g.col r k) (hpos : 0 < h.trueCount k) :
    (HH.eval g e h).tab r (g.col r k) = { key := k, cnt := min (h.trueCount k) CAP } :=
  (alone_inv g e h k r hr hfree).2 hpos

end Sketchnu.C18
