/-
  Properties/SrcSchema.lean — obligations over the CLASS-LEVEL code as translated from the current source
  (`Model/Generated/Schema.lean`): what `save()` writes and `load()` restores, the constructors' validation, and the
  shared-memory byte layouts of `__init__` and `attach_existing_shm`.

  * every array that makes up a sketch's state is written by `save()` under a member of its own and copied back by
    `load()` INTO the freshly constructed object's array (`np.copyto`, so that a shared-memory block receives it);
  * `load()` does nothing else than the modelled steps (`Model/Persist.lean`: read args, check dtype, construct, copy);
  * the validation conditions are the ones `Persist.ctorValid` models;
  * the two separately written layout computations equal `Model/Shm.lean`'s — for ALL shapes — hence (C16) they agree
    with each other, tile the block and are disjoint.
-/
import Model.Generated.Schema
import Model.Shm
namespace Sketchnu.SrcSchema
open Sketchnu Sketchnu.Gen.Schema

/-- every state array is saved as `self.<array>` under some member and that member is copied back into `<obj>.<array>` -/
def savedAndRestored (arrays : List String) (members copies : List (String × String)) : Bool :=
  arrays.all fun a => members.any fun m => m.2 == "self." ++ a && copies.contains (a, m.1)

/-- nothing but state arrays is copied, and no member is copied twice -/
def copiesExact (arrays : List String) (copies : List (String × String)) : Bool :=
  copies.map (·.1) == arrays

theorem linear_state : savedAndRestored stateArrays_CountMinLinear saveMembers_CountMinLinear loadCopies_CountMinLinear = true ∧
    copiesExact stateArrays_CountMinLinear loadCopies_CountMinLinear = true := by decide
theorem log16_state : savedAndRestored stateArrays_CountMinLog16 saveMembers_CountMinLog16 loadCopies_CountMinLog16 = true ∧
    copiesExact stateArrays_CountMinLog16 loadCopies_CountMinLog16 = true := by decide
theorem log8_state : savedAndRestored stateArrays_CountMinLog8 saveMembers_CountMinLog8 loadCopies_CountMinLog8 = true ∧
    copiesExact stateArrays_CountMinLog8 loadCopies_CountMinLog8 = true := by decide
theorem hll_state : savedAndRestored stateArrays_HyperLogLog saveMembers_HyperLogLog loadCopies_HyperLogLog = true ∧
    copiesExact stateArrays_HyperLogLog loadCopies_HyperLogLog = true := by decide
theorem hh_state : savedAndRestored stateArrays_HeavyHitters saveMembers_HeavyHitters loadCopies_HeavyHitters = true ∧
    copiesExact stateArrays_HeavyHitters loadCopies_HeavyHitters = true := by decide

/-- the parameter vector `args` and the `dtype` tag are what `Persist.save` models -/
theorem save_args :
    saveMembers_CountMinLinear.lookup "args" = some "np.array([self.width, self.depth], np.uint64)" ∧
    saveMembers_CountMinLog16.lookup "args" = some "np.array([self.width, self.depth, self.max_count, self.num_reserved])" ∧
    saveMembers_CountMinLog8.lookup "args" = some "np.array([self.width, self.depth, self.max_count, self.num_reserved])" ∧
    saveMembers_HyperLogLog.lookup "args" = some "np.array([self.p, self.seed], np.uint64)" ∧
    saveMembers_HeavyHitters.lookup "args" = some "np.array([self.width, self.depth, self.max_key_len, self.phi], np.float64)" ∧
    saveMembers_CountMinLinear.lookup "dtype" = some "self.cms[0, 0]" ∧
    saveMembers_CountMinLog16.lookup "dtype" = some "self.cms[0, 0]" ∧
    saveMembers_CountMinLog8.lookup "dtype" = some "self.cms[0, 0]" := by decide

/-- `load()`: constructor call on the saved args, the class's own dtype tag checked first, and no other statement than
    reading `args` and returning the object (heavy hitters: unpack the four args, rebuild the candidate cache) -/
theorem load_steps :
    loadCtor_CountMinLinear = "CountMinLinear(*args, shared_memory=shared_memory)" ∧
    loadCtor_CountMinLog16 = "CountMinLog16(*args, shared_memory=shared_memory)" ∧
    loadCtor_CountMinLog8 = "CountMinLog8(*args, shared_memory=shared_memory)" ∧
    loadCtor_HyperLogLog = "HyperLogLog(*args, shared_memory=shared_memory)" ∧
    loadCtor_HeavyHitters = "HeavyHitters(width, depth, max_key_len, phi, shared_memory=shared_memory)" ∧
    loadDtypeCheck_CountMinLinear = some "cms_dtype != np.uint32 -> TypeError" ∧
    loadDtypeCheck_CountMinLog16 = some "cms_dtype != np.uint16 -> TypeError" ∧
    loadDtypeCheck_CountMinLog8 = some "cms_dtype != np.uint8 -> TypeError" ∧
    loadOther_CountMinLinear = ["args = npzfile['args']", "cms_dtype = npzfile['dtype'].dtype", "return cms"] ∧
    loadOther_CountMinLog16 = ["args = npzfile['args']", "cms_dtype = npzfile['dtype'].dtype", "return cms"] ∧
    loadOther_CountMinLog8 = ["args = npzfile['args']", "cms_dtype = npzfile['dtype'].dtype", "return cms"] ∧
    loadOther_HyperLogLog = ["args = npzfile['args']", "return hll"] ∧
    loadOther_HeavyHitters = ["args = npzfile['args']", "width = np.uint64(args[0])", "depth = np.uint64(args[1])",
      "max_key_len = np.uint64(args[2])", "phi = np.float64(args[3])", "hh.generate_candidate_set()", "return hh"] := by decide

/-- the constructors' validation is the one `Persist.ctorValid` models (`phi` may be 1.0: `phi > 1.0` is the rejection) -/
theorem ctor_checks :
    ctorChecks_CountMinLinear = ["width <= 0", "depth <= 0"] ∧
    ctorChecks_CountMinLog16 = ["width <= 0", "depth <= 0", "num_reserved >= 65535"] ∧
    ctorChecks_CountMinLog8 = ["width <= 0", "depth <= 0", "num_reserved >= 255"] ∧
    ctorChecks_HyperLogLog = ["self.p > np.uint64(16) or self.p < np.uint64(7)"] ∧
    ctorChecks_HeavyHitters = ["width <= 0 or not isinstance(width, int_types)", "depth <= 0 or not isinstance(depth, int_types)",
      "max_key_len <= 0 or not isinstance(max_key_len, int_types) or max_key_len > 255",
      "phi is not None and (not isinstance(phi, float_types))", "isinstance(phi, float_types) and (phi <= 0.0 or phi > 1.0)",
      "not isinstance(shared_memory, bool)"] := by decide

/-! ### shared-memory layouts: generated = modelled, for all shapes -/

theorem linear_init (w d : Nat) : initLayout_CountMinLinear w d = cmsInitLayout 4 w d := rfl
theorem log16_init (w d : Nat) : initLayout_CountMinLog16 w d = cmsInitLayout 2 w d := rfl
theorem log8_init (w d : Nat) : initLayout_CountMinLog8 w d = cmsInitLayout 1 w d := rfl
theorem linear_attach (w d b : Nat) : attachLayout_CountMinLinear w d b = cmsAttachLayout 4 w d b := rfl
theorem log16_attach (w d b : Nat) : attachLayout_CountMinLog16 w d b = cmsAttachLayout 2 w d b := rfl
theorem log8_attach (w d b : Nat) : attachLayout_CountMinLog8 w d b = cmsAttachLayout 1 w d b := rfl
theorem hh_init (k w d : Nat) : initLayout_HeavyHitters k w d = hhInitLayout k w d := rfl
theorem hh_attach (k w d b : Nat) : attachLayout_HeavyHitters k w d b = hhAttachLayout k w d b := rfl
theorem hll_init (p : Nat) : initLayout_HyperLogLog p = hllLayout p := rfl
theorem hll_attach (p : Nat) : attachLayout_HyperLogLog p (hllLayout p).2 = (hllLayout p).1 := rfl

end Sketchnu.SrcSchema
