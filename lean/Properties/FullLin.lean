/-
  Properties/FullLin.lean — the WHOLE linear count-min kernels as translated from the current source
  (`Model/Generated/FullLin.lean`: loops, array stores, calls) equal the hand-written model
  (`tquery`, `Lin.add`, `Lin.merge`, `addNgram`) for all inputs.
-/
import Model.Generated.FullLin
import Model.Entry
import Proofs.Lin
import Proofs.RtLemmas
namespace Sketchnu.FullLin
open Sketchnu
variable {K B : Type} [DecidableEq B]

/-- the geometry a `KeyOps` induces: column of `k` in row `r` is `fasthash64(k, r) % width` -/
def geomOf (ko : Rt.KeyOps K B) (depth width : Nat) : Geom K :=
  { depth := depth, width := width, col := fun r k => ko.H k r % width }

/-- `buckets` after `_query_*`: rows `< depth` hold the key's columns -/
def bucketsAfter (ko : Rt.KeyOps K B) (depth width : Nat) (buckets : Nat → Nat) (k : K) : Nat → Nat :=
  fun j => if j < depth then ko.H k j % width else buckets j

theorem query_linear_full (ko : Rt.KeyOps K B) (T : Tab) (buckets : Nat → Nat) (width depth cap : Nat) (k : K) :
    Full.query_linear ko T buckets width depth cap k =
      (tquery (geomOf ko depth width) cap T k, bucketsAfter ko depth width buckets k) := by
  unfold Full.query_linear tquery
  have key : ∀ d, Rt.loop d (buckets, cap) (fun row st =>
        let buckets := st.1
        let min_count := st.2
        let buckets := Rt.set1 buckets row (ko.H k row % width)
        let count := T row (buckets row)
        let t_2 := if count < min_count then count else min_count
        (buckets, t_2)) = (bucketsAfter ko d width buckets k, qrows (geomOf ko depth width) cap T k d) := by
    intro d
    induction d with
    | zero =>
      have : bucketsAfter ko 0 width buckets k = buckets := by funext j; simp [bucketsAfter]
      simp [qrows, this]
    | succ d ih =>
      rw [Rt.loop_succ, ih]
      simp only [qrows, geomOf, Rt.set1_apply, if_true]
      congr 1
      funext j
      simp only [bucketsAfter, Rt.set1_apply]
      by_cases h : j = d
      · subst h; simp
      · have : (j < d + 1) = (j < d) := by apply propext; omega
        simp [h, this]
  simp only [] at key ⊢
  rw [key depth]
  rfl

/-- the conservative-update row loop shared by `_add_linear`, `_add_log16`, `_add_log8`, as generated -/
theorem raise_loop (T : Tab) (bk : Nat → Nat) (nc d : Nat) :
    Rt.loop d T (fun row cms =>
        let count := cms row (bk row)
        let t := if count < nc then Rt.set2 cms row (bk row) nc else cms
        t) = fun r c => if r < d ∧ c = bk r ∧ T r c < nc then nc else T r c := by
  induction d with
  | zero => funext r c; simp
  | succ d ih =>
    rw [Rt.loop_succ, ih]
    funext r c
    dsimp only
    simp only [Rt.ite_app2, Rt.set2_apply]
    grind

theorem add_linear_full (ko : Rt.KeyOps K B) (s : Lin) (nar buckets : Nat → Nat) (width depth : Nat) (k : K) (v : Nat)
    (hv : v ≤ CAP) (h0 : nar 0 = s.nAdded) :
    Full.add_linear ko s.tab nar buckets width depth CAP k v =
      ((Lin.add (geomOf ko depth width) s k v).tab,
       Rt.set1 nar 0 (Lin.add (geomOf ko depth width) s k v).nAdded,
       bucketsAfter ko depth width buckets k) := by
  unfold Full.add_linear
  simp only [query_linear_full]
  unfold Lin.add Lin.query
  have hmin : min v CAP = v := Nat.min_eq_left hv
  by_cases hm : tquery (geomOf ko depth width) CAP s.tab k = CAP
  · simp only [hm, if_true]
    have : Rt.set1 nar 0 s.nAdded = nar := by funext j; simp [Rt.set1_apply]; intro h; subst h; exact h0.symm
    rw [this]
  · simp only [hm, if_false, hmin]
    have := raise_loop s.tab (bucketsAfter ko depth width buckets k) (tquery (geomOf ko depth width) CAP s.tab k + min v (CAP - tquery (geomOf ko depth width) CAP s.tab k)) depth
    simp only [] at this
    rw [this, h0]
    congr 1
    funext r c
    unfold raiseTo geomOf bucketsAfter
    by_cases hr : r < depth <;> simp [hr]

/-- `_add_ngram_linear` as translated: the whole key when it is not longer than `ngram`, otherwise the fold of
    `_add_linear(…, key[i:i+ngram], 1)` over `i = 0 … len - (ngram - 1) - 1`, threading the three mutated arrays -/
theorem add_ngram_linear_full (ko : Rt.KeyOps K B) (T : Tab) (nar buckets : Nat → Nat) (width depth cap : Nat) (key : K) (n : Nat) :
    Full.add_ngram_linear ko T nar buckets width depth cap key n =
      if ko.klen key ≤ n then Full.add_linear ko T nar buckets width depth cap key 1
      else (List.range (ko.klen key - (n - 1))).foldl
        (fun st i => Full.add_linear ko st.1 st.2.1 st.2.2 width depth cap (ko.slice key i (i + n)) 1) (T, nar, buckets) := by
  unfold Full.add_ngram_linear
  simp only [Rt.loop_eq_foldl]

/-- one cell of the inner (column) loop of `_merge_linear` -/
theorem merge_inner (A Bt : Tab) (cap i w : Nat) :
    Rt.loop w A (fun col cms =>
        let t := if Bt i col > cap - cms i col then Rt.set2 cms i col cap else Rt.set2 cms i col (cms i col + Bt i col)
        t) = fun r c => if r = i ∧ c < w then (if Bt r c > cap - A r c then cap else A r c + Bt r c) else A r c := by
  induction w with
  | zero => funext r c; simp
  | succ w ih =>
    rw [Rt.loop_succ, ih]
    funext r c
    simp only [Rt.ite_app2, Rt.set2_apply]
    grind

theorem merge_linear_full (a b : Lin) (nar onar : Nat → Nat) (width depth : Nat) :
    Full.merge_linear a.tab b.tab width depth CAP nar onar =
      (fun r c => if r < depth ∧ c < width then (Lin.merge a b).tab r c else a.tab r c,
       Rt.set1 (Rt.set1 nar 0 (nar 0 + onar 0)) 1 (nar 1 + onar 1)) := by
  unfold Full.merge_linear
  have outer : ∀ d, Rt.loop d a.tab (fun row cms =>
        Rt.loop width cms (fun col cms =>
          let t := if b.tab row col > CAP - cms row col then Rt.set2 cms row col CAP else Rt.set2 cms row col (cms row col + b.tab row col)
          t)) = fun r c => if r < d ∧ c < width then (Lin.merge a b).tab r c else a.tab r c := by
    intro d
    induction d with
    | zero => funext r c; simp
    | succ d ih =>
      rw [Rt.loop_succ, ih, merge_inner]
      funext r c
      simp only [Lin.merge]
      grind
  simp only [] at outer ⊢
  rw [outer depth]
  congr 1

/-- the arrays `(cms, n_added_records, buckets)` of the kernel represent the model state `s` -/
def Rep (st : Tab × (Nat → Nat) × (Nat → Nat)) (s : Lin) : Prop :=
  st.1 = s.tab ∧ st.2.1 0 = s.nAdded ∧ st.2.1 1 = s.nRecords

theorem add_linear_rep (ko : Rt.KeyOps K B) (width depth : Nat) (st : Tab × (Nat → Nat) × (Nat → Nat)) (s : Lin) (k : K) (v : Nat)
    (hv : v ≤ CAP) (h : Rep st s) :
    Rep (Full.add_linear ko st.1 st.2.1 st.2.2 width depth CAP k v) (Lin.add (geomOf ko depth width) s k v) := by
  obtain ⟨h1, h2, h3⟩ := h
  rw [h1, add_linear_full ko s st.2.1 st.2.2 width depth k v hv h2]
  refine ⟨rfl, by simp [Rt.set1_apply], ?_⟩
  simp only [Rt.set1_apply]
  have : (Lin.add (geomOf ko depth width) s k v).nRecords = s.nRecords := by unfold Lin.add; simp only []; split <;> rfl
  simp [h3, this]

/-- `_add_ngram_linear` on byte strings is the model's `addNgram`: unit adds of `windows key n`, in order (`n ≥ 1`),
    on the table and on both bookkeeping counters -/
theorem add_ngram_linear_windows (H : List UInt8 → Nat → Nat) (width depth : Nat) (st : Tab × (Nat → Nat) × (Nat → Nat)) (s : Lin)
    (key : List UInt8) (n : Nat) (h : Rep st s) :
    Rep (Full.add_ngram_linear (Rt.bytesOps H (fun _ _ => ())) st.1 st.2.1 st.2.2 width depth CAP key n)
      (addNgram (fun s k => Lin.add (geomOf (Rt.bytesOps H (fun _ _ => ())) depth width) s k 1) s key n) := by
  rw [add_ngram_linear_full]
  unfold addNgram windows
  by_cases hk : key.length ≤ n
  · have : (Rt.bytesOps H (fun _ _ => ())).klen key ≤ n := hk
    simp only [this, hk, if_true, List.foldl_cons, List.foldl_nil]
    exact add_linear_rep _ width depth st s key 1 (by decide) h
  · have : ¬ (Rt.bytesOps H (fun _ _ => ())).klen key ≤ n := hk
    simp only [this, hk, if_false, List.foldl_map, Rt.bytesOps_slice]
    refine Rt.foldl_rel Rep _ _ ?_ _ _ _ h
    intro a b i hab
    exact add_linear_rep _ width depth a b _ 1 (by decide) hab

end Sketchnu.FullLin
