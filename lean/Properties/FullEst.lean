/-
  Properties/FullEst.lean — `hyperloglog._query` as translated from the current source (its whole branch structure, with
  the float-world calls `np.count_nonzero`, `_linear_counting`, `_estimation_function`, `np.interp` as parameters) IS the
  documented HyperLogLog++ estimator `C17.hllSpec`, over any linearly ordered field and for all inputs.
-/
import Model.Generated.FullHll
import Properties.C17
namespace Sketchnu.FullEst
open Sketchnu Sketchnu.C17
variable {α : Type} [Field α] [LinearOrder α] [IsStrictOrderedRing α]

theorem hll_query_full (ofNat : Nat → α) (nnz m thr : Nat) (lc : Nat → Nat → α) (E : α) (interp : α → α) :
    Full.hll_query ofNat nnz lc E interp m thr =
      hllSpec (m - nnz) (lc m (m - nnz)) E (ofNat thr) (ofNat (5 * m)) interp := by
  unfold Full.hll_query hllSpec
  simp only []

end Sketchnu.FullEst
