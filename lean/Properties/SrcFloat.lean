/-
  Properties/SrcFloat.lean — the float code of the log counters as translated from the current source
  (`Model/Generated/FloatCells.lean`, by harness/floattr.py) IS the hand-written float mirror that the driver evaluates in the
  bit-for-bit correspondence (`counter2valueF`, `mergeLogCellF` in Model/LogCounter.lean): same operations in the same order, same
  conversions, same branch structure — definitional equalities.  A source change to `_counter2value` or to the cell body of
  `_merge_log16/8` changes the generated definition and these obligations must re-check.

  Nothing here says what the floats evaluate to (Lean's `Float` is opaque to the kernel); that is the correspondence's job.  What is
  proved is that the model the correspondence runs is the program the source contains, under the typing rules listed in floattr.py.
-/
import Model.Generated.FloatCells
import Model.LogCounter
namespace Sketchnu.SrcFloat
open Sketchnu

theorem counter2value_src (c nr : Nat) (base : Float) : Src.counter2value c nr base = counter2valueF base nr c := rfl

/-- the cell body of `_merge_log16` (element type uint16, `uint_maxval = 65535`) -/
theorem merge_log16_cell_src (a b mc nr : Nat) (base : Float) :
    Src.merge_log16_cell a b mc 65535 nr base = mergeLogCellF base nr 65535 (Float.ofNat mc) a b := rfl

/-- the cell body of `_merge_log8` (element type uint8, `uint_maxval = 255`; `_counter2value` still takes a uint16) -/
theorem merge_log8_cell_src (a b mc nr : Nat) (base : Float) :
    Src.merge_log8_cell a b mc 255 nr base = mergeLogCellF base nr 255 (Float.ofNat mc) a b := rfl

end Sketchnu.SrcFloat
