/-
  Properties/SrcHll.lean — the decision logic TRANSLATED FROM THE CURRENT SOURCE by
  harness/kernels.py (`Model/Generated/KernelsHll.lean`) equals the hand-written model, for all
  inputs.  A change of `_n_leading_zeros64` or of the register merge in the source changes the
  generated definitions and breaks these obligations (which the C02 check audits).
-/
import Model.Generated.KernelsHll
import Model.Hll
namespace Sketchnu.SrcHll
open Sketchnu

theorem nlz64_src (x : Nat) : Src.nlz64 x = nlz64 x := by
  rfl

theorem hllMerge_src (A B : Regs) (i : Nat) : Hll.merge A B i = Src.hllMergeCell (A i) (B i) := rfl

/-- `hyperloglog._add` as translated from the source: the register index is `hash mod 2^p` and the
    register becomes the max with the rank -/
theorem hllAdd_src {K : Type} (p : Nat) (H : K → Nat) (R : Regs) (k : K) :
    let r := Src.hllAdd (H k) (2 ^ p) p (R (hllIdx p (H k)))
    r.1 = hllIdx p (H k) ∧ Hll.add p H R k (hllIdx p (H k)) = r.2 := by
  unfold Src.hllAdd hllIdx Hll.add hllRank
  simp only [Nat.and_two_pow_sub_one_eq_mod, nlz64_src, hllIdx, if_true, and_self]

end Sketchnu.SrcHll
