/-
  Properties/SrcHll.lean — the decision logic TRANSLATED FROM THE CURRENT SOURCE by
  harness/kernels.py (`Model/Generated/KernelsHll.lean`) equals the hand-written model, for all
  inputs.  A change of `_n_leading_zeros64` or of the register merge in the source changes the
  generated definitions and breaks these obligations (which the C02 check audits).
-/
import Model.Generated.KernelsHll
import Model.Hll
namespace Sketchnu.SrcHll
open Sketchnu

theorem nlz64_src (x : Nat) : Src.nlz64 x = nlz64 x := by
  rfl

theorem hllMerge_src (A B : Regs) (i : Nat) : Hll.merge A B i = Src.hllMergeCell (A i) (B i) := rfl

end Sketchnu.SrcHll
