/-
  Properties/SrcFloatHll.lean — the float helpers of the HyperLogLog estimator as translated from the current source
  (`Model/Generated/FloatHll.lean`, by harness/floattr.py) are the mirrors inside the driver's `hllQueryF`
  (`hllLinearCountingF`, `hllEstimationF` in Model/Estimator.lean).  Same scope and same caveat as Properties/SrcFloat.lean:
  the theorems say that the program the correspondence runs is the program the source contains, not what the floats evaluate to.
-/
import Model.Generated.FloatHll
import Model.Estimator
namespace Sketchnu.SrcFloatHll
open Sketchnu

theorem linear_counting_src (m nZero : Nat) : Src.linear_counting m nZero = hllLinearCountingF m nZero := rfl

theorem estimation_function_src (regs : List Nat) (m : Nat) (alpha : Float) :
    Src.estimation_function regs m alpha = hllEstimationF alpha m regs := by
  unfold Src.estimation_function hllEstimationF
  rw [Nat.pow_two]

end Sketchnu.SrcFloatHll
