/-
  Properties/C08Compose.lean — composition of the parallel_add protocol (C08) with the sketch
  theorems (C01–C04): the sketch returned by `parallel_add` — the evaluation of a merge tree over
  the workers' sketches — satisfies, with respect to the WHOLE stream (the sequential history
  `histOfOps (workerOps cb items)`), what the single-sketch theorems say.

  1. evaluation commutes with merge trees (`lin_tree`, `hll_tree`, `hh_tree`);
  2. counts over a merge tree of histories are sums over its leaves (`tree_*`);
  3. in a final reachable protocol state, for ANY merge tree over the workers' histories in order:
     true counts, cell loads, total weight and key set are those of the sequential history
     (`C08_true`, `C08_load`, `C08_total`, `C08_mem`), hence C01/C02/C03/C04 hold w.r.t. the whole
     stream (`C08_cms_lower/upper`, `C08_hll`, `C08_hh_upper/lower`);
  4. the same packaged for the actual round structure `parallelMerging` (`C08_*_result`).

  Helper lemmas are in Proofs/Compose.lean.
-/
import Proofs.Compose
import Properties.C01
import Properties.C02
import Properties.C03
import Properties.C04
import Properties.C08
namespace Sketchnu.C08
open Sketchnu
variable {I K : Type} [DecidableEq K]

/-! ### 1. evaluation commutes with merge trees -/

theorem lin_tree (g : Geom K) (t : MTree (Hist K)) :
    (t.map (Lin.eval g)).eval Lin.merge = Lin.eval g t.hist := by
  induction t with
  | leaf h => rfl
  | node a b iha ihb => simp only [MTree.map, MTree.eval, MTree.hist, Lin.eval, iha, ihb]

theorem hll_tree (p : Nat) (H : K → Nat) (t : MTree (Hist K)) :
    (t.map (Hll.eval p H)).eval Hll.merge = Hll.eval p H t.hist := by
  induction t with
  | leaf h => rfl
  | node a b iha ihb => simp only [MTree.map, MTree.eval, MTree.hist, Hll.eval, iha, ihb]

theorem hh_tree (g : Geom K) (e : K) (t : MTree (Hist K)) :
    (t.map (HH.eval g e)).eval HH.merge = HH.eval g e t.hist := by
  induction t with
  | leaf h => rfl
  | node a b iha ihb => simp only [MTree.map, MTree.eval, MTree.hist, HH.eval, iha, ihb]

/-! ### 2. counts over a merge tree of histories are sums over its leaves -/

theorem tree_trueCount (t : MTree (Hist K)) (k : K) :
    t.hist.trueCount k = (t.leaves.map fun h => h.trueCount k).sum := by
  induction t with
  | leaf h => simp [MTree.hist, MTree.leaves]
  | node a b iha ihb => simp [MTree.hist, MTree.leaves, Hist.trueCount, iha, ihb]

theorem tree_cellLoad (g : Geom K) (t : MTree (Hist K)) (r c : Nat) :
    t.hist.cellLoad g r c = (t.leaves.map fun h => h.cellLoad g r c).sum := by
  induction t with
  | leaf h => simp [MTree.hist, MTree.leaves]
  | node a b iha ihb => simp [MTree.hist, MTree.leaves, Hist.cellLoad, iha, ihb]

theorem tree_totalWeight (t : MTree (Hist K)) :
    t.hist.totalWeight = (t.leaves.map fun h => h.totalWeight).sum := by
  induction t with
  | leaf h => simp [MTree.hist, MTree.leaves]
  | node a b iha ihb => simp [MTree.hist, MTree.leaves, Hist.totalWeight, iha, ihb]

theorem tree_mem (t : MTree (Hist K)) (k : K) :
    t.hist.mem k ↔ ∃ h ∈ t.leaves, h.mem k := by
  induction t with
  | leaf h => simp [MTree.hist, MTree.leaves]
  | node a b iha ihb =>
    simp only [MTree.hist, MTree.leaves, Hist.mem, iha, ihb, List.mem_append]
    constructor
    · rintro (⟨h, hm, hk⟩ | ⟨h, hm, hk⟩)
      · exact ⟨h, Or.inl hm, hk⟩
      · exact ⟨h, Or.inr hm, hk⟩
    · rintro ⟨h, hm | hm, hk⟩
      · exact Or.inl ⟨h, hm, hk⟩
      · exact Or.inr ⟨h, hm, hk⟩

/-! ### 3. a final protocol state: any merge tree over the workers' histories vs. the whole stream

  `R : PReach cap items n s`, `hf : s.final`, `cb` the callback, `t` ANY merge tree whose leaves
  are the workers' histories in order (what `merging_tree` provides for the real rounds);
  the sequential history is `histOfOps (workerOps cb items)`. -/

/-- true counts -/
theorem C08_true (cap : Nat) (items : List I) (n : Nat) (s : PState I) (R : PReach cap items n s)
    (hf : s.final) (cb : I → Outcome K) (t : MTree (Hist K))
    (ht : t.leaves = s.workers.map (fun w => histOfOps (workerOps cb w.got))) (k : K) :
    t.hist.trueCount k = (histOfOps (workerOps cb items)).trueCount k := by
  rw [tree_trueCount, ht, List.map_map]
  exact C08_hist cap items n s R hf cb k

/-- cell loads -/
theorem C08_load (cap : Nat) (items : List I) (n : Nat) (s : PState I) (R : PReach cap items n s)
    (hf : s.final) (cb : I → Outcome K) (t : MTree (Hist K))
    (ht : t.leaves = s.workers.map (fun w => histOfOps (workerOps cb w.got)))
    (g : Geom K) (r c : Nat) :
    t.hist.cellLoad g r c = (histOfOps (workerOps cb items)).cellLoad g r c := by
  rw [tree_cellLoad, ht, List.map_map, cellLoad_histOfOps, ← opsSum_total R hf cb]
  simp only [Function.comp_def, cellLoad_histOfOps]

/-- total weight -/
theorem C08_total (cap : Nat) (items : List I) (n : Nat) (s : PState I) (R : PReach cap items n s)
    (hf : s.final) (cb : I → Outcome K) (t : MTree (Hist K))
    (ht : t.leaves = s.workers.map (fun w => histOfOps (workerOps cb w.got))) :
    t.hist.totalWeight = (histOfOps (workerOps cb items)).totalWeight := by
  rw [tree_totalWeight, ht, List.map_map, totalWeight_histOfOps, ← opsSum_total R hf cb]
  simp only [Function.comp_def, totalWeight_histOfOps]

/-- key sets -/
theorem C08_mem (cap : Nat) (items : List I) (n : Nat) (s : PState I) (R : PReach cap items n s)
    (hf : s.final) (cb : I → Outcome K) (t : MTree (Hist K))
    (ht : t.leaves = s.workers.map (fun w => histOfOps (workerOps cb w.got))) (k : K) :
    t.hist.mem k ↔ (histOfOps (workerOps cb items)).mem k := by
  rw [tree_mem, ht, ← mem_total R hf cb k]
  simp only [List.mem_map]
  constructor
  · rintro ⟨h, ⟨w, hw, rfl⟩, hk⟩
    exact ⟨w, hw, hk⟩
  · rintro ⟨w, hw, hk⟩
    exact ⟨_, ⟨w, hw, rfl⟩, hk⟩

/-- HyperLogLog: register for register equal to the sequential sketch (C02) -/
theorem C08_hll (cap : Nat) (items : List I) (n : Nat) (s : PState I) (R : PReach cap items n s)
    (hf : s.final) (cb : I → Outcome K) (t : MTree (Hist K))
    (ht : t.leaves = s.workers.map (fun w => histOfOps (workerOps cb w.got)))
    (p : Nat) (H : K → Nat) (hp : p ≤ 64) (hH : ∀ k, H k < 2 ^ 64) :
    Hll.eval p H t.hist = Hll.eval p H (histOfOps (workerOps cb items)) :=
  C02.C02_setOnly p H hp hH _ _ (C08_mem cap items n s R hf cb t ht)

/-- count-min: estimate ≥ min(true count in the whole stream, 2^32-1) (C01) -/
theorem C08_cms_lower (cap : Nat) (items : List I) (n : Nat) (s : PState I) (R : PReach cap items n s)
    (hf : s.final) (cb : I → Outcome K) (t : MTree (Hist K))
    (ht : t.leaves = s.workers.map (fun w => histOfOps (workerOps cb w.got)))
    (g : Geom K) (hg : g.WF) (k : K) :
    min ((histOfOps (workerOps cb items)).trueCount k) CAP ≤ Lin.query g (Lin.eval g t.hist) k := by
  rw [← C08_true cap items n s R hf cb t ht k]
  exact C01.C01_lower g hg t.hist k

/-- count-min: estimate ≤ the whole stream's load of the key's cell in every row, capped (C01) -/
theorem C08_cms_upper (cap : Nat) (items : List I) (n : Nat) (s : PState I) (R : PReach cap items n s)
    (hf : s.final) (cb : I → Outcome K) (t : MTree (Hist K))
    (ht : t.leaves = s.workers.map (fun w => histOfOps (workerOps cb w.got)))
    (g : Geom K) (hg : g.WF) (k : K) (r : Nat) (hr : r < g.depth) :
    Lin.query g (Lin.eval g t.hist) k
      ≤ min ((histOfOps (workerOps cb items)).cellLoad g r (g.col r k)) CAP := by
  rw [← C08_load cap items n s R hf cb t ht g r (g.col r k)]
  exact C01.C01_upper g hg t.hist k r hr

/-- heavy hitters: `hh[key]` ≤ true count in the whole stream (C03) -/
theorem C08_hh_upper (cap : Nat) (items : List I) (n : Nat) (s : PState I) (R : PReach cap items n s)
    (hf : s.final) (cb : I → Outcome K) (t : MTree (Hist K))
    (ht : t.leaves = s.workers.map (fun w => histOfOps (workerOps cb w.got)))
    (g : Geom K) (e : K) (k : K) :
    HH.getitem g (HH.eval g e t.hist) k ≤ (histOfOps (workerOps cb items)).trueCount k := by
  rw [← C08_true cap items n s R hf cb t ht k]
  exact C03.C03_getitem g e t.hist k

/-- the merged history is saturation-free iff the whole stream is -/
theorem C08_noSat (cap : Nat) (items : List I) (n : Nat) (s : PState I) (R : PReach cap items n s)
    (hf : s.final) (cb : I → Outcome K) (t : MTree (Hist K))
    (ht : t.leaves = s.workers.map (fun w => histOfOps (workerOps cb w.got))) :
    C04.NoSat t.hist ↔ C04.NoSat (histOfOps (workerOps cb items)) := by
  unfold C04.NoSat
  rw [C08_total cap items n s R hf cb t ht]

/-- heavy hitters: `hh[key] ≥ 2f - W_r` with `f`, `W_r` of the whole stream (C04) -/
theorem C08_hh_lower (cap : Nat) (items : List I) (n : Nat) (s : PState I) (R : PReach cap items n s)
    (hf : s.final) (cb : I → Outcome K) (t : MTree (Hist K))
    (ht : t.leaves = s.workers.map (fun w => histOfOps (workerOps cb w.got)))
    (g : Geom K) (e : K) (hns : C04.NoSat (histOfOps (workerOps cb items)))
    (k : K) (r : Nat) (hr : r < g.depth) :
    (2 * ((histOfOps (workerOps cb items)).trueCount k : Int)
        - ((histOfOps (workerOps cb items)).cellLoad g r (g.col r k) : Int))
      ≤ (HH.getitem g (HH.eval g e t.hist) k : Int) := by
  rw [← C08_true cap items n s R hf cb t ht k, ← C08_load cap items n s R hf cb t ht g r (g.col r k)]
  exact C04.C04_getitem g e t.hist ((C08_noSat cap items n s R hf cb t ht).mpr hns) k r hr

/-! ### 4. the real round structure: what `parallel_merging` returns -/

/-- HyperLogLog: `parallel_merging` of the workers' sketches IS the sequential sketch -/
theorem C08_hll_result (cap : Nat) (items : List I) (n : Nat) (s : PState I) (R : PReach cap items n s)
    (hf : s.final) (cb : I → Outcome K)
    (p : Nat) (H : K → Nat) (hp : p ≤ 64) (hH : ∀ k, H k < 2 ^ 64) (hne : s.workers ≠ []) :
    parallelMerging Hll.merge (s.workers.map fun w => Hll.eval p H (histOfOps (workerOps cb w.got)))
      = some (Hll.eval p H (histOfOps (workerOps cb items))) := by
  obtain ⟨t, ht, hr⟩ := parallelMerging_map_tree Hll.merge (Hll.eval p H)
    (s.workers.map fun w => histOfOps (workerOps cb w.got)) (by simpa using hne)
  rw [List.map_map] at hr
  rw [show (fun w : WState I => Hll.eval p H (histOfOps (workerOps cb w.got)))
      = Hll.eval p H ∘ fun w => histOfOps (workerOps cb w.got) from rfl, hr, hll_tree,
    C08_hll cap items n s R hf cb t ht p H hp hH]

/-- count-min: `parallel_merging` of the workers' sketches is the evaluation of a history tree over
    the workers' histories in order (to which `C08_cms_lower` / `C08_cms_upper` apply) -/
theorem C08_cms_result (cap : Nat) (items : List I) (n : Nat) (s : PState I) (R : PReach cap items n s)
    (hf : s.final) (cb : I → Outcome K) (g : Geom K) (hne : s.workers ≠ []) :
    ∃ t : MTree (Hist K), t.leaves = s.workers.map (fun w => histOfOps (workerOps cb w.got)) ∧
      parallelMerging Lin.merge (s.workers.map fun w => Lin.eval g (histOfOps (workerOps cb w.got)))
        = some (Lin.eval g t.hist) := by
  obtain ⟨t, ht, hr⟩ := parallelMerging_map_tree Lin.merge (Lin.eval g)
    (s.workers.map fun w => histOfOps (workerOps cb w.got)) (by simpa using hne)
  rw [List.map_map] at hr
  refine ⟨t, ht, ?_⟩
  rw [show (fun w : WState I => Lin.eval g (histOfOps (workerOps cb w.got)))
      = Lin.eval g ∘ fun w => histOfOps (workerOps cb w.got) from rfl, hr, lin_tree]

/-- heavy hitters: likewise (to which `C08_hh_upper` / `C08_hh_lower` apply) -/
theorem C08_hh_result (cap : Nat) (items : List I) (n : Nat) (s : PState I) (R : PReach cap items n s)
    (hf : s.final) (cb : I → Outcome K) (g : Geom K) (e : K) (hne : s.workers ≠ []) :
    ∃ t : MTree (Hist K), t.leaves = s.workers.map (fun w => histOfOps (workerOps cb w.got)) ∧
      parallelMerging HH.merge (s.workers.map fun w => HH.eval g e (histOfOps (workerOps cb w.got)))
        = some (HH.eval g e t.hist) := by
  obtain ⟨t, ht, hr⟩ := parallelMerging_map_tree HH.merge (HH.eval g e)
    (s.workers.map fun w => histOfOps (workerOps cb w.got)) (by simpa using hne)
  rw [List.map_map] at hr
  refine ⟨t, ht, ?_⟩
  rw [show (fun w : WState I => HH.eval g e (histOfOps (workerOps cb w.got)))
      = HH.eval g e ∘ fun w => histOfOps (workerOps cb w.got) from rfl, hr, hh_tree]

/-- count-min, packaged: the sketch `parallel_add` returns brackets every key between the whole
    stream's true count and the whole stream's cell loads (both capped) -/
theorem C08_cms_bounds (cap : Nat) (items : List I) (n : Nat) (s : PState I) (R : PReach cap items n s)
    (hf : s.final) (cb : I → Outcome K) (g : Geom K) (hg : g.WF) (hne : s.workers ≠ []) :
    ∃ res : Lin,
      parallelMerging Lin.merge (s.workers.map fun w => Lin.eval g (histOfOps (workerOps cb w.got)))
        = some res ∧
      ∀ k, min ((histOfOps (workerOps cb items)).trueCount k) CAP ≤ Lin.query g res k ∧
        ∀ r, r < g.depth →
          Lin.query g res k ≤ min ((histOfOps (workerOps cb items)).cellLoad g r (g.col r k)) CAP := by
  obtain ⟨t, ht, hr⟩ := C08_cms_result cap items n s R hf cb g hne
  exact ⟨_, hr, fun k => ⟨C08_cms_lower cap items n s R hf cb t ht g hg k,
    fun r hr' => C08_cms_upper cap items n s R hf cb t ht g hg k r hr'⟩⟩

/-- heavy hitters, packaged: the sketch `parallel_add` returns never over-counts w.r.t. the whole
    stream, and absent saturation reports at least `2f - W_r` for every row -/
theorem C08_hh_bounds (cap : Nat) (items : List I) (n : Nat) (s : PState I) (R : PReach cap items n s)
    (hf : s.final) (cb : I → Outcome K) (g : Geom K) (e : K) (hne : s.workers ≠ []) :
    ∃ res : HH K,
      parallelMerging HH.merge (s.workers.map fun w => HH.eval g e (histOfOps (workerOps cb w.got)))
        = some res ∧
      ∀ k, HH.getitem g res k ≤ (histOfOps (workerOps cb items)).trueCount k ∧
        (C04.NoSat (histOfOps (workerOps cb items)) → ∀ r, r < g.depth →
          (2 * ((histOfOps (workerOps cb items)).trueCount k : Int)
              - ((histOfOps (workerOps cb items)).cellLoad g r (g.col r k) : Int))
            ≤ (HH.getitem g res k : Int)) := by
  obtain ⟨t, ht, hr⟩ := C08_hh_result cap items n s R hf cb g e hne
  exact ⟨_, hr, fun k => ⟨C08_hh_upper cap items n s R hf cb t ht g e k,
    fun hns r hr' => C08_hh_lower cap items n s R hf cb t ht g e hns k r hr'⟩⟩

/-! ### non-vacuity: 2 workers, 3 items, queue capacity 6, an interleaved schedule -/
section Example

/-- the callback adds the item itself once and returns 1 record -/
def cbEx : Nat → Outcome Nat := fun x => { ops := [(x, 1)], ret := some 1 }

/-- put 1, put 2, w0 takes 1, w1 takes 2, put 3, w0 takes 3, two pills, both workers stop -/
def traceEx : List PAction :=
  [.put, .put, .take 0, .take 1, .put, .take 0, .put, .put, .take 1, .take 0]

/-- the final state of that schedule: worker 0 got [1, 3], worker 1 got [2] -/
def sEx : PState Nat :=
  { todo := [], pills := 0, queue := [],
    workers := [{ done := true, got := [1, 3] }, { done := true, got := [2] }] }

theorem sEx_reach : PReach 6 [1, 2, 3] 2 sEx :=
  runActions_reach traceEx PReach.init (by rfl)

theorem sEx_final : sEx.final := by
  refine ⟨rfl, rfl, rfl, ?_⟩
  intro w hw
  simp only [sEx, List.mem_cons, List.mem_nil_iff, or_false] at hw
  rcases hw with rfl | rfl <;> rfl

/-- the hypotheses of section 3/4 are satisfiable, and the HLL corollary applies to them -/
example (p : Nat) (H : Nat → Nat) (hp : p ≤ 64) (hH : ∀ k, H k < 2 ^ 64) :
    parallelMerging Hll.merge [Hll.eval p H (histOfOps [(1, 1), (3, 1)]), Hll.eval p H (histOfOps [(2, 1)])]
      = some (Hll.eval p H (histOfOps [(1, 1), (2, 1), (3, 1)])) :=
  C08_hll_result 6 [1, 2, 3] 2 sEx sEx_reach sEx_final cbEx p H hp hH (by simp [sEx])

/-- `lin_tree` / `hll_tree` on the concrete tree, evaluated: p = 2 (4 registers), H = identity -/
def tEx : MTree (Hist Nat) := .node (.leaf (histOfOps [(1, 1), (3, 1)])) (.leaf (histOfOps [(2, 1)]))

example : tEx.leaves = sEx.workers.map (fun w => histOfOps (workerOps cbEx w.got)) := rfl

example :
    (List.range 4).map ((tEx.map (Hll.eval 2 id)).eval Hll.merge) = [0, 63, 63, 63] ∧
    (List.range 4).map (Hll.eval 2 id (histOfOps (workerOps cbEx [1, 2, 3]))) = [0, 63, 63, 63] ∧
    tEx.hist.trueCount 3 = 1 ∧ tEx.hist.totalWeight = 3 ∧
    (histOfOps (workerOps cbEx [1, 2, 3])).trueCount 3 = 1 := by decide

end Example

end Sketchnu.C08
