/-
  Properties/C09Link.lean — LINK between the two models of the log-counter decode.

  * `decS B S nr K c : Nat` (Model/LogCounter.lean) is the exact scaled-integer decode used by the
    merge specification (Properties/C09.lean);
  * `C06.dec b nr c` (Properties/C06Unbias.lean) is the field-level `_counter2value` used by the
    unbiasedness theorems.

  Here: `decS B S nr K c = dec (B/S) nr c * S^K` over ℚ for every counter `c ≤ nr + K`
  (`decS_eq_dec`), `dec` is strictly increasing in the counter for any base `> 1`
  (`dec_strictMono`, `dec_le_iff`), and the minimising property of `nearest` transfers from the
  scaled integers to the decoded values (`nearest_is_nearest_value`).
-/
import Proofs.Link
import Properties.C06Unbias
import Properties.C09
namespace Sketchnu.C09Link
open Sketchnu

/-- 1. closed form of the scaled geometric sum: `geomS B S K n = Σ_{j<n} B^j S^(K-j)
    = ((B/S)^n - 1)/(B/S - 1) · S^K` -/
theorem geomS_closed (B S K n : Nat) (hn : n ≤ K) (hS : 0 < S) (hBS : B ≠ S) :
    (geomS B S K n : ℚ) = (((B : ℚ) / S) ^ n - 1) / ((B : ℚ) / S - 1) * (S : ℚ) ^ K :=
  Link.geomS_closed' B S K hS hBS n (by omega)

/-- 2. the integer specification used by the merge theorems is exactly the documented decode
    `_counter2value` at base `B/S`, scaled by `S^K` -/
theorem decS_eq_dec (B S nr K c : Nat) (hc : c ≤ nr + K) (hS : 0 < S) (hBS : B ≠ S) :
    (decS B S nr K c : ℚ) = C06.dec ((B : ℚ) / S) nr c * (S : ℚ) ^ K := by
  unfold decS C06.dec
  by_cases h : c ≤ nr
  · simp only [h, if_true]
    push_cast; ring
  · simp only [h, if_false]
    rw [Nat.cast_add, geomS_closed B S K (c - nr) (by omega) hS hBS]
    push_cast; ring

variable {F : Type} [Field F] [LinearOrder F] [IsStrictOrderedRing F]

/-- one unit step of the counter strictly raises the decoded value -/
theorem dec_lt_succ (b : F) (hb : 1 < b) (nr c : Nat) :
    C06.dec b nr c < C06.dec b nr (c + 1) := by
  by_cases h : nr ≤ c
  · have hs := C06.dec_step b (ne_of_gt hb) nr c h
    have hp : 0 < b ^ (c - nr) := pow_pos (lt_trans zero_lt_one hb) _
    linarith
  · have h1 : c + 1 ≤ nr := by omega
    have h2 : c ≤ nr := by omega
    unfold C06.dec
    simp only [h1, h2, if_true]
    push_cast
    linarith

/-- 3. the decode is strictly increasing in the counter (any base `> 1`) -/
theorem dec_strictMono (b : F) (hb : 1 < b) (nr c c' : Nat) (hcc : c < c') :
    C06.dec b nr c < C06.dec b nr c' := by
  induction c' with
  | zero => omega
  | succ c' ih =>
    have hs := dec_lt_succ b hb nr c'
    by_cases h : c = c'
    · subst h; exact hs
    · exact lt_trans (ih (by omega)) hs

/-- 4. order of counters = order of estimates: "no add or merge ever lowers a counter" (C18, in
    counter units) is the same as "never lowers the estimate" -/
theorem dec_le_iff (b : F) (hb : 1 < b) (nr c c' : Nat) :
    C06.dec b nr c ≤ C06.dec b nr c' ↔ c ≤ c' := by
  constructor
  · intro h
    apply Nat.le_of_not_lt
    intro hlt
    exact absurd (dec_strictMono b hb nr c' c hlt) (not_lt.mpr h)
  · intro h
    rcases Nat.eq_or_lt_of_le h with e | l
    · subst e; exact le_refl _
    · exact le_of_lt (dec_strictMono b hb nr c c' l)

/-- (corollary) the decode is injective on counters -/
theorem dec_inj (b : F) (hb : 1 < b) (nr c c' : Nat) :
    C06.dec b nr c = C06.dec b nr c' ↔ c = c' := by
  constructor
  · intro h
    have h1 := (dec_le_iff b hb nr c c').mp (le_of_eq h)
    have h2 := (dec_le_iff b hb nr c' c).mp (le_of_eq h.symm)
    omega
  · intro h; subst h; rfl

/-- 5. the counter chosen by `nearest` on the scaled integers is the counter whose *decoded value*
    `_counter2value` (base `B/S`) is nearest to the target `t / S^K` -/
theorem nearest_is_nearest_value (B S nr K t n c : Nat) (hS : 0 < S) (hBS : B ≠ S)
    (hn : n ≤ nr + K) (hc : c ≤ n) :
    |C06.dec ((B : ℚ) / S) nr (nearest (decS B S nr K) t n) - (t : ℚ) / (S : ℚ) ^ K| ≤
      |C06.dec ((B : ℚ) / S) nr c - (t : ℚ) / (S : ℚ) ^ K| := by
  obtain ⟨hle, hmin, _⟩ := C09.nearest_spec (decS B S nr K) t n
  have hP : (0 : ℚ) < (S : ℚ) ^ K := pow_pos (Nat.cast_pos.mpr hS) K
  have key : ∀ x, x ≤ n →
      |C06.dec ((B : ℚ) / S) nr x - (t : ℚ) / (S : ℚ) ^ K| =
        ((ndist (decS B S nr K x) t : Nat) : ℚ) / (S : ℚ) ^ K := by
    intro x hx
    rw [Link.ndist_cast, decS_eq_dec B S nr K x (by omega) hS hBS, ← abs_of_pos hP, ← abs_div,
      abs_of_pos hP]
    congr 1
    field_simp
  rw [key _ hle, key c hc]
  have h := hmin c hc
  have h' : ((ndist (decS B S nr K (nearest (decS B S nr K) t n)) t : Nat) : ℚ) ≤
      ((ndist (decS B S nr K c) t : Nat) : ℚ) := Nat.cast_le.mpr h
  exact div_le_div_of_nonneg_right h' (le_of_lt hP)

/-- 5'. and it is the least such counter: every smaller counter is strictly farther -/
theorem nearest_is_least_nearest_value (B S nr K t n c : Nat) (hS : 0 < S) (hBS : B ≠ S)
    (hn : n ≤ nr + K) (hc : c < nearest (decS B S nr K) t n) :
    |C06.dec ((B : ℚ) / S) nr (nearest (decS B S nr K) t n) - (t : ℚ) / (S : ℚ) ^ K| <
      |C06.dec ((B : ℚ) / S) nr c - (t : ℚ) / (S : ℚ) ^ K| := by
  obtain ⟨hle, _, hmin⟩ := C09.nearest_spec (decS B S nr K) t n
  have hP : (0 : ℚ) < (S : ℚ) ^ K := pow_pos (Nat.cast_pos.mpr hS) K
  have key : ∀ x, x ≤ n →
      |C06.dec ((B : ℚ) / S) nr x - (t : ℚ) / (S : ℚ) ^ K| =
        ((ndist (decS B S nr K x) t : Nat) : ℚ) / (S : ℚ) ^ K := by
    intro x hx
    rw [Link.ndist_cast, decS_eq_dec B S nr K x (by omega) hS hBS, ← abs_of_pos hP, ← abs_div,
      abs_of_pos hP]
    congr 1
    field_simp
  rw [key _ hle, key c (by omega)]
  have h := hmin c hc
  have h' : ((ndist (decS B S nr K (nearest (decS B S nr K) t n)) t : Nat) : ℚ) <
      ((ndist (decS B S nr K c) t : Nat) : ℚ) := Nat.cast_lt.mpr h
  exact div_lt_div_of_pos_right h' hP

/-! non-vacuity: base 3/2 (`B = 3`, `S = 2`), `nr = 2`, `K = 3`, counter 4:
    `dec = 2 + (9/4 - 1)/(1/2) = 9/2`, scaled by `2^3` is `36`. -/
example : decS 3 2 2 3 4 = 36 := by decide
example : C06.dec (3/2 : ℚ) 2 4 * 2 ^ 3 = 36 := by norm_num [C06.dec]
example : (decS 3 2 2 3 4 : ℚ) = C06.dec (((3 : Nat) : ℚ) / ((2 : Nat) : ℚ)) 2 4 * ((2 : Nat) : ℚ) ^ 3 :=
  decS_eq_dec 3 2 2 3 4 (by decide) (by decide) (by decide)
example : C06.dec (3/2 : ℚ) 2 1 < C06.dec (3/2 : ℚ) 2 4 :=
  dec_strictMono _ (by norm_num) 2 1 4 (by decide)
/-- the hypothesis `c ≤ nr + K` of `decS_eq_dec` cannot be dropped far beyond `K + 1`:
    truncated subtraction `K - j` freezes the scale (`decS 3 2 0 0 3 = 1 + 3 + 9`, but
    `dec (3/2) 0 3 * 2^0 = 19/4`) -/
example : (decS 3 2 0 0 3 : ℚ) ≠ C06.dec (3/2 : ℚ) 0 3 * 2 ^ 0 := by
  have : decS 3 2 0 0 3 = 13 := by decide
  rw [this]; norm_num [C06.dec]

end Sketchnu.C09Link
