/-
  Properties/C10.lean — save/load reproduces the sketch exactly, for every sketch type.
  `ok : BaseOK` is `_find_base`'s (deterministic) acceptance of a log configuration.
-/
import Model.Persist
namespace Sketchnu.C10
open Sketchnu

/-- `o` is an object that some accepted constructor call produced, with arbitrary table contents
    and bookkeeping since (HyperLogLog has no bookkeeping counters) -/
def Reachable (ok : BaseOK) (o : Obj) : Prop :=
  ∃ a o0, ctor ok a = .ok o0 ∧ (a.cls ≠ .hh → a.phi = none) ∧
    o = { o0 with tables := o.tables, nAdded := o.nAdded, nRecords := o.nRecords } ∧
    (o.cls = .hll → o.nAdded = 0 ∧ o.nRecords = 0)

/-- everything a constructor accepted is accepted again on load, and the loaded object IS the
    saved one: same class, same parameters, same tables, same bookkeeping -/
theorem C10_roundtrip (ok : BaseOK) (o : Obj) (h : Reachable ok o) :
    loadAs ok o.cls (save o) = .ok o := by
  obtain ⟨a, o0, hc, hphi, ho, hh⟩ := h
  obtain ⟨cls, w, d, mc, nr, p, sd, mkl, phi⟩ := a
  obtain ⟨ocls, ow, od, omc, onr, op, osd, omkl, ophi, otab, ona, onrec⟩ := o
  simp only [ctor] at hc
  split at hc
  · next hv =>
    injection hc with hc
    subst hc
    simp only [Obj.mk.injEq] at ho
    obtain ⟨rfl, rfl, rfl, rfl, rfl, rfl, rfl, rfl, rfl, -, -, -⟩ := ho
    cases ocls
    · simp_all [loadAs, save, dtypeOf, ctor, ctorValid]
    · simp_all [loadAs, save, dtypeOf, ctor, ctorValid]
    · simp_all [loadAs, save, dtypeOf, ctor, ctorValid]
    · simp_all [loadAs, save, dtypeOf, ctor, ctorValid]
    · cases phi
      · have h1 : 1 ≤ ow := by simp_all [ctorValid]; omega
        simp_all [loadAs, save, dtypeOf, ctor, ctorValid, phiValid]
      · simp_all [loadAs, save, dtypeOf, ctor, ctorValid, phiValid]
  · cases hc

/-- the module-level `load()` dispatches to the class that wrote the file -/
theorem C10_dispatch (ok : BaseOK) (o : Obj) (hc : o.cls = .linear ∨ o.cls = .log16 ∨ o.cls = .log8) :
    loadAny ok (save o) = loadAs ok o.cls (save o) := by
  rcases hc with h | h | h <;> simp [loadAny, save, dtypeOf, h]

/-- the class-specific count-min loaders reject files of another counter type with TypeError -/
theorem C10_reject (ok : BaseOK) (o : Obj) (c : Cls)
    (hc : c = .linear ∨ c = .log16 ∨ c = .log8) (ho : o.cls = .linear ∨ o.cls = .log16 ∨ o.cls = .log8)
    (hne : c ≠ o.cls) : loadAs ok c (save o) = .error .typeError := by
  rcases hc with h | h | h <;> rcases ho with h' | h' | h' <;> simp_all [loadAs, save, dtypeOf]

/-- the default `phi = 1/width` of a heavy-hitter sketch passes the explicit validation on load
    (the point at which a width-1 sketch used to be unloadable) -/
theorem default_phi_valid (w : Nat) (hw : 0 < w) : phiValid (1, w) = true := by
  simp [phiValid]; omega

/-- continued use: the loaded object equals the saved one, so every function of the state — any
    further history of operations, under the same draws — gives the same result -/
theorem C10_continue {β : Type} (ok : BaseOK) (o : Obj) (h : Reachable ok o) (f : Obj → β) :
    (loadAs ok o.cls (save o)).toOption.map f = some (f o) := by
  rw [C10_roundtrip ok o h]; rfl

/-! non-vacuity: a width-1 heavy-hitter sketch with default phi, and a log8 sketch -/
example : ∃ o, ctor (fun _ _ _ => true) { cls := .hh, width := 1, depth := 1, maxKeyLen := 5 } = .ok o ∧
    loadAs (fun _ _ _ => true) .hh (save o) = .ok o := ⟨_, rfl, rfl⟩
example : ∃ o, ctor (fun _ _ _ => true) { cls := .log8, width := 3, depth := 2, maxCount := 1000, numReserved := 15 } = .ok o ∧
    loadAny (fun _ _ _ => true) (save o) = .ok o ∧ loadAs (fun _ _ _ => true) .linear (save o) = .error .typeError :=
  ⟨_, rfl, rfl, rfl⟩

end Sketchnu.C10
