/-
  Properties/C15.lean — merging incompatible sketches is refused (TypeError) and compatible ones
  always merge; within a family the comparison chain never reads a missing attribute.
  "Leaves both operands unchanged" is structural in the model (a refusal returns before the
  kernel); on the real code it is checked byte for byte by the `merge-refuse` slice.
-/
import Model.MergeCheck
namespace Sketchnu.C15
open Sketchnu

/-- within a family: the merge runs iff the sketches agree on the named parameters, otherwise it
    is refused with TypeError — never an AttributeError -/
theorem merge_ok_iff (a b : Sk) (hf : a.sameFamily b = true) :
    (mergeVerdict a b = .accept ↔ a.compatible b = true) ∧
    (mergeVerdict a b = .typeError ↔ a.compatible b = false) := by
  cases a <;> cases b <;>
    simp_all [Sk.sameFamily, Sk.isCms, mergeVerdict, Sk.mergeAttrs, Gen.mergeAttrsLinear, Gen.mergeAttrsLog16, Gen.mergeAttrsLog8, Gen.mergeAttrsHll,
      Gen.mergeAttrsHH, compareChain, Sk.attr, Sk.compatible] <;>
    (repeat' split) <;> (try simp_all) <;> (try omega)

/-- sketches that agree on the parameters always merge -/
theorem compatible_merges (a b : Sk) (h : a.compatible b = true) : mergeVerdict a b = .accept := by
  have hf : a.sameFamily b = true := by
    cases a <;> cases b <;> simp_all [Sk.compatible, Sk.sameFamily, Sk.isCms]
  exact (merge_ok_iff a b hf).1.2 h

/-- heavy hitters with different phi but equal shape merge -/
example : mergeVerdict (.hh 4 2 8 1) (.hh 4 2 8 2) = .accept := by decide
/-- a log sketch never reads `max_count` of a linear operand -/
example : mergeVerdict (.log8 4 2 1000 15) (.lin 4 2) = .typeError := by decide
example : mergeVerdict (.lin 4 2) (.log16 4 2 1000 15) = .typeError := by decide
example : mergeVerdict (.log16 4 2 1000 15) (.log16 4 2 1000 16) = .typeError := by decide
example : mergeVerdict (.hll 10 0) (.hll 10 (2 ^ 63)) = .typeError := by decide

end Sketchnu.C15
