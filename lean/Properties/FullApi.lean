/-
  Properties/FullApi.lean — the METHODS of the sketch classes that wrap the kernels, as translated from the current source
  (`Model/Generated/Methods.lean`: `self.attr` ↦ parameter), equal the model's API-level functions for all inputs:
  `Lin.add` INCLUDING the cap `min(value, 2^32-1)` that `CountMinLinear.add` applies before the kernel, `tquery`, `HH.add` with
  its cap, `Hll.add` (the multiplicity argument is ignored), `Lin.merge`, `HH.maxRows` for `hh[key]`, `n_added()`/`n_records()` =
  the two bookkeeping counters.
-/
import Model.Generated.Methods
import Properties.FullLin
import Properties.FullLog
import Properties.FullHll
import Properties.FullHH
namespace Sketchnu.FullApi
open Sketchnu Sketchnu.FullLin
variable {K B : Type} [DecidableEq B]

theorem linear_query_api (ko : Rt.KeyOps K B) (T : Tab) (buckets : Nat → Nat) (width depth : Nat) (k : K) :
    (Full.linear_query ko T buckets width depth CAP k).1 = Lin.query (geomOf ko depth width) { tab := T, nAdded := 0, nRecords := 0 } k := by
  unfold Full.linear_query
  simp only [query_linear_full]
  rfl

/-- `CountMinLinear.add(key, value)` for EVERY `value` (the method caps it at 2^32-1 before calling the kernel) -/
theorem linear_add_api (ko : Rt.KeyOps K B) (s : Lin) (nar buckets : Nat → Nat) (width depth : Nat) (k : K) (v : Nat) (h0 : nar 0 = s.nAdded) :
    Full.linear_add ko CAP s.tab nar buckets width depth k v =
      ((Lin.add (geomOf ko depth width) s k v).tab,
       Rt.set1 nar 0 (Lin.add (geomOf ko depth width) s k v).nAdded,
       bucketsAfter ko depth width buckets k) := by
  unfold Full.linear_add
  simp only []
  rw [add_linear_full ko s nar buckets width depth k (min v CAP) (Nat.min_le_right v CAP) h0]
  have : Lin.add (geomOf ko depth width) s k (min v CAP) = Lin.add (geomOf ko depth width) s k v := by
    unfold Lin.add
    simp only [Nat.min_assoc, Nat.min_self]
  rw [this]

theorem linear_add_ngram_api (ko : Rt.KeyOps K B) (T : Tab) (nar buckets : Nat → Nat) (width depth cap : Nat) (key : K) (n : Nat) :
    Full.linear_add_ngram ko T nar buckets width depth cap key n = Full.add_ngram_linear ko T nar buckets width depth cap key n := rfl

theorem linear_merge_api (a b : Lin) (nar onar : Nat → Nat) (width depth : Nat) :
    Full.linear_merge a.tab b.tab width depth CAP nar onar =
      (fun r c => if r < depth ∧ c < width then (Lin.merge a b).tab r c else a.tab r c,
       Rt.set1 (Rt.set1 nar 0 (nar 0 + onar 0)) 1 (nar 1 + onar 1)) := by
  unfold Full.linear_merge
  simp only [merge_linear_full]

theorem counters_api (nar : Nat → Nat) :
    Full.cms_n_added nar = nar 0 ∧ Full.cms_n_records nar = nar 1 ∧ Full.hh_n_added nar = nar 0 ∧ Full.hh_n_records nar = nar 1 := ⟨rfl, rfl, rfl, rfl⟩

/-- the log `add` / `add_ngram` methods are their kernels on the object's own `rand_ptr`, which they store back -/
theorem log_add_api (ko : Rt.KeyOps K B) (lc : Nat → Nat → Nat → Nat × Nat) (T : Tab) (nar buckets : Nat → Nat)
    (width depth maxc nr rp : Nat) (k : K) (v : Nat) :
    Full.log16_add ko lc rp T nar buckets width depth maxc nr k v = FullLog.addLogSpec ko lc T nar buckets width depth maxc rp k v ∧
    Full.log8_add ko lc rp T nar buckets width depth maxc nr k v = FullLog.addLogSpec ko lc T nar buckets width depth maxc rp k v := by
  constructor
  · unfold Full.log16_add; simp only [FullLog.add_log16_full]
  · unfold Full.log8_add; simp only [FullLog.add_log8_full]

theorem log_add_ngram_api (ko : Rt.KeyOps K B) (lc : Nat → Nat → Nat → Nat × Nat) (T : Tab) (nar buckets : Nat → Nat)
    (width depth maxc nr rp : Nat) (key : K) (n : Nat) :
    Full.log16_add_ngram ko lc rp T nar buckets width depth maxc nr key n = Full.add_ngram_log16 ko lc T nar buckets width depth maxc nr rp key n ∧
    Full.log8_add_ngram ko lc rp T nar buckets width depth maxc nr key n = Full.add_ngram_log8 ko lc T nar buckets width depth maxc nr rp key n :=
  ⟨rfl, rfl⟩

/-- `HyperLogLog.add(key, value)` ignores `value` -/
theorem hll_add_api (ko : Rt.KeyOps K B) (R : Regs) (seed p : Nat) (k : K) (v : Nat) :
    Full.hll_add_m ko R seed p (2 ^ p) k v = Hll.add p (fun k => ko.H k seed) R k := by
  unfold Full.hll_add_m
  simp only [FullHll.hll_add_full]

theorem hll_add_ngram_api (ko : Rt.KeyOps K B) (R : Regs) (seed p m : Nat) (key : K) (n : Nat) :
    Full.hll_add_ngram_m ko R seed p m key n = Full.hll_add_ngram ko R seed p m key n := rfl

theorem hll_merge_api (A Bm : Regs) (m : Nat) :
    Full.hll_merge_m A Bm m = fun i => if i < m then Hll.merge A Bm i else A i := by
  unfold Full.hll_merge_m
  simp only [FullHll.hll_merge_full]

/-- `HeavyHitters.add(key, value)` for EVERY `value`: the method caps it, then the kernel; arrays representing `s` become arrays
    representing `HH.add … s (identity of key) value` -/
theorem hh_add_api (ko : Rt.KeyOps K B) (lhh : Nat → Nat → B) (cnt kl : Nat → Nat → Nat) (nar : Nat → Nat)
    (width depth mkl : Nat) (key : K) (v : Nat) (s : HH (B × Nat))
    (hrep : ∀ r c, FullHH.cellOf lhh cnt kl r c = s.tab r c) (h0 : nar 0 = s.nAdded) :
    let g : Geom (B × Nat) := { depth := depth, width := width, col := fun r _ => ko.H (ko.slice key 0 mkl) r % width }
    let r := Full.hh_add_m ko CAP lhh cnt kl nar width depth mkl key v
    (∀ row col, FullHH.cellOf r.1 r.2.1 r.2.2.1 row col = (HH.add g s (FullHH.keyId ko mkl key) v).tab row col) ∧
    r.2.2.2 0 = (HH.add g s (FullHH.keyId ko mkl key) v).nAdded := by
  have h := FullHH.hh_add_model ko lhh cnt kl nar width depth mkl key (min v CAP) (Nat.min_le_right v CAP) s hrep h0
  have e : ∀ g : Geom (B × Nat), HH.add g s (FullHH.keyId ko mkl key) (min v CAP) = HH.add g s (FullHH.keyId ko mkl key) v := by
    intro g; unfold HH.add; simp only [Nat.min_assoc, Nat.min_self]
  simp only [e] at h
  exact h

theorem hh_add_ngram_api (ko : Rt.KeyOps K B) (lhh : Nat → Nat → B) (cnt kl : Nat → Nat → Nat) (nar : Nat → Nat)
    (width depth mkl cap : Nat) (key : K) (n : Nat) :
    Full.hh_add_ngram_m ko lhh cnt kl nar width depth mkl cap key n = Full.hh_add_ngram ko lhh cnt kl nar width depth mkl cap key n := rfl

theorem hh_merge_api (lhh olhh : Nat → Nat → B) (cnt kl ocnt okl : Nat → Nat → Nat) (nar onar : Nat → Nat) (width depth cap : Nat) :
    Full.hh_merge_m lhh cnt kl nar width depth cap olhh ocnt okl onar = Full.hh_merge lhh cnt kl nar width depth cap olhh ocnt okl onar := rfl

/-- `hh[key]`: `_max_count` with `key_len = len(key)` -/
theorem hh_getitem_api (ko : Rt.KeyOps K B) (lhh : Nat → Nat → B) (cnt kl : Nat → Nat → Nat) (width depth mkl : Nat) (key : K) :
    Full.hh_getitem ko lhh cnt kl width depth mkl key =
      HH.maxRows { depth := depth, width := width, col := fun r _ => ko.H key r % width } (FullHH.cellOf lhh cnt kl) (ko.arr key mkl, ko.klen key) depth := by
  unfold Full.hh_getitem
  simp only [FullHH.hh_max_count_full]

end Sketchnu.FullApi
