/-
  Properties/FullApi.lean — the METHODS of the sketch classes that wrap the kernels, as translated from the current source
  (`Model/Generated/Methods.lean`: `self.attr` ↦ parameter), equal the model's API-level functions for all inputs:
  `Lin.add` INCLUDING the cap `min(value, 2^32-1)` that `CountMinLinear.add` applies before the kernel, `tquery`, `HH.add` with
  its cap, `Hll.add` (the multiplicity argument is ignored), `Lin.merge`, `HH.maxRows` for `hh[key]`, `n_added()`/`n_records()` =
  the two bookkeeping counters.
-/
import Model.Generated.Methods
import Properties.FullLin
import Properties.FullLog
import Properties.FullHll
import Properties.FullHH
namespace Sketchnu.FullApi
open Sketchnu Sketchnu.FullLin
variable {K B : Type} [DecidableEq B]

theorem linear_query_api (ko : Rt.KeyOps K B) (T : Tab) (buckets : Nat → Nat) (width depth : Nat) (k : K) :
    (Full.linear_query ko T buckets width depth CAP k).1 = Lin.query (geomOf ko depth width) { tab := T, nAdded := 0, nRecords := 0 } k := by
  unfold Full.linear_query
  simp only [query_linear_full]
  rfl

/-- `CountMinLinear.add(key, value)` for EVERY `value` (the method caps it at 2^32-1 before calling the kernel) -/
theorem linear_add_api (ko : Rt.KeyOps K B) (s : Lin) (nar buckets : Nat → Nat) (width depth : Nat) (k : K) (v : Nat) (h0 : nar 0 = s.nAdded) :
    Full.linear_add ko CAP s.tab nar buckets width depth k v =
      ((Lin.add (geomOf ko depth width) s k v).tab,
       Rt.set1 nar 0 (Lin.add (geomOf ko depth width) s k v).nAdded,
       bucketsAfter ko depth width buckets k) := by
  unfold Full.linear_add
  simp only []
  rw [add_linear_full ko s nar buckets width depth k (min v CAP) (Nat.min_le_right v CAP) h0]
  have : Lin.add (geomOf ko depth width) s k (min v CAP) = Lin.add (geomOf ko depth width) s k v := by
    unfold Lin.add
    simp only [Nat.min_assoc, Nat.min_self]
  rw [this]

theorem linear_add_ngram_api (ko : Rt.KeyOps K B) (T : Tab) (nar buckets : Nat → Nat) (width depth cap : Nat) (key : K) (n : Nat) :
    Full.linear_add_ngram ko T nar buckets width depth cap key n = Full.add_ngram_linear ko T nar buckets width depth cap key n := rfl

theorem linear_merge_api (a b : Lin) (nar onar : Nat → Nat) (width depth : Nat) :
    Full.linear_merge a.tab b.tab width depth CAP nar onar =
      (fun r c => if r < depth ∧ c < width then (Lin.merge a b).tab r c else a.tab r c,
       Rt.set1 (Rt.set1 nar 0 (nar 0 + onar 0)) 1 (nar 1 + onar 1)) := by
  unfold Full.linear_merge
  simp only [merge_linear_full]

theorem counters_api (nar : Nat → Nat) :
    Full.cms_n_added nar = nar 0 ∧ Full.cms_n_records nar = nar 1 ∧ Full.hh_n_added nar = nar 0 ∧ Full.hh_n_records nar = nar 1 := ⟨rfl, rfl, rfl, rfl⟩

/-- the log `add` / `add_ngram` methods are their kernels on the object's own `rand_ptr`, which they store back -/
theorem log_add_api (ko : Rt.KeyOps K B) (lc : Nat → Nat → Nat → Nat × Nat) (T : Tab) (nar buckets : Nat → Nat)
    (width depth maxc nr rp : Nat) (k : K) (v : Nat) :
    Full.log16_add ko lc rp T nar buckets width depth maxc nr k v = FullLog.addLogSpec ko lc T nar buckets width depth maxc rp k v ∧
    Full.log8_add ko lc rp T nar buckets width depth maxc nr k v = FullLog.addLogSpec ko lc T nar buckets width depth maxc rp k v := by
  constructor
  · unfold Full.log16_add; simp only [FullLog.add_log16_full]
  · unfold Full.log8_add; simp only [FullLog.add_log8_full]

theorem log_add_ngram_api (ko : Rt.KeyOps K B) (lc : Nat → Nat → Nat → Nat × Nat) (T : Tab) (nar buckets : Nat → Nat)
    (width depth maxc nr rp : Nat) (key : K) (n : Nat) :
    Full.log16_add_ngram ko lc rp T nar buckets width depth maxc nr key n = Full.add_ngram_log16 ko lc T nar buckets width depth maxc nr rp key n ∧
    Full.log8_add_ngram ko lc rp T nar buckets width depth maxc nr key n = Full.add_ngram_log8 ko lc T nar buckets width depth maxc nr rp key n :=
  ⟨rfl, rfl⟩

/-- `HyperLogLog.add(key, value)` ignores `value` -/
theorem hll_add_api (ko : Rt.KeyOps K B) (R : Regs) (seed p : Nat) (k : K) (v : Nat) :
    Full.hll_add_m ko R seed p (2 ^ p) k v = Hll.add p (fun k => ko.H k seed) R k := by
  unfold Full.hll_add_m
  simp only [FullHll.hll_add_full]

theorem hll_add_ngram_api (ko : Rt.KeyOps K B) (R : Regs) (seed p m : Nat) (key : K) (n : Nat) :
    Full.hll_add_ngram_m ko R seed p m key n = Full.hll_add_ngram ko R seed p m key n := rfl

theorem hll_merge_api (A Bm : Regs) (m : Nat) :
    Full.hll_merge_m A Bm m = fun i => if i < m then Hll.merge A Bm i else A i := by
  unfold Full.hll_merge_m
  simp only [FullHll.hll_merge_full]

/-- `HeavyHitters.add(key, value)` for EVERY `value`: the method caps it, then the kernel; arrays representing `s` become arrays
    representing `HH.add … s (identity of key) value` -/
theorem hh_add_api (ko : Rt.KeyOps K B) (lhh : Nat → Nat → B) (cnt kl : Nat → Nat → Nat) (nar : Nat → Nat)
    (width depth mkl : Nat) (key : K) (v : Nat) (s : HH (B × Nat))
    (hrep : ∀ r c, FullHH.cellOf lhh cnt kl r c = s.tab r c) (h0 : nar 0 = s.nAdded) :
    let g : Geom (B × Nat) := { depth := depth, width := width, col := fun r _ => ko.H (ko.slice key 0 mkl) r % width }
    let r := Full.hh_add_m ko CAP lhh cnt kl nar width depth mkl key v
    (∀ row col, FullHH.cellOf r.1 r.2.1 r.2.2.1 row col = (HH.add g s (FullHH.keyId ko mkl key) v).tab row col) ∧
    r.2.2.2 0 = (HH.add g s (FullHH.keyId ko mkl key) v).nAdded := by
  have h := FullHH.hh_add_model ko lhh cnt kl nar width depth mkl key (min v CAP) (Nat.min_le_right v CAP) s hrep h0
  have e : ∀ g : Geom (B × Nat), HH.add g s (FullHH.keyId ko mkl key) (min v CAP) = HH.add g s (FullHH.keyId ko mkl key) v := by
    intro g; unfold HH.add; simp only [Nat.min_assoc, Nat.min_self]
  simp only [e] at h
  exact h

theorem hh_add_ngram_api (ko : Rt.KeyOps K B) (lhh : Nat → Nat → B) (cnt kl : Nat → Nat → Nat) (nar : Nat → Nat)
    (width depth mkl cap : Nat) (key : K) (n : Nat) :
    Full.hh_add_ngram_m ko lhh cnt kl nar width depth mkl cap key n = Full.hh_add_ngram ko lhh cnt kl nar width depth mkl cap key n := rfl

theorem hh_merge_api (lhh olhh : Nat → Nat → B) (cnt kl ocnt okl : Nat → Nat → Nat) (nar onar : Nat → Nat) (width depth cap : Nat) :
    Full.hh_merge_m lhh cnt kl nar width depth cap olhh ocnt okl onar = Full.hh_merge lhh cnt kl nar width depth cap olhh ocnt okl onar := rfl

/-- `hh[key]`: `_max_count` with `key_len = len(key)` -/
theorem hh_getitem_api (ko : Rt.KeyOps K B) (lhh : Nat → Nat → B) (cnt kl : Nat → Nat → Nat) (width depth mkl : Nat) (key : K) :
    Full.hh_getitem ko lhh cnt kl width depth mkl key =
      HH.maxRows { depth := depth, width := width, col := fun r _ => ko.H key r % width } (FullHH.cellOf lhh cnt kl) (ko.arr key mkl, ko.klen key) depth := by
  unfold Full.hh_getitem
  simp only [FullHH.hh_max_count_full]

/-! ### the batch entry points: `update(list)`, `update(dict)`, `update_ngram` are the loops of the single-key methods -/

theorem linear_add_rep (ko : Rt.KeyOps K B) (width depth : Nat) (st : Tab × (Nat → Nat) × (Nat → Nat)) (s : Lin) (k : K) (v : Nat) (h : Rep st s) :
    Rep (Full.linear_add ko CAP st.1 st.2.1 st.2.2 width depth k v) (Lin.add (geomOf ko depth width) s k v) := by
  obtain ⟨h1, h2, h3⟩ := h
  rw [h1, linear_add_api ko s st.2.1 st.2.2 width depth k v h2]
  refine ⟨rfl, by simp [Rt.set1_apply], ?_⟩
  have : (Lin.add (geomOf ko depth width) s k v).nRecords = s.nRecords := by unfold Lin.add; simp only []; split <;> rfl
  simp [Rt.set1_apply, h3, this]

/-- `CountMinLinear.update(list)` = `Lin.updateList` (a unit add per element, in order) -/
theorem linear_update_list_api (ko : Rt.KeyOps K B) (width depth : Nat) (st : Tab × (Nat → Nat) × (Nat → Nat)) (s : Lin) (l : List K) (h : Rep st s) :
    Rep (Full.linear_update_list ko CAP st.1 st.2.1 st.2.2 width depth l) (Lin.updateList (geomOf ko depth width) s l) := by
  unfold Full.linear_update_list Lin.updateList
  exact Rt.foldl_rel Rep _ _ (fun a b x hab => linear_add_rep ko width depth a b x 1 hab) l _ _ h

/-- `CountMinLinear.update(dict)` = `Lin.updateDict` (`add(key, value)` per item, in insertion order) -/
theorem linear_update_dict_api (ko : Rt.KeyOps K B) (width depth : Nat) (st : Tab × (Nat → Nat) × (Nat → Nat)) (s : Lin) (l : List (K × Nat)) (h : Rep st s) :
    Rep (Full.linear_update_dict ko CAP st.1 st.2.1 st.2.2 width depth l) (Lin.updateDict (geomOf ko depth width) s l) := by
  unfold Full.linear_update_dict Lin.updateDict
  exact Rt.foldl_rel Rep _ _ (fun a b x hab => linear_add_rep ko width depth a b x.1 x.2 hab) l _ _ h

/-- `CountMinLinear.update_ngram(keys, n)` on byte strings = the model's `updateNgram` -/
theorem linear_update_ngram_api (H : List UInt8 → Nat → Nat) (width depth : Nat) (st : Tab × (Nat → Nat) × (Nat → Nat)) (s : Lin)
    (keys : List (List UInt8)) (n : Nat) (h : Rep st s) :
    Rep (Full.linear_update_ngram (Rt.bytesOps H (fun _ _ => ())) st.1 st.2.1 st.2.2 width depth CAP n keys)
      (updateNgram (fun s k => Lin.add (geomOf (Rt.bytesOps H (fun _ _ => ())) depth width) s k 1) s keys n) := by
  unfold Full.linear_update_ngram updateNgram
  refine Rt.foldl_rel Rep _ _ ?_ keys _ _ h
  intro a b x hab
  rw [linear_add_ngram_api]
  exact add_ngram_linear_windows H width depth a b x n hab

/-- `HyperLogLog.update(list)`: one `Hll.add` per element; `update(dict)`: the same over the KEYS — the values are ignored -/
theorem hll_update_api (ko : Rt.KeyOps K B) (R : Regs) (seed p : Nat) (l : List K) (d : List (K × Nat)) :
    Full.hll_update_list ko R seed p (2 ^ p) l = l.foldl (fun R k => Hll.add p (fun k => ko.H k seed) R k) R ∧
    Full.hll_update_dict ko R seed p (2 ^ p) d = (d.map (·.1)).foldl (fun R k => Hll.add p (fun k => ko.H k seed) R k) R := by
  unfold Full.hll_update_list Full.hll_update_dict
  simp only [hll_add_api, List.foldl_map]
  exact ⟨trivial, trivial⟩

theorem hll_update_ngram_api (ko : Rt.KeyOps K B) (R : Regs) (seed p m : Nat) (keys : List K) (n : Nat) :
    Full.hll_update_ngram ko R seed p m n keys = keys.foldl (fun R k => Full.hll_add_ngram ko R seed p m k n) R := rfl

/-- heavy hitters on byte strings: `update(list)` / `update(dict)` = `HH.updateList` / `HH.updateDict` on key identities -/
theorem hh_add_m_rep (H : List UInt8 → Nat → Nat) (col : Nat → List UInt8 × Nat → Nat) (width depth mkl : Nat)
    (hcol : ∀ r key, col r (FullHH.ident mkl key) = H (truncKey mkl key) r % width)
    (st : (Nat → Nat → List UInt8) × (Nat → Nat → Nat) × (Nat → Nat → Nat) × (Nat → Nat)) (s : HH (List UInt8 × Nat))
    (key : List UInt8) (v : Nat) (h : FullHH.Rep st s) :
    FullHH.Rep (Full.hh_add_m (FullHH.hhOps H) CAP st.1 st.2.1 st.2.2.1 st.2.2.2 width depth mkl key v)
      (HH.add { depth := depth, width := width, col := col } s (FullHH.ident mkl key) v) := by
  unfold Full.hh_add_m
  simp only []
  have := FullHH.hh_add_rep H col width depth mkl hcol st s key (min v CAP) (Nat.min_le_right v CAP) h
  have e : HH.add { depth := depth, width := width, col := col } s (FullHH.ident mkl key) (min v CAP) =
      HH.add { depth := depth, width := width, col := col } s (FullHH.ident mkl key) v := by
    unfold HH.add; simp only [Nat.min_assoc, Nat.min_self]
  rw [e] at this
  exact this

theorem hh_update_api (H : List UInt8 → Nat → Nat) (col : Nat → List UInt8 × Nat → Nat) (width depth mkl : Nat)
    (hcol : ∀ r key, col r (FullHH.ident mkl key) = H (truncKey mkl key) r % width)
    (st : (Nat → Nat → List UInt8) × (Nat → Nat → Nat) × (Nat → Nat → Nat) × (Nat → Nat)) (s : HH (List UInt8 × Nat))
    (l : List (List UInt8)) (d : List (List UInt8 × Nat)) (h : FullHH.Rep st s) :
    FullHH.Rep (Full.hh_update_list (FullHH.hhOps H) CAP st.1 st.2.1 st.2.2.1 st.2.2.2 width depth mkl l)
      (HH.updateList { depth := depth, width := width, col := col } s (l.map (FullHH.ident mkl))) ∧
    FullHH.Rep (Full.hh_update_dict (FullHH.hhOps H) CAP st.1 st.2.1 st.2.2.1 st.2.2.2 width depth mkl d)
      (HH.updateDict { depth := depth, width := width, col := col } s (d.map fun kv => (FullHH.ident mkl kv.1, kv.2))) := by
  unfold Full.hh_update_list Full.hh_update_dict HH.updateList HH.updateDict
  simp only [List.foldl_map]
  exact ⟨Rt.foldl_rel FullHH.Rep _ _ (fun a b x hab => hh_add_m_rep H col width depth mkl hcol a b x 1 hab) l _ _ h,
         Rt.foldl_rel FullHH.Rep _ _ (fun a b x hab => hh_add_m_rep H col width depth mkl hcol a b x.1 x.2 hab) d _ _ h⟩

end Sketchnu.FullApi
