/-
  Properties/C08.lean — parallel_add processes every item exactly once for every worker count and
  schedule; pairwise merging is a merge tree over the workers' sketches in order.
  (How the merged result then relates to the whole stream is C01/C02/C03/C04 applied to the
  history `C08_hist` constructs.)

  STATEMENTS ARE FIXED.  Helper lemmas go to Proofs/Parallel.lean.
-/
import Proofs.Parallel
namespace Sketchnu.C08
open Sketchnu
variable {I K S : Type}

/-- conservation in every reachable state: processed ++ queued ++ not yet put is a permutation of
    the items — nothing lost, nothing duplicated, whatever the interleaving -/
theorem conservation (cap : Nat) (items : List I) (n : Nat) (s : PState I) (R : PReach cap items n s) :
    (s.processed ++ s.queued ++ s.todo).Perm items := by
  exact R.inv.perm

/-- in a final state every item has been processed exactly once -/
theorem exactly_once (cap : Nat) (items : List I) (n : Nat) (s : PState I) (R : PReach cap items n s)
    (hf : s.final) : s.processed.Perm items ∧ s.workers.length = n := by
  exact R.exactly_once hf

/-- no reachable non-final state is stuck (any n_workers ≥ 1, any capacity ≥ 1) -/
theorem no_deadlock (cap : Nat) (hcap : 1 ≤ cap) (items : List I) (n : Nat) (hn : 1 ≤ n) (s : PState I)
    (R : PReach cap items n s) (hnf : ¬ s.final) : ∃ t, PStep cap s t := by
  exact R.no_deadlock hcap hn hnf

/-- every step decreases the measure, so every run terminates (in at most `measure init` steps) -/
theorem step_decreases (cap : Nat) (s t : PState I) (h : PStep cap s t) : t.measure < s.measure := by
  exact h.measure_lt

/-- each worker stops exactly once: a worker that is done stays done and takes nothing more -/
theorem done_stays (cap : Nat) (s t : PState I) (h : PStep cap s t) (w : Nat) (ws : WState I)
    (hw : s.workers[w]? = some ws) (hd : ws.done = true) : t.workers[w]? = some ws := by
  exact h.done_stays w ws hw hd

/-! ### pairwise merging -/

/-- the rounds end with exactly one sketch for a non-empty array … -/
theorem merging_some (merge : S → S → S) (l : List S) (hl : l ≠ []) :
    ∃ r, parallelMerging merge l = some r := by
  obtain ⟨t, _, h⟩ := parallelMerging_tree merge l hl
  exact ⟨_, h⟩

/-- … which is the evaluation of a merge tree whose leaves are the workers' sketches in order:
    no sketch dropped (odd counts included), none merged twice -/
theorem merging_tree (merge : S → S → S) (l : List S) (hl : l ≠ []) :
    ∃ t : MTree S, t.leaves = l ∧ parallelMerging merge l = some (t.eval merge) := by
  exact parallelMerging_tree merge l hl

/-- with an associative merge the result is the left fold -/
theorem merging_assoc (merge : S → S → S) (hassoc : ∀ a b c, merge (merge a b) c = merge a (merge b c))
    (a : S) (l : List S) : parallelMerging merge (a :: l) = some (l.foldl merge a) := by
  exact parallelMerging_assoc merge hassoc a l

/-- record counts: the sum over workers of their `n_records` is the sum of the callback's return
    values over all items (raising items count 0) -/
theorem records_total [DecidableEq I] (cap : Nat) (items : List I) (n : Nat) (s : PState I) (R : PReach cap items n s)
    (hf : s.final) (cb : I → Outcome K) :
    (s.workers.map fun w => workerRecords cb w.got).sum = workerRecords cb items := by
  rw [workerRecords_workers]
  exact workerRecords_perm cb (R.exactly_once hf).1

/-- the operations applied across all workers are a permutation of the operations of the whole
    stream taken item by item (so true counts, cell loads and key sets agree with the sequential run) -/
theorem ops_total (cap : Nat) (items : List I) (n : Nat) (s : PState I) (R : PReach cap items n s)
    (hf : s.final) (cb : I → Outcome K) :
    ∃ perm : List I, perm.Perm items ∧
      (s.workers.flatMap fun w => workerOps cb w.got) = workerOps cb perm := by
  exact ⟨s.processed, (R.exactly_once hf).1, workerOps_workers cb s.workers⟩

/-- true counts of the union of the workers' histories = true counts of the sequential history -/
theorem C08_hist [DecidableEq K] (cap : Nat) (items : List I) (n : Nat) (s : PState I) (R : PReach cap items n s)
    (hf : s.final) (cb : I → Outcome K) (k : K) :
    ((s.workers.map fun w => (histOfOps (workerOps cb w.got)).trueCount k).sum)
      = (histOfOps (workerOps cb items)).trueCount k := by
  exact hist_total R hf cb k

/-! non-vacuity: 3 workers (odd: the third sketch is carried and merged in round 2) -/
example : parallelMerging (· ++ ·) [[1], [2], [3]] = some [1, 2, 3] := by decide
example : parallelMerging (· ++ ·) [[1], [2], [3], [4], [5]] = some [1, 2, 3, 4, 5] := by decide

end Sketchnu.C08
