/-
  Properties/EndToEnd.lean — the chain closed for the linear count-min sketch: run ANY history of adds and merges with the
  definitions GENERATED from the current source (`Full.linear_add`, `Full.linear_merge`, `Full.linear_query` — the class methods with
  the Numba kernels inside) and the result satisfies C01, C05 and C18 as stated, for every key, width > 0, depth and hash.

      source  ──translator──▶  Full.*  ══(Properties/Full*.lean, FullApi)══  model  ══(Properties/C01, C05, C18)══▶  property
-/
import Properties.C01
import Properties.C05
import Properties.C18
import Properties.FullApi
import Properties.C02
import Properties.C03
import Properties.C04
namespace Sketchnu.EndToEnd
open Sketchnu Sketchnu.FullLin
variable {K B : Type} [DecidableEq K] [DecidableEq B]

/-- the arrays (cms, n_added_records, buckets) after running a history with the generated code -/
def srcRun (ko : Rt.KeyOps K B) (width depth : Nat) : Hist K → Tab × (Nat → Nat) × (Nat → Nat)
  | .new => (fun _ _ => 0, fun _ => 0, fun _ => 0)
  | .add h k v =>
    let st := srcRun ko width depth h
    Full.linear_add ko CAP st.1 st.2.1 st.2.2 width depth k v
  | .merge a b =>
    let sa := srcRun ko width depth a
    let sb := srcRun ko width depth b
    let r := Full.linear_merge sa.1 sb.1 width depth CAP sa.2.1 sb.2.1
    (r.1, r.2, sa.2.2)

/-- outside the `depth × width` block the table is zero -/
def ZeroOut (width depth : Nat) (s : Lin) : Prop := ∀ r c, ¬ (r < depth ∧ c < width) → s.tab r c = 0

theorem geomOf_wf (ko : Rt.KeyOps K B) (width depth : Nat) (hw : 0 < width) : (geomOf ko depth width).WF :=
  fun r k => Nat.mod_lt _ hw

theorem add_zeroOut (ko : Rt.KeyOps K B) (width depth : Nat) (hw : 0 < width) (s : Lin) (k : K) (v : Nat)
    (hz : ZeroOut width depth s) : ZeroOut width depth (Lin.add (geomOf ko depth width) s k v) := by
  intro r c hrc
  unfold Lin.add
  simp only []
  split
  · exact hz r c hrc
  · simp only [raiseTo]
    have : ¬ (r < (geomOf ko depth width).depth ∧ c = (geomOf ko depth width).col r k ∧
        s.tab r c < Lin.query (geomOf ko depth width) s k + min (min v CAP) (CAP - Lin.query (geomOf ko depth width) s k)) := by
      rintro ⟨h1, h2, -⟩
      apply hrc
      refine ⟨h1, ?_⟩
      rw [h2]
      exact Nat.mod_lt _ hw
    rw [if_neg this]
    exact hz r c hrc

/-- the generated code, run over any history, represents the model's evaluation of that history -/
theorem srcRun_rep (ko : Rt.KeyOps K B) (width depth : Nat) (hw : 0 < width) (h : Hist K) :
    Rep (srcRun ko width depth h) (Lin.eval (geomOf ko depth width) h) ∧ ZeroOut width depth (Lin.eval (geomOf ko depth width) h) := by
  induction h with
  | new => exact ⟨⟨rfl, rfl, rfl⟩, fun _ _ _ => rfl⟩
  | add h k v ih =>
    exact ⟨FullApi.linear_add_rep ko width depth _ _ k v ih.1, add_zeroOut ko width depth hw _ k v ih.2⟩
  | merge a b iha ihb =>
    obtain ⟨⟨a1, a2, a3⟩, za⟩ := iha
    obtain ⟨⟨b1, b2, b3⟩, zb⟩ := ihb
    simp only [srcRun, Lin.eval]
    rw [a1, b1, FullApi.linear_merge_api]
    have hz : ZeroOut width depth (Lin.merge (Lin.eval (geomOf ko depth width) a) (Lin.eval (geomOf ko depth width) b)) := by
      intro r c hrc
      simp only [Lin.merge, za r c hrc, zb r c hrc]
      decide
    refine ⟨⟨?_, ?_, ?_⟩, hz⟩
    · funext r c
      by_cases hrc : r < depth ∧ c < width
      · simp only [if_pos hrc]
      · simp only [if_neg hrc]
        rw [hz r c hrc, za r c hrc]
    · simp [Rt.set1_apply, Lin.merge, a2, b2]
    · simp [Rt.set1_apply, Lin.merge, a3, b3]

/-- what `CountMinLinear.query(key)` of the generated code returns after history `h` -/
def srcQuery (ko : Rt.KeyOps K B) (width depth : Nat) (h : Hist K) (k : K) : Nat :=
  (Full.linear_query ko (srcRun ko width depth h).1 (srcRun ko width depth h).2.2 width depth CAP k).1

theorem srcQuery_eq (ko : Rt.KeyOps K B) (width depth : Nat) (hw : 0 < width) (h : Hist K) (k : K) :
    srcQuery ko width depth h k = Lin.query (geomOf ko depth width) (Lin.eval (geomOf ko depth width) h) k := by
  unfold srcQuery
  rw [FullApi.linear_query_api, (srcRun_rep ko width depth hw h).1.1]
  rfl

/-- **C01 for the code as it reads now**: on every history the estimate is at least min(true count, 2^32−1) … -/
theorem C01_lower_src (ko : Rt.KeyOps K B) (width depth : Nat) (hw : 0 < width) (h : Hist K) (k : K) :
    min (h.trueCount k) CAP ≤ srcQuery ko width depth h k := by
  rw [srcQuery_eq ko width depth hw]
  exact C01.C01_lower _ (geomOf_wf ko width depth hw) h k

/-- … and at most the summed true counts of the keys sharing the key's counter, in every row -/
theorem C01_upper_src (ko : Rt.KeyOps K B) (width depth : Nat) (hw : 0 < width) (h : Hist K) (k : K) (r : Nat) (hr : r < depth) :
    srcQuery ko width depth h k ≤ min (h.cellLoad (geomOf ko depth width) r ((geomOf ko depth width).col r k)) CAP := by
  rw [srcQuery_eq ko width depth hw]
  exact C01.C01_upper _ (geomOf_wf ko width depth hw) h k r hr

/-- **C05 for the code as it reads now**: right after `add(key, v)` the estimate of `key` is exactly min(old + v, 2^32−1) -/
theorem C05_self_src (ko : Rt.KeyOps K B) (width depth : Nat) (hw : 0 < width) (h : Hist K) (k : K) (v : Nat) :
    srcQuery ko width depth (.add h k v) k = min (srcQuery ko width depth h k + v) CAP := by
  rw [srcQuery_eq ko width depth hw, srcQuery_eq ko width depth hw]
  exact C05.lin_add_self _ _ k v

/-- **C18 for the code as it reads now**: no add ever lowers an estimate -/
theorem C18_add_mono_src (ko : Rt.KeyOps K B) (width depth : Nat) (hw : 0 < width) (h : Hist K) (k k' : K) (v : Nat) :
    srcQuery ko width depth h k' ≤ srcQuery ko width depth (.add h k v) k' := by
  rw [srcQuery_eq ko width depth hw, srcQuery_eq ko width depth hw]
  exact C05.lin_add_mono _ _ k k' v

/-! ### HyperLogLog: the generated code, run over any history, computes the model's registers — hence they depend only on the key set -/

def srcRunHll (ko : Rt.KeyOps K B) (seed p : Nat) : Hist K → Regs
  | .new => fun _ => 0
  | .add h k v => Full.hll_add_m ko (srcRunHll ko seed p h) seed p (2 ^ p) k v
  | .merge a b => Full.hll_merge_m (srcRunHll ko seed p a) (srcRunHll ko seed p b) (2 ^ p)

theorem hll_eval_zero_out (p : Nat) (H : K → Nat) (h : Hist K) (i : Nat) (hi : 2 ^ p ≤ i) : Hll.eval p H h i = 0 := by
  induction h with
  | new => rfl
  | add h k v ih =>
    simp only [Hll.eval, Hll.add]
    have : i ≠ hllIdx p (H k) := by
      have := Nat.mod_lt (H k) (Nat.two_pow_pos p)
      unfold hllIdx
      omega
    rw [if_neg this, ih]
  | merge a b iha ihb => simp only [Hll.eval, Hll.merge, iha, ihb]; rfl

theorem srcRunHll_eq (ko : Rt.KeyOps K B) (seed p : Nat) (h : Hist K) :
    srcRunHll ko seed p h = Hll.eval p (fun k => ko.H k seed) h := by
  induction h with
  | new => rfl
  | add h k v ih => simp only [srcRunHll, Hll.eval, FullApi.hll_add_api, ih]
  | merge a b iha ihb =>
    simp only [srcRunHll, Hll.eval, FullApi.hll_merge_api, iha, ihb]
    funext i
    by_cases hi : i < 2 ^ p
    · simp [hi]
    · have h2 : 2 ^ p ≤ i := Nat.le_of_not_lt hi
      simp only [if_neg hi, Hll.merge, hll_eval_zero_out p _ a i h2, hll_eval_zero_out p _ b i h2]
      rfl

/-- **C02 for the code as it reads now**: two histories over the same set of keys leave the same registers, whatever the order,
    the duplicates, the multiplicities, the partition over sketches and the merge tree -/
theorem C02_setOnly_src (ko : Rt.KeyOps K B) (seed p : Nat) (hp : p ≤ 64) (hH : ∀ k, ko.H k seed < 2 ^ 64) (h₁ h₂ : Hist K)
    (hk : ∀ k, h₁.mem k ↔ h₂.mem k) : srcRunHll ko seed p h₁ = srcRunHll ko seed p h₂ := by
  rw [srcRunHll_eq, srcRunHll_eq]
  exact C02.C02_setOnly p _ hp hH h₁ h₂ hk

/-! ### heavy hitters on byte strings: the generated code, run over any history, represents the model's evaluation on key identities —
    hence `hh[key]` never over-counts (C03) -/

/-- the history on identities (first max_key_len bytes, as (padded bytes, length)) -/
def histIdent (mkl : Nat) : Hist (List UInt8) → Hist (List UInt8 × Nat)
  | .new => .new
  | .add h k v => .add (histIdent mkl h) (FullHH.ident mkl k) v
  | .merge a b => .merge (histIdent mkl a) (histIdent mkl b)

/-- the four arrays after running a history of byte-string keys with the generated code -/
def srcRunHH (H : List UInt8 → Nat → Nat) (width depth mkl : Nat) :
    Hist (List UInt8) → (Nat → Nat → List UInt8) × (Nat → Nat → Nat) × (Nat → Nat → Nat) × (Nat → Nat)
  | .new => (fun _ _ => List.replicate mkl 0, fun _ _ => 0, fun _ _ => 0, fun _ => 0)
  | .add h k v =>
    let st := srcRunHH H width depth mkl h
    Full.hh_add_m (FullHH.hhOps H) CAP st.1 st.2.1 st.2.2.1 st.2.2.2 width depth mkl k v
  | .merge a b =>
    let sa := srcRunHH H width depth mkl a
    let sb := srcRunHH H width depth mkl b
    Full.hh_merge_m sa.1 sa.2.1 sa.2.2.1 sa.2.2.2 width depth CAP sb.1 sb.2.1 sb.2.2.1 sb.2.2.2

/-- the identity of the empty key: what an empty cell holds -/
def emptyId (mkl : Nat) : List UInt8 × Nat := FullHH.ident mkl []

theorem emptyId_eq (mkl : Nat) : emptyId mkl = (List.replicate mkl 0, 0) := by
  simp [emptyId, FullHH.ident, padKey, truncKey]

def EmptyOut (width depth mkl : Nat) (s : HH (List UInt8 × Nat)) : Prop :=
  ∀ r c, ¬ (r < depth ∧ c < width) → s.tab r c = { key := emptyId mkl, cnt := 0 }

theorem srcRunHH_rep (H : List UInt8 → Nat → Nat) (width depth mkl : Nat) (hw : 0 < width) (h : Hist (List UInt8)) :
    let g : Geom (List UInt8 × Nat) := { depth := depth, width := width, col := FullHH.colOf H width }
    FullHH.Rep (srcRunHH H width depth mkl h) (HH.eval g (emptyId mkl) (histIdent mkl h)) ∧
    EmptyOut width depth mkl (HH.eval g (emptyId mkl) (histIdent mkl h)) := by
  intro g
  induction h with
  | new =>
    refine ⟨⟨?_, rfl, rfl⟩, fun _ _ _ => rfl⟩
    intro r c
    simp [srcRunHH, FullHH.cellOf, emptyId_eq]
    rfl
  | add h k v ih =>
    refine ⟨FullApi.hh_add_m_rep H (FullHH.colOf H width) width depth mkl (FullHH.colOf_ident H width mkl) _ _ k v ih.1, ?_⟩
    intro r c hrc
    simp only [HH.eval, histIdent, HH.add]
    have : ¬ (r < g.depth ∧ c = g.col r (FullHH.ident mkl k)) := by
      rintro ⟨h1, h2⟩
      apply hrc
      refine ⟨h1, ?_⟩
      rw [h2]
      exact Nat.mod_lt _ hw
    rw [if_neg this]
    exact ih.2 r c hrc
  | merge a b iha ihb =>
    obtain ⟨⟨a1, a2, a3⟩, za⟩ := iha
    obtain ⟨⟨b1, b2, b3⟩, zb⟩ := ihb
    have hm := FullHH.hh_merge_model _ _ _ _ _ _ _ _ width depth _ _ a1 b1 a2 b2 a3 b3
    have hf := FullHH.hh_merge_full (srcRunHH H width depth mkl a).1 (srcRunHH H width depth mkl b).1 (srcRunHH H width depth mkl a).2.1
      (srcRunHH H width depth mkl a).2.2.1 (srcRunHH H width depth mkl b).2.1 (srcRunHH H width depth mkl b).2.2.1
      (srcRunHH H width depth mkl a).2.2.2 (srcRunHH H width depth mkl b).2.2.2 width depth
    simp only [] at hm hf
    have hz : EmptyOut width depth mkl (HH.merge (HH.eval g (emptyId mkl) (histIdent mkl a)) (HH.eval g (emptyId mkl) (histIdent mkl b))) := by
      intro r c hrc
      simp only [HH.merge, za r c hrc, zb r c hrc, HCell.merge]
      simp
    refine ⟨⟨?_, ?_, ?_⟩, hz⟩
    · intro r c
      simp only [srcRunHH, HH.eval, histIdent, FullApi.hh_merge_api]
      by_cases hrc : r < depth ∧ c < width
      · exact hm.1 r c hrc.1 hrc.2
      · rw [hf.1 r c, if_neg hrc, a1, za r c hrc]
        exact (hz r c hrc).symm
    · simp only [srcRunHH, HH.eval, histIdent, FullApi.hh_merge_api]; exact hm.2.1
    · simp only [srcRunHH, HH.eval, histIdent, FullApi.hh_merge_api]; exact hm.2.2

theorem maxRows_congr {K' : Type} [DecidableEq K'] (g1 g2 : Geom K') (T1 T2 : HTab K') (k : K') (d : Nat)
    (hc : ∀ r, r < d → g1.col r k = g2.col r k) (hT : ∀ r c, T1 r c = T2 r c) :
    HH.maxRows g1 T1 k d = HH.maxRows g2 T2 k d := by
  induction d with
  | zero => rfl
  | succ d ih =>
    simp only [HH.maxRows]
    rw [ih (fun r hr => hc r (Nat.lt_succ_of_lt hr)), hc d (Nat.lt_succ_self d), hT]

/-- what `hh[key]` of the generated code returns after history `h` -/
def srcGetitem (H : List UInt8 → Nat → Nat) (width depth mkl : Nat) (h : Hist (List UInt8)) (key : List UInt8) : Nat :=
  let st := srcRunHH H width depth mkl h
  Full.hh_getitem (FullHH.hhOps H) st.1 st.2.1 st.2.2.1 width depth mkl key

/-- **C03 for the code as it reads now**: after any history, `hh[key]` (key no longer than max_key_len — longer ones are refused by the
    API) is at most the true total multiplicity of the key's identity -/
theorem C03_getitem_src (H : List UInt8 → Nat → Nat) (width depth mkl : Nat) (hw : 0 < width) (h : Hist (List UInt8)) (key : List UInt8)
    (hlen : key.length ≤ mkl) :
    srcGetitem H width depth mkl h key ≤ (histIdent mkl h).trueCount (FullHH.ident mkl key) := by
  have hrep := (srcRunHH_rep H width depth mkl hw h).1.1
  have hid : ((FullHH.hhOps H).arr key mkl, (FullHH.hhOps H).klen key) = FullHH.ident mkl key := by
    simp [FullHH.hhOps, Rt.bytesOps, FullHH.ident, padKey, truncKey, List.take_of_length_le hlen]
  unfold srcGetitem
  simp only []
  rw [FullApi.hh_getitem_api, hid]
  have := C03.C03_getitem { depth := depth, width := width, col := FullHH.colOf H width } (emptyId mkl) (histIdent mkl h) (FullHH.ident mkl key)
  refine Nat.le_trans (Nat.le_of_eq ?_) this
  unfold HH.getitem
  apply maxRows_congr
  · intro r _
    simp only [FullHH.colOf_ident, truncKey, List.take_of_length_le hlen]
    rfl
  · exact hrep

theorem srcGetitem_eq (H : List UInt8 → Nat → Nat) (width depth mkl : Nat) (hw : 0 < width) (h : Hist (List UInt8)) (key : List UInt8)
    (hlen : key.length ≤ mkl) :
    srcGetitem H width depth mkl h key =
      HH.getitem { depth := depth, width := width, col := FullHH.colOf H width }
        (HH.eval { depth := depth, width := width, col := FullHH.colOf H width } (emptyId mkl) (histIdent mkl h)) (FullHH.ident mkl key) := by
  have hrep := (srcRunHH_rep H width depth mkl hw h).1.1
  have hid : ((FullHH.hhOps H).arr key mkl, (FullHH.hhOps H).klen key) = FullHH.ident mkl key := by
    simp [FullHH.hhOps, Rt.bytesOps, FullHH.ident, padKey, truncKey, List.take_of_length_le hlen]
  unfold srcGetitem
  simp only []
  rw [FullApi.hh_getitem_api, hid]
  unfold HH.getitem
  apply maxRows_congr
  · intro r _
    simp only [FullHH.colOf_ident, truncKey, List.take_of_length_le hlen]
    rfl
  · exact hrep

/-- **C04 for the code as it reads now**: absent 32-bit saturation, `hh[key] ≥ 2f − W_r` in every row, for any insertion order, partition
    and merge tree -/
theorem C04_getitem_src (H : List UInt8 → Nat → Nat) (width depth mkl : Nat) (hw : 0 < width) (h : Hist (List UInt8)) (key : List UInt8)
    (hlen : key.length ≤ mkl) (hns : C04.NoSat (histIdent mkl h)) (r : Nat) (hr : r < depth) :
    (2 * ((histIdent mkl h).trueCount (FullHH.ident mkl key) : Int) -
      ((histIdent mkl h).cellLoad { depth := depth, width := width, col := FullHH.colOf H width } r (FullHH.colOf H width r (FullHH.ident mkl key)) : Int))
      ≤ (srcGetitem H width depth mkl h key : Int) := by
  rw [srcGetitem_eq H width depth mkl hw h key hlen]
  exact C04.C04_getitem { depth := depth, width := width, col := FullHH.colOf H width } (emptyId mkl) (histIdent mkl h) hns (FullHH.ident mkl key) r hr

end Sketchnu.EndToEnd
