/-
  Properties/C04.lean — heavy hitters always report a key that dominates one of its cells.
  `f` = true count of the key, `W r` = total multiplicity mapped to the key's cell in row `r`,
  `N` = total multiplicity.  "Absent 32-bit saturation" is the hypothesis `N ≤ CAP`.

  STATEMENTS ARE FIXED.  Helper lemmas go to Proofs/HeavyHitters.lean.
-/
import Proofs.HeavyHitters
namespace Sketchnu.C04
open Sketchnu
variable {K : Type} [DecidableEq K]

/-- potential of key `x` in a cell: `+count` if the cell stores `x`, else `-count` -/
def phi (c : HCell K) (x : K) : Int := if c.key = x then (c.cnt : Int) else -(c.cnt : Int)

/-- absent saturation: everything added fits below the ceiling -/
def NoSat (h : Hist K) : Prop := h.totalWeight ≤ CAP

instance (h : Hist K) : Decidable (NoSat h) := inferInstanceAs (Decidable (h.totalWeight ≤ CAP))

/-- the Boyer–Moore potential argument, for every history tree (any order, partition, merge shape) -/
theorem C04_phi (g : Geom K) (e : K) (h : Hist K) (hns : NoSat h) (k : K) (r : Nat) (hr : r < g.depth) :
    (2 * (h.trueCount k : Int) - (h.cellLoad g r (g.col r k) : Int))
      ≤ phi ((HH.eval g e h).tab r (g.col r k)) k := by
  exact HH.phi_inv g e h hns k r hr

/-- `hh[key] ≥ 2f - W_r` for every row -/
theorem C04_getitem (g : Geom K) (e : K) (h : Hist K) (hns : NoSat h) (k : K) (r : Nat)
    (hr : r < g.depth) :
    (2 * (h.trueCount k : Int) - (h.cellLoad g r (g.col r k) : Int))
      ≤ (HH.getitem g (HH.eval g e h) k : Int) := by
  exact HH.getitem_ge g e h hns k r hr

/-- `query(∞, threshold)` contains the key with at least that count whenever the bound is
    positive and reaches the threshold -/
theorem C04_query (g : Geom K) (hg : g.WF) (e : K) (h : Hist K) (hns : NoSat h) (k : K) (r : Nat)
    (hr : r < g.depth) (thr : Nat)
    (hpos : (1 : Int) ≤ 2 * (h.trueCount k : Int) - (h.cellLoad g r (g.col r k) : Int))
    (hthr : (thr : Int) ≤ 2 * (h.trueCount k : Int) - (h.cellLoad g r (g.col r k) : Int)) :
    ∃ c, (k, c) ∈ HH.queryFresh g (HH.eval g e h) none thr ∧
      (2 * (h.trueCount k : Int) - (h.cellLoad g r (g.col r k) : Int)) ≤ (c : Int) := by
  have h1 := HH.phi_inv g e h hns k r hr
  obtain ⟨hk, he⟩ := HH.phi_pos_key ((HH.eval g e h).tab r (g.col r k)) k (by omega)
  have hge := HH.getitem_ge g e h hns k r hr
  have hcnt : ((HH.eval g e h).tab r (g.col r k)).cnt ≠ 0 := by omega
  have hc := HH.candidates_complete g (HH.eval g e h) thr r (g.col r k) hr (hg r k) hcnt
    (by rw [hk]; omega)
  rw [hk] at hc
  refine ⟨HH.getitem g (HH.eval g e h) k, ?_, hge⟩
  unfold HH.queryFresh HH.mostCommon
  exact (HH.mem_sortDesc _ _).2 hc

/-- a key that accounts for more than half of everything added is reported first, with
    count ≥ 2f - N, strictly ahead of every other reported key -/
theorem C04_major (g : Geom K) (hg : g.WF) (hd : 0 < g.depth) (e : K) (h : Hist K) (hns : NoSat h)
    (k : K) (hmaj : h.totalWeight < 2 * h.trueCount k) (kk : Option Nat) (hkk : kk ≠ some 0)
    (thr : Nat) (hthr : thr ≤ 2 * h.trueCount k - h.totalWeight) :
    ∃ c rest, HH.queryFresh g (HH.eval g e h) kk thr = (k, c) :: rest ∧
      2 * h.trueCount k - h.totalWeight ≤ c ∧ ∀ p ∈ rest, p.2 < c := by
  have hN : h.totalWeight ≤ CAP := hns
  obtain ⟨hge, hpos⟩ := HH.major_getitem g hd e h hN k hmaj
  obtain ⟨hk, hc2⟩ := HH.major_key g e h hN k hmaj 0 hd
  have hl := cellLoad_le_total g h 0 (g.col 0 k)
  have hcnt : ((HH.eval g e h).tab 0 (g.col 0 k)).cnt ≠ 0 := by omega
  have hmem := HH.candidates_complete g (HH.eval g e h) thr 0 (g.col 0 k) hd (hg 0 k) hcnt
    (by rw [hk]; omega)
  rw [hk] at hmem
  have hmax : ∀ p ∈ HH.candidates g (HH.eval g e h) thr,
      p = (k, HH.getitem g (HH.eval g e h) k) ∨ p.2 < (k, HH.getitem g (HH.eval g e h) k).2 := by
    intro p hp
    have hf := HH.candidates_form g (HH.eval g e h) thr p hp
    by_cases hpk : p.1 = k
    · left; exact Prod.ext hpk (by rw [hf, hpk])
    · right; rw [hf]; exact HH.major_other_lt g hd e h hN k hmaj p.1 hpk
  obtain ⟨rest, hs, hrest⟩ := HH.sortDesc_head _ _ hmem hmax
    (HH.candidates_count g (HH.eval g e h) thr k hpos)
  obtain ⟨rest', hm, hsub⟩ := HH.mostCommon_head _ kk hkk _ rest hs
  exact ⟨_, rest', hm, hge, fun p hp => hrest p (hsub p hp)⟩

/-! non-vacuity: width 1, all orderings matter — here 1,2,1,1: key 1 has f = 3 of N = 4 -/
example :
    let g : Geom Nat := { depth := 1, width := 1, col := fun _ _ => 0 }
    let h : Hist Nat := .add (.add (.add (.add .new 1 1) 2 1) 1 1) 1 1
    NoSat h ∧ h.totalWeight < 2 * h.trueCount 1 ∧
    HH.queryFresh g (HH.eval g 0 h) (some 1) 1 = [(1, 2)] := by decide

end Sketchnu.C04
