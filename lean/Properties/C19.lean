/-
  Properties/C19.lean — a failing callback or dead worker never silently corrupts or hangs
  parallel_add (decision logic; process death itself is runtime behaviour, modelled).

  STATEMENTS ARE FIXED.  Helper lemmas go to Proofs/Parallel.lean.
-/
import Proofs.Parallel
import Properties.C08
namespace Sketchnu.C19
open Sketchnu
variable {I K : Type}

/-- a raising callback does not stop the worker: the protocol (hence termination, exactly-once
    and no-deadlock of C08) does not depend on callback outcomes at all; `n_records` counts only
    the successful items -/
theorem records_only_successful (cb : I → Outcome K) (got : List I) :
    workerRecords cb got = ((got.filter fun x => (cb x).ret.isSome).map fun x => (cb x).ret.getD 0).sum := by
  exact workerRecords_filter cb got

/-- every item's operations (complete for successful items, the partial ones a raising item did
    before raising) are in exactly one worker's sketch -/
theorem C19_callback (cap : Nat) (items : List I) (n : Nat) (s : PState I) (R : PReach cap items n s)
    (hf : s.final) (cb : I → Outcome K) :
    (s.workers.map fun w => workerRecords cb w.got).sum
        = ((items.filter fun x => (cb x).ret.isSome).map fun x => (cb x).ret.getD 0).sum ∧
    ∃ perm : List I, perm.Perm items ∧ (s.workers.flatMap fun w => workerOps cb w.got) = workerOps cb perm := by
  refine ⟨?_, C08.ops_total cap items n s R hf cb⟩
  exact (workerRecords_workers cb s.workers).trans
    ((workerRecords_perm cb (R.exactly_once hf).1).trans (workerRecords_filter cb items))

/-- a worker exit code ≠ 0 in any snapshot the monitor sees ⇒ the queues are closed ⇒ the
    outcome is an error, never a result -/
theorem C19_dead (pre : List (List (Option Int))) (codes : List (Option Int)) (rest : List (List (Option Int)))
    (closed r : Bool) (h : monitor (pre ++ codes :: rest) closed = some r)
    -- the snapshot `codes` is actually reached: every earlier snapshot still had a running worker
    (hpre : ∀ c ∈ pre, pollAnyNone c = true) (hbad : pollClosed codes = true) : r = true := by
  exact monitor_dead pre codes rest closed r h hpre hbad

/-- the monitor keeps waiting while some worker is running and ends as soon as none is -/
theorem monitor_ends (codes : List (Option Int)) (rest : List (List (Option Int))) (closed : Bool)
    (h : pollAnyNone codes = false) : monitor (codes :: rest) closed = some (closed || pollClosed codes) := by
  exact monitor_cons_ended codes rest closed h

/-- all clean exits ⇒ not closed -/
theorem monitor_clean (snaps : List (List (Option Int))) (r : Bool) (h : monitor snaps false = some r)
    (hclean : ∀ codes ∈ snaps, pollClosed codes = false) : r = false := by
  exact Sketchnu.monitor_clean snaps r h hclean

example : monitor [[none, some 0], [some 3, some 0]] false = some true := by decide
example : monitor [[none, some 0], [some 0, some 0]] false = some false := by decide
example : monitor [[none, some (-9)], [none, some (-9)], [some (-9), some (-9)]] false = some true := by decide

end Sketchnu.C19
