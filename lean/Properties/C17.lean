/-
  Properties/C17.lean — query() is the documented HyperLogLog++ estimator of the registers.

  (1) Obligations over the tables REGENERATED FROM THE SOURCE on every run (`decide +kernel`):
      10 precisions × 200 points, every raw-estimate row strictly increasing (the precondition
      of `np.interp`), and the tables begin where the thresholds end / end at 5·2^p:
      raw[p][0] - bias[p][0] = threshold[p], raw[p][199] - bias[p][199] = 5·2^p, exactly.
  (2) The branch structure and the interpolation, over any linearly ordered field.
  The float evaluation itself is tied by the `hll-query` slice (1e-9) — translation validation.

  STATEMENTS ARE FIXED.  Helper lemmas go to Proofs/Estimator.lean.
-/
import Proofs.Estimator
namespace Sketchnu.C17
open Sketchnu

/-! ### (1) generated tables -/

theorem tables_ok : rowsOK 0 Gen.hllRaw Gen.hllBias Gen.hllThreshold = true := by decide +kernel

theorem tables_shape : Gen.hllRaw.length = 10 ∧ Gen.hllBias.length = 10 ∧ Gen.hllThreshold.length = 10 := by decide

/-- the estimator's literal constants in the source: `n_zero > 0`, `5 * m`, alpha = 0.7213/(1+1.079/m), p ∈ [7,16] -/
theorem estimator_constants : estimatorConstsOK = true := by decide

/-- what `rowsOK` means for each precision -/
theorem rowOK_spec (i : Nat) (raw bias : List Int) (thr : Int) (h : rowOK i raw bias thr = true) :
    raw.length = 200 ∧ bias.length = 200 ∧ raw.Pairwise (· < ·) ∧
    raw.headD 0 - bias.headD 0 = thr * 100000 ∧ lastD raw 0 - lastD bias 0 = 5 * (2 : Int) ^ (i + 7) * 100000 := by
  unfold rowOK at h
  simp only [Bool.and_eq_true, beq_iff_eq] at h
  obtain ⟨⟨⟨⟨h1, h2⟩, h3⟩, h4⟩, h5⟩ := h
  exact ⟨h1, h2, strictInc_pairwise raw h3, h4, h5⟩

/-! ### (2) structure over an ordered field -/

variable {α : Type} [Field α] [LinearOrder α] [IsStrictOrderedRing α]

/-- `np.interp` (same recursion as the float mirror `interpF`) -/
def interp (x : α) : List α → List α → α
  | x0 :: x1 :: xs, y0 :: y1 :: ys =>
    if x ≤ x0 then y0
    else if x < x1 then (y1 - y0) / (x1 - x0) * (x - x0) + y0
    else interp x (x1 :: xs) (y1 :: ys)
  | [_], [y0] => y0
  | _, y0 :: _ => y0
  | _, [] => 0

/-- clamped on the left -/
theorem interp_left (x x0 : α) (xs : List α) (y0 : α) (ys : List α) (h : x ≤ x0) (hl : xs.length = ys.length) :
    interp x (x0 :: xs) (y0 :: ys) = y0 := by
  cases xs with
  | nil =>
    cases ys with
    | nil => simp only [interp]
    | cons y1 ys => simp at hl
  | cons x1 xs =>
    cases ys with
    | nil => simp at hl
    | cons y1 ys => simp only [interp]; rw [if_pos h]

/-- linear inside a segment -/
theorem interp_inside (x x0 x1 : α) (xs : List α) (y0 y1 : α) (ys : List α) (h0 : x0 < x) (h1 : x < x1) :
    interp x (x0 :: x1 :: xs) (y0 :: y1 :: ys) = y0 + (y1 - y0) / (x1 - x0) * (x - x0) := by
  simp only [interp]
  rw [if_neg (not_le.mpr h0), if_pos h1]
  ring

/-- at or beyond the next knot the first segment is skipped -/
theorem interp_skip (x x0 x1 : α) (xs : List α) (y0 y1 : α) (ys : List α) (h01 : x0 < x1) (h1 : x1 ≤ x) :
    interp x (x0 :: x1 :: xs) (y0 :: y1 :: ys) = interp x (x1 :: xs) (y1 :: ys) := by
  simp only [interp]
  rw [if_neg (not_le.mpr (lt_of_lt_of_le h01 h1)), if_neg (not_lt.mpr h1)]

/-- at a knot the value is the table value, and within a segment it lies between the two table values -/
theorem interp_between (x x0 x1 : α) (xs : List α) (y0 y1 : α) (ys : List α) (h0 : x0 ≤ x) (h1 : x ≤ x1) (h01 : x0 < x1)
    (hl : xs.length = ys.length) :
    min y0 y1 ≤ interp x (x0 :: x1 :: xs) (y0 :: y1 :: ys) ∧ interp x (x0 :: x1 :: xs) (y0 :: y1 :: ys) ≤ max y0 y1 := by
  by_cases hx0 : x ≤ x0
  · rw [interp_left x x0 (x1 :: xs) y0 (y1 :: ys) hx0 (by simp [hl])]
    exact ⟨min_le_left _ _, le_max_left _ _⟩
  · by_cases hx1 : x < x1
    · have e : interp x (x0 :: x1 :: xs) (y0 :: y1 :: ys) = (y1 - y0) / (x1 - x0) * (x - x0) + y0 := by
        simp only [interp]
        rw [if_neg hx0, if_pos hx1]
      rw [e]
      exact segment_bounds x x0 x1 y0 y1 h0 h1 h01
    · rw [interp_skip x x0 x1 xs y0 y1 ys h01 (not_lt.mp hx1), interp_left x x1 xs y1 ys h1 hl]
      exact ⟨min_le_right _ _, le_max_right _ _⟩

/-- clamped on the right: beyond the last knot of a strictly increasing table the last value -/
theorem interp_right (x : α) (xs ys : List α) (hl : xs.length = ys.length) (hne : xs ≠ [])
    (hinc : xs.Pairwise (· < ·)) (hx : ∀ a ∈ xs, a ≤ x) : interp x xs ys = ys.getLast?.getD 0 := by
  induction xs generalizing ys with
  | nil => exact absurd rfl hne
  | cons x0 xs ih =>
    cases ys with
    | nil => simp at hl
    | cons y0 ys =>
      cases xs with
      | nil =>
        cases ys with
        | nil => simp [interp]
        | cons y1 ys => simp at hl
      | cons x1 xs =>
        cases ys with
        | nil => simp at hl
        | cons y1 ys =>
          have hp := List.pairwise_cons.mp hinc
          have h01 : x0 < x1 := hp.1 x1 List.mem_cons_self
          have h1 : x1 ≤ x := hx x1 (List.mem_cons_of_mem _ List.mem_cons_self)
          rw [interp_skip x x0 x1 xs y0 y1 ys h01 h1]
          rw [ih (y1 :: ys) (by simpa using hl) (List.cons_ne_nil _ _) hp.2
            (fun a ha => hx a (List.mem_cons_of_mem _ ha))]
          rw [List.getLast?_cons_cons]

/-- the documented estimator: linear counting `LC` while some register is zero (`V > 0`) and `LC`
    does not exceed the threshold; otherwise the raw estimate `E` minus the interpolated bias,
    the correction applied up to `5m` when no register is zero and the raw estimate used above -/
def hllSpec (V : Nat) (LC E thr fiveM : α) (bias : α → α) : α :=
  if V > 0 then (if LC > thr then E - bias E else LC)
  else (if E ≤ fiveM then E - bias E else E)

theorem spec_lc (V : Nat) (LC E thr fiveM : α) (bias : α → α) (hV : 0 < V) (h : LC ≤ thr) :
    hllSpec V LC E thr fiveM bias = LC := by
  unfold hllSpec
  rw [if_pos hV, if_neg (not_lt.mpr h)]

theorem spec_corrected_zero (V : Nat) (LC E thr fiveM : α) (bias : α → α) (hV : 0 < V) (h : thr < LC) :
    hllSpec V LC E thr fiveM bias = E - bias E := by
  unfold hllSpec
  rw [if_pos hV, if_pos h]

theorem spec_corrected_full (LC E thr fiveM : α) (bias : α → α) (h : E ≤ fiveM) :
    hllSpec 0 LC E thr fiveM bias = E - bias E := by
  unfold hllSpec
  rw [if_neg (Nat.lt_irrefl 0), if_pos h]

theorem spec_raw (LC E thr fiveM : α) (bias : α → α) (h : fiveM < E) :
    hllSpec 0 LC E thr fiveM bias = E := by
  unfold hllSpec
  rw [if_neg (Nat.lt_irrefl 0), if_neg (not_le.mpr h)]

end Sketchnu.C17
