/-
  Properties/C12.lean — batch, dict, multiplicity and ngram entry points equal loops of single adds.
  Equality means identical resulting state (for log sketches under the same draw stream).

  STATEMENTS ARE FIXED.  Helper lemmas go to Proofs/Entry.lean.
-/
import Proofs.Entry
import Properties.C02
namespace Sketchnu.C12
open Sketchnu
variable {K D : Type} [DecidableEq K]

/-! ### add(key, v) equals v single adds — genuine laws of the kernels -/

/-- linear count-min (conservative update): table and bookkeeping -/
theorem lin_add_mult (g : Geom K) (s : Lin) (hs : Lin.Bounded s) (k : K) (v : Nat) :
    (Lin.add g s k v).tab = (iter (fun s => Lin.add g s k 1) v s).tab ∧
    (Lin.add g s k v).nAdded = (iter (fun s => Lin.add g s k 1) v s).nAdded ∧
    (Lin.add g s k v).nRecords = (iter (fun s => Lin.add g s k 1) v s).nRecords := by
  rw [← Lin.add_mult g s k v]
  exact ⟨rfl, rfl, rfl⟩

/-- one heavy-hitter cell (the Boyer–Moore replace rule `v - count` equals `count` decrements, one
    replacement and `v - count - 1` increments) -/
theorem hh_cell_add_mult (c : HCell K) (hc : c.cnt ≤ CAP) (k : K) (v : Nat) (hv : v ≤ CAP) :
    c.add k v = iter (fun c => c.add k 1) v c :=
  HCell.add_mult c hc k v hv

/-- the bound `v ≤ 2^32-1` is necessary at cell level (the API applies `min(value, 2^32-1)` before
    the kernel): without it the kernel would store `v - count > 2^32-1` while unit adds saturate -/
theorem hh_cell_add_mult_needs_cap :
    ¬ (∀ (c : HCell Nat), c.cnt ≤ CAP → ∀ k v, c.add k v = iter (fun c => c.add k 1) v c) :=
  HCell.add_mult_false

/-- heavy hitters, `v ≤ 2^32-1` (the API caps larger values, single adds are not capped) -/
theorem hh_add_mult (g : Geom K) (s : HH K) (hs : ∀ r c, (s.tab r c).cnt ≤ CAP) (k : K) (v : Nat) (hv : v ≤ CAP) :
    (HH.add g s k v).tab = (iter (fun s => HH.add g s k 1) v s).tab ∧
    (HH.add g s k v).nAdded = (iter (fun s => HH.add g s k 1) v s).nAdded ∧
    (HH.add g s k v).nRecords = (iter (fun s => HH.add g s k 1) v s).nRecords := by
  rw [← HH.add_mult g s hs k v hv]
  exact ⟨rfl, rfl, rfl⟩

/-- one log counter: `v` steps at once = `v` single steps threading the draw state -/
theorem logCounter_mult (cfg : LogCfg D) (draws : Nat → Nat → D) (v c : Nat) (rs : RandState) :
    logCounter cfg draws v c rs =
      iter (fun p : Nat × RandState => logCounter cfg draws 1 p.1 p.2) v (c, rs) := by
  exact logCounter_iter cfg draws v c rs

/-- log sketches under the same draw stream -/
theorem log_add_mult (g : Geom K) (cfg : LogCfg D) (draws : Nat → Nat → D) (s : Log) (k : K) (v : Nat) :
    (Log.add g cfg draws s k v).tab = (iter (fun s => Log.add g cfg draws s k 1) v s).tab ∧
    (Log.add g cfg draws s k v).nAdded = (iter (fun s => Log.add g cfg draws s k 1) v s).nAdded ∧
    (Log.add g cfg draws s k v).rs = (iter (fun s => Log.add g cfg draws s k 1) v s).rs := by
  rw [← Log.add_mult g cfg draws s k v]
  exact ⟨rfl, rfl, rfl⟩

/-- HyperLogLog ignores multiplicities: adding once or many times is the same -/
theorem hll_add_mult (p : Nat) (H : K → Nat) (R : Regs) (k : K) (v : Nat) (hv : 1 ≤ v) :
    iter (fun R => Hll.add p H R k) v R = Hll.add p H R k := by
  induction v with
  | zero => omega
  | succ v ih =>
    rw [iter_succ']
    cases v with
    | zero => rfl
    | succ v => rw [ih (by omega)]; exact C02.add_idem p H R k

/-! ### update / dict are folds by definition of the entry points; dict of (k, v) = v single adds -/

theorem lin_update_dict_singles (g : Geom K) (s : Lin) (hs : Lin.Bounded s) (k : K) (v : Nat) :
    (Lin.updateDict g s [(k, v)]).tab = (Lin.updateList g s (List.replicate v k)).tab := by
  unfold Lin.updateList
  rw [foldl_replicate_iter]
  exact (lin_add_mult g s hs k v).1

theorem hh_update_dict_singles (g : Geom K) (s : HH K) (hs : ∀ r c, (s.tab r c).cnt ≤ CAP) (k : K) (v : Nat)
    (hv : v ≤ CAP) :
    (HH.updateDict g s [(k, v)]).tab = (HH.updateList g s (List.replicate v k)).tab := by
  unfold HH.updateList
  rw [foldl_replicate_iter]
  exact (hh_add_mult g s hs k v hv).1

/-! ### ngram entry points -/

/-- `add_ngram` adds every length-n window (or the key itself when `len ≤ n`), in order -/
theorem addNgram_spec {S : Type} (add1 : S → List UInt8 → S) (s : S) (key : List UInt8) (n : Nat) (hn : 1 ≤ n) :
    (key.length ≤ n → addNgram add1 s key n = add1 s key) ∧
    (n < key.length → addNgram add1 s key n =
      (List.range (key.length - n + 1)).foldl (fun s i => add1 s ((key.drop i).take n)) s) := by
  exact ⟨addNgram_short add1 s key n, addNgram_long add1 s key n hn⟩

theorem updateNgram_cons {S : Type} (add1 : S → List UInt8 → S) (s : S) (k : List UInt8) (ks : List (List UInt8)) (n : Nat) :
    updateNgram add1 s (k :: ks) n = updateNgram add1 (addNgram add1 s k n) ks n := rfl

/-! non-vacuity -/
example : windows [1, 2, 3, 4, 5] 2 = [[1, 2], [2, 3], [3, 4], [4, 5]] ∧ windows [1, 2] 2 = [[1, 2]] ∧
    windows [1, 2] 5 = [[1, 2]] := by decide

end Sketchnu.C12
