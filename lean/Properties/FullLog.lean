/-
  Properties/FullLog.lean — the WHOLE log8/log16 count-min kernels as translated from the current source
  (`Model/Generated/FullLog.lean`) equal the hand-written model (`tquery`, `Log.add`, `addNgram`).
  `_log_counter` (float arithmetic) is the function parameter `lc` of the generated definitions; its loop body is
  tied to the model separately (`SrcRand.logCounterStep_src`).
-/
import Model.Generated.FullLog
import Model.Entry
import Properties.FullLin
namespace Sketchnu.FullLog
open Sketchnu Sketchnu.FullLin
variable {K B : Type} [DecidableEq B]

theorem query_log16_full (ko : Rt.KeyOps K B) (T : Tab) (buckets : Nat → Nat) (width depth cap : Nat) (k : K) :
    Full.query_log16 ko T buckets width depth cap k =
      (tquery (geomOf ko depth width) cap T k, bucketsAfter ko depth width buckets k) :=
  query_linear_full ko T buckets width depth cap k

theorem query_log8_full (ko : Rt.KeyOps K B) (T : Tab) (buckets : Nat → Nat) (width depth cap : Nat) (k : K) :
    Full.query_log8 ko T buckets width depth cap k =
      (tquery (geomOf ko depth width) cap T k, bucketsAfter ko depth width buckets k) :=
  query_linear_full ko T buckets width depth cap k

/-- what `_add_log16` / `_add_log8` do around `_log_counter`, for ANY behaviour `lc` of `_log_counter` -/
def addLogSpec (ko : Rt.KeyOps K B) (lc : Nat → Nat → Nat → Nat × Nat) (T : Tab) (nar buckets : Nat → Nat)
    (width depth maxc rp : Nat) (k : K) (v : Nat) : Nat × Tab × (Nat → Nat) × (Nat → Nat) :=
  let g := geomOf ko depth width
  let m := tquery g maxc T k
  let r := lc m rp v
  (r.2, (if r.1 = m then T else raiseTo g T k r.1), Rt.set1 nar 0 (nar 0 + v), bucketsAfter ko depth width buckets k)

theorem add_log16_full (ko : Rt.KeyOps K B) (lc : Nat → Nat → Nat → Nat × Nat) (T : Tab) (nar buckets : Nat → Nat)
    (width depth maxc nr rp : Nat) (k : K) (v : Nat) :
    Full.add_log16 ko lc T nar buckets width depth maxc nr rp k v = addLogSpec ko lc T nar buckets width depth maxc rp k v := by
  unfold Full.add_log16 addLogSpec
  simp only [query_log16_full]
  split
  · rfl
  · have := raise_loop T (bucketsAfter ko depth width buckets k) (lc (tquery (geomOf ko depth width) maxc T k) rp v).1 depth
    simp only [] at this
    rw [this]
    congr 2
    funext r c
    unfold raiseTo geomOf bucketsAfter
    by_cases hr : r < depth <;> simp [hr]

theorem add_log8_full (ko : Rt.KeyOps K B) (lc : Nat → Nat → Nat → Nat × Nat) (T : Tab) (nar buckets : Nat → Nat)
    (width depth maxc nr rp : Nat) (k : K) (v : Nat) :
    Full.add_log8 ko lc T nar buckets width depth maxc nr rp k v = addLogSpec ko lc T nar buckets width depth maxc rp k v := by
  unfold Full.add_log8 addLogSpec
  simp only [query_log8_full]
  split
  · rfl
  · have := raise_loop T (bucketsAfter ko depth width buckets k) (lc (tquery (geomOf ko depth width) maxc T k) rp v).1 depth
    simp only [] at this
    rw [this]
    congr 2
    funext r c
    unfold raiseTo geomOf bucketsAfter
    by_cases hr : r < depth <;> simp [hr]

/-- with `_log_counter` behaving as the model's `logCounter` (on the draw pointer), the kernel is `Log.add` -/
theorem add_log_model {D : Type} (ko : Rt.KeyOps K B) (cfg : LogCfg D) (draws : Nat → Nat → D) (lc : Nat → Nat → Nat → Nat × Nat)
    (s : Log) (nar buckets : Nat → Nat) (width depth : Nat) (k : K) (v : Nat)
    (hlc : lc (Log.queryC (geomOf ko depth width) cfg s k) s.rs.ptr v =
      ((logCounter cfg draws v (Log.queryC (geomOf ko depth width) cfg s k) s.rs).1,
       (logCounter cfg draws v (Log.queryC (geomOf ko depth width) cfg s k) s.rs).2.ptr))
    (h0 : nar 0 = s.nAdded) :
    let r := addLogSpec ko lc s.tab nar buckets width depth cfg.maxc s.rs.ptr k v
    let s' := Log.add (geomOf ko depth width) cfg draws s k v
    r.1 = s'.rs.ptr ∧ r.2.1 = s'.tab ∧ r.2.2.1 0 = s'.nAdded := by
  unfold addLogSpec Log.add
  simp only [Log.queryC] at hlc ⊢
  rw [hlc]
  simp only [Rt.set1_apply, if_true, h0]
  split <;> simp_all

theorem add_ngram_log16_full (ko : Rt.KeyOps K B) (lc : Nat → Nat → Nat → Nat × Nat) (T : Tab) (nar buckets : Nat → Nat)
    (width depth maxc nr rp : Nat) (key : K) (n : Nat) :
    Full.add_ngram_log16 ko lc T nar buckets width depth maxc nr rp key n =
      if ko.klen key ≤ n then Full.add_log16 ko lc T nar buckets width depth maxc nr rp key 1
      else (List.range (ko.klen key - (n - 1))).foldl
        (fun st i => Full.add_log16 ko lc st.2.1 st.2.2.1 st.2.2.2 width depth maxc nr st.1 (ko.slice key i (i + n)) 1) (rp, T, nar, buckets) := by
  unfold Full.add_ngram_log16
  simp only [Rt.loop_eq_foldl]

theorem add_ngram_log8_full (ko : Rt.KeyOps K B) (lc : Nat → Nat → Nat → Nat × Nat) (T : Tab) (nar buckets : Nat → Nat)
    (width depth maxc nr rp : Nat) (key : K) (n : Nat) :
    Full.add_ngram_log8 ko lc T nar buckets width depth maxc nr rp key n =
      if ko.klen key ≤ n then Full.add_log8 ko lc T nar buckets width depth maxc nr rp key 1
      else (List.range (ko.klen key - (n - 1))).foldl
        (fun st i => Full.add_log8 ko lc st.2.1 st.2.2.1 st.2.2.2 width depth maxc nr st.1 (ko.slice key i (i + n)) 1) (rp, T, nar, buckets) := by
  unfold Full.add_ngram_log8
  simp only [Rt.loop_eq_foldl]

end Sketchnu.FullLog
