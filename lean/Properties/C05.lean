/-
  Properties/C05.lean — an add raises the key's estimate by its multiplicity and nothing else
  past it.  One-step theorems for *every* state (not only reachable ones), every key and
  multiplicity, any hash.  Linear part here; log part in `C05Log`.
-/
import Proofs.Lin
namespace Sketchnu.C05
open Sketchnu
variable {K : Type} [DecidableEq K]

theorem lin_add_self (g : Geom K) (s : Lin) (k : K) (v : Nat) :
    Lin.query g (Lin.add g s k v) k = min (Lin.query g s k + v) CAP := Lin.add_self g s k v

theorem lin_add_mono (g : Geom K) (s : Lin) (k k' : K) (v : Nat) :
    Lin.query g s k' ≤ Lin.query g (Lin.add g s k v) k' := Lin.add_mono g s k v k'

theorem lin_add_bound (g : Geom K) (s : Lin) (k k' : K) (v : Nat) :
    Lin.query g (Lin.add g s k v) k' ≤
      max (Lin.query g s k') (Lin.query g (Lin.add g s k v) k) := Lin.add_bound g s k v k'

/-- at most one counter per row changes (and it is the added key's) -/
theorem lin_add_local (g : Geom K) (s : Lin) (k : K) (v : Nat) (r c : Nat)
    (hne : (Lin.add g s k v).tab r c ≠ s.tab r c) : r < g.depth ∧ c = g.col r k :=
  Lin.add_local g s k v r c hne

/-- `n_added()` grows by exactly `v` whenever the add is not cut short by the ceiling -/
theorem lin_add_nadded (g : Geom K) (s : Lin) (k : K) (v : Nat)
    (hfit : Lin.query g s k + v ≤ CAP) : (Lin.add g s k v).nAdded = s.nAdded + v := by
  by_cases hv : v = 0
  · subst hv; unfold Lin.add; simp only; split <;> simp
  · exact Lin.add_nAdded g s k v hfit hv

theorem lin_add_records (g : Geom K) (s : Lin) (k : K) (v : Nat) :
    (Lin.add g s k v).nRecords = s.nRecords := by
  unfold Lin.add; simp only; split <;> rfl

end Sketchnu.C05
