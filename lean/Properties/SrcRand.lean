/-
  Properties/SrcRand.lean — `_rand`'s pointer update as translated from the current source equals
  the model's `RandState.next`.
-/
import Model.Generated.KernelsRand
import Model.LogCounter
namespace Sketchnu.SrcRand
open Sketchnu

theorem randNext_src (s : RandState) : s.next.2.ptr = Src.randNext s.ptr := by
  unfold RandState.next Src.randNext BATCH
  split <;> simp_all

/-- a refill (new batch) happens exactly when the source's test `rand_ptr == 2048` holds -/
theorem refill_src (s : RandState) : (s.next.2.batch = s.batch + 1 ↔ s.ptr = 2048) := by
  unfold RandState.next BATCH
  split <;> simp_all

end Sketchnu.SrcRand
