/-
  Properties/SrcRand.lean — `_rand`'s pointer update as translated from the current source equals
  the model's `RandState.next`.
-/
import Model.Generated.KernelsRand
import Model.LogCounter
namespace Sketchnu.SrcRand
open Sketchnu

theorem randNext_src (s : RandState) : s.next.2.ptr = Src.randNext s.ptr := by
  unfold RandState.next Src.randNext BATCH
  split <;> simp_all

/-- a refill (new batch) happens exactly when the source's test `rand_ptr == 2048` holds -/
theorem refill_src (s : RandState) : (s.next.2.batch = s.batch + 1 ↔ s.ptr = 2048) := by
  unfold RandState.next BATCH
  split <;> simp_all

/-- one step of the model's `logCounter` is the loop body of `_log_counter` as translated from the
    source, with `below` = (counter < num_reserved) and `inc` = the decision on the draw that `_rand`
    hands out; the draw pointer moves exactly when the source calls `_rand` -/
theorem logCounterStep_src {D : Type} (cfg : LogCfg D) (draws : Nat → Nat → D) (c : Nat) (rs : RandState) :
    let r := Src.logCounterStep c cfg.maxc (decide (c < cfg.nr)) (cfg.inc (c - cfg.nr) (draws rs.next.1.1 rs.next.1.2)) rs.ptr
    (logCounter cfg draws 1 c rs).1 = r.2.1 ∧ (logCounter cfg draws 1 c rs).2.ptr = r.2.2 := by
  unfold Src.logCounterStep
  simp only [logCounter, decide_eq_true_eq, ← randNext_src]
  by_cases h1 : c ≥ cfg.maxc
  · simp [h1]
  · by_cases h2 : c < cfg.nr
    · simp [h1, h2]
    · simp only [h1, h2, if_false]
      split <;> simp_all

end Sketchnu.SrcRand
