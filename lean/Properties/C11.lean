/-
  Properties/C11.lean — fasthash64 / fasthash32 / murmur3 equal the published algorithms on all
  inputs: the model of the code's structure with the constants *generated from the source*
  (`Impl.*`) equals the reference algorithm with the published constants (`Ref.*`), for every
  byte string of any length and every seed.

  STATEMENTS ARE FIXED.  Helper lemmas go to Proofs/Hash.lean.
-/
import Proofs.Hash
namespace Sketchnu.C11
open Sketchnu

theorem fasthash64_eq (key : Bytes) (seed : UInt64) :
    Impl.fasthash64 key seed = Ref.fasthash64 key seed := by
  have ht := blocksOf_tail_lt 8 (by decide) key
  unfold Impl.fasthash64 Ref.fasthash64
  generalize blocksOf 8 key = p at ht
  obtain ⟨blocks, tail⟩ := p
  simp only [fhTail_eq tail ht, fhmix64_eq, fh_m_eq]
  cases tail <;> rfl

theorem fasthash32_eq (key : Bytes) (seed : UInt64) :
    Impl.fasthash32 key seed = Ref.fasthash32 key seed := by
  unfold Impl.fasthash32 Ref.fasthash32
  rw [fasthash64_eq]
  rfl

theorem murmur3_eq (key : Bytes) (seed : UInt32) :
    Impl.murmur3 key seed = Ref.murmur3 key seed := by
  have ht := blocksOf_tail_lt 4 (by decide) key
  unfold Impl.murmur3 Ref.murmur3
  generalize blocksOf 4 key = p at ht
  obtain ⟨blocks, tail⟩ := p
  simp only [mmTail_eq tail ht, fmix32_eq]
  cases tail <;> rfl

/-- every byte of the key is consumed: blocks and tail partition the key -/
theorem blocksOf_partition (n : Nat) (hn : 0 < n) (key : Bytes) :
    (blocksOf n key).1.flatten ++ (blocksOf n key).2 = key ∧
    (∀ b ∈ (blocksOf n key).1, b.length = n) ∧ (blocksOf n key).2.length = key.length % n :=
  blocksOf_spec n hn key

/-! anchors: vectors produced by the C++ implementations (smhasher), as used in
    /repo/tests/test_hashes.py, plus the standard MurmurHash3_x86_32 vectors -/
def ascii (s : String) : Bytes := s.toList.map fun c => c.toNat.toUInt8

example : Ref.fasthash32 (ascii "0123456789abcdef") 0 = 128551002 := by decide
example : Ref.fasthash32 (ascii "0123456789abcde") 3 = 4264631007 := by decide
example : Ref.fasthash32 (ascii "0123456789abc") 5 = 2978977373 := by decide
example : Ref.fasthash32 (ascii "012345678") 21 = 1787443542 := by decide
example : Ref.fasthash32 (ascii "0123456") 23 = 3793135117 := by decide
example : Ref.fasthash32 (ascii "0") 29 = 3407281718 := by decide
example : Ref.fasthash32 (ascii "test") 0 = 2542785854 := by decide
example : Ref.murmur3 (ascii "test") 0 = 3127628307 := by decide
example : Ref.murmur3 (ascii "abc") 1 = 2859854335 := by decide
example : Ref.murmur3 (ascii "123") 2 = 1498078391 := by decide
example : Ref.murmur3 [] 0 = 0 := by decide
example : Ref.murmur3 [] 1 = 0x514E28B7 := by decide
example : Ref.murmur3 (ascii "Hello, world!") 0x9747b28c = 0x24884CBA := by decide

end Sketchnu.C11
