/-
  Properties/C06Unbias.lean — unbiasedness of the log counter, over an arbitrary field.

  `dec b nr c` is the decoded value of counter `c` (`_counter2value`), `pinc b nr c` the
  probability that a unit add advances a counter holding `c`
  (`P(rand < base**-(c - nr)) = base**-(c - nr)` for `rand` uniform on [0,1) — the uniformity of
  the PRNG is the trusted assumption; the *use* of the draw is `logCounter`).
  `E n c` is the expectation of the decoded value after `n` unit adds starting from `c`, computed
  over the outcome tree (tower rule), with the ceiling `J` absorbing.

  STATEMENTS ARE FIXED.  Helper lemmas may go to Proofs/Unbias.lean (may import single Mathlib modules).
-/
import Proofs.Unbias
namespace Sketchnu.C06
variable {F : Type} [Field F]

/-- `_counter2value` -/
def dec (b : F) (nr c : Nat) : F :=
  if c ≤ nr then (c : F) else (nr : F) + (b ^ (c - nr) - 1) / (b - 1)

/-- probability of advancing from counter `c` on a unit add -/
def pinc (b : F) (nr c : Nat) : F :=
  if c < nr then 1 else (b ^ (c - nr))⁻¹

/-- the decoded value rises by `base^(c - nr)` while the counter advances with probability
    `base^-(c - nr)`: the expected rise of one unit add is exactly 1 -/
theorem step_unbias (b : F) (hb0 : b ≠ 0) (hb1 : b ≠ 1) (nr c : Nat) :
    pinc b nr c * (dec b nr (c + 1) - dec b nr c) = 1 := by
  have hb : b - 1 ≠ 0 := sub_ne_zero.mpr hb1
  unfold pinc dec
  rcases Nat.lt_trichotomy c nr with h | h | h
  · have h1 : c + 1 ≤ nr := h
    have h2 : c ≤ nr := by omega
    simp only [h, h1, h2, if_true]
    push_cast; ring
  · subst h
    have e1 : c + 1 - c = 1 := by omega
    simp only [Nat.lt_irrefl, Nat.not_succ_le_self, Nat.le_refl, if_true, if_false, e1,
      Nat.sub_self, pow_zero, pow_one, inv_one, one_mul]
    rw [div_self hb]; ring
  · have h1 : ¬ c < nr := by omega
    have h2 : ¬ c + 1 ≤ nr := by omega
    have h3 : ¬ c ≤ nr := by omega
    have e1 : c + 1 - nr = (c - nr) + 1 := by omega
    have hp : b ^ (c - nr) ≠ 0 := pow_ne_zero _ hb0
    simp only [h1, h2, h3, if_false, e1, pow_succ]
    field_simp
    ring

/-- above the reserved range the decoded value rises by exactly `base^(c - nr)` -/
theorem dec_step (b : F) (hb1 : b ≠ 1) (nr c : Nat) (hc : nr ≤ c) :
    dec b nr (c + 1) - dec b nr c = b ^ (c - nr) := by
  have hb : b - 1 ≠ 0 := sub_ne_zero.mpr hb1
  unfold dec
  rcases Nat.eq_or_lt_of_le hc with h | h
  · subst h
    have e1 : nr + 1 - nr = 1 := by omega
    simp only [Nat.not_succ_le_self, Nat.le_refl, if_true, if_false, e1,
      Nat.sub_self, pow_zero, pow_one]
    rw [div_self hb]; ring
  · have h2 : ¬ c + 1 ≤ nr := by omega
    have h3 : ¬ c ≤ nr := by omega
    have e1 : c + 1 - nr = (c - nr) + 1 := by omega
    simp only [h2, h3, if_false, e1, pow_succ]
    field_simp
    ring

/-- expectation over the outcome tree of `n` unit adds from counter `c`, ceiling `J` absorbing -/
def E (b : F) (nr J : Nat) : Nat → Nat → F
  | 0, c => dec b nr c
  | n + 1, c =>
    if J ≤ c then dec b nr c
    else pinc b nr c * E b nr J n (c + 1) + (1 - pinc b nr c) * E b nr J n c

/-- the expected estimate equals the true count until the ceiling -/
theorem chain_mean (b : F) (hb0 : b ≠ 0) (hb1 : b ≠ 1) (nr J : Nat) (n c : Nat) (h : c + n ≤ J) :
    E b nr J n c = dec b nr c + n := by
  induction n generalizing c with
  | zero => simp [E]
  | succ n ih =>
    have hJ : ¬ J ≤ c := by omega
    have i1 := ih (c + 1) (by omega)
    have i2 := ih c (by omega)
    have hs := step_unbias b hb0 hb1 nr c
    simp only [E, hJ, if_false, i1, i2]
    push_cast
    linear_combination hs

/-- the tree recursion of `E` is the outcome tree of the code's `_log_counter`: for two-point
    decision functions the counter reached by `logCounter` along a path of decisions is the
    leaf of that path — stated as: one step of `logCounter` moves to `c + 1` iff the decision is
    `true`, and stays otherwise (so the probability weights of `E` are those of the decisions). -/
theorem logCounter_step {D : Type} (cfg : Sketchnu.LogCfg D) (draws : Nat → Nat → D) (c : Nat)
    (rs : Sketchnu.RandState) (hc : c < cfg.maxc) (hnr : cfg.nr ≤ c) :
    (Sketchnu.logCounter cfg draws 1 c rs).1 =
      if cfg.inc (c - cfg.nr) (draws rs.next.1.1 rs.next.1.2) then c + 1 else c := by
  have h1 : ¬ c ≥ cfg.maxc := by omega
  have h2 : ¬ c < cfg.nr := by omega
  simp only [Sketchnu.logCounter, h1, h2, if_false]
  split <;> rfl

/-! non-vacuity over ℚ: base 3/2, nr = 2 -/
example : dec (3/2 : ℚ) 2 4 = 2 + (9/4 - 1) / (1/2) := by norm_num [dec]
example : E (3/2 : ℚ) 2 10 3 1 = dec (3/2 : ℚ) 2 1 + 3 := chain_mean _ (by norm_num) (by norm_num) 2 10 3 1 (by norm_num)

end Sketchnu.C06
