/-
  Properties/C03.lean — heavy hitters never over-count and never report a key that was not added.
  Any hash (`g.col`), any history tree, any key type with decidable equality (the key's identity:
  its first max_key_len bytes as a byte string — see `padKey_inj` below).

  STATEMENTS ARE FIXED.  Helper lemmas go to Proofs/HeavyHitters.lean.
-/
import Proofs.HeavyHitters
namespace Sketchnu.C03
open Sketchnu
variable {K : Type} [DecidableEq K]

/-- every stored count is at most the true count of the stored key -/
theorem cell_le_true (g : Geom K) (e : K) (h : Hist K) (r c : Nat) :
    ((HH.eval g e h).tab r c).cnt ≤ h.trueCount ((HH.eval g e h).tab r c).key := by
  exact HH.cell_le_true g e h r c

/-- `hh[key]` never exceeds the true total multiplicity of the key (nor the ceiling) -/
theorem C03_getitem (g : Geom K) (e : K) (h : Hist K) (k : K) :
    HH.getitem g (HH.eval g e h) k ≤ h.trueCount k := by
  exact HH.getitem_le_true g e h k

/-- a positive true count means the key occurs in the history -/
theorem trueCount_pos_mem (h : Hist K) (k : K) (hpos : 0 < h.trueCount k) : h.mem k := by
  exact Sketchnu.trueCount_pos_mem h k hpos

/-- every `(key, count)` returned by `query(k, threshold)` satisfies `count ≤ true count`, and a
    key that was never added is never reported with a positive count -/
theorem C03_query (g : Geom K) (e : K) (h : Hist K) (kk : Option Nat) (thr : Nat) :
    ∀ p ∈ HH.queryFresh g (HH.eval g e h) kk thr,
      p.2 ≤ h.trueCount p.1 ∧ (0 < p.2 → h.mem p.1) := by
  intro p hp
  have hc := HH.mem_of_mem_mostCommon p _ kk hp
  have hf := HH.candidates_form g (HH.eval g e h) thr p hc
  have hle : p.2 ≤ h.trueCount p.1 := by
    rw [hf]; exact HH.getitem_le_true g e h p.1
  exact ⟨hle, fun hpos => Sketchnu.trueCount_pos_mem h p.1 (by omega)⟩

/-- the same through the cache: whatever `HHQ.query` returns after rebuilding -/
theorem C03_query_cached (g : Geom K) (e : K) (h : Hist K) (kk : Option Nat) (thr : Nat) :
    ∀ p ∈ (HHQ.query g (HHQ.regen g { hh := HH.eval g e h, cand := [], nAddedSort := 0, thrSort := 0 } thr) kk thr).2,
      p.2 ≤ h.trueCount p.1 := by
  intro p hp
  have hq : (HHQ.query g (HHQ.regen g { hh := HH.eval g e h, cand := [], nAddedSort := 0, thrSort := 0 } thr) kk thr).2
      = HH.mostCommon (HH.candidates g (HH.eval g e h) thr) kk := by
    simp [HHQ.query, HHQ.regen]
  rw [hq] at hp
  exact (C03_query g e h kk thr p hp).1

/-- key identity: (zero-padded bytes, length) determines the truncated key and vice versa, so the
    code's comparison of `lhh` bytes and `key_lens` is equality of truncated keys -/
theorem padKey_inj (n : Nat) (a b : List UInt8) (ha : a.length ≤ n) (hb : b.length ≤ n)
    (h : padKey n a = padKey n b) : a = b := by
  unfold padKey at h
  have h1 := (Prod.mk.inj h).1
  have h2 := (Prod.mk.inj h).2
  exact (List.append_inj h1 h2).1

theorem truncKey_length (n : Nat) (key : List UInt8) : (truncKey n key).length ≤ n := by
  unfold truncKey
  simp [List.length_take]
  omega

/-- keys that differ only in trailing NUL bytes are different keys -/
example : padKey 4 [97] ≠ padKey 4 [97, 0] := by decide

/-! non-vacuity: width 1, `a`×3 then `b`×5 — `a` is displaced, nothing is over-counted -/
example :
    let g : Geom Nat := { depth := 1, width := 1, col := fun _ _ => 0 }
    let h : Hist Nat := .add (.add .new 1 3) 2 5
    HH.getitem g (HH.eval g 0 h) 1 = 0 ∧ HH.getitem g (HH.eval g 0 h) 2 = 2 ∧
    HH.queryFresh g (HH.eval g 0 h) none 0 = [(2, 2)] := by decide

end Sketchnu.C03
