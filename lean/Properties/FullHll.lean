/-
  Properties/FullHll.lean — the WHOLE HyperLogLog kernels as translated from the current source
  (`Model/Generated/FullHll.lean`) equal the hand-written model (`nlz64`, `Hll.add`, `Hll.merge`, `windows`).
-/
import Model.Generated.FullHll
import Model.Hll
import Proofs.Hll
import Proofs.RtLemmas
namespace Sketchnu.FullHll
open Sketchnu
variable {K B : Type} [DecidableEq B]

theorem n_leading_zeros64_full (x : Nat) : Full.n_leading_zeros64 x = nlz64 x := by
  unfold Full.n_leading_zeros64 nlz64
  simp only []
  repeat' split
  all_goals simp_all

/-- `m - 1` as a mask: for `m = 2^p`, `h &&& (m - 1) = h % 2^p` -/
theorem and_mask (h p : Nat) : h &&& (2 ^ p - 1) = h % 2 ^ p := Nat.and_two_pow_sub_one_eq_mod h p

/-- `_add` (after hashing) is `Hll.add` with the hash `fun k => ko.H k seed`, for `m = 2^p` -/
theorem hll_add_full (ko : Rt.KeyOps K B) (R : Regs) (seed p : Nat) (k : K) :
    Full.hll_add ko R seed p (2 ^ p) k = Hll.add p (fun k => ko.H k seed) R k := by
  unfold Full.hll_add Hll.add hllIdx hllRank
  simp only [n_leading_zeros64_full, and_mask]
  funext i
  simp only [Rt.set1_apply]
  split
  · next h => rw [h]
  · rfl

theorem hll_merge_full (A Bm : Regs) (m : Nat) :
    Full.hll_merge A Bm m = fun i => if i < m then Hll.merge A Bm i else A i := by
  unfold Full.hll_merge
  have key : ∀ d, Rt.loop d A (fun i registers => Rt.set1 registers i (max (registers i) (Bm i))) =
      fun i => if i < d then Hll.merge A Bm i else A i := by
    intro d
    induction d with
    | zero => funext i; simp
    | succ d ih =>
      rw [Rt.loop_succ, ih]
      funext i
      simp only [Rt.set1_apply, Hll.merge]
      grind
  simpa using key m

theorem hll_add_ngram_full (ko : Rt.KeyOps K B) (R : Regs) (seed p m : Nat) (key : K) (n : Nat) :
    Full.hll_add_ngram ko R seed p m key n =
      if ko.klen key ≤ n then Full.hll_add ko R seed p m key
      else (List.range (ko.klen key - (n - 1))).foldl (fun R i => Full.hll_add ko R seed p m (ko.slice key i (i + n))) R := by
  unfold Full.hll_add_ngram
  simp only [Rt.loop_eq_foldl]

/-- `_add_ngram` on byte strings adds exactly the model's `windows key n`, in order (`n ≥ 1`) -/
theorem hll_add_ngram_windows (H : List UInt8 → Nat → Nat) (R : Regs) (seed p : Nat) (key : List UInt8) (n : Nat) (hn : 1 ≤ n) :
    Full.hll_add_ngram (Rt.bytesOps H (fun _ _ => ())) R seed p (2 ^ p) key n =
      (windows key n).foldl (fun R w => Hll.add p (fun k => H k seed) R w) R := by
  rw [hll_add_ngram_full]
  unfold windows
  by_cases hk : key.length ≤ n
  · have : (Rt.bytesOps H (fun _ _ => ())).klen key ≤ n := hk
    simp only [this, hk, if_true, hll_add_full, List.foldl_cons, List.foldl_nil]
    rfl
  · have : ¬ (Rt.bytesOps H (fun _ _ => ())).klen key ≤ n := hk
    simp only [this, hk, if_false, List.foldl_map, hll_add_full]
    simp only [Rt.bytesOps_slice]
    rfl

end Sketchnu.FullHll
