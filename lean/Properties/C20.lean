/-
  Properties/C20.lean — a truncated sketch file is never loaded as a sketch.

  For a file as `np.savez` writes it (starts with a local header, the end-of-central-directory
  signature occurs exactly once, 22 bytes before the end, empty comment — `uniqueSig`, evaluated
  by the harness on every file it writes), EVERY strict prefix fails to open: `np.load` raises
  EOFError (empty), ValueError (1-3 bytes: not recognisable as zip) or BadZipFile (no complete
  end record).  sketchnu's loaders read members only inside `with np.load(...)`, so they raise.

  STATEMENTS ARE FIXED.  Helper lemmas go to Proofs/Npz.lean.
-/
import Proofs.Npz
namespace Sketchnu.C20
open Sketchnu

/-- an occurrence of a pattern in a prefix is an occurrence in the whole file at the same offset -/
theorem occursAt_take (pat f : BytesL) (L q : Nat) (h : occursAt pat (f.take L) q = true) :
    occursAt pat f q = true ∧ q + pat.length ≤ L := by
  rw [occursAt_iff] at h
  rw [List.length_take] at h
  obtain ⟨h1, h2⟩ := h
  have hq : q + pat.length ≤ L := by omega
  rw [slice_take f L q pat.length hq] at h1
  exact ⟨(occursAt_iff _ _ _).2 ⟨h1, by omega⟩, hq⟩

/-- no end record can be found in a strict prefix -/
theorem endRecData_prefix (f : BytesL) (hu : uniqueSig f = true) (L : Nat) (hL : L < f.length) :
    endRecData (f.take L) = none := by
  obtain ⟨h22, huniq, hocc, hz⟩ := uniqueSig_spec f hu
  have hlen : (f.take L).length = L := by rw [List.length_take]; omega
  have h4 : sigEOCD.length = 4 := rfl
  unfold endRecData
  simp only [hlen, sizeEndCentDir]
  split
  · rename_i h
    obtain ⟨ha, hb, _⟩ := h
    have ho : occursAt sigEOCD (f.take L) (L - 22) = true := by
      rw [occursAt_iff]
      exact ⟨by rw [h4]; exact hb, by rw [hlen, h4]; omega⟩
    have h1 := (occursAt_take _ _ _ _ ho).1
    have h2 := huniq _ h1
    omega
  · split
    · rfl
    · rename_i s hs
      have ho := rfind_sound _ _ _ hs
      have ho := occursAt_drop _ _ _ _ (by decide) ho
      obtain ⟨ho1, ho2⟩ := occursAt_take _ _ _ _ ho
      have h2 := huniq _ ho1
      rw [if_pos]
      rw [List.length_drop, hlen]
      omega

/-- every strict prefix of a saved file fails to load -/
theorem C20_prefix (f : BytesL) (hstart : f.take 4 = sigLocal) (hu : uniqueSig f = true) (L : Nat)
    (hL : L < f.length) : (npLoad (f.take L)).isError = true := by
  rw [npLoad_take_of_none f hstart L hL (endRecData_prefix f hu L hL)]
  split
  · rfl
  · split <;> rfl

/-- … with the documented error classes -/
theorem C20_prefix_classes (f : BytesL) (hstart : f.take 4 = sigLocal) (hu : uniqueSig f = true) (L : Nat)
    (hL : L < f.length) :
    npLoad (f.take L) = (if L = 0 then .eofError else if L < 4 then .valueError else .badZipFile) := by
  exact npLoad_take_of_none f hstart L hL (endRecData_prefix f hu L hL)

/-- only the complete file opens, at its end record -/
theorem C20_complete (f : BytesL) (hstart : f.take 4 = sigLocal) (hu : uniqueSig f = true) :
    npLoad f = .opened (f.length - sizeEndCentDir) := by
  obtain ⟨h22, huniq, hocc, hz⟩ := uniqueSig_spec f hu
  have hne : f ≠ [] := by
    intro h
    rw [h] at h22
    simp at h22
  have hb := ((occursAt_iff _ _ _).1 hocc).1
  have h4 : sigEOCD.length = 4 := rfl
  rw [h4] at hb
  have he : endRecData f = some (f.length - 22) := by
    unfold endRecData
    exact if_pos ⟨h22, hb, hz⟩
  simp [npLoad, hne, hstart, he, sizeEndCentDir]

/-- the signature has no self-overlap (why no occurrence can straddle the body / record boundary) -/
example : ∀ j ∈ [1, 2, 3], sigEOCD.drop j ≠ sigEOCD.take (4 - j) := by decide

/-! non-vacuity: a minimal "file": local header signature, 3 body bytes, end record -/
def tiny : BytesL := sigLocal ++ [1, 2, 3] ++ sigEOCD ++ List.replicate 18 0
example : uniqueSig tiny = true ∧ tiny.take 4 = sigLocal ∧ npLoad tiny = .opened 7 ∧
    (List.range tiny.length).all (fun L => (npLoad (tiny.take L)).isError) = true := by decide

/-! ### the `uniqueSig` hypothesis cannot be dropped (the known finding `C20:embedded-complete-archive`)

`crafted` is a file of the shape `save()` writes — local header signature, body, end record with an empty comment — whose
BODY contains a complete end record (array data is stored uncompressed and the 32-bit counters of a linear count-min or
heavy-hitter sketch are caller-chosen values, so a body can spell any bytes).  `zipfile._EndRecData` tolerates trailing
bytes after the record it finds, so strict prefixes that contain the embedded record open. -/
def crafted : BytesL :=
  sigLocal ++ [1, 2, 3] ++ (sigEOCD ++ List.replicate 18 0) ++ [9, 9, 9, 9, 9] ++ sigEOCD ++ List.replicate 18 0

theorem C20_needs_uniqueSig :
    crafted.take 4 = sigLocal ∧ uniqueSig crafted = false ∧
    (∃ L, L < crafted.length ∧ (npLoad (crafted.take L)).isError = false) ∧
    -- … precisely the prefixes that contain the embedded record and not yet the signature of the real one
    (List.range crafted.length).all (fun L => (npLoad (crafted.take L)).isError == decide (L < 29 ∨ 38 ≤ L)) = true ∧
    npLoad crafted = .opened (crafted.length - sizeEndCentDir) := by
  refine ⟨by decide, by decide, ⟨29, by decide, by decide⟩, by decide, by decide⟩

end Sketchnu.C20
