/-
  Properties/C20.lean — a truncated sketch file is never loaded as a sketch.

  For a file as `np.savez` writes it (starts with a local header, the end-of-central-directory
  signature occurs exactly once, 22 bytes before the end, empty comment — `uniqueSig`, evaluated
  by the harness on every file it writes), EVERY strict prefix fails to open: `np.load` raises
  EOFError (empty), ValueError (1-3 bytes: not recognisable as zip) or BadZipFile (no complete
  end record).  sketchnu's loaders read members only inside `with np.load(...)`, so they raise.

  STATEMENTS ARE FIXED.  Helper lemmas go to Proofs/Npz.lean.
-/
import Proofs.Npz
namespace Sketchnu.C20
open Sketchnu

/-- an occurrence of a pattern in a prefix is an occurrence in the whole file at the same offset -/
theorem occursAt_take (pat f : BytesL) (L q : Nat) (h : occursAt pat (f.take L) q = true) :
    occursAt pat f q = true ∧ q + pat.length ≤ L := by
  sorry

/-- no end record can be found in a strict prefix -/
theorem endRecData_prefix (f : BytesL) (hu : uniqueSig f = true) (L : Nat) (hL : L < f.length) :
    endRecData (f.take L) = none := by
  sorry

/-- every strict prefix of a saved file fails to load -/
theorem C20_prefix (f : BytesL) (hstart : f.take 4 = sigLocal) (hu : uniqueSig f = true) (L : Nat)
    (hL : L < f.length) : (npLoad (f.take L)).isError = true := by
  sorry

/-- … with the documented error classes -/
theorem C20_prefix_classes (f : BytesL) (hstart : f.take 4 = sigLocal) (hu : uniqueSig f = true) (L : Nat)
    (hL : L < f.length) :
    npLoad (f.take L) = (if L = 0 then .eofError else if L < 4 then .valueError else .badZipFile) := by
  sorry

/-- only the complete file opens, at its end record -/
theorem C20_complete (f : BytesL) (hstart : f.take 4 = sigLocal) (hu : uniqueSig f = true) :
    npLoad f = .opened (f.length - sizeEndCentDir) := by
  sorry

/-- the signature has no self-overlap (why no occurrence can straddle the body / record boundary) -/
example : ∀ j ∈ [1, 2, 3], sigEOCD.drop j ≠ sigEOCD.take (4 - j) := by decide

/-! non-vacuity: a minimal "file": local header signature, 3 body bytes, end record -/
def tiny : BytesL := sigLocal ++ [1, 2, 3] ++ sigEOCD ++ List.replicate 18 0
example : uniqueSig tiny = true ∧ tiny.take 4 = sigLocal ∧ npLoad tiny = .opened 7 ∧
    (List.range tiny.length).all (fun L => (npLoad (tiny.take L)).isError) = true := by decide

end Sketchnu.C20
