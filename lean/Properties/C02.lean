/-
  Properties/C02.lean — HyperLogLog state depends only on the set of distinct keys.
  `H : K → Nat` is an arbitrary hash with values `< 2^64` (so also FastHash with any seed).

  STATEMENTS ARE FIXED.  Helper lemmas go to Proofs/Hll.lean.
-/
import Proofs.Hll
namespace Sketchnu.C02
open Sketchnu
variable {K : Type} [DecidableEq K]

/-- `_n_leading_zeros64` really counts leading zeros of a 64-bit value -/
theorem nlz64_spec (x : Nat) (hx : x < 2 ^ 64) : nlz64 x = 64 - bitLen x := by
  exact nlz64_eq x hx

/-- `bitLen` is the number of binary digits -/
theorem bitLen_spec (x : Nat) (n : Nat) : bitLen x ≤ n ↔ x < 2 ^ n := by
  exact bitLen_le_iff x n

/-- rank = 1 + number of leading zeros of the remaining 64-p bits; between 1 and 64-p+1 -/
theorem rank_spec (p h : Nat) (hp : p ≤ 64) (hh : h < 2 ^ 64) :
    hllRank p h = (64 - p) - bitLen (h / 2 ^ p) + 1 ∧ 1 ≤ hllRank p h ∧ hllRank p h ≤ 64 - p + 1 := by
  have h1 := hllRank_eq p h hh
  refine ⟨h1, ?_, ?_⟩ <;> omega

/-- Each register holds the maximum, over the added keys whose hash has that register index,
    of the rank (0 if there is none): upper bound … -/
theorem C02_denote_le (p : Nat) (H : K → Nat) (h : Hist K) (i : Nat) :
    ∀ k, h.mem k → hllIdx p (H k) = i → hllRank p (H k) ≤ Hll.eval p H h i := by
  exact Hll.eval_ge p H h i

/-- … and attainment -/
theorem C02_denote_attained (p : Nat) (H : K → Nat) (h : Hist K) (i : Nat) :
    Hll.eval p H h i = 0 ∨ ∃ k, h.mem k ∧ hllIdx p (H k) = i ∧ Hll.eval p H h i = hllRank p (H k) := by
  exact Hll.eval_attained p H h i

/-- the register state depends only on the *set* of keys that occur in the history:
    insertion order, duplicates, multiplicities, partition over sketches and merge-tree shape
    are all irrelevant -/
theorem C02_setOnly (p : Nat) (H : K → Nat) (hp : p ≤ 64) (hH : ∀ k, H k < 2 ^ 64) (h₁ h₂ : Hist K)
    (hset : ∀ k, h₁.mem k ↔ h₂.mem k) : Hll.eval p H h₁ = Hll.eval p H h₂ := by
  exact Hll.eval_setOnly p H h₁ h₂ hset

/-- feeding each distinct key exactly once, in any order, to a fresh sketch gives the same state -/
def ofList (l : List K) : Hist K := l.foldl (fun h k => Hist.add h k 1) Hist.new

theorem C02_fresh (p : Nat) (H : K → Nat) (hp : p ≤ 64) (hH : ∀ k, H k < 2 ^ 64) (h : Hist K)
    (l : List K) (hl : ∀ k, k ∈ l ↔ h.mem k) : Hll.eval p H h = Hll.eval p H (ofList l) := by
  apply C02_setOnly p H hp hH
  intro k
  unfold ofList
  rw [Hll.mem_foldl_add]
  simp only [Hist.mem, false_or]
  exact (hl k).symm

theorem merge_comm (A B : Regs) : Hll.merge A B = Hll.merge B A := by
  funext i; simp only [Hll.merge]; omega

theorem merge_assoc (A B C : Regs) : Hll.merge (Hll.merge A B) C = Hll.merge A (Hll.merge B C) := by
  funext i; simp only [Hll.merge]; omega

theorem merge_idem (A : Regs) : Hll.merge A A = A := by
  funext i; simp only [Hll.merge]; omega

theorem merge_empty (A : Regs) : Hll.merge A Hll.empty = A := by
  funext i; simp only [Hll.merge, Hll.empty]; omega

/-- adding a key twice is the same as adding it once (the multiplicity argument is ignored by
    construction of `Hll.eval`) -/
theorem add_idem (p : Nat) (H : K → Nat) (R : Regs) (k : K) :
    Hll.add p H (Hll.add p H R k) k = Hll.add p H R k := by
  funext i; simp only [Hll.add]; split <;> omega

theorem add_comm (p : Nat) (H : K → Nat) (R : Regs) (k k' : K) :
    Hll.add p H (Hll.add p H R k) k' = Hll.add p H (Hll.add p H R k') k := by
  funext i; simp only [Hll.add]; split <;> split <;> omega

/-- sliding windows: when `len ≤ n` the key itself, else exactly `len - n + 1` windows of length `n`,
    the `i`-th being `key[i : i+n]` -/
theorem windows_spec {α : Type} (key : List α) (n : Nat) (hn : 1 ≤ n) :
    (key.length ≤ n → windows key n = [key]) ∧
    (n < key.length → (windows key n).length = key.length - n + 1 ∧
      ∀ i, i < key.length - n + 1 → (windows key n)[i]? = some ((key.drop i).take n) ∧
        ((key.drop i).take n).length = n) := by
  refine ⟨fun h => by unfold windows; rw [if_pos h], fun h => ?_⟩
  have hlen : (windows key n).length = key.length - n + 1 := by
    unfold windows
    rw [if_neg (by omega)]
    simp only [List.length_map, List.length_range]
    omega
  refine ⟨hlen, fun i hi => ⟨?_, ?_⟩⟩
  · unfold windows
    rw [if_neg (by omega)]
    rw [List.getElem?_map, List.getElem?_range (by omega)]
    rfl
  · rw [List.length_take, List.length_drop]
    omega

/-! non-vacuity: the empty key hashes to 0 for seed 0 and drives register 0 to 64-p+1 -/
example : hllRank 7 0 = 58 ∧ hllIdx 7 0 = 0 := by decide
example : hllRank 16 (2 ^ 64 - 1) = 1 ∧ hllIdx 16 (2 ^ 64 - 1) = 65535 := by decide

end Sketchnu.C02
