/-
  Properties/SrcPar.lean — the exit-code monitor of `parallel_add` as TRANSLATED FROM THE CURRENT
  SOURCE (`Model/Generated/KernelsPar.lean`) is the model's polling pass: after one pass over the
  workers' exit codes, `any_none` is "some worker still runs", and as soon as one code is non-zero both
  queues are closed and EVERY worker has been killed (so the loop cannot wait forever for a survivor).
-/
import Model.Generated.KernelsPar
import Model.Parallel
namespace Sketchnu.SrcPar
open Sketchnu

def nonzero : Option Int → Bool
  | some n => n != 0
  | none => false

/-- one pass of `for i, p in enumerate(workers)` -/
def pass (codes : List (Option Int)) (st : Bool × Bool × Bool) : Bool × Bool × Bool :=
  codes.foldl (fun st c => Src.monitorStep c.isNone (nonzero c) st.1 st.2.1 st.2.2) st

theorem pass_spec (codes : List (Option Int)) (anyNone closed killed : Bool) :
    (pass codes (anyNone, closed, killed)).1 = (anyNone || pollAnyNone codes) ∧
    (pass codes (anyNone, closed, killed)).2.1 = (closed || pollClosed codes) ∧
    (pass codes (anyNone, closed, killed)).2.2 = (killed || pollClosed codes) := by
  induction codes generalizing anyNone closed killed with
  | nil => simp [pass, pollAnyNone, pollClosed]
  | cons c cs ih =>
    have hstep : pass (c :: cs) (anyNone, closed, killed) =
        pass cs (Src.monitorStep c.isNone (nonzero c) anyNone closed killed) := rfl
    rw [hstep]
    cases c with
    | none =>
      have e : Src.monitorStep (none : Option Int).isNone (nonzero none) anyNone closed killed = (true, closed, killed) := by
        simp [Src.monitorStep]
      rw [e, (ih true closed killed).1, (ih true closed killed).2.1, (ih true closed killed).2.2]
      simp [pollAnyNone, pollClosed]
    | some n =>
      by_cases hn : n = 0
      · subst hn
        have e : Src.monitorStep (some (0 : Int)).isNone (nonzero (some 0)) anyNone closed killed = (anyNone, closed, killed) := by
          simp [Src.monitorStep, nonzero]
        rw [e, (ih anyNone closed killed).1, (ih anyNone closed killed).2.1, (ih anyNone closed killed).2.2]
        simp [pollAnyNone, pollClosed]
      · have e : Src.monitorStep (some n).isNone (nonzero (some n)) anyNone closed killed = (anyNone, true, true) := by
          simp [Src.monitorStep, nonzero, hn]
        rw [e, (ih anyNone true true).1, (ih anyNone true true).2.1, (ih anyNone true true).2.2]
        simp [pollAnyNone, pollClosed, hn]

/-- the model's `monitor` is the iteration of the source's pass; a non-zero exit code closes the queues
    and kills every worker in that very pass -/
theorem monitor_src (codes : List (Option Int)) (closed : Bool) :
    (pass codes (false, closed, false)).1 = pollAnyNone codes ∧
    (pass codes (false, closed, false)).2.1 = (closed || pollClosed codes) ∧
    (pollClosed codes = true → (pass codes (false, closed, false)).2.2 = true) := by
  have h := pass_spec codes false closed false
  refine ⟨by simpa using h.1, h.2.1, fun hc => by rw [h.2.2, hc]; rfl⟩

end Sketchnu.SrcPar
