/-
  Properties/SrcPar.lean — the exit-code monitor of `parallel_add` as TRANSLATED FROM THE CURRENT
  SOURCE (`Model/Generated/KernelsPar.lean`) is the model's polling pass: after one pass over the
  workers' exit codes, `any_none` is "some worker still runs", and as soon as one code is non-zero both
  queues are closed and EVERY worker has been killed (so the loop cannot wait forever for a survivor).
-/
import Model.Generated.KernelsPar
import Model.Parallel
namespace Sketchnu.SrcPar
open Sketchnu

def nonzero : Option Int → Bool
  | some n => n != 0
  | none => false

/-- one pass of `for i, p in enumerate(workers)` -/
def pass (codes : List (Option Int)) (st : Bool × Bool × Bool) : Bool × Bool × Bool :=
  codes.foldl (fun st c => Src.monitorStep c.isNone (nonzero c) st.1 st.2.1 st.2.2) st

theorem pass_spec (codes : List (Option Int)) (anyNone closed killed : Bool) :
    (pass codes (anyNone, closed, killed)).1 = (anyNone || pollAnyNone codes) ∧
    (pass codes (anyNone, closed, killed)).2.1 = (closed || pollClosed codes) ∧
    (pass codes (anyNone, closed, killed)).2.2 = (killed || pollClosed codes) := by
  induction codes generalizing anyNone closed killed with
  | nil => simp [pass, pollAnyNone, pollClosed]
  | cons c cs ih =>
    have hstep : pass (c :: cs) (anyNone, closed, killed) =
        pass cs (Src.monitorStep c.isNone (nonzero c) anyNone closed killed) := rfl
    rw [hstep]
    cases c with
    | none =>
      have e : Src.monitorStep (none : Option Int).isNone (nonzero none) anyNone closed killed = (true, closed, killed) := by
        simp [Src.monitorStep]
      rw [e, (ih true closed killed).1, (ih true closed killed).2.1, (ih true closed killed).2.2]
      simp [pollAnyNone, pollClosed]
    | some n =>
      by_cases hn : n = 0
      · subst hn
        have e : Src.monitorStep (some (0 : Int)).isNone (nonzero (some 0)) anyNone closed killed = (anyNone, closed, killed) := by
          simp [Src.monitorStep, nonzero]
        rw [e, (ih anyNone closed killed).1, (ih anyNone closed killed).2.1, (ih anyNone closed killed).2.2]
        simp [pollAnyNone, pollClosed]
      · have e : Src.monitorStep (some n).isNone (nonzero (some n)) anyNone closed killed = (anyNone, true, true) := by
          simp [Src.monitorStep, nonzero, hn]
        rw [e, (ih anyNone true true).1, (ih anyNone true true).2.1, (ih anyNone true true).2.2]
        simp [pollAnyNone, pollClosed, hn]

/-- the model's `monitor` is the iteration of the source's pass; a non-zero exit code closes the queues
    and kills every worker in that very pass -/
theorem monitor_src (codes : List (Option Int)) (closed : Bool) :
    (pass codes (false, closed, false)).1 = pollAnyNone codes ∧
    (pass codes (false, closed, false)).2.1 = (closed || pollClosed codes) ∧
    (pollClosed codes = true → (pass codes (false, closed, false)).2.2 = true) := by
  have h := pass_spec codes false closed false
  refine ⟨by simpa using h.1, h.2.1, fun hc => by rw [h.2.2, hc]; rfl⟩


/-! ### `parallel_merging`: the round structure as translated from the source is the model's `mergeRound` -/

theorem survivors_succ2 (n : Nat) : Src.survivors (n + 2) = 0 :: (Src.survivors n).map (· + 2) := by
  unfold Src.survivors
  have : (n + 2 - 0 + 2 - 1) / 2 = (n - 0 + 2 - 1) / 2 + 1 := by omega
  rw [this, List.range_succ_eq_map]
  simp [List.map_map, Function.comp_def]
  intro a _
  omega

theorem mergePairs_succ2 (n : Nat) : Src.mergePairs (n + 2) = (0, 1) :: (Src.mergePairs n).map (fun p => (p.1 + 2, p.2 + 2)) := by
  unfold Src.mergePairs
  have : (n + 2) / 2 = n / 2 + 1 := by omega
  rw [this, List.range_succ_eq_map]
  simp [List.map_map, Function.comp_def]
  intro a _
  omega

/-- one round of `parallel_merging` over the list `l` of sketches: position `j` of the next round holds `merge l[2j] l[2j+1]` when the
    survivor `2j` has a right neighbour, and the unmerged last sketch otherwise — the model's `mergeRound` (no sketch is dropped) -/
theorem mergeRound_src {S : Type} (merge : S → S → S) (d : S) : ∀ (l : List S),
    mergeRound merge l = (Src.survivors l.length).map
      (fun j => if j + 1 < l.length then merge (l.getD j d) (l.getD (j + 1) d) else l.getD j d)
  | [] => by simp [mergeRound, Src.survivors]
  | [a] => by simp [mergeRound, Src.survivors]
  | a :: b :: rest => by
    rw [mergeRound, mergeRound_src merge d rest]
    simp only [List.length_cons, survivors_succ2, List.map_cons, List.map_map]
    congr 1
    · simp
      intro j _
      by_cases h : j + 1 < rest.length
      · have h' : j + 2 < rest.length + 1 := by omega
        rw [if_pos h, if_pos h']
      · have h' : ¬ (j + 2 < rest.length + 1) := by omega
        rw [if_neg h, if_neg h']

/-- the pairs handed to `_merge_worker` are exactly (survivor, its right neighbour) for every survivor that has one -/
theorem mergePairs_src : ∀ (n : Nat), Src.mergePairs n = ((Src.survivors n).filter (fun j => decide (j + 1 < n))).map (fun j => (j, j + 1))
  | 0 => by simp [Src.mergePairs, Src.survivors]
  | 1 => by simp [Src.mergePairs, Src.survivors]
  | n + 2 => by
    rw [mergePairs_succ2, survivors_succ2, mergePairs_src n]
    simp [List.filter_map, List.map_map, Function.comp_def]
    congr 1
    apply List.filter_congr
    intro x _
    simp
    omega


/-! ### `_worker` (required by the translator to read exactly as modelled): record accounting and the pill test -/

/-- the worker's `n_records` after processing `got` is the model's `workerRecords`: the sum of the callback's return values over the
    items on which it did not raise -/
theorem workerRecords_src {I K : Type} (cb : I → Outcome K) (got : List I) (n0 : Nat) :
    got.foldl (fun n x => Src.workerTurn n (cb x).ret) n0 = n0 + workerRecords cb got := by
  induction got generalizing n0 with
  | nil => simp [workerRecords]
  | cons x xs ih =>
    rw [List.foldl_cons, ih]
    simp only [workerRecords, List.map_cons, List.sum_cons, Src.workerTurn]
    cases (cb x).ret <;> simp <;> omega

/-- only the poison pill (`None`) stops a worker: every item, whatever its truth value, is processed -/
theorem workerIsItem_src {I : Type} (q : Option I) : Src.workerIsItem q = true ↔ q ≠ none := by
  cases q <;> simp [Src.workerIsItem]

/-- at the pill the worker adds exactly its record total to the sketch's second bookkeeping counter -/
theorem workerFinish_src {I K : Type} (cb : I → Outcome K) (got : List I) (r0 : Nat) :
    Src.workerFinish r0 (got.foldl (fun n x => Src.workerTurn n (cb x).ret) 0) = r0 + workerRecords cb got := by
  rw [workerRecords_src]; simp [Src.workerFinish]

end Sketchnu.SrcPar
