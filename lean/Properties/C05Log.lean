/-
  Properties/C05Log.lean — C05 for log8/log16 sketches: one-step theorems for every state, every
  key and multiplicity, ARBITRARY draws and an arbitrary decision function `cfg.inc`
  (only `inc 0 u = true`, i.e. `rand < base**0`, is assumed where exactness is claimed).

  STATEMENTS ARE FIXED.  Helper lemmas go to Proofs/LogCounter.lean.
-/
import Proofs.LogCounter
namespace Sketchnu.C05
open Sketchnu
variable {K D : Type} [DecidableEq K]

/-- a counter advances by between 0 and `v` steps … -/
theorem logCounter_steps (cfg : LogCfg D) (draws : Nat → Nat → D) (v c : Nat) (rs : RandState) :
    c ≤ (logCounter cfg draws v c rs).1 ∧ (logCounter cfg draws v c rs).1 ≤ c + v := Sketchnu.logCounter_steps cfg draws v c rs

/-- … never past the maximum counter … -/
theorem logCounter_le_max (cfg : LogCfg D) (draws : Nat → Nat → D) (v c : Nat) (rs : RandState)
    (hc : c ≤ cfg.maxc) : (logCounter cfg draws v c rs).1 ≤ cfg.maxc := Sketchnu.logCounter_le_max cfg draws v c rs hc

/-- … and by exactly `v` while the result is `≤ num_reserved + 1` -/
theorem logCounter_exact (cfg : LogCfg D) (draws : Nat → Nat → D) (v c : Nat) (rs : RandState)
    (h0 : ∀ u, cfg.inc 0 u = true) (hnr : cfg.nr < cfg.maxc) (hfit : c + v ≤ cfg.nr + 1) :
    (logCounter cfg draws v c rs).1 = c + v := Sketchnu.logCounter_exact cfg draws v c rs h0 hnr hfit

/-- draws are consumed one per probabilistic step, never more than `v` -/
theorem logCounter_draws (cfg : LogCfg D) (draws : Nat → Nat → D) (v c : Nat) (rs : RandState)
    (hp : rs.ptr ≤ BATCH) :
    rs.consumed ≤ (logCounter cfg draws v c rs).2.consumed ∧
    (logCounter cfg draws v c rs).2.consumed ≤ rs.consumed + v ∧
    (logCounter cfg draws v c rs).2.ptr ≤ BATCH := Sketchnu.logCounter_draws cfg draws v c rs hp

theorem log_add_steps (g : Geom K) (cfg : LogCfg D) (draws : Nat → Nat → D) (s : Log) (k : K) (v : Nat) :
    Log.queryC g cfg s k ≤ Log.queryC g cfg (Log.add g cfg draws s k v) k ∧
    Log.queryC g cfg (Log.add g cfg draws s k v) k ≤ Log.queryC g cfg s k + v := by
  rw [Log.add_self]; exact Sketchnu.logCounter_steps cfg draws v _ s.rs

theorem log_add_exact (g : Geom K) (cfg : LogCfg D) (draws : Nat → Nat → D) (s : Log) (k : K) (v : Nat)
    (h0 : ∀ u, cfg.inc 0 u = true) (hnr : cfg.nr < cfg.maxc)
    (hfit : Log.queryC g cfg s k + v ≤ cfg.nr + 1) :
    Log.queryC g cfg (Log.add g cfg draws s k v) k = Log.queryC g cfg s k + v := by
  rw [Log.add_self]; exact Sketchnu.logCounter_exact cfg draws v _ s.rs h0 hnr hfit

theorem log_add_mono (g : Geom K) (cfg : LogCfg D) (draws : Nat → Nat → D) (s : Log) (k k' : K) (v : Nat) :
    Log.queryC g cfg s k' ≤ Log.queryC g cfg (Log.add g cfg draws s k v) k' := Log.add_mono g cfg draws s k k' v

theorem log_add_bound (g : Geom K) (cfg : LogCfg D) (draws : Nat → Nat → D) (s : Log) (k k' : K) (v : Nat) :
    Log.queryC g cfg (Log.add g cfg draws s k v) k' ≤
      max (Log.queryC g cfg s k') (Log.queryC g cfg (Log.add g cfg draws s k v) k) := Log.add_bound g cfg draws s k k' v

theorem log_add_local (g : Geom K) (cfg : LogCfg D) (draws : Nat → Nat → D) (s : Log) (k : K) (v : Nat)
    (r c : Nat) (hne : (Log.add g cfg draws s k v).tab r c ≠ s.tab r c) :
    r < g.depth ∧ c = g.col r k := Log.add_local g cfg draws s k v r c hne

theorem log_add_nadded (g : Geom K) (cfg : LogCfg D) (draws : Nat → Nat → D) (s : Log) (k : K) (v : Nat) :
    (Log.add g cfg draws s k v).nAdded = s.nAdded + v ∧
    (Log.add g cfg draws s k v).nRecords = s.nRecords := Log.add_books g cfg draws s k v

/-- the exact kernel model meets the log add contract, for any draws -/
theorem log_add_ok (g : Geom K) (cfg : LogCfg D) (draws : Nat → Nat → D) (s : Log) (k : K) (v : Nat)
    (h0 : ∀ u, cfg.inc 0 u = true) (hnr : cfg.nr < cfg.maxc) :
    LogAddOK g cfg.nr cfg.maxc s.tab k v (Log.add g cfg draws s k v).tab := Log.add_ok g cfg draws s k v h0 hnr

end Sketchnu.C05
