/-
  Properties/FullLogMerge.lean — the log merge kernels `_merge_log16` / `_merge_log8` and the class methods `CountMinLog16/8.merge`
  as translated from the current source: the loop nest applies the cell function at every cell of the `depth × width` block and
  nowhere else, the two bookkeeping counters are summed.  Kept apart from Properties/FullLog.lean (queries and adds) so that a
  change to a merge kernel breaks the obligations of the merge properties only.
-/
import Model.Generated.FullLog
import Model.Generated.Methods
import Properties.FullLin
import Proofs.LogContract
namespace Sketchnu.FullLog
open Sketchnu Sketchnu.FullLin
variable {K B : Type} [DecidableEq B]

/-! ### `_merge_log16` / `_merge_log8`: the loop nest visits every cell of the block once and nothing else.
    `cell a b` is the body of the innermost loop as a function of the two cell values (see the generated docstring). -/

theorem merge_row (cell : Nat → Nat → Nat) (A Bt : Tab) (i w : Nat) :
    Rt.loop w A (fun col cms => Rt.set2 cms i col (cell (cms i col) (Bt i col))) =
      fun r c => if r = i ∧ c < w then cell (A r c) (Bt r c) else A r c := by
  induction w with
  | zero => funext r c; simp
  | succ w ih =>
    rw [Rt.loop_succ, ih]
    funext r c
    simp only [Rt.set2_apply]
    grind

theorem merge_cells (cell : Nat → Nat → Nat) (A Bt : Tab) (width d : Nat) :
    Rt.loop d A (fun row cms => Rt.loop width cms (fun col cms => Rt.set2 cms row col (cell (cms row col) (Bt row col)))) =
      fun r c => if r < d ∧ c < width then cell (A r c) (Bt r c) else A r c := by
  induction d with
  | zero => funext r c; simp
  | succ d ih =>
    rw [Rt.loop_succ, ih, merge_row]
    funext r c
    grind

/-- the table and the two bookkeeping counters after `_merge_log16`, for ANY cell function -/
def mergeLogSpecK (cell : Nat → Nat → Nat) (A Bt : Tab) (width depth : Nat) (nar onar : Nat → Nat) : Tab × (Nat → Nat) :=
  (fun r c => if r < depth ∧ c < width then cell (A r c) (Bt r c) else A r c,
   Rt.set1 (Rt.set1 nar 0 (nar 0 + onar 0)) 1 (nar 1 + onar 1))

theorem merge_log16_full (cell : Nat → Nat → Nat) (A Bt : Tab) (width depth mc maxc nr : Nat) (nar onar : Nat → Nat) :
    Full.merge_log16 cell A Bt width depth mc maxc nr nar onar = mergeLogSpecK cell A Bt width depth nar onar := by
  unfold Full.merge_log16 mergeLogSpecK
  have := merge_cells cell A Bt width depth
  simp only [] at this ⊢
  rw [this]
  congr 1

theorem merge_log8_full (cell : Nat → Nat → Nat) (A Bt : Tab) (width depth mc maxc nr : Nat) (nar onar : Nat → Nat) :
    Full.merge_log8 cell A Bt width depth mc maxc nr nar onar = mergeLogSpecK cell A Bt width depth nar onar := by
  unfold Full.merge_log8 mergeLogSpecK
  have := merge_cells cell A Bt width depth
  simp only [] at this ⊢
  rw [this]
  congr 1

/-- with the cell body behaving as the nearest-counter specification, the kernel meets the merge contract of `Proofs/LogContract.lean` -/
theorem merge_log_contract [DecidableEq K] (ko : Rt.KeyOps K B) (d : Nat → Nat) (maxc mcS : Nat) (A Bt : Tab) (width depth : Nat) (nar onar : Nat → Nat) :
    LogMergeOK (geomOf ko depth width) d maxc mcS A Bt (mergeLogSpecK (mergeLogSpec d maxc mcS) A Bt width depth nar onar).1 := by
  intro r c hr hc
  have hr' : r < depth := hr
  have hc' : c < width := hc
  simp [mergeLogSpecK, hr', hc']

end Sketchnu.FullLog

namespace Sketchnu.FullApi
open Sketchnu

theorem log_merge_api {cell : Nat → Nat → Nat} {A Bt : Tab} {width depth mc maxc nr : Nat} {nar onar : Nat → Nat} :
    Full.log16_merge cell A Bt width depth mc maxc nr nar onar = FullLog.mergeLogSpecK cell A Bt width depth nar onar ∧
    Full.log8_merge cell A Bt width depth mc maxc nr nar onar = FullLog.mergeLogSpecK cell A Bt width depth nar onar := by
  constructor
  · unfold Full.log16_merge; simp only [FullLog.merge_log16_full]
  · unfold Full.log8_merge; simp only [FullLog.merge_log8_full]

end Sketchnu.FullApi
