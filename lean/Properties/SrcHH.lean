/-
  Properties/SrcHH.lean — the heavy-hitter cell rules of `_add` and `_merge` as translated from the
  current source equal `HCell.add` / `HCell.merge` on keys represented as (padded bytes, length),
  the match test being "lengths equal and bytes equal".
-/
import Model.Generated.KernelsHH
import Model.HeavyHitters
namespace Sketchnu.SrcHH
open Sketchnu
variable {B : Type} [DecidableEq B]

theorem hhAdd_src (c : HCell (B × Nat)) (kb : B) (kl v : Nat) :
    let r := Src.hhAddCell (decide (c.key.2 = kl ∧ kb = c.key.1)) c.key.1 kb c.cnt c.key.2 kl v CAP
    HCell.add c (kb, kl) v = { key := (r.1, r.2.2), cnt := r.2.1 } := by
  obtain ⟨⟨cb, cl⟩, cnt⟩ := c
  unfold HCell.add Src.hhAddCell
  simp only [Prod.mk.injEq, decide_eq_true_eq]
  by_cases h1 : cl = kl <;> by_cases h2 : kb = cb <;> simp_all <;> (repeat' split) <;> simp_all

theorem hhMerge_src (a b : HCell (B × Nat)) :
    let r := Src.hhMergeCell (decide (a.key.1 = b.key.1 ∧ a.key.2 = b.key.2)) a.key.1 b.key.1 a.cnt b.cnt a.key.2 b.key.2 CAP
    HCell.merge a b = { key := (r.1, r.2.2), cnt := r.2.1 } := by
  obtain ⟨⟨ab, al⟩, ac⟩ := a
  obtain ⟨⟨bb, bl⟩, bc⟩ := b
  unfold HCell.merge Src.hhMergeCell
  simp only [Prod.mk.injEq, decide_eq_true_eq]
  by_cases h1 : ab = bb <;> by_cases h2 : al = bl <;> simp_all <;> (repeat' split) <;> simp_all

/-- the row loop of `_max_count` as translated from the source is the step of `HH.maxRows` -/
theorem hhMaxStep_src (g : Geom (B × Nat)) (T : HTab (B × Nat)) (k : B × Nat) (d : Nat) :
    HH.maxRows g T k (d + 1) =
      Src.hhMaxStep (decide ((T d (g.col d k)).key.2 = k.2 ∧ k.1 = (T d (g.col d k)).key.1)) (T d (g.col d k)).cnt (HH.maxRows g T k d) := by
  obtain ⟨kb, kl⟩ := k
  unfold Src.hhMaxStep
  simp only [HH.maxRows, decide_eq_true_eq]
  rcases hc : (T d (g.col d (kb, kl))).key with ⟨cb, cl⟩
  by_cases h1 : cl = kl <;> by_cases h2 : kb = cb <;> simp_all [Prod.ext_iff] <;> (repeat' split) <;> (try simp_all) <;> (try omega) <;>
    (try (intro h; exact absurd h.symm h2))

end Sketchnu.SrcHH
