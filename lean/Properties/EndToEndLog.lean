/-
  Properties/EndToEndLog.lean — the chain closed for the log8/log16 count-min sketches: run ANY history of adds and merges with the
  definitions GENERATED from the current source (`Full.log16_add`, `Full.log16_merge`, `Full.log8_add`, `Full.log8_merge` — the class
  methods with the whole Numba kernels inside) and the table is reachable by contract-respecting steps (`LogReach`), so the
  history theorems of C06 (exact zone: lower bound, upper bound, exactness) hold for the code as it reads now.

  Two float-valued pieces are parameters of the generated kernels and are constrained here by what the theorems need, not by
  their float evaluation:  `_log_counter` is any `lc` satisfying `LcOK` (which the model's `logCounter` does for every draw
  sequence and every pointer: `model_lcOK`), possibly a different one at every node of the history (`lcAt`);  the body of the
  merge loops is the nearest-counter specification `mergeLogSpec d maxc mcS` (the float code is compared with it bit for bit
  by the correspondence, `mergeLogCellF`).
-/
import Properties.FullApi
import Properties.FullLogMerge
import Properties.C06
import Properties.C09
import Proofs.LogCounter
namespace Sketchnu.EndToEndLog
open Sketchnu Sketchnu.FullLin Sketchnu.FullLog
variable {K B D : Type} [DecidableEq K] [DecidableEq B]

/-- what the step contract of an add needs of `_log_counter(counter, …, rand_ptr, value)`, counter-wise -/
structure LcOK (nr maxc : Nat) (lc : Nat → Nat → Nat → Nat × Nat) : Prop where
  ge    : ∀ c rp v, c ≤ (lc c rp v).1
  le    : ∀ c rp v, (lc c rp v).1 ≤ c + v
  cap   : ∀ c rp v, c ≤ maxc → (lc c rp v).1 ≤ maxc
  lower : ∀ c rp v, min (c + v) (nr + 1) ≤ (lc c rp v).1

/-- the model's `logCounter` is such a function, for every draw sequence, batch number and pointer (premise satisfiable) -/
theorem model_lcOK (cfg : LogCfg D) (draws : Nat → Nat → D) (batch : Nat) (h0 : ∀ u, cfg.inc 0 u = true) (hnr : cfg.nr < cfg.maxc) :
    LcOK cfg.nr cfg.maxc (fun c rp v => ((logCounter cfg draws v c ⟨batch, rp⟩).1, (logCounter cfg draws v c ⟨batch, rp⟩).2.ptr)) :=
  ⟨fun c rp v => (logCounter_steps cfg draws v c ⟨batch, rp⟩).1,
   fun c rp v => (logCounter_steps cfg draws v c ⟨batch, rp⟩).2,
   fun c rp v hc => logCounter_le_max cfg draws v c ⟨batch, rp⟩ hc,
   fun c rp v => logCounter_lower cfg draws v c ⟨batch, rp⟩ h0 hnr⟩

/-- the add kernel, as generated, meets the add contract for any such `lc` -/
theorem addLogSpec_ok (ko : Rt.KeyOps K B) (lc : Nat → Nat → Nat → Nat × Nat) (nr maxc : Nat) (hl : LcOK nr maxc lc)
    (T : Tab) (nar buckets : Nat → Nat) (width depth rp : Nat) (k : K) (v : Nat) :
    LogAddOK (geomOf ko depth width) nr maxc T k v (addLogSpec ko lc T nar buckets width depth maxc rp k v).2.1 := by
  have hq : tquery (geomOf ko depth width) maxc T k ≤ maxc := tquery_le_cap _ maxc T k
  have htab : (addLogSpec ko lc T nar buckets width depth maxc rp k v).2.1 =
      raiseTo (geomOf ko depth width) T k (lc (tquery (geomOf ko depth width) maxc T k) rp v).1 := by
    unfold addLogSpec
    simp only []
    split
    · next h => rw [h]; exact (raiseTo_min_id _ maxc T k).symm
    · rfl
  rw [htab]
  have h1 := hl.ge (tquery (geomOf ko depth width) maxc T k) rp v
  have h2 := hl.le (tquery (geomOf ko depth width) maxc T k) rp v
  have h3 := hl.cap (tquery (geomOf ko depth width) maxc T k) rp v hq
  have h4 := hl.lower (tquery (geomOf ko depth width) maxc T k) rp v
  refine ⟨fun r c _ _ => raiseTo_ge _ _ _ _ _ _, ?_, ?_, ?_⟩
  · intro r c _ _ hne
    exact raiseTo_other _ _ _ _ _ _ hne
  · intro r hr
    rw [raiseTo_own _ _ _ _ _ hr]
    omega
  · intro r hr
    rw [raiseTo_own _ _ _ _ _ hr]
    have := tquery_le (geomOf ko depth width) maxc T k r hr
    omega

/-- the arrays (rand_ptr, cms, n_added_records, buckets) after running a history with the generated CountMinLog16 methods;
    `lcAt h` is the behaviour of `_log_counter` during the add that ends history `h` (draws differ from call to call) -/
def srcRunLog16 (ko : Rt.KeyOps K B) (lcAt : Hist K → Nat → Nat → Nat → Nat × Nat) (cell : Nat → Nat → Nat) (width depth mc maxc nr : Nat) :
    Hist K → Nat × Tab × (Nat → Nat) × (Nat → Nat)
  | .new => (0, fun _ _ => 0, fun _ => 0, fun _ => 0)
  | .add h k v =>
    let st := srcRunLog16 ko lcAt cell width depth mc maxc nr h
    Full.log16_add ko (lcAt (.add h k v)) st.1 st.2.1 st.2.2.1 st.2.2.2 width depth maxc nr k v
  | .merge a b =>
    let sa := srcRunLog16 ko lcAt cell width depth mc maxc nr a
    let sb := srcRunLog16 ko lcAt cell width depth mc maxc nr b
    let r := Full.log16_merge cell sa.2.1 sb.2.1 width depth mc maxc nr sa.2.2.1 sb.2.2.1
    (sa.1, r.1, r.2, sa.2.2.2)

def srcRunLog8 (ko : Rt.KeyOps K B) (lcAt : Hist K → Nat → Nat → Nat → Nat × Nat) (cell : Nat → Nat → Nat) (width depth mc maxc nr : Nat) :
    Hist K → Nat × Tab × (Nat → Nat) × (Nat → Nat)
  | .new => (0, fun _ _ => 0, fun _ => 0, fun _ => 0)
  | .add h k v =>
    let st := srcRunLog8 ko lcAt cell width depth mc maxc nr h
    Full.log8_add ko (lcAt (.add h k v)) st.1 st.2.1 st.2.2.1 st.2.2.2 width depth maxc nr k v
  | .merge a b =>
    let sa := srcRunLog8 ko lcAt cell width depth mc maxc nr a
    let sb := srcRunLog8 ko lcAt cell width depth mc maxc nr b
    let r := Full.log8_merge cell sa.2.1 sb.2.1 width depth mc maxc nr sa.2.2.1 sb.2.2.1
    (sa.1, r.1, r.2, sa.2.2.2)

/-- every table the generated CountMinLog16 code can produce is reachable by contract-respecting steps -/
theorem srcRunLog16_reach (ko : Rt.KeyOps K B) (lcAt : Hist K → Nat → Nat → Nat → Nat × Nat) (d : Nat → Nat) (width depth mc maxc mcS nr : Nat)
    (hl : ∀ h, LcOK nr maxc (lcAt h)) (h : Hist K) :
    LogReach (geomOf ko depth width) d nr maxc mcS h (srcRunLog16 ko lcAt (mergeLogSpec d maxc mcS) width depth mc maxc nr h).2.1 := by
  induction h with
  | new => exact LogReach.new _ (fun _ _ _ _ => rfl)
  | add h k v ih =>
    simp only [srcRunLog16]
    rw [(FullApi.log_add_api ko _ _ _ _ width depth maxc nr _ k v).1]
    exact LogReach.add k v ih (addLogSpec_ok ko _ nr maxc (hl _) _ _ _ width depth _ k v)
  | merge a b iha ihb =>
    simp only [srcRunLog16]
    refine LogReach.merge iha ihb ?_
    rw [FullApi.log_merge_api.1]
    exact merge_log_contract ko d maxc mcS _ _ width depth _ _

theorem srcRunLog8_reach (ko : Rt.KeyOps K B) (lcAt : Hist K → Nat → Nat → Nat → Nat × Nat) (d : Nat → Nat) (width depth mc maxc mcS nr : Nat)
    (hl : ∀ h, LcOK nr maxc (lcAt h)) (h : Hist K) :
    LogReach (geomOf ko depth width) d nr maxc mcS h (srcRunLog8 ko lcAt (mergeLogSpec d maxc mcS) width depth mc maxc nr h).2.1 := by
  induction h with
  | new => exact LogReach.new _ (fun _ _ _ _ => rfl)
  | add h k v ih =>
    simp only [srcRunLog8]
    rw [(FullApi.log_add_api ko _ _ _ _ width depth maxc nr _ k v).2]
    exact LogReach.add k v ih (addLogSpec_ok ko _ nr maxc (hl _) _ _ _ width depth _ k v)
  | merge a b iha ihb =>
    simp only [srcRunLog8]
    refine LogReach.merge iha ihb ?_
    rw [FullApi.log_merge_api.2]
    exact merge_log_contract ko d maxc mcS _ _ width depth _ _

/-- the estimate in counter units the generated `_query_log16` reads off the table after history `h` -/
def srcQueryC16 (ko : Rt.KeyOps K B) (lcAt : Hist K → Nat → Nat → Nat → Nat × Nat) (cell : Nat → Nat → Nat) (width depth mc maxc nr : Nat) (h : Hist K) (k : K) : Nat :=
  (Full.query_log16 ko (srcRunLog16 ko lcAt cell width depth mc maxc nr h).2.1 (srcRunLog16 ko lcAt cell width depth mc maxc nr h).2.2.2 width depth maxc k).1

/-- **C06 (exact zone) for the code as it reads now**: on every history of adds and merges the counter-unit estimate of a key is
    at least min(true count, num_reserved + 1) … -/
theorem C06_lower_src (ko : Rt.KeyOps K B) (lcAt : Hist K → Nat → Nat → Nat → Nat × Nat) (d : Nat → Nat) (u width depth mc maxc mcS nr : Nat)
    (hw : 0 < width) (hd : DecOK d u nr maxc) (hl : ∀ h, LcOK nr maxc (lcAt h)) (h : Hist K) (k : K) :
    min (h.trueCount k) (nr + 1) ≤ srcQueryC16 ko lcAt (mergeLogSpec d maxc mcS) width depth mc maxc nr h k := by
  unfold srcQueryC16
  rw [query_log16_full]
  exact C06.C06_lower _ (fun r k => Nat.mod_lt _ hw) d u nr maxc mcS hd h _ (srcRunLog16_reach ko lcAt d width depth mc maxc mcS nr hl h) k

/-- … and exactly the true count for a key that shares no counter in some row, while the count is within the exact zone -/
theorem C06_exact_src (ko : Rt.KeyOps K B) (lcAt : Hist K → Nat → Nat → Nat → Nat × Nat) (d : Nat → Nat) (u width depth mc maxc mcS nr : Nat)
    (hw : 0 < width) (hd : DecOK d u nr maxc) (hmc : (nr + 1) * u < mcS) (hl : ∀ h, LcOK nr maxc (lcAt h)) (h : Hist K) (k : K)
    (r : Nat) (hr : r < depth)
    (hfree : ∀ k', k' ≠ k → h.mem k' → (geomOf ko depth width).col r k' ≠ (geomOf ko depth width).col r k) (hsmall : h.trueCount k ≤ nr + 1) :
    srcQueryC16 ko lcAt (mergeLogSpec d maxc mcS) width depth mc maxc nr h k = h.trueCount k := by
  unfold srcQueryC16
  rw [query_log16_full]
  exact C06.C06_exact _ (fun r k => Nat.mod_lt _ hw) d u nr maxc mcS hd hmc h _ (srcRunLog16_reach ko lcAt d width depth mc maxc mcS nr hl h) k r hr hfree hsmall

/-- no counter of the generated code's table ever exceeds the maximum counter -/
theorem counters_bounded_src (ko : Rt.KeyOps K B) (lcAt : Hist K → Nat → Nat → Nat → Nat × Nat) (d : Nat → Nat) (u width depth mc maxc mcS nr : Nat)
    (hw : 0 < width) (hd : DecOK d u nr maxc) (hmc : (nr + 1) * u < mcS) (hl : ∀ h, LcOK nr maxc (lcAt h)) (h : Hist K) (r c : Nat) (hr : r < depth) (hc : c < width) :
    (srcRunLog16 ko lcAt (mergeLogSpec d maxc mcS) width depth mc maxc nr h).2.1 r c ≤ maxc :=
  (C06.upperInv _ (fun r k => Nat.mod_lt _ hw) d u nr maxc mcS hd hmc h _ (srcRunLog16_reach ko lcAt d width depth mc maxc mcS nr hl h) r c hr hc).1

/-- **C18 (log sketches) for the code as it reads now**: no add lowers any estimate … -/
theorem C18_log_add_mono_src (ko : Rt.KeyOps K B) (lcAt : Hist K → Nat → Nat → Nat → Nat × Nat) (cell : Nat → Nat → Nat) (width depth mc maxc nr : Nat)
    (hw : 0 < width) (hl : ∀ h, LcOK nr maxc (lcAt h)) (h : Hist K) (k k' : K) (v : Nat) :
    srcQueryC16 ko lcAt cell width depth mc maxc nr h k' ≤ srcQueryC16 ko lcAt cell width depth mc maxc nr (.add h k v) k' := by
  unfold srcQueryC16
  rw [query_log16_full, query_log16_full]
  apply tquery_mono
  intro r hr
  simp only [srcRunLog16]
  rw [(FullApi.log_add_api ko _ _ _ _ width depth maxc nr _ k v).1]
  exact (addLogSpec_ok ko _ nr maxc (hl _) _ _ _ width depth _ k v).mono r _ hr (Nat.mod_lt _ hw)

/-- … and no merge does, on either operand (merge cell body = nearest-counter specification) -/
theorem C18_log_merge_mono_src (ko : Rt.KeyOps K B) (lcAt : Hist K → Nat → Nat → Nat → Nat × Nat) (d : Nat → Nat) (u width depth mc maxc mcS nr : Nat)
    (hw : 0 < width) (hd : DecOK d u nr maxc) (hmc : (nr + 1) * u < mcS) (hl : ∀ h, LcOK nr maxc (lcAt h)) (a b : Hist K) (k : K) :
    srcQueryC16 ko lcAt (mergeLogSpec d maxc mcS) width depth mc maxc nr a k ≤ srcQueryC16 ko lcAt (mergeLogSpec d maxc mcS) width depth mc maxc nr (.merge a b) k ∧
    srcQueryC16 ko lcAt (mergeLogSpec d maxc mcS) width depth mc maxc nr b k ≤ srcQueryC16 ko lcAt (mergeLogSpec d maxc mcS) width depth mc maxc nr (.merge a b) k := by
  unfold srcQueryC16
  rw [query_log16_full, query_log16_full, query_log16_full]
  have cellv : ∀ r, r < depth →
      (srcRunLog16 ko lcAt (mergeLogSpec d maxc mcS) width depth mc maxc nr (.merge a b)).2.1 r ((geomOf ko depth width).col r k) =
        mergeLogSpec d maxc mcS ((srcRunLog16 ko lcAt (mergeLogSpec d maxc mcS) width depth mc maxc nr a).2.1 r ((geomOf ko depth width).col r k))
          ((srcRunLog16 ko lcAt (mergeLogSpec d maxc mcS) width depth mc maxc nr b).2.1 r ((geomOf ko depth width).col r k)) := by
    intro r hr
    have hc : (geomOf ko depth width).col r k < width := Nat.mod_lt _ hw
    simp only [srcRunLog16]
    rw [FullApi.log_merge_api.1]
    simp [mergeLogSpecK, hr, hc]
  constructor
  · apply tquery_mono
    intro r hr
    have hr' : r < depth := hr
    rw [cellv r hr']
    exact (C09.merge_ge d u nr maxc mcS hd _ _
      (counters_bounded_src ko lcAt d u width depth mc maxc mcS nr hw hd hmc hl a r _ hr' (Nat.mod_lt _ hw))
      (counters_bounded_src ko lcAt d u width depth mc maxc mcS nr hw hd hmc hl b r _ hr' (Nat.mod_lt _ hw))).1
  · apply tquery_mono
    intro r hr
    have hr' : r < depth := hr
    rw [cellv r hr']
    exact (C09.merge_ge d u nr maxc mcS hd _ _
      (counters_bounded_src ko lcAt d u width depth mc maxc mcS nr hw hd hmc hl a r _ hr' (Nat.mod_lt _ hw))
      (counters_bounded_src ko lcAt d u width depth mc maxc mcS nr hw hd hmc hl b r _ hr' (Nat.mod_lt _ hw))).2.1

/-- **C09 (log sketches) for the code as it reads now**: inside the block every merged cell is the nearest-counter specification of the two cells,
    the two bookkeeping counters are summed, and merging is commutative on the table -/
theorem C09_log_merge_src (cell : Nat → Nat → Nat) (A Bt : Tab) (width depth mc maxc nr : Nat) (nar onar : Nat → Nat) (r c : Nat) (hr : r < depth) (hc : c < width) :
    (Full.log16_merge cell A Bt width depth mc maxc nr nar onar).1 r c = cell (A r c) (Bt r c) ∧
    (Full.log8_merge cell A Bt width depth mc maxc nr nar onar).1 r c = cell (A r c) (Bt r c) ∧
    (Full.log16_merge cell A Bt width depth mc maxc nr nar onar).2 0 = nar 0 + onar 0 ∧
    (Full.log16_merge cell A Bt width depth mc maxc nr nar onar).2 1 = nar 1 + onar 1 := by
  rw [FullApi.log_merge_api.1, FullApi.log_merge_api.2]
  simp [mergeLogSpecK, hr, hc, Rt.set1_apply]

theorem C09_log_merge_comm_src (d : Nat → Nat) (maxc mcS : Nat) (A Bt : Tab) (width depth mc nr : Nat) (nar onar : Nat → Nat) (r c : Nat) (hr : r < depth) (hc : c < width) :
    (Full.log16_merge (mergeLogSpec d maxc mcS) A Bt width depth mc maxc nr nar onar).1 r c =
    (Full.log16_merge (mergeLogSpec d maxc mcS) Bt A width depth mc maxc nr onar nar).1 r c := by
  rw [(C09_log_merge_src _ A Bt width depth mc maxc nr nar onar r c hr hc).1, (C09_log_merge_src _ Bt A width depth mc maxc nr onar nar r c hr hc).1]
  exact C09.merge_comm d maxc mcS _ _

/-- **C05 (log sketches) for the code as it reads now**: right after `add(key, v)` the counter-unit estimate of `key` is exactly what
    `_log_counter` returned for the old estimate (the one-step law; below the ceiling) — whatever the draws were -/
theorem C05_log_self_src (ko : Rt.KeyOps K B) (lcAt : Hist K → Nat → Nat → Nat → Nat × Nat) (cell : Nat → Nat → Nat) (width depth mc maxc nr : Nat)
    (hl : ∀ h, LcOK nr maxc (lcAt h)) (h : Hist K) (k : K) (v : Nat)
    (hlt : srcQueryC16 ko lcAt cell width depth mc maxc nr h k < maxc) :
    srcQueryC16 ko lcAt cell width depth mc maxc nr (.add h k v) k =
      (lcAt (.add h k v) (srcQueryC16 ko lcAt cell width depth mc maxc nr h k) (srcRunLog16 ko lcAt cell width depth mc maxc nr h).1 v).1 := by
  unfold srcQueryC16 at *
  rw [query_log16_full] at hlt ⊢
  rw [query_log16_full]
  simp only [srcRunLog16]
  rw [(FullApi.log_add_api ko _ _ _ _ width depth maxc nr _ k v).1]
  simp only [addLogSpec]
  have hq := hlt
  have h1 := (hl (.add h k v)).ge (tquery (geomOf ko depth width) maxc (srcRunLog16 ko lcAt cell width depth mc maxc nr h).2.1 k)
    (srcRunLog16 ko lcAt cell width depth mc maxc nr h).1 v
  have h3 := (hl (.add h k v)).cap (tquery (geomOf ko depth width) maxc (srcRunLog16 ko lcAt cell width depth mc maxc nr h).2.1 k)
    (srcRunLog16 ko lcAt cell width depth mc maxc nr h).1 v (Nat.le_of_lt hq)
  split
  · next he => exact he.symm
  · exact tquery_raiseTo_self _ maxc _ k _ h1 h3 hq

end Sketchnu.EndToEndLog
