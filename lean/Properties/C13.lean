/-
  Properties/C13.lean — query(k, threshold) is the exact, fresh top-k of the stored counts.

  STATEMENTS ARE FIXED.  Helper lemmas go to Proofs/HHQuery.lean.
-/
import Proofs.HHQuery
namespace Sketchnu.C13
open Sketchnu
variable {K : Type} [DecidableEq K]

/-- at most `k` pairs -/
theorem query_length (g : Geom K) (s : HH K) (n thr : Nat) :
    (HH.queryFresh g s (some n) thr).length ≤ n := by
  simp only [HH.queryFresh, HH.mostCommon, List.length_take]
  exact Nat.min_le_left _ _

/-- distinct keys, for every state whose non-empty cells sit in their key's own column
    (`HH.Owned`; every reachable state is one — `reachable_owned`).  For arbitrary tables the
    statement is false: with threshold 0 a non-empty cell whose key does not hash to it has
    `hh[key] = 0` and is listed once per such cell (counterexample found while proving). -/
theorem query_nodup (g : Geom K) (s : HH K) (hown : HH.Owned g s) (kk : Option Nat) (thr : Nat) :
    ((HH.queryFresh g s kk thr).map Prod.fst).Nodup :=
  HH.queryFresh_nodup_of g s kk thr (HH.PosOK_of_owned g s thr hown)

/-- every state reached by adds and merges from empty sketches is `Owned` -/
theorem reachable_owned (g : Geom K) (e : K) (h : Hist K) : HH.Owned g (HH.eval g e h) :=
  HH.Owned_eval g e h

/-- non-increasing count order -/
theorem query_sorted (g : Geom K) (s : HH K) (kk : Option Nat) (thr : Nat) :
    (HH.queryFresh g s kk thr).Pairwise (fun a b => a.2 ≥ b.2) := by
  exact HH.mostCommon_sorted _ kk

/-- each count equals `hh[key]` and is `≥ threshold`, for every state … -/
theorem query_counts (g : Geom K) (s : HH K) (kk : Option Nat) (thr : Nat) :
    ∀ p ∈ HH.queryFresh g s kk thr, p.2 = HH.getitem g s p.1 ∧ thr ≤ p.2 :=
  HH.queryFresh_counts_weak g s kk thr

/-- … and positive for `Owned` (hence all reachable) states -/
theorem query_counts_pos (g : Geom K) (s : HH K) (hown : HH.Owned g s) (kk : Option Nat) (thr : Nat) :
    ∀ p ∈ HH.queryFresh g s kk thr, 0 < p.2 :=
  fun p hp => (HH.queryFresh_counts_of g s kk thr (HH.PosOK_of_owned g s thr hown) p hp).2.2

/-- the bounded answer is the first `k` of the unbounded answer -/
theorem query_prefix (g : Geom K) (s : HH K) (n thr : Nat) :
    HH.queryFresh g s (some n) thr = (HH.queryFresh g s none thr).take n := by
  rfl

/-- every key with `hh[key] ≥ max(threshold, 1)` appears when `k` is large enough -/
theorem query_complete (g : Geom K) (hg : g.WF) (s : HH K) (thr : Nat) (k : K)
    (hk : max thr 1 ≤ HH.getitem g s k) :
    (k, HH.getitem g s k) ∈ HH.queryFresh g s none thr := by
  show (k, HH.getitem g s k) ∈ HH.sortDesc (HH.candidates g s thr)
  rw [HH.mem_sortDesc]
  exact HH.candidates_complete g hg s thr k hk

/-! ### freshness of the cached candidate set over call histories -/

/-- operations on one `HeavyHitters` object; the operand of a merge is any reachable sketch -/
inductive QOp (K : Type) where
  | add (k : K) (v : Nat)
  | merge (other : Hist K)
  | query (kk : Option Nat) (thr : Nat)
  | regen (thr : Nat)                       -- `generate_candidate_set(thr)` (also what `load` ends with)

def QOp.run (g : Geom K) (e : K) (q : HHQ K) : QOp K → HHQ K
  | .add k v => q.add g k v
  | .merge o => q.merge { hh := HH.eval g e o, cand := [], nAddedSort := 0, thrSort := 0 }
  | .query kk thr => (q.query g kk thr).1
  | .regen thr => q.regen g thr

/-- after any interleaving of adds, merges, queries (with unchanged or changed thresholds) and
    regenerations, the answer of `query` equals the answer recomputed from the current cells —
    i.e. that of a freshly loaded copy -/
theorem C13_fresh (g : Geom K) (e : K) (ops : List (QOp K)) (kk : Option Nat) (thr : Nat) :
    let q := ops.foldl (QOp.run g e) (HHQ.empty e)
    (q.query g kk thr).2 = HH.queryFresh g q.hh kk thr := by
  intro q
  refine HHQ.query_of_valid g q kk thr ?_
  refine foldl_inv (HHQ.Valid g) _ ops ?_ _ (HHQ.Valid_empty g e)
  intro b op _ hb
  cases op with
  | add k v => exact HHQ.Valid_add g b k v hb
  | merge o => exact HHQ.Valid_merge_eval g e b o [] 0 0 hb
  | query kk thr => exact HHQ.Valid_query g b kk thr hb
  | regen thr => exact HHQ.Valid_regen g b thr hb

/-- the cells are exactly those of the corresponding history tree (queries do not touch them) -/
def QOp.hist : Hist K → QOp K → Hist K
  | h, .add k v => .add h k v
  | h, .merge o => .merge h o
  | h, .query _ _ => h
  | h, .regen _ => h

theorem cells_aux (g : Geom K) (e : K) (ops : List (QOp K)) (q : HHQ K) (h : Hist K)
    (h1 : q.hh.tab = (HH.eval g e h).tab) (h2 : q.hh.nAdded = (HH.eval g e h).nAdded) :
    (ops.foldl (QOp.run g e) q).hh.tab = (HH.eval g e (ops.foldl QOp.hist h)).tab ∧
    (ops.foldl (QOp.run g e) q).hh.nAdded = (HH.eval g e (ops.foldl QOp.hist h)).nAdded := by
  induction ops generalizing q h with
  | nil => exact ⟨h1, h2⟩
  | cons op ops ih =>
    simp only [List.foldl_cons]
    cases op with
    | add k v =>
      refine ih _ _ ?_ ?_
      · show (q.hh.add g k v).tab = ((HH.eval g e h).add g k v).tab
        simp only [HH.add, h1]
      · show (q.hh.add g k v).nAdded = ((HH.eval g e h).add g k v).nAdded
        simp only [HH.add, h2]
    | merge o =>
      refine ih _ _ ?_ ?_
      · show (q.hh.merge (HH.eval g e o)).tab = ((HH.eval g e h).merge (HH.eval g e o)).tab
        simp only [HH.merge, h1]
      · show (q.hh.merge (HH.eval g e o)).nAdded = ((HH.eval g e h).merge (HH.eval g e o)).nAdded
        simp only [HH.merge, h2]
    | query kk thr =>
      refine ih _ _ ?_ ?_
      · show (q.query g kk thr).1.hh.tab = _
        rw [HHQ.query_hh]; exact h1
      · show (q.query g kk thr).1.hh.nAdded = _
        rw [HHQ.query_hh]; exact h2
    | regen thr => exact ih _ _ h1 h2

theorem C13_cells (g : Geom K) (e : K) (ops : List (QOp K)) :
    (ops.foldl (QOp.run g e) (HHQ.empty e)).hh.tab = (HH.eval g e (ops.foldl QOp.hist .new)).tab ∧
    (ops.foldl (QOp.run g e) (HHQ.empty e)).hh.nAdded = (HH.eval g e (ops.foldl QOp.hist .new)).nAdded := by
  exact cells_aux g e ops (HHQ.empty e) .new rfl rfl

/-! non-vacuity: a cache hit (same n_added, same threshold), a miss after an add of 0 … -/
example :
    let g : Geom Nat := { depth := 1, width := 2, col := fun _ k => k % 2 }
    let ops : List (QOp Nat) := [.add 1 3, .query none 0, .add 2 0, .query none 0, .add 2 5, .query (some 1) 1]
    let q := ops.foldl (QOp.run g 0) (HHQ.empty 0)
    (q.query g none 1).2 = [(2, 5), (1, 3)] := by decide

end Sketchnu.C13
