/-
  Properties/C09.lean — merging count-min sketches adds the counts cell by cell.
  Linear: saturating sum.  Log: the counter whose decoded value is nearest to
  decoded(a) + decoded(b) (`mergeLogSpec`), stated for any decode function satisfying `DecOK`
  (linear up to num_reserved+1, strictly increasing) — `decS_ok` shows the exact scaled
  decode of the code's formula is one.

  STATEMENTS ARE FIXED.  Helper lemmas go to Proofs/LogMerge.lean.
-/
import Proofs.Lin
import Proofs.LogMerge
namespace Sketchnu.C09
open Sketchnu
variable {K : Type} [DecidableEq K]

/-! ### linear -/

theorem lin_merge_cell (a b : Lin) (ha : Lin.Bounded a) (r c : Nat) :
    (Lin.merge a b).tab r c = min (a.tab r c + b.tab r c) CAP := Lin.merge_cell a b ha r c

theorem lin_merge_books (a b : Lin) :
    (Lin.merge a b).nAdded = a.nAdded + b.nAdded ∧ (Lin.merge a b).nRecords = a.nRecords + b.nRecords :=
  ⟨rfl, rfl⟩

theorem lin_merge_comm (a b : Lin) (ha : Lin.Bounded a) (hb : Lin.Bounded b) :
    (Lin.merge a b).tab = (Lin.merge b a).tab := by
  funext r; funext c
  rw [Lin.merge_cell a b ha, Lin.merge_cell b a hb]; omega

theorem lin_merge_empty (a : Lin) (ha : Lin.Bounded a) : (Lin.merge a Lin.empty).tab = a.tab := by
  funext r; funext c
  have := ha r c
  rw [Lin.merge_cell a Lin.empty ha]
  simp only [Lin.empty]; omega

theorem lin_merge_ge (a b : Lin) (ha : Lin.Bounded a) (hb : Lin.Bounded b) (r c : Nat) :
    a.tab r c ≤ (Lin.merge a b).tab r c ∧ b.tab r c ≤ (Lin.merge a b).tab r c := by
  have h1 := ha r c
  have h2 := hb r c
  rw [Lin.merge_cell a b ha]; omega

/-- a merged linear estimate is never below the sum of the two estimates (capped) -/
theorem lin_merge_query (g : Geom K) (a b : Lin) (ha : Lin.Bounded a) (k : K) :
    min (Lin.query g a k + Lin.query g b k) CAP ≤ Lin.query g (Lin.merge a b) k := by
  unfold Lin.query
  apply le_tquery
  · omega
  · intro r hr
    have h1 := tquery_le g CAP a.tab k r hr
    have h2 := tquery_le g CAP b.tab k r hr
    rw [Lin.merge_cell a b ha]; omega

/-! ### log (counter units) -/

/-- `nearest d t n` is an index `≤ n` minimising the distance, the least such -/
theorem nearest_spec (d : Nat → Nat) (t n : Nat) :
    nearest d t n ≤ n ∧ (∀ c, c ≤ n → ndist (d (nearest d t n)) t ≤ ndist (d c) t) ∧
    (∀ c, c < nearest d t n → ndist (d (nearest d t n)) t < ndist (d c) t) := by
  exact LogMerge.nearest_spec d t n

/-- exactly the sum inside the reserved range (up to num_reserved + 1) -/
theorem merge_reserved (d : Nat → Nat) (u nr maxc mcS : Nat) (hd : DecOK d u nr maxc) (a b : Nat)
    (hab : a + b ≤ nr + 1) (hlt : d a + d b < mcS) : mergeLogSpec d maxc mcS a b = a + b := by
  have h1 := hd.lin a (by omega)
  have h2 := hd.lin b (by omega)
  have h3 := hd.lin (a + b) hab
  have hnr := hd.nr_lt
  have ht : d a + d b = d (a + b) := by rw [h1, h2, h3, Nat.add_mul]
  unfold mergeLogSpec
  simp only [ge_iff_le, Nat.not_le.mpr hlt, if_false]
  rw [ht]
  exact LogMerge.nearest_exact d maxc hd.mono (a + b) (by omega)

/-- the maximum counter once the sum reaches max_count -/
theorem merge_ceiling (d : Nat → Nat) (maxc mcS a b : Nat) (h : mcS ≤ d a + d b) :
    mergeLogSpec d maxc mcS a b = maxc := by
  unfold mergeLogSpec
  simp only [ge_iff_le, h, if_true]

theorem merge_comm (d : Nat → Nat) (maxc mcS a b : Nat) :
    mergeLogSpec d maxc mcS a b = mergeLogSpec d maxc mcS b a := by
  unfold mergeLogSpec
  rw [Nat.add_comm (d a) (d b)]

/-- merging an empty cell changes nothing -/
theorem merge_empty (d : Nat → Nat) (u nr maxc mcS : Nat) (hd : DecOK d u nr maxc) (a : Nat)
    (ha : a ≤ maxc) (hlt : d a < mcS ∨ a = maxc) : mergeLogSpec d maxc mcS a 0 = a := by
  have h0 : d 0 = 0 := by rw [hd.lin 0 (by omega)]; omega
  unfold mergeLogSpec
  simp only [h0, Nat.add_zero, ge_iff_le]
  split
  · next h =>
    rcases hlt with h' | h'
    · omega
    · exact h'.symm
  · exact LogMerge.nearest_exact d maxc hd.mono a ha

/-- a merged counter is never below either input -/
theorem merge_ge (d : Nat → Nat) (u nr maxc mcS : Nat) (hd : DecOK d u nr maxc) (a b : Nat)
    (ha : a ≤ maxc) (hb : b ≤ maxc) :
    a ≤ mergeLogSpec d maxc mcS a b ∧ b ≤ mergeLogSpec d maxc mcS a b ∧
    mergeLogSpec d maxc mcS a b ≤ maxc := by
  unfold mergeLogSpec
  simp only [ge_iff_le]
  split
  · exact ⟨ha, hb, Nat.le_refl _⟩
  · exact ⟨LogMerge.nearest_ge d maxc hd.mono _ a ha (by omega),
      LogMerge.nearest_ge d maxc hd.mono _ b hb (by omega),
      (LogMerge.nearest_spec d _ maxc).1⟩

/-- the nearest counter to a target at or above `d j` is at least `j` -/
theorem nearest_ge (d : Nat → Nat) (u nr maxc : Nat) (hd : DecOK d u nr maxc) (t j : Nat)
    (hj : j ≤ maxc) (ht : d j ≤ t) : j ≤ nearest d t maxc := by
  exact LogMerge.nearest_ge d maxc hd.mono t j hj ht

/-- the exact scaled decode of the code's formula satisfies `DecOK` -/
theorem decS_ok (B S nr maxc : Nat) (hB : 0 < B) (hS : 0 < S) (hnr : nr < maxc) :
    DecOK (decS B S nr (maxc - nr)) (S ^ (maxc - nr)) nr maxc := by
  exact ⟨Nat.pow_pos hS, hnr, fun c hc => LogMerge.decS_lin B S nr _ c hc,
    fun a b hab _ => LogMerge.decS_mono B S nr _ hB hS a b hab⟩

/-- the driver's binary-search evaluation equals the specification -/
theorem nearestFast_eq (d : Nat → Nat) (n : Nat) (hmono : ∀ a b, a < b → b ≤ n → d a < d b) (t : Nat) :
    nearestFast d t n = nearest d t n := by
  exact LogMerge.nearestFast_eq d n hmono t

/-! non-vacuity: a tiny configuration B/S = 3/2, nr = 2, maxc = 5 -/
example : (List.range 6).map (decS 3 2 2 3) = [0, 8, 16, 24, 36, 54] := by decide
example : mergeLogSpec (decS 3 2 2 3) 5 (54 : Nat) 3 3 = 5 ∧ mergeLogSpec (decS 3 2 2 3) 5 54 1 2 = 3 ∧
    mergeLogSpec (decS 3 2 2 3) 5 54 3 1 = 4 ∧ mergeLogSpec (decS 3 2 2 3) 5 54 5 5 = 5 := by decide

end Sketchnu.C09
