/-
  Properties/C07.lean — the deterministic clauses of "the HyperLogLog estimate stays within the
  HLL++ error envelope": the empty sketch estimates 0, and for n distinct keys at most n registers
  are occupied, so the linear-counting value never exceeds that of n occupied registers.
  The envelope clause itself (relative error ≤ k·1.04/√m for random key sets) is STATISTICAL: it is
  a statement about FastHash behaving like a random function and about empirical bias tables; it is
  NOT proved here (see DESIGN §4 C07) — the check searches for refutations only.

  STATEMENTS ARE FIXED.  Helper lemmas go to Proofs/Estimator.lean.
-/
import Proofs.Estimator
import Properties.C02
namespace Sketchnu.C07
open Sketchnu
variable {K : Type} [DecidableEq K]

/-- number of occupied (non-zero) registers among the first `m` -/
def occupied (R : Regs) (m : Nat) : Nat := ((List.range m).filter fun i => R i ≠ 0).length

/-- the empty sketch has no occupied register -/
theorem occupied_empty (m : Nat) : occupied Hll.empty m = 0 := by
  unfold occupied
  rw [List.length_eq_zero_iff, List.filter_eq_nil_iff]
  intro i _
  simp [Hll.empty]

/-- n distinct keys occupy at most n registers: if every key of the history is in the list `l`
    then at most `l.length` registers are non-zero -/
theorem occupied_le_keys (p : Nat) (H : K → Nat) (h : Hist K) (l : List K) (hl : ∀ k, h.mem k → k ∈ l) (m : Nat) :
    occupied (Hll.eval p H h) m ≤ l.length := by
  unfold occupied
  apply occupied_le_of_witness (Hll.eval p H h) (fun k => hllIdx p (H k)) l m
  intro i hi
  rcases C02.C02_denote_attained p H h i with h0 | ⟨k, hk, hki, _⟩
  · exact absurd h0 hi
  · exact ⟨k, hl k hk, hki⟩

variable {α : Type} [Field α] [LinearOrder α] [IsStrictOrderedRing α]

/-- empty sketch: linear counting gives `m · log(m/m) = 0` for any `log` with `log 1 = 0` -/
theorem C07_empty (log : α → α) (hlog : log 1 = 0) (m : α) (hm : m ≠ 0) : m * log (m / m) = 0 := by
  rw [div_self hm, hlog, mul_zero]

/-- linear-counting cap: with `V ≥ m - n` zero registers (at most n occupied) the linear-counting
    value `m·log(m/V)` is at most the value for n occupied registers, for any `log` that is
    monotone on the positives -/
theorem C07_lc_cap (log : α → α) (hmono : ∀ a b, 0 < a → a ≤ b → log a ≤ log b)
    (m V n : α) (hm : 0 < m) (hV : 0 < V) (hn : 0 < m - n) (h : m - n ≤ V) :
    m * log (m / V) ≤ m * log (m / (m - n)) := by
  exact lc_cap log hmono m V n hm hV hn h

example : occupied (Hll.add 7 (fun k : Nat => k) Hll.empty 5) 128 = 1 := by decide

end Sketchnu.C07
