/-
  Properties/FullHH.lean — the WHOLE heavy-hitter kernels as translated from the current source
  (`Model/Generated/FullHH.lean`) equal the hand-written model (`HCell.add`, `HH.add`, `HCell.merge`, `HH.maxRows`)
  on keys represented as (zero-padded bytes, length): the three arrays `lhh`, `lhh_count`, `key_lens` are one table
  of cells.
-/
import Model.Generated.FullHH
import Model.Entry
import Proofs.RtLemmas
namespace Sketchnu.FullHH
open Sketchnu
variable {K B : Type} [DecidableEq B]

/-- the cell the three arrays hold at (row, col) -/
def cellOf (lhh : Nat → Nat → B) (cnt kl : Nat → Nat → Nat) (r c : Nat) : HCell (B × Nat) :=
  { key := (lhh r c, kl r c), cnt := cnt r c }

/-- what `_add` does to a key before the row loop: truncate to `max_key_len`; identity = (padded bytes, length) -/
def keyId (ko : Rt.KeyOps K B) (mkl : Nat) (key : K) : B × Nat :=
  (ko.arr (ko.slice key 0 mkl) mkl, min (ko.klen (ko.slice key 0 mkl)) mkl)

theorem hh_add_full (ko : Rt.KeyOps K B) (lhh : Nat → Nat → B) (cnt kl : Nat → Nat → Nat) (nar : Nat → Nat)
    (width depth mkl : Nat) (key : K) (v : Nat) :
    let r := Full.hh_add ko lhh cnt kl nar width depth mkl CAP key v
    (∀ row col, cellOf r.1 r.2.1 r.2.2.1 row col =
      if row < depth ∧ col = ko.H (ko.slice key 0 mkl) row % width
      then (cellOf lhh cnt kl row col).add (keyId ko mkl key) v else cellOf lhh cnt kl row col) ∧
    r.2.2.2 = Rt.set1 nar 0 (nar 0 + v) := by
  unfold Full.hh_add
  simp only [and_true]
  refine Rt.loop_inv
    (fun d (st : (Nat → Nat → Nat) × (Nat → Nat → B) × (Nat → Nat → Nat)) => ∀ row col, cellOf st.2.1 st.1 st.2.2 row col =
      if row < d ∧ col = ko.H (ko.slice key 0 mkl) row % width
      then (cellOf lhh cnt kl row col).add (keyId ko mkl key) v else cellOf lhh cnt kl row col)
    depth (cnt, lhh, kl) _ (by intro row col; simp) ?_
  · intro d st hd ih row col
    obtain ⟨c, l, k⟩ := st
    simp only [] at ih ⊢
    by_cases hcase : row = d ∧ col = ko.H (ko.slice key 0 mkl) d % width
    · obtain ⟨rfl, rfl⟩ := hcase
      have ihd := ih row (ko.H (ko.slice key 0 mkl) row % width)
      simp only [Nat.lt_irrefl, false_and, if_false] at ihd
      simp only [Nat.lt_succ_self, true_and, if_true, ← ihd]
      simp only [cellOf, HCell.add, keyId]
      repeat' split
      all_goals simp_all [Rt.set2_apply]
      all_goals (try grind)
    · have ihr := ih row col
      have hrhs : (if row < d + 1 ∧ col = ko.H (ko.slice key 0 mkl) row % width
            then (cellOf lhh cnt kl row col).add (keyId ko mkl key) v else cellOf lhh cnt kl row col) = cellOf l c k row col := by
        rw [ihr]
        by_cases h1 : row < d ∧ col = ko.H (ko.slice key 0 mkl) row % width
        · have h2 : row < d + 1 ∧ col = ko.H (ko.slice key 0 mkl) row % width := ⟨by omega, h1.2⟩
          rw [if_pos h1, if_pos h2]
        · have h2 : ¬ (row < d + 1 ∧ col = ko.H (ko.slice key 0 mkl) row % width) := by
            rintro ⟨a1, a2⟩
            apply h1
            refine ⟨?_, a2⟩
            apply Classical.byContradiction
            intro hn
            have : row = d := by omega
            subst this
            exact hcase ⟨rfl, a2⟩
          rw [if_neg h1, if_neg h2]
      rw [hrhs]
      simp only [cellOf]
      repeat' split
      all_goals simp_all [Rt.set2_apply]
      all_goals (try grind)

theorem hh_merge_full (lhh olhh : Nat → Nat → B) (cnt kl ocnt okl : Nat → Nat → Nat) (nar onar : Nat → Nat) (width depth : Nat) :
    let r := Full.hh_merge lhh cnt kl nar width depth CAP olhh ocnt okl onar
    (∀ row col, cellOf r.1 r.2.1 r.2.2.1 row col =
      if row < depth ∧ col < width then (cellOf lhh cnt kl row col).merge (cellOf olhh ocnt okl row col) else cellOf lhh cnt kl row col) ∧
    r.2.2.2 = Rt.set1 (Rt.set1 nar 0 (nar 0 + onar 0)) 1 (nar 1 + onar 1) := by
  unfold Full.hh_merge
  simp only []
  refine ⟨?_, by congr 1⟩
  refine Rt.loop_inv
    (fun d (st : (Nat → Nat → Nat) × (Nat → Nat → B) × (Nat → Nat → Nat)) => ∀ row col, cellOf st.2.1 st.1 st.2.2 row col =
      if row < d ∧ col < width then (cellOf lhh cnt kl row col).merge (cellOf olhh ocnt okl row col) else cellOf lhh cnt kl row col)
    depth (cnt, lhh, kl) _ (by intro row col; simp) ?_
  intro d st hd ih
  obtain ⟨c0, l0, k0⟩ := st
  simp only [] at ih ⊢
  -- inner loop over the columns of row d
  refine Rt.loop_inv'
    (fun w (st' : (Nat → Nat → Nat) × (Nat → Nat → B) × (Nat → Nat → Nat)) => ∀ row col, cellOf st'.2.1 st'.1 st'.2.2 row col =
      if (row < d ∧ col < width) ∨ (row = d ∧ col < w) then (cellOf lhh cnt kl row col).merge (cellOf olhh ocnt okl row col) else cellOf lhh cnt kl row col)
    (fun (st' : (Nat → Nat → Nat) × (Nat → Nat → B) × (Nat → Nat → Nat)) => ∀ row col, cellOf st'.2.1 st'.1 st'.2.2 row col =
      if row < d + 1 ∧ col < width then (cellOf lhh cnt kl row col).merge (cellOf olhh ocnt okl row col) else cellOf lhh cnt kl row col)
    width (c0, l0, k0) _ ?_ ?_ ?_
  · intro row col
    rw [ih row col]
    by_cases h1 : row < d ∧ col < width
    · have h2 : (row < d ∧ col < width) ∨ (row = d ∧ col < 0) := Or.inl h1
      rw [if_pos h1, if_pos h2]
    · have h2 : ¬ ((row < d ∧ col < width) ∨ (row = d ∧ col < 0)) := by omega
      rw [if_neg h1, if_neg h2]
  rotate_left
  · intro st' h row col
    rw [h row col]
    by_cases h1 : row < d + 1 ∧ col < width
    · have h2 : (row < d ∧ col < width) ∨ (row = d ∧ col < width) := by omega
      rw [if_pos h1, if_pos h2]
    · have h2 : ¬ ((row < d ∧ col < width) ∨ (row = d ∧ col < width)) := by omega
      rw [if_neg h1, if_neg h2]
  · intro w st' hw ih' row col
    obtain ⟨c, l, k⟩ := st'
    simp only [] at ih' ⊢
    by_cases hcase : row = d ∧ col = w
    · obtain ⟨rfl, rfl⟩ := hcase
      have ihd := ih' row col
      have h2 : ¬ ((row < row ∧ col < width) ∨ (row = row ∧ col < col)) := by omega
      have h3 : (row < row ∧ col < width) ∨ (row = row ∧ col < col + 1) := by omega
      rw [if_neg h2] at ihd
      rw [if_pos h3, ← ihd]
      simp only [cellOf, HCell.merge]
      repeat' split
      all_goals simp_all [Rt.set2_apply]
      all_goals (try grind)
    · have ihr := ih' row col
      have hrhs : (if (row < d ∧ col < width) ∨ (row = d ∧ col < w + 1)
            then (cellOf lhh cnt kl row col).merge (cellOf olhh ocnt okl row col) else cellOf lhh cnt kl row col) = cellOf l c k row col := by
        rw [ihr]
        by_cases h1 : (row < d ∧ col < width) ∨ (row = d ∧ col < w)
        · have h2 : (row < d ∧ col < width) ∨ (row = d ∧ col < w + 1) := by omega
          rw [if_pos h1, if_pos h2]
        · have h2 : ¬ ((row < d ∧ col < width) ∨ (row = d ∧ col < w + 1)) := by omega
          rw [if_neg h1, if_neg h2]
      rw [hrhs]
      simp only [cellOf]
      repeat' split
      all_goals simp_all [Rt.set2_apply]
      all_goals (try grind)

/-- `_add` on arrays that represent the model state `s` gives arrays that represent `HH.add … s (key identity) v`
    (the API has already capped `v` at 2^32-1) -/
theorem hh_add_model (ko : Rt.KeyOps K B) (lhh : Nat → Nat → B) (cnt kl : Nat → Nat → Nat) (nar : Nat → Nat)
    (width depth mkl : Nat) (key : K) (v : Nat) (hv : v ≤ CAP) (s : HH (B × Nat))
    (hrep : ∀ r c, cellOf lhh cnt kl r c = s.tab r c) (h0 : nar 0 = s.nAdded) :
    let g : Geom (B × Nat) := { depth := depth, width := width, col := fun r _ => ko.H (ko.slice key 0 mkl) r % width }
    let r := Full.hh_add ko lhh cnt kl nar width depth mkl CAP key v
    (∀ row col, cellOf r.1 r.2.1 r.2.2.1 row col = (HH.add g s (keyId ko mkl key) v).tab row col) ∧
    r.2.2.2 0 = (HH.add g s (keyId ko mkl key) v).nAdded := by
  have h := hh_add_full ko lhh cnt kl nar width depth mkl key v
  simp only [] at h ⊢
  obtain ⟨h1, h2⟩ := h
  refine ⟨?_, ?_⟩
  · intro row col
    rw [h1 row col]
    simp only [HH.add, Nat.min_eq_left hv, hrep]
  · rw [h2]
    simp [Rt.set1_apply, HH.add, Nat.min_eq_left hv, h0]

/-- `_merge` on arrays that represent `a` and `b` gives, inside the `depth × width` block, arrays that represent `HH.merge a b` -/
theorem hh_merge_model (lhh olhh : Nat → Nat → B) (cnt kl ocnt okl : Nat → Nat → Nat) (nar onar : Nat → Nat) (width depth : Nat)
    (a b : HH (B × Nat)) (ha : ∀ r c, cellOf lhh cnt kl r c = a.tab r c) (hb : ∀ r c, cellOf olhh ocnt okl r c = b.tab r c)
    (ha0 : nar 0 = a.nAdded) (hb0 : onar 0 = b.nAdded) (ha1 : nar 1 = a.nRecords) (hb1 : onar 1 = b.nRecords) :
    let r := Full.hh_merge lhh cnt kl nar width depth CAP olhh ocnt okl onar
    (∀ row col, row < depth → col < width → cellOf r.1 r.2.1 r.2.2.1 row col = (HH.merge a b).tab row col) ∧
    r.2.2.2 0 = (HH.merge a b).nAdded ∧ r.2.2.2 1 = (HH.merge a b).nRecords := by
  have h := hh_merge_full lhh olhh cnt kl ocnt okl nar onar width depth
  simp only [] at h ⊢
  obtain ⟨h1, h2⟩ := h
  refine ⟨?_, ?_, ?_⟩
  · intro row col hr hc
    rw [h1 row col, if_pos ⟨hr, hc⟩, ha, hb]
    rfl
  · rw [h2]; simp [Rt.set1_apply, HH.merge, ha0, hb0]
  · rw [h2]; simp [Rt.set1_apply, HH.merge, ha1, hb1]

/-- `_max_count` is the model's `HH.maxRows` over the cell table, for the key identity (padded bytes, `key_len`) -/
theorem hh_max_count_full (ko : Rt.KeyOps K B) (lhh : Nat → Nat → B) (cnt kl : Nat → Nat → Nat) (width depth mkl : Nat) (key : K) (keyLen : Nat) :
    Full.hh_max_count ko lhh cnt kl width depth mkl key keyLen =
      HH.maxRows { depth := depth, width := width, col := fun r _ => ko.H key r % width } (cellOf lhh cnt kl) (ko.arr key mkl, keyLen) depth := by
  unfold Full.hh_max_count
  simp only []
  refine Rt.loop_inv
    (fun d (m : Nat) => m = HH.maxRows { depth := depth, width := width, col := fun r _ => ko.H key r % width } (cellOf lhh cnt kl) (ko.arr key mkl, keyLen) d)
    depth 0 _ rfl ?_
  intro d m hd ih
  subst ih
  simp only [HH.maxRows, cellOf, Prod.mk.injEq]
  repeat' split
  all_goals simp_all
  all_goals (try grind)

theorem hh_add_ngram_full (ko : Rt.KeyOps K B) (lhh : Nat → Nat → B) (cnt kl : Nat → Nat → Nat) (nar : Nat → Nat)
    (width depth mkl cap : Nat) (key : K) (n : Nat) :
    Full.hh_add_ngram ko lhh cnt kl nar width depth mkl cap key n =
      if ko.klen key ≤ n then Full.hh_add ko lhh cnt kl nar width depth mkl cap key 1
      else (List.range (ko.klen key - (n - 1))).foldl
        (fun st i => Full.hh_add ko st.1 st.2.1 st.2.2.1 st.2.2.2 width depth mkl cap (ko.slice key i (i + n)) 1) (lhh, cnt, kl, nar) := by
  unfold Full.hh_add_ngram
  simp only [Rt.loop_eq_foldl]

/-- the four arrays of the kernel represent the model state `s` -/
def Rep (st : (Nat → Nat → B) × (Nat → Nat → Nat) × (Nat → Nat → Nat) × (Nat → Nat)) (s : HH (B × Nat)) : Prop :=
  (∀ r c, cellOf st.1 st.2.1 st.2.2.1 r c = s.tab r c) ∧ st.2.2.2 0 = s.nAdded ∧ st.2.2.2 1 = s.nRecords

/-- byte-string keys for the heavy hitters: the hash sees the TRUNCATED key; `arr` is the zero-padded byte array -/
def hhOps (H : List UInt8 → Nat → Nat) : Rt.KeyOps (List UInt8) (List UInt8) :=
  Rt.bytesOps H (fun k n => (padKey n k).1)

/-- identity of a byte-string key under `max_key_len = mkl`: (padded bytes of the truncated key, its length) -/
def ident (mkl : Nat) (key : List UInt8) : List UInt8 × Nat := padKey mkl (truncKey mkl key)

theorem keyId_bytes (H : List UInt8 → Nat → Nat) (mkl : Nat) (key : List UInt8) : keyId (hhOps H) mkl key = ident mkl key := by
  simp [keyId, hhOps, Rt.bytesOps, ident, padKey, truncKey, List.length_take]

/-- the column function on identities that the real hash induces: un-pad, then hash -/
def colOf (H : List UInt8 → Nat → Nat) (width : Nat) (r : Nat) (id : List UInt8 × Nat) : Nat := H (id.1.take id.2) r % width

/-- … it satisfies the hypothesis `hcol` of the theorems below (non-vacuity of that hypothesis) -/
theorem colOf_ident (H : List UInt8 → Nat → Nat) (width mkl : Nat) (r : Nat) (key : List UInt8) :
    colOf H width r (ident mkl key) = H (truncKey mkl key) r % width := by
  simp [colOf, ident, padKey, List.take_left']

/-- one `_add(key, v)` on arrays representing `s` gives arrays representing `HH.add … s (ident key) v`, for the geometry whose
    column function is `hash of the truncated key % width` -/
theorem hh_add_rep (H : List UInt8 → Nat → Nat) (col : Nat → List UInt8 × Nat → Nat) (width depth mkl : Nat)
    (hcol : ∀ r key, col r (ident mkl key) = H (truncKey mkl key) r % width)
    (st : (Nat → Nat → List UInt8) × (Nat → Nat → Nat) × (Nat → Nat → Nat) × (Nat → Nat)) (s : HH (List UInt8 × Nat))
    (key : List UInt8) (v : Nat) (hv : v ≤ CAP) (h : Rep st s) :
    Rep (Full.hh_add (hhOps H) st.1 st.2.1 st.2.2.1 st.2.2.2 width depth mkl CAP key v)
      (HH.add { depth := depth, width := width, col := col } s (ident mkl key) v) := by
  obtain ⟨h1, h2, h3⟩ := h
  have hf := hh_add_full (hhOps H) st.1 st.2.1 st.2.2.1 st.2.2.2 width depth mkl key v
  simp only [] at hf
  obtain ⟨f1, f2⟩ := hf
  refine ⟨?_, ?_, ?_⟩
  · intro r c
    rw [f1 r c, keyId_bytes, h1]
    simp only [HH.add, Nat.min_eq_left hv]
    have : (hhOps H).H ((hhOps H).slice key 0 mkl) r % width = col r (ident mkl key) := by
      rw [hcol]; simp [hhOps, Rt.bytesOps, truncKey]
    rw [this]
  · rw [f2]; simp [Rt.set1_apply, HH.add, Nat.min_eq_left hv, h2]
  · rw [f2]; simp [Rt.set1_apply, HH.add, h3]

/-- `_add_ngram` on byte strings is the model's `addNgram`: unit adds of `windows key n` in order -/
theorem hh_add_ngram_windows (H : List UInt8 → Nat → Nat) (col : Nat → List UInt8 × Nat → Nat) (width depth mkl : Nat)
    (hcol : ∀ r key, col r (ident mkl key) = H (truncKey mkl key) r % width)
    (st : (Nat → Nat → List UInt8) × (Nat → Nat → Nat) × (Nat → Nat → Nat) × (Nat → Nat)) (s : HH (List UInt8 × Nat))
    (key : List UInt8) (n : Nat) (h : Rep st s) :
    Rep (Full.hh_add_ngram (hhOps H) st.1 st.2.1 st.2.2.1 st.2.2.2 width depth mkl CAP key n)
      (addNgram (fun s k => HH.add { depth := depth, width := width, col := col } s (ident mkl k) 1) s key n) := by
  rw [hh_add_ngram_full]
  unfold addNgram windows
  by_cases hk : key.length ≤ n
  · have : (hhOps H).klen key ≤ n := hk
    simp only [this, hk, if_true, List.foldl_cons, List.foldl_nil]
    exact hh_add_rep H col width depth mkl hcol st s key 1 (by decide) h
  · have : ¬ (hhOps H).klen key ≤ n := hk
    simp only [this, hk, if_false, List.foldl_map]
    have e : ∀ i, (hhOps H).slice key i (i + n) = (key.drop i).take n := fun i => Rt.bytesOps_slice _ _ key i n
    simp only [e]
    refine Rt.foldl_rel Rep _ _ ?_ _ _ _ h
    intro a b i hab
    exact hh_add_rep H col width depth mkl hcol a b _ 1 (by decide) hab

end Sketchnu.FullHH
