/-
  Properties/C06.lean — log counters are exact in the reserved range and unbiased beyond it.
  Deterministic part (any draws): exactness, lower bound on every history, `_rand` freshness.
  The probabilistic part (`step_unbias`, `chain_mean`) is in Properties/C06Unbias.lean.

  STATEMENTS ARE FIXED.  Helper lemmas go to Proofs/LogCounter.lean (and Proofs/LogMerge.lean
  for facts about `nearest`, which Properties/C09.lean exports: `C09.nearest_ge`, `C09.merge_ge`,
  `C09.merge_reserved`).
-/
import Proofs.LogCounter
import Properties.C09
namespace Sketchnu.C06
open Sketchnu
variable {K : Type} [DecidableEq K]

/-- every cell of a reachable log table is at most the maximum counter -/
private theorem boundInv (g : Geom K) (d : Nat → Nat) (u nr maxc mcS : Nat) (hd : DecOK d u nr maxc)
    (h : Hist K) (T : Tab) (R : LogReach g d nr maxc mcS h T) :
    ∀ r c, r < g.depth → c < g.width → T r c ≤ maxc := by
  induction R with
  | new T h0 => intro r c hr hc; rw [h0 r c hr hc]; omega
  | @add h T T' k v _ ok ih =>
    intro r c hr hc
    have h1 := ih r c hr hc
    by_cases hk : c = g.col r k
    · subst hk
      have h2 := ok.upper r hr
      omega
    · rw [ok.frame r c hr hc hk]; exact h1
  | @merge a b A B T' _ _ ok iha ihb =>
    intro r c hr hc
    rw [ok r c hr hc]
    exact (C09.merge_ge d u nr maxc mcS hd _ _ (iha r c hr hc) (ihb r c hr hc)).2.2

/-- cell-level merge step of the lower invariant -/
private theorem merge_lower (d : Nat → Nat) (u nr maxc mcS : Nat) (hd : DecOK d u nr maxc)
    (a b ta tb : Nat) (ha : a ≤ maxc) (hb : b ≤ maxc)
    (h1 : min ta (nr + 1) ≤ a) (h2 : min tb (nr + 1) ≤ b) :
    min (ta + tb) (nr + 1) ≤ mergeLogSpec d maxc mcS a b := by
  obtain ⟨g1, g2, _⟩ := C09.merge_ge d u nr maxc mcS hd a b ha hb
  have hnr := hd.nr_lt
  by_cases ca : nr + 1 ≤ a
  · omega
  by_cases cb : nr + 1 ≤ b
  · omega
  by_cases hs : mcS ≤ d a + d b
  · rw [C09.merge_ceiling d maxc mcS a b hs]; omega
  by_cases hab : a + b ≤ nr + 1
  · rw [C09.merge_reserved d u nr maxc mcS hd a b hab (by omega)]; omega
  · have hda := hd.lin a (by omega)
    have hdb := hd.lin b (by omega)
    have hdn := hd.lin (nr + 1) (Nat.le_refl _)
    have hmul : (nr + 1) * u ≤ (a + b) * u := Nat.mul_le_mul_right u (by omega)
    rw [Nat.add_mul a b u] at hmul
    have hj := C09.nearest_ge d u nr maxc hd (d a + d b) (nr + 1) (by omega) (by omega)
    unfold mergeLogSpec
    simp only [ge_iff_le, hs, if_false]
    omega

/-- cell-level merge step of the upper invariant -/
private theorem merge_upper (d : Nat → Nat) (u nr maxc mcS : Nat) (hd : DecOK d u nr maxc)
    (hmc : (nr + 1) * u < mcS) (a b : Nat) (hab : a + b ≤ nr + 1) :
    mergeLogSpec d maxc mcS a b = a + b := by
  have hda := hd.lin a (by omega)
  have hdb := hd.lin b (by omega)
  have hmul : (a + b) * u ≤ (nr + 1) * u := Nat.mul_le_mul_right u hab
  rw [Nat.add_mul a b u] at hmul
  exact C09.merge_reserved d u nr maxc mcS hd a b hab (by omega)

/-- On every history (adds with arbitrary draws, merges in any tree) every counter owned by `k`
    is at least `min (true count) (num_reserved + 1)` — in counter units, where the decode is
    the identity up to `num_reserved + 1`. -/
theorem lowerInv (g : Geom K) (hg : g.WF) (d : Nat → Nat) (u nr maxc mcS : Nat) (hd : DecOK d u nr maxc)
    (h : Hist K) (T : Tab) (R : LogReach g d nr maxc mcS h T) :
    ∀ x r, r < g.depth → min (h.trueCount x) (nr + 1) ≤ T r (g.col r x) := by
  have hB := boundInv g d u nr maxc mcS hd
  induction R with
  | new T h0 => intro x r hr; simp [Hist.trueCount]
  | @add h T T' k v _ ok ih =>
    intro x r hr
    simp only [Hist.trueCount]
    by_cases hk : k = x
    · subst hk
      have hq : min (h.trueCount k) (nr + 1) ≤ tquery g maxc T k :=
        le_tquery g maxc T k _ (by have := hd.nr_lt; omega) (fun r hr => ih k r hr)
      have := ok.lower r hr
      simp only [if_true]
      omega
    · have h1 := ih x r hr
      have h2 := ok.mono r (g.col r x) hr (hg r x)
      simp only [hk, if_false]
      omega
  | @merge a b A B T' Ra Rb ok iha ihb =>
    intro x r hr
    simp only [Hist.trueCount]
    rw [ok r (g.col r x) hr (hg r x)]
    exact merge_lower d u nr maxc mcS hd _ _ _ _ (hB a A Ra r _ hr (hg r x)) (hB b B Rb r _ hr (hg r x))
      (iha x r hr) (ihb x r hr)

theorem C06_lower (g : Geom K) (hg : g.WF) (d : Nat → Nat) (u nr maxc mcS : Nat) (hd : DecOK d u nr maxc)
    (h : Hist K) (T : Tab) (R : LogReach g d nr maxc mcS h T) (k : K) :
    min (h.trueCount k) (nr + 1) ≤ tquery g maxc T k := by
  have hnr := hd.nr_lt
  exact le_tquery g maxc T k _ (by omega) (fun r hr => lowerInv g hg d u nr maxc mcS hd h T R k r hr)

/-- every counter is at most the total multiplicity mapped to its cell, as long as that stays in
    the exact zone (`cellLoad ≤ num_reserved + 1`), and never above `maxc` -/
theorem upperInv (g : Geom K) (hg : g.WF) (d : Nat → Nat) (u nr maxc mcS : Nat) (hd : DecOK d u nr maxc)
    (hmc : (nr + 1) * u < mcS)
    (h : Hist K) (T : Tab) (R : LogReach g d nr maxc mcS h T) :
    ∀ r c, r < g.depth → c < g.width → T r c ≤ maxc ∧ (h.cellLoad g r c ≤ nr + 1 → T r c ≤ h.cellLoad g r c) := by
  induction R with
  | new T h0 => intro r c hr hc; simp [h0 r c hr hc]
  | @add h T T' k v _ ok ih =>
    intro r c hr hc
    simp only [Hist.cellLoad]
    by_cases hk : g.col r k = c
    · subst hk
      have h1 := ih r (g.col r k) hr hc
      have h2 := ok.upper r hr
      simp only [if_true]
      omega
    · have h1 := ih r c hr hc
      have h2 := ok.frame r c hr hc (fun e => hk e.symm)
      simp only [hk, if_false]
      rw [h2]; simpa using h1
  | @merge a b A B T' _ _ ok iha ihb =>
    intro r c hr hc
    simp only [Hist.cellLoad]
    have h1 := iha r c hr hc
    have h2 := ihb r c hr hc
    rw [ok r c hr hc]
    refine ⟨(C09.merge_ge d u nr maxc mcS hd _ _ h1.1 h2.1).2.2, ?_⟩
    intro hl
    have h3 := h1.2 (by omega)
    have h4 := h2.2 (by omega)
    rw [merge_upper d u nr maxc mcS hd hmc _ _ (by omega)]
    omega

/-- a key that is collision-free in some row is counted exactly up to num_reserved + 1 -/
theorem C06_exact (g : Geom K) (hg : g.WF) (d : Nat → Nat) (u nr maxc mcS : Nat) (hd : DecOK d u nr maxc)
    (hmc : (nr + 1) * u < mcS)
    (h : Hist K) (T : Tab) (R : LogReach g d nr maxc mcS h T) (k : K) (r : Nat) (hr : r < g.depth)
    (hfree : ∀ k', k' ≠ k → h.mem k' → g.col r k' ≠ g.col r k) (hsmall : h.trueCount k ≤ nr + 1) :
    tquery g maxc T k = h.trueCount k := by
  apply Nat.le_antisymm
  · have h1 := (upperInv g hg d u nr maxc mcS hd hmc h T R r (g.col r k) hr (hg r k)).2
    rw [cellLoad_eq_trueCount g h k r hfree] at h1
    exact Nat.le_trans (tquery_le g maxc T k r hr) (h1 hsmall)
  · have := C06_lower g hg d u nr maxc mcS hd h T R k
    omega

/-! ### the draws are fresh: replenished, never recycled -/

/-- state after `t` calls of `_rand` starting from a fresh sketch (`rand_ptr = 0`, batch 0) -/
def randIter : Nat → RandState
  | 0 => RandState.init
  | t + 1 => (randIter t).next.2

private theorem randIter_consumed (t : Nat) :
    (randIter t).consumed = t ∧ (randIter t).ptr ≤ BATCH := by
  induction t with
  | zero => simp [randIter, RandState.init, RandState.consumed]
  | succ t ih =>
    have := RandState.next_consumed (randIter t) ih.2
    simp only [randIter]
    omega

/-- the `(t+1)`-th value handed out is element `t` of `batch₀ ++ batch₁ ++ …`: no element is
    returned twice, none is skipped, and a refill happens exactly when the pointer reaches 2048 -/
theorem rand_fresh (t : Nat) : (randIter t).next.1 = (t / BATCH, t % BATCH) := by
  have h := randIter_consumed t
  rw [RandState.next_pos _ h.2, h.1]

theorem rand_consumed (t : Nat) : (randIter t).consumed = t ∧ (randIter t).ptr ≤ BATCH :=
  randIter_consumed t

example : (randIter 2048).next.1 = (1, 0) ∧ (randIter 2047).next.1 = (0, 2047) := by
  constructor <;> (rw [rand_fresh]; decide)

end Sketchnu.C06
