/-
  Properties/C01.lean — Linear count-min: true ≤ estimate ≤ collision bound on every history.

  Stated (a) for every table reachable by steps that meet the decidable step contracts
  `AddOK` / `MergeOK` (what the correspondence slice `cms-linear-contract` evaluates on the
  real code's before/after tables), and (b) for the exact kernel model `Lin.eval`.
  The hash (`g.col`) is arbitrary.
-/
import Proofs.Lin
namespace Sketchnu.C01
open Sketchnu
variable {K : Type} [DecidableEq K]

/-- estimate ≥ min(true count, 2^32-1), for every contract-respecting run -/
theorem lower_contract (g : Geom K) (hg : g.WF) (h : Hist K) (T : Tab) (R : Reach g CAP h T)
    (k : K) : min (h.trueCount k) CAP ≤ tquery g CAP T k :=
  le_tquery g CAP T k _ (Nat.min_le_right _ _) (fun r hr => R.lowerInv hg k r hr)

/-- estimate ≤ the classic count-min value of every row, capped -/
theorem upper_contract (g : Geom K) (hg : g.WF) (h : Hist K) (T : Tab) (R : Reach g CAP h T)
    (k : K) (r : Nat) (hr : r < g.depth) :
    tquery g CAP T k ≤ min (h.cellLoad g r (g.col r k)) CAP :=
  Nat.le_trans (tquery_le g CAP T k r hr) (R.upperInv hg r _ hr (hg r k))

/-- a key that is collision-free in at least one row is counted exactly -/
theorem exact_contract (g : Geom K) (hg : g.WF) (h : Hist K) (T : Tab) (R : Reach g CAP h T)
    (k : K) (r : Nat) (hr : r < g.depth)
    (hfree : ∀ k', k' ≠ k → h.mem k' → g.col r k' ≠ g.col r k) :
    tquery g CAP T k = min (h.trueCount k) CAP := by
  apply Nat.le_antisymm
  · have := upper_contract g hg h T R k r hr
    rwa [cellLoad_eq_trueCount g h k r hfree] at this
  · exact lower_contract g hg h T R k

/-! the same three statements for the exact kernel model -/

theorem C01_lower (g : Geom K) (hg : g.WF) (h : Hist K) (k : K) :
    min (h.trueCount k) CAP ≤ Lin.query g (Lin.eval g h) k :=
  lower_contract g hg h _ (Lin.eval_reach g h) k

theorem C01_upper (g : Geom K) (hg : g.WF) (h : Hist K) (k : K) (r : Nat) (hr : r < g.depth) :
    Lin.query g (Lin.eval g h) k ≤ min (h.cellLoad g r (g.col r k)) CAP :=
  upper_contract g hg h _ (Lin.eval_reach g h) k r hr

theorem C01_exact (g : Geom K) (hg : g.WF) (h : Hist K) (k : K) (r : Nat) (hr : r < g.depth)
    (hfree : ∀ k', k' ≠ k → h.mem k' → g.col r k' ≠ g.col r k) :
    Lin.query g (Lin.eval g h) k = min (h.trueCount k) CAP :=
  exact_contract g hg h _ (Lin.eval_reach g h) k r hr hfree

/-! non-vacuity: width 1 (everything collides), three keys, a merge, a multiplicity of 2^40 -/
section Example
def g1 : Geom Nat := { depth := 2, width := 1, col := fun _ _ => 0 }
def h1 : Hist Nat := .merge (.add (.add .new 0 3) 1 (2 ^ 40)) (.add .new 2 5)
example : g1.WF := fun _ _ => Nat.lt_succ_self 0
example : Lin.query g1 (Lin.eval g1 h1) 0 = CAP ∧ h1.trueCount 0 = 3 ∧
    h1.cellLoad g1 0 0 = 3 + 2 ^ 40 + 5 := by decide
end Example

end Sketchnu.C01
