/-
  Properties/SrcHHQ.lean — the cache test of `HeavyHitters.query` and the cell visit of `generate_candidate_set`, as
  translated from the current source (`Model/Generated/KernelsHHQ.lean`; everything around them is required by the
  translator to read exactly as modelled), are the model's `HHQ.query` / `HH.candStep` for all inputs.
-/
import Model.Generated.KernelsHHQ
import Model.HeavyHitters
namespace Sketchnu.SrcHHQ
open Sketchnu
variable {K : Type} [DecidableEq K]

/-- `query` rebuilds the candidate set exactly when the source's test says so, then answers from the (possibly rebuilt) cache -/
theorem query_src (g : Geom K) (q : HHQ K) (kk : Option Nat) (thr : Nat) :
    HHQ.query g q kk thr =
      let q' := if Src.queryRegen q.nAddedSort q.hh.nAdded q.thrSort thr = true then q.regen g thr else q
      (q', HH.mostCommon q'.cand kk) := by
  unfold HHQ.query Src.queryRegen
  simp only [decide_eq_true_eq]

/-- `generate_candidate_set(threshold)` records the `n_added` and the threshold it was built at and starts from an empty set -/
theorem regen_src (g : Geom K) (q : HHQ K) (thr : Nat) :
    (q.regen g thr).nAddedSort = q.hh.nAdded ∧ (q.regen g thr).thrSort = thr ∧ (q.regen g thr).hh = q.hh ∧
    (q.regen g thr).cand = (HH.cellOrder g).foldl (fun cand rc => HH.candStep g q.hh thr cand rc.1 rc.2) [] := ⟨rfl, rfl, rfl, rfl⟩

/-- the visit of one cell inserts `(key, hh[key])` exactly when the source's tests say so -/
theorem candStep_src (g : Geom K) (s : HH K) (thr : Nat) (cand : List (K × Nat)) (r c : Nat) :
    HH.candStep g s thr cand r c =
      if Src.candInsert (s.tab r c).cnt (HH.lookup cand (s.tab r c).key) (HH.getitem g s (s.tab r c).key) thr = true
      then cand ++ [((s.tab r c).key, HH.getitem g s (s.tab r c).key)] else cand := by
  unfold HH.candStep Src.candInsert
  simp only []
  repeat' split
  all_goals simp_all
  all_goals omega

end Sketchnu.SrcHHQ
