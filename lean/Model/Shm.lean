/-
  Model/Shm.lean — byte layout of the shared-memory blocks, as computed (separately) by
  `__init__(shared_memory=True)` and by `attach_existing_shm`, and the little-endian encoding
  through which every view reads and writes the same bytes.
-/
namespace Sketchnu

/-- a segment `[start, stop)` of the block -/
structure Seg where
  start : Nat
  stop  : Nat
  deriving Repr, DecidableEq

/-- count-min `__init__`: `cms_size = int(itemsize * width * depth)`, `n_added_size = 8 * 2`;
    `buf[:cms_size]`, `buf[cms_size:]`; block size `cms_size + n_added_size` -/
def cmsInitLayout (itemsize width depth : Nat) : List Seg × Nat :=
  let cmsSize := itemsize * width * depth
  let nAddedSize := 8 * 2
  ([⟨0, cmsSize⟩, ⟨cmsSize, cmsSize + nAddedSize⟩], cmsSize + nAddedSize)

/-- count-min `attach_existing_shm`: `buf[: self.cms.nbytes]`, `buf[self.cms.nbytes :]` where
    `self.cms` is the local `(depth, width)` array: `nbytes = depth * width * itemsize`; the block
    has the size the owner created it with -/
def cmsAttachLayout (itemsize width depth blockSize : Nat) : List Seg :=
  let nbytes := depth * width * itemsize
  [⟨0, nbytes⟩, ⟨nbytes, blockSize⟩]

/-- heavy hitters `__init__` -/
def hhInitLayout (maxKeyLen width depth : Nat) : List Seg × Nat :=
  let lhh := maxKeyLen * width * depth
  let cnt := 4 * width * depth
  let lens := 1 * width * depth
  let nAdded := 8 * 2
  let s0 := 0
  let e0 := lhh
  let e1 := e0 + cnt
  let e2 := e1 + lens
  ([⟨s0, e0⟩, ⟨e0, e1⟩, ⟨e1, e2⟩, ⟨e2, lhh + cnt + lens + nAdded⟩], lhh + cnt + lens + nAdded)

/-- heavy hitters `attach_existing_shm`: sizes taken from the local arrays' `nbytes` -/
def hhAttachLayout (maxKeyLen width depth blockSize : Nat) : List Seg :=
  let lhhN := depth * width * maxKeyLen * 1      -- uint8 (depth, width, max_key_len)
  let cntN := depth * width * 4                  -- uint32 (depth, width)
  let lensN := depth * width * 1                 -- uint8 (depth, width)
  let e0 := lhhN
  let e1 := e0 + cntN
  let e2 := e1 + lensN
  [⟨0, e0⟩, ⟨e0, e1⟩, ⟨e1, e2⟩, ⟨e2, blockSize⟩]

/-- HyperLogLog: one segment of `m = 2^p` bytes, both in `__init__` and on attach (`shm.buf`) -/
def hllLayout (p : Nat) : List Seg × Nat := ([⟨0, 2 ^ p⟩], 2 ^ p)

/-- segments are consecutive starting at `from` and end at `to` -/
def chained : List Seg → Nat → Nat → Prop
  | [], a, b => a = b
  | s :: rest, a, b => s.start = a ∧ s.start ≤ s.stop ∧ chained rest s.stop b

/-- little-endian encoding of `x` in `n` bytes / decoding -/
def encodeLE : Nat → Nat → List Nat
  | 0, _ => []
  | n + 1, x => (x % 256) :: encodeLE n (x / 256)

def decodeLE : List Nat → Nat
  | [] => 0
  | b :: bs => b + 256 * decodeLE bs

end Sketchnu
