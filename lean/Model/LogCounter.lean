/-
  Model/LogCounter.lean — log8/log16 count-min: `_rand`, `_log_counter`, `_add_log*`,
  the counter-unit part of `_merge_log*` (as a specification over exact scaled integers)
  and its float mirror used for bit-level correspondence.
-/
import Model.CountMin
namespace Sketchnu

/-- Size of a batch of uniform draws (`np.random.rand(2048)`). -/
def BATCH : Nat := 2048

/-- State of the `_rand` machine: which batch `rand_nums` currently holds and `rand_ptr`. -/
structure RandState where
  batch : Nat
  ptr   : Nat
  deriving Repr, DecidableEq

namespace RandState

def init : RandState := { batch := 0, ptr := 0 }

/-- `_rand(rand_batch, rand_ptr)`: returns the *position* `(batch, index)` of the draw handed
    out and the new state.  `if rand_ptr == 2048: refill; rand_ptr = 1 else rand_ptr += 1;
    return rand_batch[rand_ptr - 1]`. -/
def next (s : RandState) : (Nat × Nat) × RandState :=
  if s.ptr = BATCH then ((s.batch + 1, 0), { batch := s.batch + 1, ptr := 1 })
  else ((s.batch, s.ptr), { s with ptr := s.ptr + 1 })

/-- Number of draws consumed so far (position in the concatenated stream). -/
def consumed (s : RandState) : Nat := s.batch * BATCH + s.ptr

end RandState

/-- Configuration of a log counter.  `inc c' u` is the decision `u < base ** (-c')` for
    `c' = counter - num_reserved ≥ 0`; it is a parameter so that safety theorems hold for
    arbitrary draws and arbitrary (even wrong) float evaluation. -/
structure LogCfg (D : Type) where
  nr   : Nat              -- num_reserved
  maxc : Nat              -- uint_maxval: 255 or 65535
  inc  : Nat → D → Bool

/-- `_log_counter(counter, …, value)`: `value` unit steps.  Stops at the maximum without
    consuming a draw; unconditional below `num_reserved`; otherwise one draw per step. -/
def logCounter {D : Type} (cfg : LogCfg D) (draws : Nat → Nat → D) :
    Nat → Nat → RandState → Nat × RandState
  | 0, c, rs => (c, rs)
  | v + 1, c, rs =>
    if c ≥ cfg.maxc then (c, rs)
    else if c < cfg.nr then logCounter cfg draws v (c + 1) rs
    else
      let (pos, rs') := rs.next
      if cfg.inc (c - cfg.nr) (draws pos.1 pos.2) then logCounter cfg draws v (c + 1) rs'
      else logCounter cfg draws v c rs'

/-- State of a `CountMinLog16` / `CountMinLog8`. -/
structure Log where
  tab      : Tab
  nAdded   : Nat
  nRecords : Nat
  rs       : RandState

namespace Log
variable {K D : Type}

def empty : Log := { tab := fun _ _ => 0, nAdded := 0, nRecords := 0, rs := RandState.init }

/-- smallest counter of `k` (the estimate in counter units) -/
def queryC (g : Geom K) (cfg : LogCfg D) (s : Log) (k : K) : Nat := tquery g cfg.maxc s.tab k

/-- `_add_log16` / `_add_log8`. -/
def add (g : Geom K) (cfg : LogCfg D) (draws : Nat → Nat → D) (s : Log) (k : K) (v : Nat) : Log :=
  let m := queryC g cfg s k
  let (nc, rs') := logCounter cfg draws v m s.rs
  if nc = m then { s with nAdded := s.nAdded + v, rs := rs' }
  else { tab := raiseTo g s.tab k nc, nAdded := s.nAdded + v, nRecords := s.nRecords, rs := rs' }

end Log

/-! ### Exact decode and the nearest-counter specification of `_merge_log*`

`base` is a double in `(1, 2)`: `base = B / S` with `S = 2^52`.  With `K = maxc - nr`,
`decS c = dec c * S^K` is an integer:
`dec c = c` for `c ≤ nr`, `nr + Σ_{j < c-nr} base^j` above (`= nr + (base^c' - 1)/(base - 1)`). -/

/-- `Σ_{j<n} B^j * S^(K-j)`  (so that `geomS … n / S^K = Σ_{j<n} (B/S)^j`). -/
def geomS (B S K : Nat) : Nat → Nat
  | 0 => 0
  | n + 1 => geomS B S K n + B ^ n * S ^ (K - n)

/-- decoded value of counter `c`, scaled by `S^K`. -/
def decS (B S nr K : Nat) (c : Nat) : Nat :=
  if c ≤ nr then c * S ^ K else nr * S ^ K + geomS B S K (c - nr)

/-- distance on `Nat` -/
def ndist (a b : Nat) : Nat := if a ≤ b then b - a else a - b

/-- Least index in `[0, n]` minimising `|d c - t|` (ties go to the lower counter, as the
    code's `delta / (vhigher - vlower) <= 0.5`). -/
def nearest (d : Nat → Nat) (t : Nat) : Nat → Nat
  | 0 => 0
  | n + 1 =>
    let b := nearest d t n
    if ndist (d (n + 1)) t < ndist (d b) t then n + 1 else b

/-- Specification of one merged log cell, in counter units: the counter whose decoded value
    is nearest to `dec a + dec b`; the maximum counter once the sum reaches `max_count`. -/
def mergeLogSpec (d : Nat → Nat) (maxc : Nat) (maxCountS : Nat) (a b : Nat) : Nat :=
  let t := d a + d b
  if t ≥ maxCountS then maxc else nearest d t maxc

/-- Faster evaluation of `nearest` for a monotone table by binary search for the bracket
    (used by the driver for all-pairs runs; proved equal to `nearest` in Proofs.LogMerge
    for strictly increasing `d`). `lo` is an index with `d lo ≤ t`, `hi` one with `t < d hi`
    or `hi = n`. -/
def bracket (d : Nat → Nat) (t : Nat) : Nat → Nat → Nat → Nat
  | 0, lo, _ => lo
  | fuel + 1, lo, hi =>
    if hi ≤ lo + 1 then lo
    else
      let mid := (lo + hi) / 2
      if d mid ≤ t then bracket d t fuel mid hi else bracket d t fuel lo mid

def nearestFast (d : Nat → Nat) (t : Nat) (n : Nat) : Nat :=
  if t ≤ d 0 then 0
  else if d n ≤ t then n
  else
    let lo := bracket d t (n + 1) 0 n
    -- d lo ≤ t < d (lo+1)
    if ndist (d (lo + 1)) t < ndist (d lo) t then lo + 1 else lo

/-! ### Float mirror of `_counter2value` / `_merge_log*` (bit-level correspondence only;
    nothing is proved about it) -/

def counter2valueF (base : Float) (nr : Nat) (c : Nat) : Float :=
  if c ≤ nr then Float.ofNat c
  else
    let cprime := Float.ofNat (c - nr)
    (Float.pow base cprime - 1.0) / (base - 1.0) + Float.ofNat nr

/-- One cell of `_merge_log16/8`, mirroring the float evaluation order of the code.  `maxc + 1` is the modulus of the cell type
    (2^16 or 2^8: the `uintN(…)` casts and the stores into `cms`); `_counter2value` declares its counter parameter `uint16` for both
    sketch types, so its argument is reduced modulo 2^16 (`Properties/SrcFloat.lean` proves this definition equal to the body as
    translated from the source). -/
def mergeLogCellF (base : Float) (nr maxc : Nat) (maxCount : Float) (a b : Nat) : Nat :=
  let v := counter2valueF base nr a + counter2valueF base nr b
  if v ≤ Float.ofNat nr then v.toUInt64.toNat % (maxc + 1)
  else if v ≥ maxCount then maxc
  else
    let cprimeF := Float.log ((v - Float.ofNat nr) * (base - 1.0) + 1.0) / Float.log base
    let cprime := cprimeF.toUInt64.toNat % (maxc + 1)
    let clower := cprime + nr
    let vlower := counter2valueF base nr (clower % 65536)
    let vhigher := counter2valueF base nr ((clower + 1) % 65536)
    let delta := v - vlower
    if delta / (vhigher - vlower) ≤ 0.5 then clower % (maxc + 1) else (clower + 1) % (maxc + 1)

/-- the decision `rand < base ** (-cprime)` in floats -/
def incF (base : Float) (cprime : Nat) (u : Float) : Bool :=
  u < Float.pow base (-(Float.ofNat cprime))

end Sketchnu
