import Model.Basic
namespace Sketchnu
/-- commands of the later model files (persist / npz / shm / parallel) are dispatched here -/
def extraStep (_cmd : String) (_args : List String) : Option String := none
end Sketchnu
