/-
  Model/Parallel.lean — `helpers.parallel_add`: the queue protocol of `_fill_queue` / `_worker`,
  the merge rounds of `parallel_merging`, and the exit-code monitor, as a transition system.

  * The filler puts every item, then one poison pill (`none`) per worker, into a bounded FIFO.
  * A running worker takes the head: on an item it runs the callback (which may raise — the
    worker logs, counts 0 records for that item and CONTINUES), on a pill it stops.
  * `mergeRounds` is the round structure of `parallel_merging`: (2i, 2i+1) merged into 2i, an odd
    last element carried over.
-/
import Model.Basic
namespace Sketchnu

/-- state of one worker: has it consumed its pill; the items it processed, in order -/
structure WState (I : Type) where
  done : Bool
  got  : List I
  deriving Repr

structure PState (I : Type) where
  todo    : List I            -- items the filler has not put yet
  pills   : Nat               -- pills the filler still has to put (after all items)
  queue   : List (Option I)   -- bounded FIFO, head first; `none` = poison pill
  workers : List (WState I)
  deriving Repr

namespace PState
variable {I : Type}

def init (items : List I) (nWorkers : Nat) : PState I :=
  { todo := items, pills := nWorkers, queue := [], workers := List.replicate nWorkers { done := false, got := [] } }

/-- everything put, queue drained, every worker stopped -/
def final (s : PState I) : Prop :=
  s.todo = [] ∧ s.pills = 0 ∧ s.queue = [] ∧ ∀ w ∈ s.workers, w.done = true

/-- all items processed so far, worker by worker -/
def processed (s : PState I) : List I := s.workers.flatMap (·.got)

/-- items currently in the queue -/
def queued (s : PState I) : List I := s.queue.filterMap id

/-- termination measure -/
def measure (s : PState I) : Nat := 2 * (s.todo.length + s.pills) + s.queue.length

end PState

/-- one step of the protocol with queue capacity `cap` (`ctx.Queue(3 * n_workers)`) -/
inductive PStep {I : Type} (cap : Nat) : PState I → PState I → Prop
  | putItem (s : PState I) (x : I) (rest : List I) :
      s.todo = x :: rest → s.queue.length < cap →
      PStep cap s { s with todo := rest, queue := s.queue ++ [some x] }
  | putPill (s : PState I) (p : Nat) :
      s.todo = [] → s.pills = p + 1 → s.queue.length < cap →
      PStep cap s { s with pills := p, queue := s.queue ++ [none] }
  | takeItem (s : PState I) (w : Nat) (x : I) (q : List (Option I)) (ws : WState I) :
      s.queue = some x :: q → s.workers[w]? = some ws → ws.done = false →
      PStep cap s { s with queue := q, workers := s.workers.set w { done := false, got := ws.got ++ [x] } }
  | takePill (s : PState I) (w : Nat) (q : List (Option I)) (ws : WState I) :
      s.queue = none :: q → s.workers[w]? = some ws → ws.done = false →
      PStep cap s { s with queue := q, workers := s.workers.set w { done := true, got := ws.got } }

/-- reachability -/
inductive PReach {I : Type} (cap : Nat) (items : List I) (nWorkers : Nat) : PState I → Prop
  | init : PReach cap items nWorkers (PState.init items nWorkers)
  | step {s t : PState I} : PReach cap items nWorkers s → PStep cap s t → PReach cap items nWorkers t

/-! ### merge rounds of `parallel_merging` -/

/-- one round: `(2i, 2i+1)` merged into `2i`; an odd last element is carried -/
def mergeRound {S : Type} (merge : S → S → S) : List S → List S
  | a :: b :: rest => merge a b :: mergeRound merge rest
  | l => l

/-- `while n_to_merge > 1` (fuel = list length suffices) -/
def mergeRounds {S : Type} (merge : S → S → S) : Nat → List S → List S
  | 0, l => l
  | fuel + 1, l => if l.length ≤ 1 then l else mergeRounds merge fuel (mergeRound merge l)

/-- result of `parallel_merging(sketch_array)` -/
def parallelMerging {S : Type} (merge : S → S → S) (l : List S) : Option S :=
  (mergeRounds merge l.length l).head?

/-- merge trees over the workers' sketches -/
inductive MTree (S : Type) where
  | leaf : S → MTree S
  | node : MTree S → MTree S → MTree S

def MTree.eval {S : Type} (merge : S → S → S) : MTree S → S
  | .leaf s => s
  | .node a b => merge (a.eval merge) (b.eval merge)

def MTree.leaves {S : Type} : MTree S → List S
  | .leaf s => [s]
  | .node a b => a.leaves ++ b.leaves

/-! ### callback outcomes and record counts (C19) -/

/-- what the callback did on an item: the sketch operations it performed before returning or
    raising, and its return value (`none` = it raised; the worker then counts 0 records) -/
structure Outcome (K : Type) where
  ops : List (K × Nat)
  ret : Option Nat

/-- `n_records` accumulated by a worker over the items it processed -/
def workerRecords {I K : Type} (cb : I → Outcome K) (got : List I) : Nat :=
  (got.map fun x => (cb x).ret.getD 0).sum

/-- the operations a worker applied to its sketches -/
def workerOps {I K : Type} (cb : I → Outcome K) (got : List I) : List (K × Nat) :=
  got.flatMap fun x => (cb x).ops

/-- history of one worker's sketch -/
def histOfOps {K : Type} (ops : List (K × Nat)) : Hist K :=
  ops.foldl (fun h kv => Hist.add h kv.1 kv.2) Hist.new

/-! ### exit-code monitor of `parallel_add` -/

/-- one polling pass over the workers' exit codes: `none` = still running -/
def pollClosed (codes : List (Option Int)) : Bool := codes.any fun c => match c with | some n => n != 0 | none => false
def pollAnyNone (codes : List (Option Int)) : Bool := codes.any Option.isNone

/-- the monitor loop over successive snapshots of exit codes: returns whether the queues were
    closed (⇒ the next `log_queue.put` raises and `parallel_add` ends with an exception) and how
    many snapshots were consumed; `none` if the snapshots ran out while a worker was still running -/
def monitor : List (List (Option Int)) → Bool → Option Bool
  | [], _ => none
  | codes :: rest, closed =>
    let closed' := closed || pollClosed codes
    if pollAnyNone codes then monitor rest closed' else some closed'

/-! ### executable scheduler actions (used to validate real traces against `PStep`) -/

inductive PAction where
  | put              -- the filler puts its next element (item, or pill once the items are out)
  | take (w : Nat)   -- worker `w` takes the head of the queue
  deriving Repr, DecidableEq

/-- apply an action if it is enabled -/
def applyAction {I : Type} (cap : Nat) (s : PState I) : PAction → Option (PState I)
  | .put =>
    if s.queue.length < cap then
      match s.todo with
      | x :: rest => some { s with todo := rest, queue := s.queue ++ [some x] }
      | [] => match s.pills with
        | p + 1 => some { s with pills := p, queue := s.queue ++ [none] }
        | 0 => none
    else none
  | .take w =>
    match s.queue, s.workers[w]? with
    | some x :: q, some ws =>
      if ws.done then none else some { s with queue := q, workers := s.workers.set w { done := false, got := ws.got ++ [x] } }
    | none :: q, some ws =>
      if ws.done then none else some { s with queue := q, workers := s.workers.set w { done := true, got := ws.got } }
    | _, _ => none

/-- run a whole trace of actions -/
def runActions {I : Type} (cap : Nat) : PState I → List PAction → Option (PState I)
  | s, [] => some s
  | s, a :: rest => match applyAction cap s a with
    | some t => runActions cap t rest
    | none => none

def PState.finalb {I : Type} (s : PState I) : Bool :=
  s.todo.isEmpty && s.pills == 0 && s.queue.isEmpty && s.workers.all (·.done)

end Sketchnu
