/-
  Model/CountMin.lean — linear count-min sketch (`_query_linear`, `_add_linear`,
  `_merge_linear`, `CountMinLinear.add`) over `Nat` with the code's explicit guards.
-/
import Model.Basic
namespace Sketchnu

/-- `_query_*`: running minimum over the first `d` rows, starting at the ceiling `cap`
    (`min_count = uint_maxval; for row in range(depth): if count < min_count: …`). -/
def qrows {K : Type} (g : Geom K) (cap : Nat) (T : Tab) (k : K) : Nat → Nat
  | 0 => cap
  | d + 1 =>
    let m := qrows g cap T k d
    let c := T d (g.col d k)
    if c < m then c else m

/-- `query(key)` for a table with ceiling `cap`. -/
def tquery {K : Type} (g : Geom K) (cap : Nat) (T : Tab) (k : K) : Nat :=
  qrows g cap T k g.depth

/-- The conservative update loop shared by all three counter types:
    "Now update only those counters that are below the new value". -/
def raiseTo {K : Type} (g : Geom K) (T : Tab) (k : K) (nc : Nat) : Tab :=
  fun r c => if r < g.depth ∧ c = g.col r k ∧ T r c < nc then nc else T r c

/-- State of a `CountMinLinear`: table + the two bookkeeping counters. -/
structure Lin where
  tab      : Tab
  nAdded   : Nat
  nRecords : Nat

namespace Lin
variable {K : Type}

def empty : Lin := { tab := fun _ _ => 0, nAdded := 0, nRecords := 0 }

def query (g : Geom K) (s : Lin) (k : K) : Nat := tquery g CAP s.tab k

/-- `CountMinLinear.add` followed by `_add_linear`. -/
def add (g : Geom K) (s : Lin) (k : K) (v : Nat) : Lin :=
  let v0 := min v CAP                 -- value = min(value, self.uint_maxval)
  let m := query g s k                -- min_count = _query_linear(...)
  if m = CAP then s                   -- Counter is maxed out, nothing to do
  else
    let v' := min v0 (CAP - m)        -- value = min(value, uint_maxval - min_count)
    let nc := m + v'
    { tab := raiseTo g s.tab k nc, nAdded := s.nAdded + v', nRecords := s.nRecords }

/-- `_merge_linear`: element-wise saturating sum; bookkeeping counters are summed. -/
def merge (a b : Lin) : Lin :=
  { tab := fun r c => if b.tab r c > CAP - a.tab r c then CAP else a.tab r c + b.tab r c
    nAdded := a.nAdded + b.nAdded
    nRecords := a.nRecords + b.nRecords }

/-- Evaluate a history tree. -/
def eval [DecidableEq K] (g : Geom K) : Hist K → Lin
  | .new => empty
  | .add h k v => add g (eval g h) k v
  | .merge a b => merge (eval g a) (eval g b)

end Lin

/-! ### Step contracts (decidable) — what the bound-type history theorems need of a step -/

/-- Bounded universal quantifier over `i < n`, executable. -/
def allLt (n : Nat) (p : Nat → Bool) : Bool :=
  match n with
  | 0 => true
  | n + 1 => allLt n p && p n

/-- Contract of an `add(k, v)` step from table `T` to `T'` with ceiling `cap`
    (checked on the cells `r < depth`, `c < width`):
    no counter decreases; only `k`'s cells change; each of `k`'s cells ends
    `≥ min (query T k + v) cap` and `≤ max old (min (old + v) cap)`. -/
def addOKb {K : Type} (g : Geom K) (cap : Nat) (T : Tab) (k : K) (v : Nat) (T' : Tab) : Bool :=
  let q := tquery g cap T k
  allLt g.depth fun r =>
    (allLt g.width fun c =>
      decide (T r c ≤ T' r c) && (c == g.col r k || T' r c == T r c)) &&
    decide (min (q + v) cap ≤ T' r (g.col r k)) &&
    decide (T' r (g.col r k) ≤ max (T r (g.col r k)) (min (T r (g.col r k) + v) cap))

/-- Contract of a linear `merge`: every cell is the saturating sum. -/
def mergeOKb {K : Type} (g : Geom K) (cap : Nat) (A B T' : Tab) : Bool :=
  allLt g.depth fun r => allLt g.width fun c => T' r c == min (A r c + B r c) cap

end Sketchnu
