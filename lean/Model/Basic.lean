/-
  Model/Basic.lean — shared vocabulary of the sketchnu model.

  Import-free and executable: everything in `Model/` is compiled into the line-protocol
  driver (`Driver.lean`) and is what the correspondence check runs against /repo.
-/
namespace Sketchnu

/-- Storage ceiling of the 32-bit linear counters and of the heavy-hitter counts
    (`uint_maxval = np.uint32(2**32 - 1)`). -/
def CAP : Nat := 4294967295

/-- A table of counters as a total function `row → column → value`.  A kernel's row loop
    touches exactly one cell per row, so a pointwise update is an exact rendering. -/
abbrev Tab := Nat → Nat → Nat

/-- Geometry of a depth × width sketch.  The hash is a *parameter*: `col r k` is the column of
    key `k` in row `r` (`fasthash64(key, row) % width` in the code — obligation C14_cols). -/
structure Geom (K : Type) where
  depth : Nat
  width : Nat
  col   : Nat → K → Nat

/-- History trees: every sketch is reached from empty sketches by adds and merges.
    `update`, dict update, `add_ngram`, `update_ngram` unfold to sequences of `add`
    (C12); save/load is the identity on state (C10). -/
inductive Hist (K : Type) where
  | new   : Hist K
  | add   : Hist K → K → Nat → Hist K
  | merge : Hist K → Hist K → Hist K
  deriving Repr

namespace Hist
variable {K : Type} [DecidableEq K]

/-- Total multiplicity added for `k` over all merged streams. -/
def trueCount : Hist K → K → Nat
  | new, _ => 0
  | add h k' v, k => trueCount h k + (if k' = k then v else 0)
  | merge a b, k => trueCount a k + trueCount b k

/-- Total multiplicity of all keys that map to column `c` of row `r`. -/
def cellLoad (g : Geom K) : Hist K → Nat → Nat → Nat
  | new, _, _ => 0
  | add h k v, r, c => cellLoad g h r c + (if g.col r k = c then v else 0)
  | merge a b, r, c => cellLoad g a r c + cellLoad g b r c

/-- Total multiplicity of everything added. -/
def totalWeight : Hist K → Nat
  | new => 0
  | add h _ v => totalWeight h + v
  | merge a b => totalWeight a + totalWeight b

/-- `k` occurs in an `add` of the history (with any multiplicity, even 0). -/
def mem (k : K) : Hist K → Prop
  | new => False
  | add h k' _ => k' = k ∨ mem k h
  | merge a b => mem k a ∨ mem k b

/-- executable version of `mem` -/
def memb (k : K) : Hist K → Bool
  | new => false
  | add h k' _ => decide (k' = k) || memb k h
  | merge a b => memb k a || memb k b

end Hist

end Sketchnu
