/-
  Model/Npz.lean — how a `.npz` written by `np.savez` is opened: NumPy's `np.load` dispatch on the
  first bytes and CPython `zipfile._EndRecData` (end-of-central-directory record search).
  Modelled from the installed NumPy 2.x / CPython 3.12 sources; not verified.
-/
import Model.Basic
namespace Sketchnu

abbrev BytesL := List UInt8

/-- `PK\x05\x06` — end of central directory signature (`stringEndArchive`, also NumPy's `_ZIP_SUFFIX`) -/
def sigEOCD : BytesL := [0x50, 0x4B, 0x05, 0x06]
/-- `PK\x03\x04` — local file header signature (NumPy's `_ZIP_PREFIX`) -/
def sigLocal : BytesL := [0x50, 0x4B, 0x03, 0x04]
/-- `\x93NUMPY` -/
def npyMagic : BytesL := [0x93, 0x4E, 0x55, 0x4D, 0x50, 0x59]

def sizeEndCentDir : Nat := 22

/-- does `pat` occur in `f` at offset `q` -/
def occursAt (pat f : BytesL) (q : Nat) : Bool := (f.drop q).take pat.length == pat && q + pat.length ≤ f.length

/-- `data.rfind(pat)`: greatest offset `< n` (searching downward from `n`) at which `pat` occurs -/
def rfindFrom (pat f : BytesL) : Nat → Option Nat
  | 0 => if occursAt pat f 0 then some 0 else none
  | q + 1 => if occursAt pat f (q + 1) then some (q + 1) else rfindFrom pat f q

def rfind (pat f : BytesL) : Option Nat := rfindFrom pat f f.length

/-- `zipfile._EndRecData`: offset of the end record, or `none` ("File is not a zip file").
    1. the last 22 bytes are a record with an empty comment; else
    2. `rfind` of the signature in the last 64 KiB + 22 bytes; the record must be complete. -/
def endRecData (f : BytesL) : Option Nat :=
  let n := f.length
  if n ≥ sizeEndCentDir ∧ (f.drop (n - sizeEndCentDir)).take 4 = sigEOCD ∧ f.drop (n - 2) = [0, 0] then
    some (n - sizeEndCentDir)
  else
    let start := n - min n (65536 + sizeEndCentDir)
    match rfind sigEOCD (f.drop start) with
    | none => none
    | some s => if (f.drop (start + s)).length < sizeEndCentDir then none else some (start + s)

inductive LoadOutcome where
  | eofError        -- "No data left in file"
  | valueError      -- pickle path with allow_pickle=False
  | badZipFile      -- zipfile could not find the end record
  | npyPath         -- a plain .npy (never produced by save(); member access by name then fails)
  | opened (eocd : Nat)  -- the container opened; members are then read by name
  deriving Repr, DecidableEq

/-- `np.load(file)` up to the point where the zip container is opened -/
def npLoad (f : BytesL) : LoadOutcome :=
  if f = [] then .eofError
  else if f.take 4 = sigLocal ∨ f.take 4 = sigEOCD then
    match endRecData f with
    | none => .badZipFile
    | some e => .opened e
  else if f.take 6 = npyMagic then .npyPath
  else .valueError

def LoadOutcome.isError : LoadOutcome → Bool
  | .opened _ => false
  | .npyPath => false
  | _ => true

/-- the file is `body ++ end record`: the signature occurs exactly once, 22 bytes before the end,
    and the record has an empty comment — a decidable predicate the harness evaluates on every
    file it writes -/
def uniqueSig (f : BytesL) : Bool :=
  decide (sizeEndCentDir ≤ f.length) &&
  (List.range f.length).all (fun q => !(occursAt sigEOCD f q) || q == f.length - sizeEndCentDir) &&
  occursAt sigEOCD f (f.length - sizeEndCentDir) && (f.drop (f.length - 2) == [0, 0])

end Sketchnu
