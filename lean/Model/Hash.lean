/-
  Model/Hash.lean — `sketchnu/hashes.py`.

  `Impl.*` follows the structure of the Numba code (block loop under `nblocks > 0`, the
  seven-way / three-way unrolled tail, `h - (h >> 32)` truncation) and takes every literal
  constant from `Model.Generated.Constants`, which the translator regenerates from the
  source on every run.

  `Ref.*` is the published algorithm (Zilong Tan's fasthash.c; Austin Appleby's
  MurmurHash3_x86_32) with the published constants written here by hand.

  `Impl = Ref` for every key and seed is proved in `Properties/C11.lean`.
-/
import Model.Generated.Constants
namespace Sketchnu

abbrev Bytes := List UInt8

/-- little-endian load of up to 8 bytes (what `np.frombuffer(.., np.uint64)` / `*pos++` do on
    this platform) -/
def le64 : Bytes → UInt64
  | [] => 0
  | b :: bs => b.toUInt64 ||| (le64 bs <<< 8)

def le32 : Bytes → UInt32
  | [] => 0
  | b :: bs => b.toUInt32 ||| (le32 bs <<< 8)

/-- split off the complete `n`-byte blocks: returns (blocks, tail) -/
def chunks (n : Nat) (bs : Bytes) : Nat → List Bytes × Bytes
  | 0 => ([], bs)
  | fuel + 1 =>
    if n = 0 ∨ bs.length < n then ([], bs)
    else
      let (cs, t) := chunks n (bs.drop n) fuel
      (bs.take n :: cs, t)

def blocksOf (n : Nat) (bs : Bytes) : List Bytes × Bytes := chunks n bs bs.length

/-- `np.frombuffer(bs, np.uint64)` / `np.uint32`: the complete little-endian words of `bs` -/
def frombuffer64 (bs : Bytes) : List UInt64 := (blocksOf 8 bs).1.map le64
def frombuffer32 (bs : Bytes) : List UInt32 := (blocksOf 4 bs).1.map le32

namespace Impl
open Gen

def xorShiftl (v : UInt64) (t : UInt8) (l : UInt64) : UInt64 := v ^^^ (t.toUInt64 <<< l)

def fhmix64 (h : UInt64) : UInt64 :=
  let h := h ^^^ (h >>> fh_shift_a)
  let h := h * fh_mix_mul
  h ^^^ (h >>> fh_shift_b)

/-- one unrolled tail case: `v = 0; v = _xor_shiftl(v, tail[i], s) …; v ^= uint64(tail[last])` -/
def fhTailCase (spec : List (Nat × UInt64) × Nat) (tail : Bytes) : UInt64 :=
  let v := spec.1.foldl (fun v (p : Nat × UInt64) => xorShiftl v (tail.getD p.1 0) p.2) 0
  v ^^^ (tail.getD spec.2 0).toUInt64

/-- the `if switch_case == 7 … elif switch_case == 1` chain of `fasthash64` -/
def fhTail (tail : Bytes) : Option UInt64 :=
  match tail.length with
  | 7 => some (fhTailCase fh_tail_7 tail)
  | 6 => some (fhTailCase fh_tail_6 tail)
  | 5 => some (fhTailCase fh_tail_5 tail)
  | 4 => some (fhTailCase fh_tail_4 tail)
  | 3 => some (fhTailCase fh_tail_3 tail)
  | 2 => some (fhTailCase fh_tail_2 tail)
  | 1 => some (fhTailCase fh_tail_1 tail)
  | _ => none

def fasthash64 (key : Bytes) (seed : UInt64) : UInt64 :=
  let m := fh_m
  let keyLen := key.length.toUInt64
  let (blocks, tail) := blocksOf 8 key
  let h := seed ^^^ (keyLen * m)
  let h := blocks.foldl (fun h blk => (h ^^^ fhmix64 (le64 blk)) * m) h
  let h := match fhTail tail with
    | some v => (h ^^^ fhmix64 v) * m
    | none => h
  fhmix64 h

def fasthash32 (key : Bytes) (seed : UInt64) : UInt32 :=
  let h := fasthash64 key seed
  (h - (h >>> fh32_shift)).toUInt32

def rotl32 (x : UInt32) (r : UInt32) : UInt32 := (x <<< r) ||| (x >>> (32 - r))

def fmix32 (h : UInt32) : UInt32 :=
  let h := h ^^^ (h >>> mm_fmix_shift_a)
  let h := h * mm_fmix_mul_a
  let h := h ^^^ (h >>> mm_fmix_shift_b)
  let h := h * mm_fmix_mul_b
  h ^^^ (h >>> mm_fmix_shift_c)

def mmK (k1 : UInt32) : UInt32 := rotl32 (k1 * mm_c1) mm_rot_k * mm_c2

def mmTailCase (spec : List (Nat × UInt32) × Nat) (tail : Bytes) : UInt32 :=
  let k1 := spec.1.foldl (fun k1 (p : Nat × UInt32) => k1 ^^^ ((tail.getD p.1 0).toUInt32 <<< p.2)) 0
  k1 ^^^ (tail.getD spec.2 0).toUInt32

def mmTail (tail : Bytes) : Option UInt32 :=
  match tail.length with
  | 3 => some (mmTailCase mm_tail_3 tail)
  | 2 => some (mmTailCase mm_tail_2 tail)
  | 1 => some (mmTailCase mm_tail_1 tail)
  | _ => none

def murmur3 (key : Bytes) (seed : UInt32) : UInt32 :=
  let keyLen := key.length.toUInt32
  let (blocks, tail) := blocksOf 4 key
  let h := blocks.foldl
    (fun h blk => rotl32 (h ^^^ mmK (le32 blk)) mm_rot_h * mm_h_mul + mm_c3) seed
  let h := match mmTail tail with
    | some k1 => h ^^^ mmK k1
    | none => h
  fmix32 (h ^^^ keyLen)

end Impl

namespace Ref

/-- fasthash.c: `#define mix(h) ({ (h) ^= (h) >> 23; (h) *= 0x2127599bf4325c37ULL; (h) ^= (h) >> 47; })` -/
def mix (h : UInt64) : UInt64 :=
  let h := h ^^^ (h >>> 23)
  let h := h * 0x2127599bf4325c37
  h ^^^ (h >>> 47)

/-- the fall-through `switch (len & 7)`: `v ^= (uint64_t)pos2[i] << (8*i)` for the tail bytes -/
def tailVal : Bytes → UInt64 → UInt64
  | [], _ => 0
  | b :: bs, sh => (b.toUInt64 <<< sh) ^^^ tailVal bs (sh + 8)

def fasthash64 (key : Bytes) (seed : UInt64) : UInt64 :=
  let m : UInt64 := 0x880355f21e6d1965
  let (blocks, tail) := blocksOf 8 key
  let h := seed ^^^ (key.length.toUInt64 * m)
  let h := blocks.foldl (fun h blk => (h ^^^ mix (le64 blk)) * m) h
  let h := if tail.isEmpty then h else (h ^^^ mix (tailVal tail 0)) * m
  mix h

/-- fasthash.c `fasthash32`: "the following trick converts the 64-bit hashcode to Fermat
    residue, which shall retain information from both the higher and lower parts" -/
def fasthash32 (key : Bytes) (seed : UInt64) : UInt32 :=
  let h := fasthash64 key seed
  (h - (h >>> 32)).toUInt32

def rotl32 (x : UInt32) (r : UInt32) : UInt32 := (x <<< r) ||| (x >>> (32 - r))

def fmix32 (h : UInt32) : UInt32 :=
  let h := h ^^^ (h >>> 16)
  let h := h * 0x85ebca6b
  let h := h ^^^ (h >>> 13)
  let h := h * 0xc2b2ae35
  h ^^^ (h >>> 16)

def tailVal32 : Bytes → UInt32 → UInt32
  | [], _ => 0
  | b :: bs, sh => (b.toUInt32 <<< sh) ^^^ tailVal32 bs (sh + 8)

/-- MurmurHash3_x86_32 -/
def murmur3 (key : Bytes) (seed : UInt32) : UInt32 :=
  let c1 : UInt32 := 0xcc9e2d51
  let c2 : UInt32 := 0x1b873593
  let (blocks, tail) := blocksOf 4 key
  let h := blocks.foldl (fun h blk =>
      let k1 := rotl32 (le32 blk * c1) 15 * c2
      rotl32 (h ^^^ k1) 13 * 5 + 0xe6546b64) seed
  let h := if tail.isEmpty then h
    else h ^^^ (rotl32 (tailVal32 tail 0 * c1) 15 * c2)
  fmix32 (h ^^^ key.length.toUInt32)

end Ref

end Sketchnu
