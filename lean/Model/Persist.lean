import Model.Basic
namespace Sketchnu
end Sketchnu
