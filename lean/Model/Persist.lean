/-
  Model/Persist.lean — constructors (with their validation), `save`, the class loaders and the
  module-level `load()` dispatch, for all five sketch classes.  Tables are opaque payloads
  (`List Nat`, row-major) — NumPy's container I/O is modelled as storing and returning them
  unchanged (C20 is about what happens when the container is damaged).
-/
namespace Sketchnu

inductive Cls where
  | linear | log16 | log8 | hll | hh
  deriving Repr, DecidableEq

/-- dtype of the `dtype` member written by the count-min `save()` (`self.cms[0, 0]`) -/
inductive DType where
  | u32 | u16 | u8
  deriving Repr, DecidableEq

/-- constructor arguments as the classes take them; `phi` is a rational `num/den` or `none`
    (default `1/width`) -/
structure Args where
  cls : Cls
  width : Nat := 0
  depth : Nat := 0
  maxCount : Nat := 0
  numReserved : Nat := 0
  p : Nat := 0
  seed : Nat := 0
  maxKeyLen : Nat := 0
  phi : Option (Nat × Nat) := none
  deriving Repr, DecidableEq

/-- a sketch object: public parameters (as attributes), tables, bookkeeping.
    Not part of the saved state: the random-number state of log sketches and the heavy-hitter
    candidate cache (rebuilt by `load`). -/
structure Obj where
  cls : Cls
  width : Nat
  depth : Nat
  maxCount : Nat
  numReserved : Nat
  p : Nat
  seed : Nat
  maxKeyLen : Nat
  phi : Nat × Nat            -- attribute `phi` (always a number once constructed)
  tables : List (List Nat)   -- cms | registers | lhh, lhh_count, key_lens
  nAdded : Nat
  nRecords : Nat
  deriving Repr, DecidableEq

inductive LoadErr where
  | valueError | typeError | keyError
  deriving Repr, DecidableEq

/-- `baseOK maxc mc nr`: `_find_base` accepts the configuration (a deterministic function of its
    arguments; its numerics are outside the model) -/
abbrev BaseOK := Nat → Nat → Nat → Bool

def phiValid (phi : Nat × Nat) : Bool := decide (0 < phi.1) && decide (0 < phi.2) && decide (phi.1 ≤ phi.2)

/-- the constructors' own acceptance tests -/
def ctorValid (ok : BaseOK) (a : Args) : Bool :=
  match a.cls with
  | .linear => decide (0 < a.width) && decide (0 < a.depth)
  | .log16 => decide (0 < a.width) && decide (0 < a.depth) && decide (a.numReserved < 65535) && ok 65535 a.maxCount a.numReserved
  | .log8 => decide (0 < a.width) && decide (0 < a.depth) && decide (a.numReserved < 255) && ok 255 a.maxCount a.numReserved
  | .hll => decide (7 ≤ a.p) && decide (a.p ≤ 16)
  | .hh => decide (0 < a.width) && decide (0 < a.depth) && decide (0 < a.maxKeyLen) && decide (a.maxKeyLen ≤ 255) &&
      (match a.phi with | none => true | some ph => phiValid ph)

def cellsOf (a : Args) : List Nat :=
  match a.cls with
  | .linear | .log16 | .log8 => [a.width * a.depth]
  | .hll => [2 ^ a.p]
  | .hh => [a.maxKeyLen * a.width * a.depth, a.width * a.depth, a.width * a.depth]

/-- `__init__`: validate, set attributes, zero tables -/
def ctor (ok : BaseOK) (a : Args) : Except LoadErr Obj :=
  if ctorValid ok a then
    .ok { cls := a.cls, width := a.width, depth := a.depth, maxCount := a.maxCount, numReserved := a.numReserved,
          p := a.p, seed := a.seed, maxKeyLen := a.maxKeyLen,
          phi := (match a.phi with | some ph => ph | none => (1, a.width)),
          tables := (cellsOf a).map fun n => List.replicate n 0, nAdded := 0, nRecords := 0 }
  else .error .valueError

/-- the `.npz` members -/
structure File where
  args : Args                -- the `args` array as the loader will pass it to the constructor
  dtype : Option DType       -- `dtype` member (count-min only)
  tables : List (List Nat)
  books : Option (Nat × Nat) -- `n_added_records` (absent for HyperLogLog)
  deriving Repr, DecidableEq

def dtypeOf : Cls → Option DType
  | .linear => some .u32
  | .log16 => some .u16
  | .log8 => some .u8
  | _ => none

/-- `save()`: the args array holds the ATTRIBUTES (so `phi` is always a number in the file) -/
def save (o : Obj) : File :=
  { args := { cls := o.cls, width := o.width, depth := o.depth, maxCount := o.maxCount, numReserved := o.numReserved,
              p := o.p, seed := o.seed, maxKeyLen := o.maxKeyLen,
              phi := (match o.cls with | .hh => some o.phi | _ => none) },
    dtype := dtypeOf o.cls, tables := o.tables,
    books := (match o.cls with | .hll => none | _ => some (o.nAdded, o.nRecords)) }

/-- a class loader: (count-min) check the dtype tag, rebuild from args, copy tables and bookkeeping -/
def loadAs (ok : BaseOK) (c : Cls) (f : File) : Except LoadErr Obj :=
  match dtypeOf c with
  | some want =>
    match f.dtype with
    | none => .error .keyError
    | some got =>
      if got ≠ want then .error .typeError
      else match ctor ok { f.args with cls := c } with
        | .error e => .error e
        | .ok o => match f.books with
          | some (na, nr) => .ok { o with tables := f.tables, nAdded := na, nRecords := nr }
          | none => .error .keyError
  | none =>
    match ctor ok { f.args with cls := c } with
    | .error e => .error e
    | .ok o =>
      if c = .hll then .ok { o with tables := f.tables }
      else match f.books with
        | some (na, nr) => .ok { o with tables := f.tables, nAdded := na, nRecords := nr }
        | none => .error .keyError

/-- module-level `countmin.load()`: dispatch on the dtype member -/
def loadAny (ok : BaseOK) (f : File) : Except LoadErr Obj :=
  match f.dtype with
  | some .u32 => loadAs ok .linear f
  | some .u16 => loadAs ok .log16 f
  | some .u8 => loadAs ok .log8 f
  | none => .error .keyError

/-- an object as a constructor followed by any history leaves it: parameters as constructed,
    tables of the constructed shapes -/
def Obj.wf (ok : BaseOK) (o : Obj) : Prop :=
  ∃ a : Args, ctorValid ok a = true ∧ a.cls = o.cls ∧
    (ctor ok a).toOption.map (fun c => (c.width, c.depth, c.maxCount, c.numReserved, c.p, c.seed, c.maxKeyLen, c.phi))
      = some (o.width, o.depth, o.maxCount, o.numReserved, o.p, o.seed, o.maxKeyLen, o.phi)

end Sketchnu
