/-
  Model/MergeAttr.lean — the attributes the `merge()` methods may compare.
-/
namespace Sketchnu

/-- the attributes the merge methods read -/
inductive Attr where
  | width | depth | uintMaxval | maxCount | numReserved | p | seed | maxKeyLen
  deriving Repr, DecidableEq


end Sketchnu
