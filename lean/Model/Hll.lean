/-
  Model/Hll.lean — HyperLogLog registers: `_n_leading_zeros64`, `_add`, `_merge`.
  The 64-bit hash of a key is a parameter `H : K → Nat` (values `< 2^64`).
-/
import Model.Basic
namespace Sketchnu

/-- `_n_leading_zeros64`, branch by branch. -/
def nlz64 (x : Nat) : Nat :=
  let n := 64
  let y := x >>> 32
  let (n, x) := if y ≠ 0 then (n - 32, y) else (n, x)
  let y := x >>> 16
  let (n, x) := if y ≠ 0 then (n - 16, y) else (n, x)
  let y := x >>> 8
  let (n, x) := if y ≠ 0 then (n - 8, y) else (n, x)
  let y := x >>> 4
  let (n, x) := if y ≠ 0 then (n - 4, y) else (n, x)
  let y := x >>> 2
  let (n, x) := if y ≠ 0 then (n - 2, y) else (n, x)
  let y := x >>> 1
  if y ≠ 0 then n - 2 else n - x

/-- number of binary digits of `x` (`0` for `0`) — the specification side of `nlz64`. -/
def bitLen : Nat → Nat
  | 0 => 0
  | n + 1 => bitLen ((n + 1) / 2) + 1
decreasing_by omega

/-- register index: `hash_val & (m - 1)` with `m = 2^p`. -/
def hllIdx (p h : Nat) : Nat := h % 2 ^ p

/-- `rank = _n_leading_zeros64(hash_val >> p) - p + 1`. -/
def hllRank (p h : Nat) : Nat := nlz64 (h >>> p) - p + 1

/-- Register file as a total function index → value. -/
abbrev Regs := Nat → Nat

namespace Hll
variable {K : Type}

def empty : Regs := fun _ => 0

/-- `_add`: `registers[reg_idx] = max(registers[reg_idx], rank)`. -/
def add (p : Nat) (H : K → Nat) (R : Regs) (k : K) : Regs :=
  fun i => if i = hllIdx p (H k) then max (R i) (hllRank p (H k)) else R i

/-- `_merge`: element-wise max. -/
def merge (A B : Regs) : Regs := fun i => max (A i) (B i)

/-- HyperLogLog ignores the multiplicity argument. -/
def eval [DecidableEq K] (p : Nat) (H : K → Nat) : Hist K → Regs
  | .new => empty
  | .add h k _ => add p H (eval p H h) k
  | .merge a b => merge (eval p H a) (eval p H b)

end Hll

/-- Sliding windows of `add_ngram` (all five classes share this shape):
    `key_len <= ngram ? [key] : [key[i:i+n] for i in range(key_len - (n - 1))]`, `n ≥ 1`. -/
def windows {α : Type} (key : List α) (n : Nat) : List (List α) :=
  if key.length ≤ n then [key]
  else (List.range (key.length - (n - 1))).map fun i => (key.drop i).take n

end Sketchnu
