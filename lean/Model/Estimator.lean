/-
  Model/Estimator.lean — float mirrors: `hyperloglog._query` (HyperLogLog++ estimator over the
  generated tables) and the default heavy-hitter threshold `floor(phi * n_added)`.
  Nothing is proved about IEEE arithmetic; these definitions exist for the correspondence
  check (tolerance 1e-9) and carry the documented branch structure that `Properties/C17`
  states over an ordered field.
-/
import Model.Generated.HllTables
import Model.Generated.Constants
namespace Sketchnu

def scaledToFloat (v : Int) : Float := Float.ofInt v / 100000.0

/-- `np.interp(x, xp, fp)` for strictly increasing `xp`: clamped outside, linear inside. -/
def interpF (x : Float) : List Float → List Float → Float
  | x0 :: x1 :: xs, y0 :: y1 :: ys =>
    if x ≤ x0 then y0
    else if x < x1 then (y1 - y0) / (x1 - x0) * (x - x0) + y0
    else interpF x (x1 :: xs) (y1 :: ys)
  | [_], [y0] => y0
  | _, y0 :: _ => y0
  | _, [] => 0.0

def hllAlpha (m : Nat) : Float := 0.7213 / (1.0 + 1.079 / Float.ofNat m)

/-- `_estimation_function(registers, m, alpha)`: `alpha * m^2 / Σ 2.0 ** (-r)`, summed in register order from 0.0
    (`Properties/SrcFloat.lean` proves this equal to the function as translated from the source) -/
def hllEstimationF (alpha : Float) (m : Nat) (regs : List Nat) : Float :=
  let total := regs.foldl (fun t r => t + Float.pow 2.0 (-(Float.ofNat r))) 0.0
  alpha * Float.ofNat (m * m) / total

def hllRawF (m : Nat) (regs : Array Nat) : Float := hllEstimationF (hllAlpha m) m regs.toList

def hllLinearCountingF (m nZero : Nat) : Float :=
  Float.ofNat m * Float.log (Float.ofNat m / Float.ofNat nZero)

/-- `_query(registers, m, threshold, alpha, raw_estimate, bias_data)` -/
def hllQueryF (p : Nat) (regs : Array Nat) : Float :=
  let m := 2 ^ p
  let row := p - 7
  let thr := Float.ofInt (Gen.hllThreshold.getD row 0)
  let raw := (Gen.hllRaw.getD row []).map scaledToFloat
  let bias := (Gen.hllBias.getD row []).map scaledToFloat
  let nZero := m - (regs.foldl (fun n r => if r ≠ 0 then n + 1 else n) 0)
  if nZero > 0 then
    let card := hllLinearCountingF m nZero
    if card > thr then
      let est := hllRawF m regs
      est - interpF est raw bias
    else card
  else
    let card := hllRawF m regs
    if card ≤ Float.ofNat (5 * m) then card - interpF card raw bias else card

/-- default heavy-hitter threshold `int(phi * n_added())` -/
def defaultThreshold (phi : Float) (n : Nat) : Nat :=
  (Float.floor (phi * Float.ofNat n)).toUInt64.toNat

end Sketchnu
