/-
  Model/Rt.lean — the tiny run-time vocabulary of the WHOLE-KERNEL translation
  (`harness/kernels2.py` → `Model/Generated/Full*.lean`).

  A Numba kernel mutates arrays in place inside `for … in range(n)` loops.  The translator renders
  * an array as a total function (`a[i]` ↦ `a i`, `a[i, j]` ↦ `a i j`),
  * a store `a[i, j] = v` as `Rt.set2 a i j v`,
  * `for i in range(n): body` as `Rt.loop n init (fun i st => body)` over the tuple of the variables
    the body assigns (iterations in the order 0, 1, …, n-1),
  * a `bytes` key as an abstract value with the operations `KeyOps` (its 64-bit hash per seed, its
    length, slicing, and its zero-padded byte array).

  Import-free; nothing here is specific to one kernel.
-/
namespace Sketchnu.Rt

/-- `a[i] = v` -/
def set1 {α : Type} (a : Nat → α) (i : Nat) (v : α) : Nat → α := fun j => if j = i then v else a j

/-- `a[i, j] = v` -/
def set2 {α : Type} (a : Nat → Nat → α) (i j : Nat) (v : α) : Nat → Nat → α :=
  fun r c => if r = i ∧ c = j then v else a r c

/-- `for i in range(n): st = f i st`, starting from `init` -/
def loop {σ : Type} : Nat → σ → (Nat → σ → σ) → σ
  | 0, s, _ => s
  | n + 1, s, f => f n (loop n s f)

/-- what the kernels do with a `bytes` key, abstractly -/
structure KeyOps (K B : Type) where
  /-- `fasthash64(key, seed)` -/
  H     : K → Nat → Nat
  /-- `len(key)` -/
  klen  : K → Nat
  /-- `key[i:j]` -/
  slice : K → Nat → Nat → K
  /-- the `uint8` array of the key, zero-padded to `n` bytes (`np.frombuffer` / `np.zeros(n); a[:len] = …`) -/
  arr   : K → Nat → B

@[simp] theorem loop_zero {σ : Type} (s : σ) (f : Nat → σ → σ) : loop 0 s f = s := rfl
@[simp] theorem loop_succ {σ : Type} (n : Nat) (s : σ) (f : Nat → σ → σ) : loop (n + 1) s f = f n (loop n s f) := rfl
theorem set1_apply {α : Type} (a : Nat → α) (i : Nat) (v : α) (j : Nat) : set1 a i v j = if j = i then v else a j := rfl
theorem set2_apply {α : Type} (a : Nat → Nat → α) (i j : Nat) (v : α) (r c : Nat) :
    set2 a i j v r c = if r = i ∧ c = j then v else a r c := rfl

end Sketchnu.Rt
