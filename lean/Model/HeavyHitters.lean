/-
  Model/HeavyHitters.lean — Topkapi heavy hitters (`heavyhitters.py`): `_add`, `_merge`,
  `_max_count`, `generate_candidate_set`, `query` with its cache.

  A cell stores `(key, count)`.  The *identity* of a key is its first `max_key_len` bytes
  compared as a byte string: the code stores the zero-padded bytes in `lhh` and the length in
  `key_lens`, and compares both; `padKey` / `padKey_inj` (Proofs.HeavyHitters) show that the
  pair determines the truncated key and vice versa, so the model keeps the truncated key.
-/
import Model.Basic
namespace Sketchnu

structure HCell (K : Type) where
  key : K
  cnt : Nat
  deriving Repr, DecidableEq

namespace HCell
variable {K : Type} [DecidableEq K]

/-- one row of `_add` -/
def add (c : HCell K) (k : K) (v : Nat) : HCell K :=
  if c.key = k then
    { c with cnt := if v < CAP - c.cnt then c.cnt + v else CAP }
  else if v > c.cnt then { key := k, cnt := v - c.cnt }
  else { c with cnt := c.cnt - v }

/-- one cell of `_merge` -/
def merge (a b : HCell K) : HCell K :=
  if a.key = b.key then
    { a with cnt := if b.cnt > CAP - a.cnt then CAP else a.cnt + b.cnt }
  else if a.cnt ≥ b.cnt then { a with cnt := a.cnt - b.cnt }
  else { key := b.key, cnt := b.cnt - a.cnt }

end HCell

abbrev HTab (K : Type) := Nat → Nat → HCell K

/-- State of a `HeavyHitters` sketch (tables + bookkeeping). -/
structure HH (K : Type) where
  tab      : HTab K
  nAdded   : Nat
  nRecords : Nat

namespace HH
variable {K : Type} [DecidableEq K]

/-- the empty sketch: every cell holds the empty key (all-zero bytes, length 0) with count 0 -/
def empty (e : K) : HH K := { tab := fun _ _ => { key := e, cnt := 0 }, nAdded := 0, nRecords := 0 }

/-- `HeavyHitters.add` + `_add` (the key has already been truncated to `max_key_len`). -/
def add (g : Geom K) (s : HH K) (k : K) (v : Nat) : HH K :=
  let v0 := min v CAP
  { tab := fun r c => if r < g.depth ∧ c = g.col r k then (s.tab r c).add k v0 else s.tab r c
    nAdded := s.nAdded + v0
    nRecords := s.nRecords }

def merge (a b : HH K) : HH K :=
  { tab := fun r c => (a.tab r c).merge (b.tab r c)
    nAdded := a.nAdded + b.nAdded
    nRecords := a.nRecords + b.nRecords }

/-- `_max_count` over the first `d` rows. -/
def maxRows (g : Geom K) (T : HTab K) (k : K) : Nat → Nat
  | 0 => 0
  | d + 1 =>
    let m := maxRows g T k d
    let cell := T d (g.col d k)
    if cell.key = k ∧ cell.cnt > m then cell.cnt else m

/-- `hh[key]` -/
def getitem (g : Geom K) (s : HH K) (k : K) : Nat := maxRows g s.tab k g.depth

def eval (g : Geom K) (e : K) : Hist K → HH K
  | .new => empty e
  | .add h k v => add g (eval g e h) k v
  | .merge a b => merge (eval g e a) (eval g e b)

/-! ### candidate set and query -/

/-- value of `candidate_set[key]` (0 when missing) -/
def lookup (cand : List (K × Nat)) (k : K) : Nat :=
  match cand.find? (fun p => p.1 = k) with
  | some p => p.2
  | none => 0

/-- visit one cell in `generate_candidate_set` -/
def candStep (g : Geom K) (s : HH K) (thr : Nat) (cand : List (K × Nat)) (r c : Nat) :
    List (K × Nat) :=
  let cell := s.tab r c
  if cell.cnt = 0 then cand
  else if lookup cand cell.key = 0 then
    let mc := getitem g s cell.key
    if mc ≥ thr then cand ++ [(cell.key, mc)] else cand
  else cand

/-- all cells in row-major order -/
def cellOrder (g : Geom K) : List (Nat × Nat) :=
  (List.range g.depth).flatMap fun r => (List.range g.width).map fun c => (r, c)

/-- `generate_candidate_set(threshold)`: the candidates in insertion order -/
def candidates (g : Geom K) (s : HH K) (thr : Nat) : List (K × Nat) :=
  (cellOrder g).foldl (fun cand rc => candStep g s thr cand rc.1 rc.2) []

/-- insert into a list sorted by count descending, after every element with count ≥ -/
def insertDesc (x : K × Nat) : List (K × Nat) → List (K × Nat)
  | [] => [x]
  | y :: ys => if y.2 ≥ x.2 then y :: insertDesc x ys else x :: y :: ys

/-- stable sort by count, descending (`Counter.most_common`) -/
def sortDesc (l : List (K × Nat)) : List (K × Nat) :=
  l.foldl (fun acc x => insertDesc x acc) []

/-- `most_common(k)`; `none` = unbounded -/
def mostCommon (cand : List (K × Nat)) (kk : Option Nat) : List (K × Nat) :=
  match kk with
  | none => sortDesc cand
  | some n => (sortDesc cand).take n

/-- the answer recomputed from the current cells -/
def queryFresh (g : Geom K) (s : HH K) (kk : Option Nat) (thr : Nat) : List (K × Nat) :=
  mostCommon (candidates g s thr) kk

end HH

/-- A `HeavyHitters` object including the cached candidate set. -/
structure HHQ (K : Type) where
  hh         : HH K
  cand       : List (K × Nat)
  nAddedSort : Nat
  thrSort    : Nat

namespace HHQ
variable {K : Type} [DecidableEq K]

def empty (e : K) : HHQ K := { hh := HH.empty e, cand := [], nAddedSort := 0, thrSort := 0 }

def add (g : Geom K) (q : HHQ K) (k : K) (v : Nat) : HHQ K := { q with hh := q.hh.add g k v }

def merge (a b : HHQ K) : HHQ K := { a with hh := a.hh.merge b.hh }

/-- `generate_candidate_set(threshold)` -/
def regen (g : Geom K) (q : HHQ K) (thr : Nat) : HHQ K :=
  { q with cand := HH.candidates g q.hh thr, nAddedSort := q.hh.nAdded, thrSort := thr }

/-- `query(k, threshold)` with `thr` already resolved (explicit value, or the default
    `floor(phi * n_added())` computed by the caller): rebuild iff `n_added` grew or the
    threshold changed; then `most_common(k)`. -/
def query (g : Geom K) (q : HHQ K) (kk : Option Nat) (thr : Nat) : HHQ K × List (K × Nat) :=
  let q' := if q.nAddedSort < q.hh.nAdded ∨ q.thrSort ≠ thr then regen g q thr else q
  (q', HH.mostCommon q'.cand kk)

end HHQ

/-! ### key identity: truncation and padding -/

/-- truncate a key to `max_key_len` bytes — the key's identity -/
def truncKey (maxKeyLen : Nat) (key : List UInt8) : List UInt8 := key.take maxKeyLen

/-- what the code stores for a (truncated) key: zero-padded bytes and the length -/
def padKey (maxKeyLen : Nat) (key : List UInt8) : List UInt8 × Nat :=
  (key ++ List.replicate (maxKeyLen - key.length) 0, key.length)

end Sketchnu
