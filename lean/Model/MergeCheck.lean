/-
  Model/MergeCheck.lean — the parameter comparisons at the top of each `merge()`, with Python's
  left-to-right short-circuit `or` and attribute lookup (a missing attribute would be an
  AttributeError, not the documented TypeError).
-/
import Model.Generated.MergeAttrs
namespace Sketchnu

/-- public parameters of a sketch object, as the attributes the merge methods read -/
inductive Sk where
  | lin   (width depth : Nat)
  | log16 (width depth maxCount numReserved : Nat)
  | log8  (width depth maxCount numReserved : Nat)
  | hll   (p seed : Nat)
  | hh    (width depth maxKeyLen : Nat) (phiBits : Nat)
  deriving Repr, DecidableEq

/-- attribute lookup (`none` = AttributeError) -/
def Sk.attr : Sk → Attr → Option Nat
  | .lin w _, .width => some w
  | .lin _ d, .depth => some d
  | .lin _ _, .uintMaxval => some 4294967295
  | .log16 w _ _ _, .width => some w
  | .log16 _ d _ _, .depth => some d
  | .log16 _ _ _ _, .uintMaxval => some 65535
  | .log16 _ _ m _, .maxCount => some m
  | .log16 _ _ _ r, .numReserved => some r
  | .log8 w _ _ _, .width => some w
  | .log8 _ d _ _, .depth => some d
  | .log8 _ _ _ _, .uintMaxval => some 255
  | .log8 _ _ m _, .maxCount => some m
  | .log8 _ _ _ r, .numReserved => some r
  | .hll p _, .p => some p
  | .hll _ s, .seed => some s
  | .hh w _ _ _, .width => some w
  | .hh _ d _ _, .depth => some d
  | .hh _ _ k _, .maxKeyLen => some k
  | _, _ => none

inductive MergeVerdict where
  | accept          -- the kernel runs
  | typeError       -- refused: TypeError, nothing touched
  | attrError       -- an attribute of `other` does not exist (AttributeError) — must never happen within a family
  deriving Repr, DecidableEq

/-- `a.x != b.x or a.y != b.y or …` evaluated left to right -/
def compareChain (self other : Sk) : List Attr → MergeVerdict
  | [] => .accept
  | name :: rest =>
    match self.attr name, other.attr name with
    | some a, some b => if a ≠ b then .typeError else compareChain self other rest
    | _, _ => .attrError

/-- the attribute list each class's `merge` compares, in source order — TRANSLATED from the current
    source (`Model/Generated/MergeAttrs.lean`) -/
def Sk.mergeAttrs : Sk → List Attr
  | .lin _ _ => Gen.mergeAttrsLinear
  | .log16 _ _ _ _ => Gen.mergeAttrsLog16
  | .log8 _ _ _ _ => Gen.mergeAttrsLog8
  | .hll _ _ => Gen.mergeAttrsHll
  | .hh _ _ _ _ => Gen.mergeAttrsHH

def mergeVerdict (self other : Sk) : MergeVerdict := compareChain self other self.mergeAttrs

def Sk.isCms : Sk → Bool
  | .lin _ _ | .log16 _ _ _ _ | .log8 _ _ _ _ => true
  | _ => false

/-- the parameters the property names, per family (phi is NOT one of them) -/
def Sk.compatible : Sk → Sk → Bool
  | .lin w d, .lin w' d' => w == w' && d == d'
  | .log16 w d m r, .log16 w' d' m' r' => w == w' && d == d' && m == m' && r == r'
  | .log8 w d m r, .log8 w' d' m' r' => w == w' && d == d' && m == m' && r == r'
  | .hll p s, .hll p' s' => p == p' && s == s'
  | .hh w d k _, .hh w' d' k' _ => w == w' && d == d' && k == k'
  | _, _ => false

def Sk.sameFamily : Sk → Sk → Bool
  | a, b => (a.isCms && b.isCms) || (match a, b with | .hll _ _, .hll _ _ => true | .hh _ _ _ _, .hh _ _ _ _ => true | _, _ => false)

end Sketchnu
