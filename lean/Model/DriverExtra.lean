/-
  DriverExtra.lean — stateless driver commands for the persistence, merge-check, shared-memory
  layout, npz-prefix and parallel_add models.
-/
import Model.Persist
import Model.MergeCheck
import Model.Shm
import Model.Npz
import Model.Parallel
import Model.Entry
open Sketchnu

def clsOf (s : String) : Option Cls :=
  match s with
  | "linear" => some .linear | "log16" => some .log16 | "log8" => some .log8 | "hll" => some .hll | "hh" => some .hh
  | _ => none

/-- args: cls w d mc nr p seed mkl phinum phiden ("-" "-" for None) -/
def parseArgs : List String → Option Args
  | [c, w, d, mc, nr, p, seed, mkl, pn, pd] => do
    let cls ← clsOf c
    pure { cls := cls, width := w.toNat!, depth := d.toNat!, maxCount := mc.toNat!, numReserved := nr.toNat!, p := p.toNat!,
           seed := seed.toNat!, maxKeyLen := mkl.toNat!, phi := if pn = "-" then none else some (pn.toNat!, pd.toNat!) }
  | _ => none

def errStr : LoadErr → String
  | .valueError => "ValueError" | .typeError => "TypeError" | .keyError => "KeyError"

def objStr (o : Obj) : String :=
  s!"ok {repr o.cls} w={o.width} d={o.depth} mc={o.maxCount} nr={o.numReserved} p={o.p} seed={o.seed} mkl={o.maxKeyLen} phi={o.phi.1}/{o.phi.2}"

def parseSk : List String → Option (Sk × List String)
  | "lin" :: w :: d :: rest => some (.lin w.toNat! d.toNat!, rest)
  | "log16" :: w :: d :: m :: r :: rest => some (.log16 w.toNat! d.toNat! m.toNat! r.toNat!, rest)
  | "log8" :: w :: d :: m :: r :: rest => some (.log8 w.toNat! d.toNat! m.toNat! r.toNat!, rest)
  | "hll" :: p :: s :: rest => some (.hll p.toNat! s.toNat!, rest)
  | "hh" :: w :: d :: k :: ph :: rest => some (.hh w.toNat! d.toNat! k.toNat! ph.toNat!, rest)
  | _ => none

def segStr (l : List Seg) : String := " ".intercalate (l.map fun s => s!"{s.start}:{s.stop}")

def hexNib (c : Char) : Nat :=
  if '0' ≤ c ∧ c ≤ '9' then c.toNat - '0'.toNat
  else if 'a' ≤ c ∧ c ≤ 'f' then c.toNat - 'a'.toNat + 10 else 0

def hexBytes (s : String) : List UInt8 :=
  let rec go : List Char → List UInt8
    | a :: b :: rest => (hexNib a * 16 + hexNib b).toUInt8 :: go rest
    | _ => []
  go s.toList

def outcomeChar : LoadOutcome → Char
  | .eofError => 'E' | .valueError => 'V' | .badZipFile => 'B' | .npyPath => 'N' | .opened _ => 'O'

def parseSnap (s : String) : List (Option Int) :=
  (s.splitOn ",").filter (· ≠ "") |>.map fun t => if t = "n" then none else t.toInt?

/-- `baseOK` of the persistence model: configurations named in `okList` ("maxc:mc:nr") are accepted -/
def extraStep (cmd : String) (args : List String) : Option String :=
  match cmd, args with
  -- persist.ctor <accept 0|1> <args…>  → ok…/ValueError
  | "persist.ctor", acc :: rest =>
    match parseArgs rest with
    | some a => some (match ctor (fun _ _ _ => acc = "1") a with | .ok o => objStr o | .error e => errStr e)
    | none => some "bad-op"
  -- persist.load <accept> <loader cls|any> <args of the saved object…>: construct, save, load
  | "persist.load", acc :: loader :: rest =>
    match parseArgs rest with
    | some a =>
      let ok : BaseOK := fun _ _ _ => acc = "1"
      match ctor ok a with
      | .error e => some ("ctor-" ++ errStr e)
      | .ok o =>
        let o := { o with tables := o.tables.map (fun t => t.map (· + 1)), nAdded := if o.cls = .hll then 0 else 7, nRecords := if o.cls = .hll then 0 else 3 }
        let r := if loader = "any" then loadAny ok (save o) else match clsOf loader with
          | some c => loadAs ok c (save o)
          | none => .error .keyError
        some (match r with
          | .ok o' => (if o' = o then "same " else "DIFFERENT ") ++ objStr o'
          | .error e => errStr e)
    | none => some "bad-op"
  | "merge.verdict", rest =>
    match parseSk rest with
    | some (a, rest') => match parseSk rest' with
      | some (b, _) => some (match mergeVerdict a b with | .accept => "accept" | .typeError => "TypeError" | .attrError => "AttributeError")
      | none => some "bad-op"
    | none => some "bad-op"
  | "shm.cms", [itemsize, w, d] =>
    let (l, n) := cmsInitLayout itemsize.toNat! w.toNat! d.toNat!
    some s!"{segStr l} | {n} | {segStr (cmsAttachLayout itemsize.toNat! w.toNat! d.toNat! n)}"
  | "shm.hh", [mkl, w, d] =>
    let (l, n) := hhInitLayout mkl.toNat! w.toNat! d.toNat!
    some s!"{segStr l} | {n} | {segStr (hhAttachLayout mkl.toNat! w.toNat! d.toNat! n)}"
  | "shm.hll", [p] => let (l, n) := hllLayout p.toNat!; some s!"{segStr l} | {n} | {segStr l}"
  | "shm.le", [n, x] => some (" ".intercalate ((encodeLE n.toNat! x.toNat!).map toString) ++ s!" | {decodeLE (encodeLE n.toNat! x.toNat!)}")
  -- npz.prefixes <hex>: outcome class of np.load for every prefix length 0..n, and uniqueSig
  | "npz.prefixes", [hex] =>
    let f := hexBytes hex
    let out := (List.range (f.length + 1)).map fun L => outcomeChar (npLoad (f.take L))
    some s!"{uniqueSig f} {String.ofList out}"
  | "npz.load", [hex] => let f := hexBytes hex; some s!"{outcomeChar (npLoad f)} {uniqueSig f}"
  -- par.tree n : merge-tree of n labelled sketches
  | "par.tree", [n] =>
    let l := (List.range n.toNat!).map toString
    some ((parallelMerging (fun a b => "(" ++ a ++ " " ++ b ++ ")") l).getD "none")
  -- par.monitor closed0 snap;snap;…  each snap = comma separated exit codes, n = None
  | "par.monitor", [snaps] =>
    let l := (snaps.splitOn ";").filter (· ≠ "") |>.map parseSnap
    some (match monitor l false with | some true => "closed" | some false => "clean" | none => "running")
  -- par.run cap nWorkers nItems actions…   actions: p | t<w>   → final state or "stuck at i"
  | "par.run", cap :: nw :: ni :: acts =>
    let items := List.range ni.toNat!
    let as : List PAction := acts.map fun a => if a = "p" then .put else .take ((a.drop 1).toNat!)
    match runActions cap.toNat! (PState.init items nw.toNat!) as with
    | none => some "invalid-trace"
    | some s =>
      let got := " | ".intercalate (s.workers.map fun w => " ".intercalate (w.got.map toString))
      some s!"{if s.finalb then "final" else "not-final"} :: {got}"
  | "windows8", [hex, n] =>
    some (" ".intercalate ((windows (hexBytes hex) n.toNat!).map fun w => if w.isEmpty then "-" else
      String.ofList (w.flatMap fun b => [Nat.digitChar (b.toNat / 16), Nat.digitChar (b.toNat % 16)])))
  | _, _ => none
