/-
  Model/Entry.lean — the batch / dict / multiplicity / ngram entry points as the code defines them
  (`update`: loop of `add`; `add_ngram`: loop of `add` over the windows; `update_ngram`: loop of
  `add_ngram`).  The non-trivial laws (add k v = v single adds) are in Properties/C12.lean.
-/
import Model.CountMin
import Model.LogCounter
import Model.HeavyHitters
import Model.Hll
namespace Sketchnu

/-- `f` applied `n` times -/
def iter {α : Type} (f : α → α) : Nat → α → α
  | 0, a => a
  | n + 1, a => iter f n (f a)

namespace Lin
variable {K : Type}
/-- `update(list)` -/
def updateList (g : Geom K) (s : Lin) (l : List K) : Lin := l.foldl (fun s k => add g s k 1) s
/-- `update(dict)` (items in insertion order) -/
def updateDict (g : Geom K) (s : Lin) (l : List (K × Nat)) : Lin := l.foldl (fun s kv => add g s kv.1 kv.2) s
end Lin

namespace HH
variable {K : Type} [DecidableEq K]
def updateList (g : Geom K) (s : HH K) (l : List K) : HH K := l.foldl (fun s k => add g s k 1) s
def updateDict (g : Geom K) (s : HH K) (l : List (K × Nat)) : HH K := l.foldl (fun s kv => add g s kv.1 kv.2) s
end HH

namespace Log
variable {K D : Type}
def updateList (g : Geom K) (cfg : LogCfg D) (draws : Nat → Nat → D) (s : Log) (l : List K) : Log :=
  l.foldl (fun s k => add g cfg draws s k 1) s
end Log

/-- `add_ngram(key, n)` for byte-string keys, any sketch with a unit add -/
def addNgram {S : Type} (add1 : S → List UInt8 → S) (s : S) (key : List UInt8) (n : Nat) : S :=
  (windows key n).foldl add1 s

/-- `update_ngram(keys, n)` -/
def updateNgram {S : Type} (add1 : S → List UInt8 → S) (s : S) (keys : List (List UInt8)) (n : Nat) : S :=
  keys.foldl (fun s k => addNgram add1 s k n) s

end Sketchnu
