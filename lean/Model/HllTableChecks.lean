/-
  Model/HllTableChecks.lean — structurally recursive Bool checkers over the generated HLL++ tables
  (evaluated by the kernel with `decide +kernel` in Properties/C17.lean).
-/
import Model.Generated.HllTables
import Model.Generated.Constants
namespace Sketchnu

/-- strictly increasing -/
def strictInc : List Int → Bool
  | a :: b :: rest => decide (a < b) && strictInc (b :: rest)
  | _ => true

def lastD : List Int → Int → Int
  | [], d => d
  | [a], _ => a
  | _ :: rest, d => lastD rest d

/-- per precision row `i` (p = i + 7): 200 points each, raw strictly increasing,
    raw[0] - bias[0] = threshold (×10^5), raw[199] - bias[199] = 5·2^p (×10^5) -/
def rowOK (i : Nat) (raw bias : List Int) (thr : Int) : Bool :=
  raw.length == 200 && bias.length == 200 && strictInc raw &&
  (raw.headD 0 - bias.headD 0 == thr * 100000) &&
  (lastD raw 0 - lastD bias 0 == 5 * (2 : Int) ^ (i + 7) * 100000)

def rowsOK : Nat → List (List Int) → List (List Int) → List Int → Bool
  | _, [], [], [] => true
  | i, r :: rs, b :: bs, t :: ts => rowOK i r b t && rowsOK (i + 1) rs bs ts
  | _, _, _, _ => false

/-- the literal constants of the estimator as the translator found them in the source -/
def estimatorConstsOK : Bool :=
  Gen.hll_query_ints == [0, 5] && Gen.hll_init_floats == ["0.7213", "1.0", "1.079"] &&
  Gen.hll_init_ints == [16, 7, 1, 7, 7, 7] && Gen.rand_literals == [1, 2048]

end Sketchnu
