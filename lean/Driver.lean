/-
  Driver.lean — line-protocol driver for the sketchnu model.

  Reads one operation per line on stdin, prints one line per observing operation on stdout.
  It imports only `Model.*` (no Mathlib), executes the *same definitions the theorems are
  about* (tables are converted array → function → array around each call), and is built as
  the native executable `sketchnu_model`.

  Geometry / keys (count-min and heavy hitters; the hash is observed, not trusted):
    cfg <depth> <width>
    key <kid> <hex|-> <col_0> … <col_{depth-1}>       register key id with its column per row
  Linear count-min:   lin.new s | lin.set s nAdded nRecords v… | lin.add s kid v | lin.merge a b
                      lin.query s kid | lin.dump s | lin.addok before kid v after | lin.mergeok a b after
                      lin.oracle s kid    → trueCount, per-row cellLoad of kid's cells
  Log count-min:      log.cfg nr maxc baseBits | log.draws tok… | log.new s | log.set … | log.add s kid v
                      log.queryc s kid | log.dump s | log.mergecell a b | log.mergespec B S nr maxc maxCount a b
  HyperLogLog:        hll.new s p seed | hll.add s hex | hll.addngram s hex n | hll.merge a b | hll.nz s
                      nlz x | rank p h
  Heavy hitters:      hh.new s | hh.add s kid v | hh.merge a b | hh.get s kid | hh.dump s
                      hh.query s kk|inf thr | hh.fresh s kk|inf thr | hh.regen s thr | hh.oracle s kid
  Hashes:             fh64 hex seed | fh32 hex seed | mm3 hex seed | rfh64 … | rfh32 … | rmm3 …
-/
import Model.Basic
import Model.CountMin
import Model.LogCounter
import Model.Hll
import Model.Hash
import Model.HeavyHitters
import Model.Estimator
import Model.DriverExtra
import Std.Data.HashMap
open Sketchnu

structure KeyInfo where
  bytes : Bytes
  cols  : Array Nat

structure LinS where
  tab : Array (Array Nat)
  nAdded : Nat
  nRecords : Nat
  hist : Hist Nat

structure LogS where
  tab : Array (Array Nat)
  nAdded : Nat
  nRecords : Nat
  rs : RandState
  hist : Hist Nat

structure HhS where
  tab : Array (Array (Nat × Nat))
  nAdded : Nat
  nRecords : Nat
  cand : List (Nat × Nat)
  nAddedSort : Nat
  thrSort : Nat
  hist : Hist Nat

structure HllS where
  p : Nat
  seed : UInt64
  regs : Array Nat

structure St where
  depth : Nat := 1
  width : Nat := 1
  keys : Std.HashMap Nat KeyInfo := {}
  lin : Std.HashMap Nat LinS := {}
  log : Std.HashMap Nat LogS := {}
  hh : Std.HashMap Nat HhS := {}
  hll : Std.HashMap Nat HllS := {}
  logNr : Nat := 15
  logMaxc : Nat := 255
  logBase : Float := 1.0856513901930172
  draws : Array Float := #[]

def St.putLin (st : St) (s : Nat) (v : LinS) : St := { st with lin := st.lin.insert s v }
def St.putLog (st : St) (s : Nat) (v : LogS) : St := { st with log := st.log.insert s v }
def St.putHh (st : St) (s : Nat) (v : HhS) : St := { st with hh := st.hh.insert s v }
def St.putHll (st : St) (s : Nat) (v : HllS) : St := { st with hll := st.hll.insert s v }

def hexVal (c : Char) : Option Nat :=
  if '0' ≤ c ∧ c ≤ '9' then some (c.toNat - '0'.toNat)
  else if 'a' ≤ c ∧ c ≤ 'f' then some (c.toNat - 'a'.toNat + 10)
  else if 'A' ≤ c ∧ c ≤ 'F' then some (c.toNat - 'A'.toNat + 10)
  else none

def parseHexBytes (s : String) : Option Bytes :=
  if s = "-" then some [] else
  let rec go : List Char → Option Bytes
    | [] => some []
    | [_] => none
    | a :: b :: rest => do
      let x ← hexVal a
      let y ← hexVal b
      let r ← go rest
      pure ((x * 16 + y).toUInt8 :: r)
  go s.toList

def parseHexNat (s : String) : Option Nat :=
  s.toList.foldl (fun acc c => do let a ← acc; let v ← hexVal c; pure (a * 16 + v)) (some 0)

def St.geom (st : St) : Geom Nat :=
  { depth := st.depth, width := st.width,
    col := fun r k => match st.keys[k]? with
      | some ki => ki.cols.getD r 0
      | none => 0 }

def tabFn (a : Array (Array Nat)) : Tab := fun r c => (a.getD r #[]).getD c 0

def tabulate (d w : Nat) (T : Tab) : Array (Array Nat) :=
  (Array.range d).map fun r => (Array.range w).map fun c => T r c

def joinNats (l : List Nat) : String := " ".intercalate (l.map toString)

def dumpTab (a : Array (Array Nat)) : String :=
  " / ".intercalate (a.toList.map fun row => joinNats row.toList)

def zeroTab (d w : Nat) : Array (Array Nat) := Array.replicate d (Array.replicate w 0)

def LinS.toLin (s : LinS) : Lin := { tab := tabFn s.tab, nAdded := s.nAdded, nRecords := s.nRecords }

def parseTab (d w : Nat) (vals : List Nat) : Array (Array Nat) :=
  let arr := vals.toArray
  (Array.range d).map fun r => (Array.range w).map fun c => arr.getD (r * w + c) 0

def hhTabFn (a : Array (Array (Nat × Nat))) : HTab Nat :=
  fun r c => let p := (a.getD r #[]).getD c (0, 0); { key := p.1, cnt := p.2 }

def hhTabulate (d w : Nat) (T : HTab Nat) : Array (Array (Nat × Nat)) :=
  (Array.range d).map fun r => (Array.range w).map fun c => ((T r c).key, (T r c).cnt)

def HhS.toHH (s : HhS) : HH Nat := { tab := hhTabFn s.tab, nAdded := s.nAdded, nRecords := s.nRecords }
def HhS.toHHQ (s : HhS) : HHQ Nat :=
  { hh := s.toHH, cand := s.cand, nAddedSort := s.nAddedSort, thrSort := s.thrSort }

def pairsStr (l : List (Nat × Nat)) : String :=
  " ".intercalate (l.map fun p => s!"{p.1}:{p.2}")

def floatOfTok (t : String) : Float :=
  if t = "z" then 0.0
  else if t = "o" then Float.ofBits 0x3FEFFFFFFFFFFFFF
  else match parseHexNat t with
    | some n => Float.ofBits n.toUInt64
    | none => 1.0

def St.drawFn (st : St) : Nat → Nat → Float :=
  fun b i => st.draws.getD (b * BATCH + i) 1.0

def St.logCfg (st : St) : LogCfg Float :=
  { nr := st.logNr, maxc := st.logMaxc, inc := fun c u => incF st.logBase c u }

def hllRegsFn (a : Array Nat) : Regs := fun i => a.getD i 0

def nats (l : List String) : List Nat := l.filterMap String.toNat?

/-- one protocol step: new state and optional output line -/
def step (st : St) (line : String) : St × Option String :=
  let toks := (line.trimAscii.toString.splitOn " ").filter (· ≠ "")
  match toks with
  | [] => (st, none)
  | "echo" :: rest => (st, some ("echo " ++ " ".intercalate rest))
  | "cfg" :: d :: w :: _ => ({ st with depth := d.toNat!, width := w.toNat!, keys := {} }, none)
  | "key" :: kid :: hex :: cols =>
    let ki : KeyInfo := { bytes := (parseHexBytes hex).getD [], cols := (nats cols).toArray }
    ({ st with keys := st.keys.insert (kid.toNat!) ki }, none)
  -- ---------------------------------------------------------------- linear count-min
  | ["lin.new", s] =>
    (st.putLin s.toNat! ({ tab := zeroTab st.depth st.width, nAdded := 0, nRecords := 0, hist := .new }), none)
  | "lin.set" :: s :: na :: nrec :: vals =>
    let old := st.lin[s.toNat!]?
    (st.putLin s.toNat! ({ tab := parseTab st.depth st.width (nats vals), nAdded := na.toNat!, nRecords := nrec.toNat!, hist := match old with | some o => o.hist | none => .new }), none)
  | ["lin.add", s, kid, v] =>
    match st.lin[s.toNat!]? with
    | some ls =>
      let r := Lin.add st.geom ls.toLin kid.toNat! v.toNat!
      (st.putLin s.toNat! ({ tab := tabulate st.depth st.width r.tab, nAdded := r.nAdded, nRecords := r.nRecords, hist := .add ls.hist kid.toNat! v.toNat! }), none)
    | none => (st, some "bad-op")
  | ["lin.merge", a, b] =>
    match st.lin[a.toNat!]?, st.lin[b.toNat!]? with
    | some la, some lb =>
      let r := Lin.merge la.toLin lb.toLin
      (st.putLin a.toNat! ({ tab := tabulate st.depth st.width r.tab, nAdded := r.nAdded, nRecords := r.nRecords, hist := .merge la.hist lb.hist }), none)
    | _, _ => (st, some "bad-op")
  | ["lin.query", s, kid] =>
    match st.lin[s.toNat!]? with
    | some ls => (st, some s!"{Lin.query st.geom ls.toLin kid.toNat!}")
    | none => (st, some "bad-op")
  | ["lin.dump", s] =>
    match st.lin[s.toNat!]? with
    | some ls => (st, some s!"{dumpTab ls.tab} | {ls.nAdded} {ls.nRecords}")
    | none => (st, some "bad-op")
  | ["lin.addok", b, kid, v, a] =>
    match st.lin[b.toNat!]?, st.lin[a.toNat!]? with
    | some lb, some la =>
      (st, some s!"{addOKb st.geom CAP (tabFn lb.tab) kid.toNat! v.toNat! (tabFn la.tab)}")
    | _, _ => (st, some "bad-op")
  | ["lin.mergeok", a, b, r] =>
    match st.lin[a.toNat!]?, st.lin[b.toNat!]?, st.lin[r.toNat!]? with
    | some la, some lb, some lr =>
      (st, some s!"{mergeOKb st.geom CAP (tabFn la.tab) (tabFn lb.tab) (tabFn lr.tab)}")
    | _, _, _ => (st, some "bad-op")
  | ["lin.oracle", s, kid] =>
    match st.lin[s.toNat!]? with
    | some ls =>
      let k := kid.toNat!
      let g := st.geom
      let loads := (List.range st.depth).map fun r => ls.hist.cellLoad g r (g.col r k)
      (st, some s!"{ls.hist.trueCount k} | {joinNats loads} | {ls.hist.totalWeight}")
    | none => (st, some "bad-op")
  -- attach the history of sketch `src` to sketch `dst` (used when real tables are loaded with lin.set)
  | ["lin.hist.add", s, kid, v] =>
    match st.lin[s.toNat!]? with
    | some ls => (st.putLin s.toNat! ({ ls with hist := .add ls.hist kid.toNat! v.toNat! }), none)
    | none => (st, some "bad-op")
  | ["lin.hist.merge", a, b] =>
    match st.lin[a.toNat!]?, st.lin[b.toNat!]? with
    | some la, some lb => (st.putLin a.toNat! ({ la with hist := .merge la.hist lb.hist }), none)
    | _, _ => (st, some "bad-op")
  -- ---------------------------------------------------------------- log count-min
  | ["log.cfg", nr, maxc, baseBits] =>
    ({ st with logNr := nr.toNat!, logMaxc := maxc.toNat!, logBase := Float.ofBits ((parseHexNat baseBits).getD 0).toUInt64 }, none)
  | "log.draws" :: toks => ({ st with draws := st.draws ++ (toks.map floatOfTok).toArray }, none)
  | ["log.drawsclear"] => ({ st with draws := #[] }, none)
  | ["log.new", s] =>
    (st.putLog s.toNat! ({ tab := zeroTab st.depth st.width, nAdded := 0, nRecords := 0, rs := RandState.init, hist := .new }), none)
  | "log.set" :: s :: na :: nrec :: batch :: ptr :: vals =>
    (st.putLog s.toNat! ({ tab := parseTab st.depth st.width (nats vals), nAdded := na.toNat!, nRecords := nrec.toNat!, rs := { batch := batch.toNat!, ptr := ptr.toNat! }, hist := .new }), none)
  | ["log.add", s, kid, v] =>
    match st.log[s.toNat!]? with
    | some ls =>
      let s0 : Log := { tab := tabFn ls.tab, nAdded := ls.nAdded, nRecords := ls.nRecords, rs := ls.rs }
      let r := Log.add st.geom st.logCfg st.drawFn s0 kid.toNat! v.toNat!
      (st.putLog s.toNat! ({ tab := tabulate st.depth st.width r.tab, nAdded := r.nAdded, nRecords := r.nRecords, rs := r.rs, hist := .add ls.hist kid.toNat! v.toNat! }), none)
    | none => (st, some "bad-op")
  | ["log.queryc", s, kid] =>
    match st.log[s.toNat!]? with
    | some ls => (st, some s!"{tquery st.geom st.logMaxc (tabFn ls.tab) kid.toNat!}")
    | none => (st, some "bad-op")
  | ["log.query", s, kid] =>
    match st.log[s.toNat!]? with
    | some ls =>
      let c := tquery st.geom st.logMaxc (tabFn ls.tab) kid.toNat!
      (st, some s!"{(counter2valueF st.logBase st.logNr c).toBits}")
    | none => (st, some "bad-op")
  | ["log.dump", s] =>
    match st.log[s.toNat!]? with
    | some ls => (st, some s!"{dumpTab ls.tab} | {ls.nAdded} {ls.nRecords} | {ls.rs.consumed}")
    | none => (st, some "bad-op")
  | ["log.merge", a, b, maxCountBits] =>
    match st.log[a.toNat!]?, st.log[b.toNat!]? with
    | some la, some lb =>
      let mc := Float.ofBits ((parseHexNat maxCountBits).getD 0).toUInt64
      let T : Tab := fun r c =>
        mergeLogCellF st.logBase st.logNr st.logMaxc mc (tabFn la.tab r c) (tabFn lb.tab r c)
      (st.putLog a.toNat! ({ la with tab := tabulate st.depth st.width T, nAdded := la.nAdded + lb.nAdded, nRecords := la.nRecords + lb.nRecords, hist := .merge la.hist lb.hist }), none)
    | _, _ => (st, some "bad-op")
  | ["log.mergecell", maxCountBits, a, b] =>
    let mc := Float.ofBits ((parseHexNat maxCountBits).getD 0).toUInt64
    (st, some s!"{mergeLogCellF st.logBase st.logNr st.logMaxc mc a.toNat! b.toNat!}")
  -- all pairs a,b ∈ [0, maxc] of the float mirror, one output line per a
  | ["log.mergerow", maxCountBits, a] =>
    let mc := Float.ofBits ((parseHexNat maxCountBits).getD 0).toUInt64
    let row := (List.range (st.logMaxc + 1)).map fun b =>
      mergeLogCellF st.logBase st.logNr st.logMaxc mc a.toNat! b
    (st, some (joinNats row))
  -- exact specification: B S nr maxc maxCount a  → one row (all b) of mergeLogSpec
  | ["log.specrow", B, S, nr, maxc, maxCount, a] =>
    let nr := nr.toNat!; let maxc := maxc.toNat!
    let K := maxc - nr
    let table := (Array.range (maxc + 1)).map fun c => decS B.toNat! S.toNat! nr K c
    let d : Nat → Nat := fun c => table.getD c 0
    let mcS := maxCount.toNat! * S.toNat! ^ K
    let row := (List.range (maxc + 1)).map fun b =>
      let t := d a.toNat! + d b
      if t ≥ mcS then maxc else nearestFast d t maxc
    (st, some (joinNats row))
  | ["log.speccell", B, S, nr, maxc, maxCount, a, b] =>
    let nr := nr.toNat!; let maxc := maxc.toNat!
    let K := maxc - nr
    let d : Nat → Nat := decS B.toNat! S.toNat! nr K
    (st, some s!"{mergeLogSpec d maxc (maxCount.toNat! * S.toNat! ^ K) a.toNat! b.toNat!}")
  | ["log.oracle", s, kid] =>
    match st.log[s.toNat!]? with
    | some ls => (st, some s!"{ls.hist.trueCount kid.toNat!} | {ls.hist.totalWeight}")
    | none => (st, some "bad-op")
  -- single counter: log.counter c v  (uses current cfg/draws, fresh RandState at given position)
  | ["log.counter", c, v, batch, ptr] =>
    let (c', rs') := logCounter st.logCfg st.drawFn v.toNat! c.toNat! { batch := batch.toNat!, ptr := ptr.toNat! }
    (st, some s!"{c'} {rs'.consumed}")
  -- ---------------------------------------------------------------- HyperLogLog
  | ["hll.new", s, p, seed] =>
    (st.putHll s.toNat! ({ p := p.toNat!, seed := seed.toNat!.toUInt64, regs := Array.replicate (2 ^ p.toNat!) 0 }), none)
  | ["hll.add", s, hex] =>
    match st.hll[s.toNat!]? with
    | some hs =>
      let key := (parseHexBytes hex).getD []
      let H : Bytes → Nat := fun k => (Impl.fasthash64 k hs.seed).toNat
      let i := hllIdx hs.p (H key)
      -- only register `i` can change (Hll.add is the identity elsewhere)
      let v := Hll.add hs.p H (hllRegsFn hs.regs) key i
      (st.putHll s.toNat! ({ hs with regs := hs.regs.setIfInBounds i v }), none)
    | none => (st, some "bad-op")
  | ["hll.addngram", s, hex, n] =>
    match st.hll[s.toNat!]? with
    | some hs =>
      let key := (parseHexBytes hex).getD []
      let H : Bytes → Nat := fun k => (Impl.fasthash64 k hs.seed).toNat
      let regs := (windows key n.toNat!).foldl (fun regs w =>
        let i := hllIdx hs.p (H w)
        regs.setIfInBounds i (Hll.add hs.p H (hllRegsFn regs) w i)) hs.regs
      (st.putHll s.toNat! ({ hs with regs := regs }), none)
    | none => (st, some "bad-op")
  | ["hll.merge", a, b] =>
    match st.hll[a.toNat!]?, st.hll[b.toNat!]? with
    | some ha, some hb =>
      let R := Hll.merge (hllRegsFn ha.regs) (hllRegsFn hb.regs)
      (st.putHll a.toNat! ({ ha with regs := (Array.range ha.regs.size).map R }), none)
    | _, _ => (st, some "bad-op")
  | ["hll.nz", s] =>
    match st.hll[s.toNat!]? with
    | some hs =>
      let l := (List.range hs.regs.size).filterMap fun i =>
        let v := hs.regs.getD i 0
        if v = 0 then none else some (i, v)
      (st, some (pairsStr l))
    | none => (st, some "bad-op")
  | "hll.set" :: s :: p :: vals =>
    (st.putHll s.toNat! ({ p := p.toNat!, seed := 0, regs := (nats vals).toArray }), none)
  | ["hll.query", s] =>
    match st.hll[s.toNat!]? with
    | some hs => (st, some s!"{(hllQueryF hs.p hs.regs).toBits}")
    | none => (st, some "bad-op")
  | ["nlz", x] => (st, some s!"{nlz64 x.toNat!}")
  | ["rank", p, h] => (st, some s!"{hllIdx p.toNat! h.toNat!} {hllRank p.toNat! h.toNat!}")
  | ["windows", hex, n] =>
    let key := (parseHexBytes hex).getD []
    (st, some (" ".intercalate ((windows key n.toNat!).map fun w =>
      if w.isEmpty then "-" else String.ofList (w.flatMap fun b =>
        [Nat.digitChar (b.toNat / 16), Nat.digitChar (b.toNat % 16)]))))
  -- ---------------------------------------------------------------- heavy hitters
  | ["hh.new", s] =>
    (st.putHh s.toNat! ({ tab := Array.replicate st.depth (Array.replicate st.width (0, 0)), nAdded := 0, nRecords := 0, cand := [], nAddedSort := 0, thrSort := 0, hist := .new }), none)
  | ["hh.add", s, kid, v] =>
    match st.hh[s.toNat!]? with
    | some hs =>
      let r := HH.add st.geom hs.toHH kid.toNat! v.toNat!
      (st.putHh s.toNat! ({ hs with tab := hhTabulate st.depth st.width r.tab, nAdded := r.nAdded, hist := .add hs.hist kid.toNat! v.toNat! }), none)
    | none => (st, some "bad-op")
  | ["hh.merge", a, b] =>
    match st.hh[a.toNat!]?, st.hh[b.toNat!]? with
    | some ha, some hb =>
      let r := HH.merge ha.toHH hb.toHH
      (st.putHh a.toNat! ({ ha with tab := hhTabulate st.depth st.width r.tab, nAdded := r.nAdded, nRecords := r.nRecords, hist := .merge ha.hist hb.hist }), none)
    | _, _ => (st, some "bad-op")
  | ["hh.get", s, kid] =>
    match st.hh[s.toNat!]? with
    | some hs => (st, some s!"{HH.getitem st.geom hs.toHH kid.toNat!}")
    | none => (st, some "bad-op")
  | ["hh.dump", s] =>
    match st.hh[s.toNat!]? with
    | some hs =>
      let rows := hs.tab.toList.map fun row => pairsStr row.toList
      (st, some s!"{" / ".intercalate rows} | {hs.nAdded} {hs.nRecords}")
    | none => (st, some "bad-op")
  | ["hh.query", s, kk, thr] =>
    match st.hh[s.toNat!]? with
    | some hs =>
      let k : Option Nat := if kk = "inf" then none else some kk.toNat!
      let (q', ans) := HHQ.query st.geom hs.toHHQ k thr.toNat!
      (st.putHh s.toNat! ({ hs with cand := q'.cand, nAddedSort := q'.nAddedSort, thrSort := q'.thrSort }),
       some (pairsStr ans))
    | none => (st, some "bad-op")
  | ["hh.fresh", s, kk, thr] =>
    match st.hh[s.toNat!]? with
    | some hs =>
      let k : Option Nat := if kk = "inf" then none else some kk.toNat!
      (st, some (pairsStr (HH.queryFresh st.geom hs.toHH k thr.toNat!)))
    | none => (st, some "bad-op")
  | ["hh.regen", s, thr] =>
    match st.hh[s.toNat!]? with
    | some hs =>
      let q' := HHQ.regen st.geom hs.toHHQ thr.toNat!
      (st.putHh s.toNat! ({ hs with cand := q'.cand, nAddedSort := q'.nAddedSort, thrSort := q'.thrSort }), none)
    | none => (st, some "bad-op")
  -- default threshold floor(phi * n_added) with phi given as IEEE bits
  | ["hh.defthr", s, phiBits] =>
    match st.hh[s.toNat!]? with
    | some hs =>
      let phi := Float.ofBits ((parseHexNat phiBits).getD 0).toUInt64
      (st, some s!"{defaultThreshold phi hs.nAdded}")
    | none => (st, some "bad-op")
  | ["hh.oracle", s, kid] =>
    match st.hh[s.toNat!]? with
    | some hs =>
      let k := kid.toNat!
      let g := st.geom
      let loads := (List.range st.depth).map fun r => hs.hist.cellLoad g r (g.col r k)
      (st, some s!"{hs.hist.trueCount k} | {joinNats loads} | {hs.hist.totalWeight}")
    | none => (st, some "bad-op")
  -- ---------------------------------------------------------------- hashes
  | ["fh64", hex, seed] =>
    (st, some s!"{(Impl.fasthash64 ((parseHexBytes hex).getD []) seed.toNat!.toUInt64).toNat}")
  | ["fh32", hex, seed] =>
    (st, some s!"{(Impl.fasthash32 ((parseHexBytes hex).getD []) seed.toNat!.toUInt64).toNat}")
  | ["mm3", hex, seed] =>
    (st, some s!"{(Impl.murmur3 ((parseHexBytes hex).getD []) seed.toNat!.toUInt32).toNat}")
  | ["rfh64", hex, seed] =>
    (st, some s!"{(Ref.fasthash64 ((parseHexBytes hex).getD []) seed.toNat!.toUInt64).toNat}")
  | ["rfh32", hex, seed] =>
    (st, some s!"{(Ref.fasthash32 ((parseHexBytes hex).getD []) seed.toNat!.toUInt64).toNat}")
  | ["rmm3", hex, seed] =>
    (st, some s!"{(Ref.murmur3 ((parseHexBytes hex).getD []) seed.toNat!.toUInt32).toNat}")
  -- column of a key: fasthash64(key, row) % width  (C14_cols)
  | ["cols", hex, depth, width] =>
    let key := (parseHexBytes hex).getD []
    (st, some (joinNats ((List.range depth.toNat!).map fun r =>
      (Impl.fasthash64 key r.toUInt64).toNat % width.toNat!)))
  | cmd :: rest =>
    match extraStep cmd rest with
    | some out => (st, some out)
    | none => (st, some "bad-op")

partial def loop (h : IO.FS.Stream) (out : IO.FS.Stream) (st : St) : IO Unit := do
  let line ← h.getLine
  if line.isEmpty then return ()
  let (st', o) := step st line
  match o with
  | some s => out.putStrLn s
  | none => pure ()
  loop h out st'

def main : IO Unit := do
  let out ← IO.getStdout
  loop (← IO.getStdin) out {}
  out.flush
