/- Proofs/Link.lean — helper lemmas for Properties/C09Link.lean
   (closed form of `geomS` over ℚ; `ndist` as an absolute value) -/
import Mathlib.Algebra.Order.Field.Basic
import Mathlib.Tactic.Ring
import Mathlib.Tactic.FieldSimp
import Mathlib.Tactic.Linarith
import Mathlib.Tactic.NormNum
import Mathlib.Data.Rat.Defs
import Proofs.LogMerge
namespace Sketchnu
namespace Link

/-- one step of the geometric sum in closed form -/
theorem geom_closed_step (r : ℚ) (hr : r - 1 ≠ 0) (n : Nat) :
    (r ^ n - 1) / (r - 1) + r ^ n = (r ^ (n + 1) - 1) / (r - 1) := by
  field_simp
  ring

/-- `B^n * S^(K-n) = (B/S)^n * S^K` over ℚ for `n ≤ K` -/
theorem term_cast (B S K n : Nat) (hn : n ≤ K) (hS : 0 < S) :
    ((B ^ n * S ^ (K - n) : Nat) : ℚ) = ((B : ℚ) / S) ^ n * (S : ℚ) ^ K := by
  have hS0 : (S : ℚ) ≠ 0 := Nat.cast_ne_zero.mpr (Nat.pos_iff_ne_zero.mp hS)
  have hp : (S : ℚ) ^ n ≠ 0 := pow_ne_zero _ hS0
  push_cast
  rw [pow_sub₀ _ hS0 hn, div_pow]
  field_simp

/-- closed form of `geomS`; the recursion only needs `n ≤ K + 1` -/
theorem geomS_closed' (B S K : Nat) (hS : 0 < S) (hBS : B ≠ S) (n : Nat) (hn : n ≤ K + 1) :
    (geomS B S K n : ℚ) = (((B : ℚ) / S) ^ n - 1) / ((B : ℚ) / S - 1) * (S : ℚ) ^ K := by
  have hS0 : (S : ℚ) ≠ 0 := Nat.cast_ne_zero.mpr (Nat.pos_iff_ne_zero.mp hS)
  have hr : (B : ℚ) / S - 1 ≠ 0 := by
    intro h
    have h1 : (B : ℚ) / S = 1 := by linarith
    rw [div_eq_one_iff_eq hS0] at h1
    exact hBS (Nat.cast_injective h1)
  induction n with
  | zero => simp [geomS]
  | succ n ih =>
    have ih' := ih (by omega)
    have hstep := geom_closed_step ((B : ℚ) / S) hr n
    have ht := term_cast B S K n (by omega) hS
    simp only [geomS]
    rw [Nat.cast_add, ih', ht, ← hstep]
    ring

/-- `ndist` is the absolute difference -/
theorem ndist_cast (a t : Nat) : ((ndist a t : Nat) : ℚ) = |(a : ℚ) - (t : ℚ)| := by
  unfold ndist
  split
  · next h =>
    have h' : (a : ℚ) ≤ (t : ℚ) := Nat.cast_le.mpr h
    rw [Nat.cast_sub h, abs_of_nonpos (by linarith)]
    ring
  · next h =>
    have h1 : t ≤ a := by omega
    have h' : (t : ℚ) ≤ (a : ℚ) := Nat.cast_le.mpr h1
    rw [Nat.cast_sub h1, abs_of_nonneg (by linarith)]

end Link
end Sketchnu
