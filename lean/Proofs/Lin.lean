/-
  Proofs/Lin.lean — the exact linear kernel model meets the step contracts; one-step facts.
-/
import Proofs.Contract
namespace Sketchnu
variable {K : Type} [DecidableEq K]

namespace Lin

/-- unfolding of `add` in the non-saturated case -/
theorem add_tab_of_lt (g : Geom K) (s : Lin) (k : K) (v : Nat) (h : query g s k ≠ CAP) :
    (add g s k v).tab = raiseTo g s.tab k (min (query g s k + v) CAP) := by
  have hle : query g s k ≤ CAP := tquery_le_cap g CAP s.tab k
  unfold add
  simp only [h, if_false]
  congr 1
  omega

theorem add_of_sat (g : Geom K) (s : Lin) (k : K) (v : Nat) (h : query g s k = CAP) :
    add g s k v = s := by
  unfold add; simp [h]

/-- no counter ever decreases in an add -/
theorem add_tab_mono (g : Geom K) (s : Lin) (k : K) (v : Nat) (r c : Nat) :
    s.tab r c ≤ (add g s k v).tab r c := by
  by_cases h : query g s k = CAP
  · rw [add_of_sat g s k v h]; exact Nat.le_refl _
  · rw [add_tab_of_lt g s k v h]; exact raiseTo_ge _ _ _ _ _ _

/-- at most one counter per row changes, and it is `k`'s -/
theorem add_local (g : Geom K) (s : Lin) (k : K) (v : Nat) (r c : Nat)
    (hne : (add g s k v).tab r c ≠ s.tab r c) : r < g.depth ∧ c = g.col r k := by
  by_cases h : query g s k = CAP
  · rw [add_of_sat g s k v h] at hne; exact absurd rfl hne
  · rw [add_tab_of_lt g s k v h, raiseTo_apply] at hne
    split at hne
    · next hc => exact ⟨hc.1, hc.2.1⟩
    · exact absurd rfl hne

/-- the added key's estimate rises by exactly its multiplicity, capped -/
theorem add_self (g : Geom K) (s : Lin) (k : K) (v : Nat) :
    query g (add g s k v) k = min (query g s k + v) CAP := by
  have hle : query g s k ≤ CAP := tquery_le_cap g CAP s.tab k
  by_cases h : query g s k = CAP
  · rw [add_of_sat g s k v h, h]; omega
  · unfold query
    rw [add_tab_of_lt g s k v h]
    apply tquery_raiseTo_self
    · unfold query at *; omega
    · omega
    · unfold query at *; omega

theorem add_mono (g : Geom K) (s : Lin) (k : K) (v : Nat) (k' : K) :
    query g s k' ≤ query g (add g s k v) k' :=
  tquery_mono g CAP _ _ k' (fun r _ => add_tab_mono g s k v r _)

/-- no other key's estimate ends above max(its own old estimate, the added key's new estimate) -/
theorem add_bound (g : Geom K) (s : Lin) (k : K) (v : Nat) (k' : K) :
    query g (add g s k v) k' ≤ max (query g s k') (query g (add g s k v) k) := by
  by_cases h : query g s k = CAP
  · rw [add_of_sat g s k v h]; omega
  · rw [add_self]
    rcases qrows_attained g CAP s.tab k' g.depth with hc | ⟨r, hr, hq⟩
    · have h1 : query g s k' = CAP := hc
      have h2 := tquery_le_cap g CAP (add g s k v).tab k'
      unfold query at *; omega
    · have h1 : query g (add g s k v) k' ≤ (add g s k v).tab r (g.col r k') :=
        tquery_le g CAP _ k' r hr
      rw [add_tab_of_lt g s k v h, raiseTo_apply] at h1
      have h2 : query g s k' = s.tab r (g.col r k') := hq
      split at h1 <;> omega

theorem add_nAdded (g : Geom K) (s : Lin) (k : K) (v : Nat)
    (hfit : query g s k + v ≤ CAP) (hnz : v ≠ 0) : (add g s k v).nAdded = s.nAdded + v := by
  have h : query g s k ≠ CAP := by omega
  unfold add; simp only [h, if_false]; omega

/-- the exact kernel meets the add contract -/
theorem add_ok (g : Geom K) (s : Lin) (k : K) (v : Nat) :
    AddOK g CAP s.tab k v (add g s k v).tab := by
  have hle : query g s k ≤ CAP := tquery_le_cap g CAP s.tab k
  refine ⟨fun r c _ _ => add_tab_mono g s k v r c, ?_, ?_, ?_⟩
  · intro r c _ _ hne
    by_cases h : (add g s k v).tab r c = s.tab r c
    · exact h
    · exact absurd (add_local g s k v r c h).2 hne
  · intro r hr
    have h1 := add_self g s k v
    have h2 := tquery_le g CAP (add g s k v).tab k r hr
    unfold query at h1; omega
  · intro r hr
    by_cases h : query g s k = CAP
    · rw [add_of_sat g s k v h]; omega
    · rw [add_tab_of_lt g s k v h, raiseTo_own g s.tab k _ r hr]
      have := tquery_le g CAP s.tab k r hr
      unfold query at *; omega

theorem merge_apply (a b : Lin) (r c : Nat) :
    (merge a b).tab r c = min (a.tab r c + b.tab r c) CAP ∨ CAP < a.tab r c := by
  unfold merge; simp only
  split <;> omega

/-- all counters of a reachable state are `≤ CAP` -/
def Bounded (s : Lin) : Prop := ∀ r c, s.tab r c ≤ CAP

theorem merge_cell (a b : Lin) (ha : Bounded a) (r c : Nat) :
    (merge a b).tab r c = min (a.tab r c + b.tab r c) CAP := by
  have := ha r c
  unfold merge; simp only
  split <;> omega

theorem add_bounded (g : Geom K) (s : Lin) (k : K) (v : Nat) (hs : Bounded s) :
    Bounded (add g s k v) := by
  intro r c
  by_cases h : query g s k = CAP
  · rw [add_of_sat g s k v h]; exact hs r c
  · rw [add_tab_of_lt g s k v h, raiseTo_apply]
    have := hs r c
    split <;> omega

theorem merge_bounded (a b : Lin) (ha : Bounded a) : Bounded (merge a b) := by
  intro r c; rw [merge_cell a b ha]; omega

theorem eval_bounded (g : Geom K) (h : Hist K) : Bounded (eval g h) := by
  induction h with
  | new => intro r c; simp [eval, empty]
  | add h k v ih => exact add_bounded g _ k v ih
  | merge a b iha _ => exact merge_bounded _ _ iha

/-- the evaluation of any history tree is reachable by contract-respecting steps -/
theorem eval_reach (g : Geom K) (h : Hist K) : Reach g CAP h (eval g h).tab := by
  induction h with
  | new => exact Reach.new _ (fun _ _ _ _ => rfl)
  | add h k v ih => exact Reach.add k v ih (add_ok g _ k v)
  | merge a b iha ihb =>
    exact Reach.merge iha ihb (fun r c _ _ => merge_cell _ _ (eval_bounded g a) r c)

end Lin
end Sketchnu
