/- Proofs/Ideal.lean — helper lemmas for Properties/C14.lean (single Mathlib modules allowed) -/
import Mathlib.Data.Fintype.BigOperators
import Mathlib.Algebra.Order.BigOperators.Group.Finset
import Mathlib.Data.Fin.VecNotation
namespace Sketchnu.Ideal
open Finset

/-- restriction to the complement of `y` is a bijection on the functions with `h y = h x` -/
def collideEquiv {n W : ℕ} (x y : Fin n) (hxy : y ≠ x) :
    {h : Fin n → Fin W // h y = h x} ≃ ({z : Fin n // z ≠ y} → Fin W) where
  toFun h z := h.1 z.1
  invFun g := ⟨fun z => if hz : z = y then g ⟨x, hxy.symm⟩ else g ⟨z, hz⟩, by
    simp [hxy.symm]⟩
  left_inv := by
    rintro ⟨h, hh⟩
    ext z
    by_cases hz : z = y
    · subst hz; simp [hh]
    · simp [hz]
  right_inv := by
    intro g
    ext ⟨z, hz⟩
    simp [hz]

theorem card_collide {n W : ℕ} (x y : Fin n) (hxy : y ≠ x) :
    (univ.filter fun h : Fin n → Fin W => h y = h x).card = W ^ (n - 1) := by
  rw [← Fintype.card_subtype, Fintype.card_congr (collideEquiv x y hxy), Fintype.card_fun,
    Fintype.card_fin, Fintype.card_subtype_compl, Fintype.card_subtype_eq, Fintype.card_fin]

/-- `Finset.sum_mul` for `ℕ` (avoids importing `Mathlib.Algebra.BigOperators.Ring.Finset`) -/
theorem sum_mul_nat {ι : Type*} (s : Finset ι) (f : ι → ℕ) (c : ℕ) :
    (∑ i ∈ s, f i) * c = ∑ i ∈ s, f i * c := by
  classical
  induction s using Finset.induction_on with
  | empty => simp
  | insert a s ha ih => rw [Finset.sum_insert ha, Finset.sum_insert ha, Nat.add_mul, ih]

theorem sum_collide {n W : ℕ} (w : Fin n → ℕ) (x y : Fin n) :
    (∑ h : Fin n → Fin W, if y ≠ x ∧ h y = h x then w y else 0)
      = (if y ≠ x then w y else 0) * W ^ (n - 1) := by
  by_cases hxy : y = x
  · simp [hxy]
  · simp only [ne_eq, hxy, not_false_eq_true, true_and, if_true]
    rw [← Finset.sum_filter, Finset.sum_const_nat (fun _ _ => rfl), card_collide x y hxy, mul_comm]

theorem card_filter_forall {α : Type*} [Fintype α] [DecidableEq α] {d : ℕ} (P : α → Prop)
    [DecidablePred P] :
    (univ.filter fun hs : Fin d → α => ∀ r, P (hs r)).card = (univ.filter P).card ^ d := by
  rw [← Fintype.card_piFinset_const]
  congr 1
  ext hs
  simp [Fintype.mem_piFinset]

end Sketchnu.Ideal
