/- Proofs/Ideal.lean — helper lemmas for Properties/C14.lean (single Mathlib modules allowed) -/
import Mathlib.Data.Fintype.BigOperators
import Mathlib.Data.Fintype.Pi
import Mathlib.Data.Fintype.Card
import Mathlib.Algebra.BigOperators.Group.Finset.Basic
import Mathlib.Algebra.Order.BigOperators.Group.Finset
import Mathlib.Tactic.Ring
import Mathlib.Tactic.Linarith
import Mathlib.Data.Fin.VecNotation
namespace Sketchnu
end Sketchnu
