/- Proofs/Hash.lean — helper lemmas for Properties/C11.lean -/
import Model.Hash
namespace Sketchnu

/-! ### `chunks` / `blocksOf` -/

theorem chunks_spec (n : Nat) (hn : 0 < n) : ∀ (fuel : Nat) (bs : Bytes), bs.length ≤ fuel →
    (chunks n bs fuel).1.flatten ++ (chunks n bs fuel).2 = bs ∧
    (∀ b ∈ (chunks n bs fuel).1, b.length = n) ∧
    (chunks n bs fuel).2.length = bs.length % n := by
  intro fuel
  induction fuel with
  | zero =>
    intro bs h
    have : bs = [] := List.eq_nil_of_length_eq_zero (Nat.le_zero.mp h)
    subst this
    simp [chunks]
  | succ fuel ih =>
    intro bs h
    unfold chunks
    by_cases hlt : bs.length < n
    · have hc : (n = 0 ∨ bs.length < n) := Or.inr hlt
      simp only [hc, if_true]
      simp [Nat.mod_eq_of_lt hlt]
    · have hc : ¬ (n = 0 ∨ bs.length < n) := by omega
      simp only [hc, if_false]
      have hle : n ≤ bs.length := Nat.le_of_not_lt hlt
      have hd : (bs.drop n).length ≤ fuel := by simp [List.length_drop]; omega
      obtain ⟨h1, h2, h3⟩ := ih (bs.drop n) hd
      refine ⟨?_, ?_, ?_⟩
      · simp only [List.flatten_cons, List.append_assoc, h1, List.take_append_drop]
      · intro b hb
        rcases List.mem_cons.mp hb with rfl | hb
        · simp [List.length_take, Nat.min_eq_left hle]
        · exact h2 b hb
      · show (chunks n (bs.drop n) fuel).2.length = bs.length % n
        rw [h3, List.length_drop]
        exact (Nat.mod_eq_sub_mod hle).symm

theorem blocksOf_spec (n : Nat) (hn : 0 < n) (key : Bytes) :
    (blocksOf n key).1.flatten ++ (blocksOf n key).2 = key ∧
    (∀ b ∈ (blocksOf n key).1, b.length = n) ∧ (blocksOf n key).2.length = key.length % n :=
  chunks_spec n hn key.length key (Nat.le_refl _)

theorem blocksOf_tail_lt (n : Nat) (hn : 0 < n) (key : Bytes) : (blocksOf n key).2.length < n := by
  rw [(blocksOf_spec n hn key).2.2]; exact Nat.mod_lt _ hn

/-! ### constants -/

theorem fhmix64_eq : Impl.fhmix64 = Ref.mix := by
  funext h; rfl

theorem fmix32_eq : Impl.fmix32 = Ref.fmix32 := by
  funext h; rfl

theorem rotl32_eq : Impl.rotl32 = Ref.rotl32 := rfl

theorem fh_m_eq : Gen.fh_m = 0x880355f21e6d1965 := rfl

theorem mmK_eq (k1 : UInt32) :
    Impl.mmK k1 = Ref.rotl32 (k1 * 0xcc9e2d51) 15 * 0x1b873593 := rfl

/-! ### unrolled tails -/

private theorem u64_xor_left_comm (a b c : UInt64) : a ^^^ (b ^^^ c) = b ^^^ (a ^^^ c) := by
  rw [← UInt64.xor_assoc, UInt64.xor_comm a b, UInt64.xor_assoc]
private theorem u32_xor_left_comm (a b c : UInt32) : a ^^^ (b ^^^ c) = b ^^^ (a ^^^ c) := by
  rw [← UInt32.xor_assoc, UInt32.xor_comm a b, UInt32.xor_assoc]
private theorem s8 : (0:UInt64) + 8 = 8 := by decide
private theorem s16 : (8:UInt64) + 8 = 16 := by decide
private theorem s24 : (16:UInt64) + 8 = 24 := by decide
private theorem s32 : (24:UInt64) + 8 = 32 := by decide
private theorem s40 : (32:UInt64) + 8 = 40 := by decide
private theorem s48 : (40:UInt64) + 8 = 48 := by decide
set_option linter.unusedSimpArgs false in
theorem fhTail_eq (tail : Bytes) (h : tail.length < 8) :
    Impl.fhTail tail = if tail.isEmpty then none else some (Ref.tailVal tail 0) := by
  rcases tail with _ | ⟨b0, _ | ⟨b1, _ | ⟨b2, _ | ⟨b3, _ | ⟨b4, _ | ⟨b5, _ | ⟨b6, _ | ⟨b7, t⟩⟩⟩⟩⟩⟩⟩⟩
  case cons.cons.cons.cons.cons.cons.cons.cons => simp at h; omega
  case nil => rfl
  all_goals
    simp only [Impl.fhTail, List.length_cons, List.length_nil, List.isEmpty_cons, Bool.false_eq_true, if_false]
    simp only [Impl.fhTailCase, Gen.fh_tail_1, Gen.fh_tail_2, Gen.fh_tail_3, Gen.fh_tail_4, Gen.fh_tail_5, Gen.fh_tail_6, Gen.fh_tail_7,
      List.foldl_cons, List.foldl_nil, Impl.xorShiftl, Ref.tailVal,
      List.getD_cons_zero, List.getD_cons_succ, s8, s16, s24, s32, s40, s48, UInt64.shiftLeft_zero, UInt64.xor_zero, UInt64.zero_xor]
    try simp only [UInt64.xor_assoc, UInt64.xor_comm, u64_xor_left_comm]

private theorem t8 : (0:UInt32) + 8 = 8 := by decide
private theorem t16 : (8:UInt32) + 8 = 16 := by decide
set_option linter.unusedSimpArgs false in
theorem mmTail_eq (tail : Bytes) (h : tail.length < 4) :
    Impl.mmTail tail = if tail.isEmpty then none else some (Ref.tailVal32 tail 0) := by
  rcases tail with _ | ⟨b0, _ | ⟨b1, _ | ⟨b2, _ | ⟨b3, t⟩⟩⟩⟩
  case cons.cons.cons.cons => simp at h; omega
  case nil => rfl
  all_goals
    simp only [Impl.mmTail, List.length_cons, List.length_nil, List.isEmpty_cons, Bool.false_eq_true, if_false]
    simp only [Impl.mmTailCase, Gen.mm_tail_1, Gen.mm_tail_2, Gen.mm_tail_3,
      List.foldl_cons, List.foldl_nil, Ref.tailVal32,
      List.getD_cons_zero, List.getD_cons_succ, t8, t16, UInt32.shiftLeft_zero, UInt32.xor_zero, UInt32.zero_xor]
    try simp only [UInt32.xor_assoc, UInt32.xor_comm, u32_xor_left_comm]

end Sketchnu
