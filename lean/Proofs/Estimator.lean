/- Proofs/Estimator.lean — helper lemmas for Properties/C17.lean and C07.lean (single Mathlib modules allowed) -/
import Mathlib.Algebra.Order.Field.Basic
import Mathlib.Tactic.Ring
import Mathlib.Tactic.FieldSimp
import Mathlib.Tactic.Linarith
import Model.HllTableChecks
import Model.Hll
import Proofs.Hll
namespace Sketchnu

/-! ### table checkers -/

/-- the Bool checker `strictInc` implies the (transitive) `Pairwise` ordering -/
theorem strictInc_pairwise : ∀ l : List Int, strictInc l = true → l.Pairwise (· < ·)
  | [], _ => List.Pairwise.nil
  | [_], _ => List.pairwise_singleton _ _
  | a :: b :: rest, h => by
    simp only [strictInc, Bool.and_eq_true, decide_eq_true_eq] at h
    have ih := strictInc_pairwise (b :: rest) h.2
    rw [List.pairwise_cons]
    refine ⟨?_, ih⟩
    intro c hc
    rcases List.mem_cons.mp hc with hc | hc
    · rw [hc]; exact h.1
    · exact Int.lt_trans h.1 ((List.pairwise_cons.mp ih).1 c hc)

/-! ### pigeonhole on lists -/

/-- a duplicate-free list contained in another list is not longer -/
theorem nodup_subset_length_le {β : Type} [DecidableEq β] :
    ∀ (a b : List β), a.Nodup → a ⊆ b → a.length ≤ b.length
  | [], _, _, _ => Nat.zero_le _
  | x :: a, b, hn, hs => by
    have hx : x ∈ b := hs List.mem_cons_self
    have hn' := List.nodup_cons.mp hn
    have hsub : a ⊆ b.erase x := by
      intro y hy
      have hne : y ≠ x := by
        intro e; rw [e] at hy; exact hn'.1 hy
      exact (List.mem_erase_of_ne hne).mpr (hs (List.mem_cons_of_mem _ hy))
    have ih := nodup_subset_length_le a (b.erase x) hn'.2 hsub
    have hlen := List.length_erase_of_mem hx
    have hpos : 0 < b.length := List.length_pos_of_mem hx
    rw [List.length_cons]
    omega

/-- the occupied indices below `m` are at most as many as the keys that can occupy them -/
theorem occupied_le_of_witness {K : Type} (R : Regs) (f : K → Nat) (l : List K) (m : Nat)
    (hw : ∀ i, R i ≠ 0 → ∃ k, k ∈ l ∧ f k = i) :
    ((List.range m).filter fun i => R i ≠ 0).length ≤ l.length := by
  have hnd : ((List.range m).filter fun i => R i ≠ 0).Nodup :=
    List.Nodup.sublist List.filter_sublist List.nodup_range
  have hsub : ((List.range m).filter fun i => R i ≠ 0) ⊆ l.map f := by
    intro i hi
    have hi' := (List.mem_filter.mp hi).2
    have hR : R i ≠ 0 := by simpa using hi'
    obtain ⟨k, hk, hfk⟩ := hw i hR
    exact List.mem_map.mpr ⟨k, hk, hfk⟩
  have := nodup_subset_length_le _ _ hnd hsub
  rwa [List.length_map] at this

/-! ### one segment of a linear interpolation is a convex combination -/

section
variable {α : Type} [Field α] [LinearOrder α] [IsStrictOrderedRing α]

theorem segment_bounds (x x0 x1 y0 y1 : α) (h0 : x0 ≤ x) (h1 : x ≤ x1) (h01 : x0 < x1) :
    min y0 y1 ≤ (y1 - y0) / (x1 - x0) * (x - x0) + y0 ∧
      (y1 - y0) / (x1 - x0) * (x - x0) + y0 ≤ max y0 y1 := by
  have hd : 0 < x1 - x0 := sub_pos.mpr h01
  have hd' : x1 - x0 ≠ 0 := ne_of_gt hd
  have ht0 : 0 ≤ (x - x0) / (x1 - x0) := div_nonneg (sub_nonneg.mpr h0) hd.le
  have ht1 : (x - x0) / (x1 - x0) ≤ 1 := (div_le_one hd).mpr (by linarith)
  have e : (y1 - y0) / (x1 - x0) * (x - x0) + y0 = y0 + (y1 - y0) * ((x - x0) / (x1 - x0)) := by
    field_simp
    ring
  rw [e]
  generalize (x - x0) / (x1 - x0) = t at ht0 ht1
  rcases le_total y0 y1 with hy | hy
  · rw [min_eq_left hy, max_eq_right hy]
    have hy' : 0 ≤ y1 - y0 := sub_nonneg.mpr hy
    have a1 : 0 ≤ (y1 - y0) * t := mul_nonneg hy' ht0
    have a2 : (y1 - y0) * t ≤ (y1 - y0) * 1 := mul_le_mul_of_nonneg_left ht1 hy'
    constructor <;> linarith
  · rw [min_eq_right hy, max_eq_left hy]
    have hy' : 0 ≤ y0 - y1 := sub_nonneg.mpr hy
    have a1 : 0 ≤ (y0 - y1) * t := mul_nonneg hy' ht0
    have a2 : (y0 - y1) * t ≤ (y0 - y1) * 1 := mul_le_mul_of_nonneg_left ht1 hy'
    constructor <;> linarith

/-- linear-counting cap -/
theorem lc_cap (log : α → α) (hmono : ∀ a b, 0 < a → a ≤ b → log a ≤ log b)
    (m V n : α) (hm : 0 < m) (hV : 0 < V) (hn : 0 < m - n) (h : m - n ≤ V) :
    m * log (m / V) ≤ m * log (m / (m - n)) :=
  mul_le_mul_of_nonneg_left
    (hmono _ _ (div_pos hm hV) (div_le_div_of_nonneg_left hm.le hn h)) hm.le

end

end Sketchnu
