/-
  Proofs/Contract.lean — step contracts for count-min tables and the two cell invariants
  that give the C01 bounds for *any* implementation whose steps meet the contracts.
-/
import Proofs.CountMin
namespace Sketchnu
variable {K : Type} [DecidableEq K]

/-- every column is inside the table (`% width` with `width > 0`) -/
def Geom.WF (g : Geom K) : Prop := ∀ r k, g.col r k < g.width

/-- Contract of an `add(k, v)` step (Prop form of `addOKb`). -/
structure AddOK (g : Geom K) (cap : Nat) (T : Tab) (k : K) (v : Nat) (T' : Tab) : Prop where
  mono  : ∀ r c, r < g.depth → c < g.width → T r c ≤ T' r c
  frame : ∀ r c, r < g.depth → c < g.width → c ≠ g.col r k → T' r c = T r c
  lower : ∀ r, r < g.depth → min (tquery g cap T k + v) cap ≤ T' r (g.col r k)
  upper : ∀ r, r < g.depth →
    T' r (g.col r k) ≤ max (T r (g.col r k)) (min (T r (g.col r k) + v) cap)

/-- Contract of a linear merge step. -/
def MergeOK (g : Geom K) (cap : Nat) (A B T' : Tab) : Prop :=
  ∀ r c, r < g.depth → c < g.width → T' r c = min (A r c + B r c) cap

theorem addOKb_sound (g : Geom K) (hg : g.WF) (cap : Nat) (T : Tab) (k : K) (v : Nat) (T' : Tab)
    (h : addOKb g cap T k v T' = true) : AddOK g cap T k v T' := by
  unfold addOKb at h
  rw [allLt_iff] at h
  refine ⟨?_, ?_, ?_, ?_⟩
  · intro r c hr hc
    have := h r hr
    simp only [Bool.and_eq_true, allLt_iff, decide_eq_true_eq] at this
    exact (this.1.1 c hc).1
  · intro r c hr hc hne
    have := h r hr
    simp only [Bool.and_eq_true, allLt_iff, decide_eq_true_eq, Bool.or_eq_true, beq_iff_eq] at this
    rcases (this.1.1 c hc).2 with h1 | h1
    · exact absurd h1 hne
    · exact h1
  · intro r hr
    have := h r hr
    simp only [Bool.and_eq_true, decide_eq_true_eq] at this
    exact this.1.2
  · intro r hr
    have := h r hr
    simp only [Bool.and_eq_true, decide_eq_true_eq] at this
    exact this.2

theorem mergeOKb_sound (g : Geom K) (cap : Nat) (A B T' : Tab)
    (h : mergeOKb g cap A B T' = true) : MergeOK g cap A B T' := by
  unfold mergeOKb at h
  rw [allLt_iff] at h
  intro r c hr hc
  have := h r hr
  rw [allLt_iff] at this
  simpa using this c hc

/-- Tables reachable from the empty table by steps that meet the contracts, together with the
    history tree that produced them. -/
inductive Reach (g : Geom K) (cap : Nat) : Hist K → Tab → Prop
  | new (T : Tab) : (∀ r c, r < g.depth → c < g.width → T r c = 0) → Reach g cap .new T
  | add {h : Hist K} {T T' : Tab} (k : K) (v : Nat) :
      Reach g cap h T → AddOK g cap T k v T' → Reach g cap (.add h k v) T'
  | merge {a b : Hist K} {A B T' : Tab} :
      Reach g cap a A → Reach g cap b B → MergeOK g cap A B T' → Reach g cap (.merge a b) T'

/-- every counter owned by `k` is at least `min (true count of k) cap` -/
theorem Reach.lowerInv {g : Geom K} (hg : g.WF) {cap : Nat} {h : Hist K} {T : Tab}
    (R : Reach g cap h T) : ∀ x r, r < g.depth → min (h.trueCount x) cap ≤ T r (g.col r x) := by
  induction R with
  | new T h0 => intro x r hr; simp [Hist.trueCount]
  | @add h T T' k v _ ok ih =>
    intro x r hr
    simp only [Hist.trueCount]
    by_cases hk : k = x
    · subst hk
      have hq : min (h.trueCount k) cap ≤ tquery g cap T k :=
        le_tquery g cap T k _ (Nat.min_le_right _ _) (fun r hr => ih k r hr)
      have := ok.lower r hr
      simp only [if_true]
      omega
    · have h1 := ih x r hr
      have h2 := ok.mono r (g.col r x) hr (hg r x)
      simp only [hk, if_false]
      omega
  | @merge a b A B T' _ _ ok iha ihb =>
    intro x r hr
    simp only [Hist.trueCount]
    have h1 := iha x r hr
    have h2 := ihb x r hr
    rw [ok r (g.col r x) hr (hg r x)]
    omega

/-- every counter is at most `min (total multiplicity mapped to the cell) cap` -/
theorem Reach.upperInv {g : Geom K} (hg : g.WF) {cap : Nat} {h : Hist K} {T : Tab}
    (R : Reach g cap h T) :
    ∀ r c, r < g.depth → c < g.width → T r c ≤ min (h.cellLoad g r c) cap := by
  induction R with
  | new T h0 => intro r c hr hc; simp [h0 r c hr hc]
  | @add h T T' k v _ ok ih =>
    intro r c hr hc
    simp only [Hist.cellLoad]
    by_cases hk : g.col r k = c
    · subst hk
      have h1 := ih r (g.col r k) hr hc
      have h2 := ok.upper r hr
      simp only [if_true]
      omega
    · have h1 := ih r c hr hc
      have h2 := ok.frame r c hr hc (fun e => hk e.symm)
      simp only [hk, if_false]
      omega
  | @merge a b A B T' _ _ ok iha ihb =>
    intro r c hr hc
    simp only [Hist.cellLoad]
    have h1 := iha r c hr hc
    have h2 := ihb r c hr hc
    rw [ok r c hr hc]
    omega

/-- when no other added key shares `k`'s cell in row `r`, the cell's load is `k`'s true count -/
theorem cellLoad_eq_trueCount (g : Geom K) (h : Hist K) (k : K) (r : Nat)
    (hfree : ∀ k', k' ≠ k → h.mem k' → g.col r k' ≠ g.col r k) :
    h.cellLoad g r (g.col r k) = h.trueCount k := by
  induction h with
  | new => rfl
  | add h k' v ih =>
    simp only [Hist.cellLoad, Hist.trueCount]
    rw [ih (fun k'' hne hm => hfree k'' hne (Or.inr hm))]
    by_cases hk : k' = k
    · subst hk; simp
    · have := hfree k' hk (Or.inl rfl)
      simp [hk, this]
  | merge a b iha ihb =>
    simp only [Hist.cellLoad, Hist.trueCount]
    rw [iha (fun k'' hne hm => hfree k'' hne (Or.inl hm)),
        ihb (fun k'' hne hm => hfree k'' hne (Or.inr hm))]

end Sketchnu
