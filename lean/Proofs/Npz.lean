/- Proofs/Npz.lean — helper lemmas for Properties/C20.lean -/
import Model.Npz
namespace Sketchnu
end Sketchnu
