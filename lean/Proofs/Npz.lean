/- Proofs/Npz.lean — helper lemmas for Properties/C20.lean -/
import Model.Npz
namespace Sketchnu

/-- a slice that lies inside a prefix is the same slice of the whole list -/
theorem slice_take {α : Type} (f : List α) (L q m : Nat) (h : q + m ≤ L) :
    ((f.take L).drop q).take m = (f.drop q).take m := by
  rw [List.drop_take, List.take_take]
  congr 1
  omega

theorem occursAt_iff (pat f : BytesL) (q : Nat) :
    occursAt pat f q = true ↔ (f.drop q).take pat.length = pat ∧ q + pat.length ≤ f.length := by
  simp [occursAt]

/-- an occurrence in a suffix is an occurrence in the whole list, shifted -/
theorem occursAt_drop (pat g : BytesL) (a s : Nat) (hp : 0 < pat.length)
    (h : occursAt pat (g.drop a) s = true) :
    occursAt pat g (a + s) = true := by
  rw [occursAt_iff] at *
  rw [List.drop_drop, List.length_drop] at h
  exact ⟨h.1, by omega⟩

/-- soundness of `rfindFrom` -/
theorem rfindFrom_sound (pat f : BytesL) : ∀ n s, rfindFrom pat f n = some s → occursAt pat f s = true
  | 0, s, h => by
    unfold rfindFrom at h
    split at h
    · cases h; assumption
    · cases h
  | n + 1, s, h => by
    unfold rfindFrom at h
    split at h
    · cases h; assumption
    · exact rfindFrom_sound pat f n s h

theorem rfind_sound (pat f : BytesL) (s : Nat) (h : rfind pat f = some s) : occursAt pat f s = true :=
  rfindFrom_sound pat f _ s h

/-- what `uniqueSig` says -/
theorem uniqueSig_spec (f : BytesL) (hu : uniqueSig f = true) :
    22 ≤ f.length ∧
    (∀ q, occursAt sigEOCD f q = true → q = f.length - 22) ∧
    occursAt sigEOCD f (f.length - 22) = true ∧
    f.drop (f.length - 2) = [0, 0] := by
  unfold uniqueSig at hu
  simp only [Bool.and_eq_true, List.all_eq_true, List.mem_range,
    Bool.or_eq_true, Bool.not_eq_true', beq_iff_eq, sizeEndCentDir] at hu
  obtain ⟨⟨⟨h1, h2⟩, h3⟩, h4⟩ := hu
  have h1 := of_decide_eq_true h1
  refine ⟨h1, ?_, h3, h4⟩
  intro q hq
  have hb := ((occursAt_iff _ _ _).1 hq).2
  have : sigEOCD.length = 4 := rfl
  rcases h2 q (by omega) with h | h
  · rw [hq] at h; cases h
  · exact h

/-- `np.load` dispatch on a strict prefix whose end-record search fails -/
theorem npLoad_take_of_none (f : BytesL) (hstart : f.take 4 = sigLocal) (L : Nat) (hL : L < f.length)
    (hnone : endRecData (f.take L) = none) :
    npLoad (f.take L) = (if L = 0 then .eofError else if L < 4 then .valueError else .badZipFile) := by
  by_cases h0 : L = 0
  · subst h0; simp [npLoad]
  · have hne : f.take L ≠ [] := by
      intro h
      have := congrArg List.length h
      simp only [List.length_take, List.length_nil] at this
      omega
    by_cases h4 : L < 4
    · have hlen : ∀ (k : Nat) (pat : BytesL), 4 ≤ k → pat.length = k → (f.take L).take k ≠ pat := by
        intro k pat hk hp h
        have := congrArg List.length h
        simp only [List.length_take] at this
        omega
      have a1 := hlen 4 sigLocal (by omega) rfl
      have a2 := hlen 4 sigEOCD (by omega) rfl
      have a3 := hlen 6 npyMagic (by omega) rfl
      simp [npLoad, hne, a1, a2, a3, h0, h4]
    · have a1 : (f.take L).take 4 = sigLocal := by
        rw [List.take_take, Nat.min_eq_left (by omega)]; exact hstart
      simp [npLoad, hne, a1, hnone, h0, h4]

end Sketchnu
