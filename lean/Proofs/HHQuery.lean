/- Proofs/HHQuery.lean — helper lemmas for Properties/C13.lean -/
import Model.HeavyHitters
import Proofs.Contract
namespace Sketchnu

/-- generic invariant rule for `foldl` -/
theorem foldl_inv {α β : Type _} (P : β → Prop) (f : β → α → β) (l : List α)
    (h : ∀ b a, a ∈ l → P b → P (f b a)) (b : β) (hb : P b) : P (l.foldl f b) := by
  induction l generalizing b with
  | nil => exact hb
  | cons a l ih =>
    exact ih (fun b a' ha' => h b a' (List.mem_cons_of_mem _ ha')) _
      (h b a List.mem_cons_self hb)

theorem CAP_pos : 0 < CAP := by decide

/-! ### single cells -/
namespace HCell
variable {K : Type} [DecidableEq K]

theorem add_zero (c : HCell K) (k : K) (hc : c.cnt ≤ CAP) : c.add k 0 = c := by
  cases c with
  | mk key cnt =>
    simp only at hc
    unfold HCell.add
    simp only
    split
    · split
      · rfl
      · have : cnt = CAP := by omega
        simp [this]
    · split
      · omega
      · rfl

theorem merge_zero (a b : HCell K) (ha : a.cnt ≤ CAP) (hb : b.cnt = 0) : a.merge b = a := by
  cases a with
  | mk key cnt =>
    simp only at ha
    unfold HCell.merge
    simp only [hb]
    split
    · split
      · omega
      · rfl
    · split
      · rfl
      · omega

theorem add_cnt_le (c : HCell K) (k : K) (v : Nat) (hc : c.cnt ≤ CAP) (hv : v ≤ CAP) :
    (c.add k v).cnt ≤ c.cnt + v ∧ (c.add k v).cnt ≤ CAP := by
  unfold HCell.add
  split
  · simp only; split <;> omega
  · split <;> simp only <;> omega

theorem merge_cnt_le (a b : HCell K) (ha : a.cnt ≤ CAP) (hb : b.cnt ≤ CAP) :
    (a.merge b).cnt ≤ a.cnt + b.cnt ∧ (a.merge b).cnt ≤ CAP := by
  unfold HCell.merge
  split
  · simp only; split <;> omega
  · split <;> simp only <;> omega

end HCell

namespace HH
variable {K : Type} [DecidableEq K]

/-! ### `insertDesc` / `sortDesc` -/

theorem mem_insertDesc (x y : K × Nat) (l : List (K × Nat)) :
    y ∈ insertDesc x l ↔ y = x ∨ y ∈ l := by
  induction l with
  | nil => simp [insertDesc]
  | cons z zs ih =>
    unfold insertDesc
    split
    · simp only [List.mem_cons, ih]
      constructor
      · rintro (h | h | h)
        · exact Or.inr (Or.inl h)
        · exact Or.inl h
        · exact Or.inr (Or.inr h)
      · rintro (h | h | h)
        · exact Or.inr (Or.inl h)
        · exact Or.inl h
        · exact Or.inr (Or.inr h)
    · simp only [List.mem_cons]

theorem insertDesc_perm (x : K × Nat) (l : List (K × Nat)) :
    (insertDesc x l).Perm (x :: l) := by
  induction l with
  | nil => exact List.Perm.refl _
  | cons y ys ih =>
    unfold insertDesc
    split
    · exact (List.Perm.cons y ih).trans (List.Perm.swap x y ys)
    · exact List.Perm.refl _

theorem insertDesc_sorted (x : K × Nat) (l : List (K × Nat))
    (h : l.Pairwise (fun a b => a.2 ≥ b.2)) :
    (insertDesc x l).Pairwise (fun a b => a.2 ≥ b.2) := by
  induction l with
  | nil => simp [insertDesc]
  | cons y ys ih =>
    have h' := List.pairwise_cons.1 h
    unfold insertDesc
    split
    · next hyx =>
      rw [List.pairwise_cons]
      refine ⟨?_, ih h'.2⟩
      intro z hz
      rw [mem_insertDesc] at hz
      rcases hz with rfl | hz
      · exact hyx
      · exact h'.1 z hz
    · next hyx =>
      rw [List.pairwise_cons]
      refine ⟨?_, h⟩
      intro z hz
      rw [List.mem_cons] at hz
      rcases hz with rfl | hz
      · show x.2 ≥ z.2
        omega
      · have := h'.1 z hz
        show x.2 ≥ z.2
        omega

theorem foldl_insertDesc_perm (l acc : List (K × Nat)) :
    (l.foldl (fun acc x => insertDesc x acc) acc).Perm (l ++ acc) := by
  induction l generalizing acc with
  | nil => exact List.Perm.refl _
  | cons x xs ih =>
    simp only [List.foldl_cons, List.cons_append]
    refine (ih (insertDesc x acc)).trans ?_
    refine ((insertDesc_perm x acc).append_left xs).trans ?_
    exact List.perm_middle

theorem sortDesc_perm (l : List (K × Nat)) : (sortDesc l).Perm l := by
  have := foldl_insertDesc_perm l []
  simpa [sortDesc] using this

theorem sortDesc_sorted (l : List (K × Nat)) :
    (sortDesc l).Pairwise (fun a b => a.2 ≥ b.2) := by
  unfold sortDesc
  exact foldl_inv (fun acc => acc.Pairwise (fun a b => a.2 ≥ b.2)) _ l
    (fun b a _ hb => insertDesc_sorted a b hb) [] List.Pairwise.nil

theorem mem_sortDesc (p : K × Nat) (l : List (K × Nat)) : p ∈ sortDesc l ↔ p ∈ l :=
  (sortDesc_perm l).mem_iff

theorem mostCommon_sublist (l : List (K × Nat)) (kk : Option Nat) :
    (mostCommon l kk).Sublist (sortDesc l) := by
  unfold mostCommon
  split
  · exact List.Sublist.refl _
  · exact List.take_sublist _ _

theorem mostCommon_sorted (l : List (K × Nat)) (kk : Option Nat) :
    (mostCommon l kk).Pairwise (fun a b => a.2 ≥ b.2) :=
  (sortDesc_sorted l).sublist (mostCommon_sublist l kk)

theorem mem_of_mem_mostCommon {p : K × Nat} {l : List (K × Nat)} {kk : Option Nat}
    (h : p ∈ mostCommon l kk) : p ∈ l :=
  (mem_sortDesc p l).1 ((mostCommon_sublist l kk).subset h)

theorem mostCommon_nodup (l : List (K × Nat)) (kk : Option Nat)
    (h : (l.map Prod.fst).Nodup) : ((mostCommon l kk).map Prod.fst).Nodup := by
  have h1 : ((sortDesc l).map Prod.fst).Nodup :=
    (((sortDesc_perm l).map Prod.fst).nodup_iff).2 h
  exact h1.sublist ((mostCommon_sublist l kk).map Prod.fst)

/-! ### `maxRows` -/

theorem maxRows_attained (g : Geom K) (T : HTab K) (k : K) :
    ∀ d, 1 ≤ maxRows g T k d →
      ∃ r, r < d ∧ (T r (g.col r k)).key = k ∧ (T r (g.col r k)).cnt = maxRows g T k d := by
  intro d
  induction d with
  | zero => intro h; simp [maxRows] at h
  | succ d ih =>
    intro h
    by_cases hc : (T d (g.col d k)).key = k ∧ (T d (g.col d k)).cnt > maxRows g T k d
    · simp only [maxRows, if_pos hc]
      exact ⟨d, Nat.lt_succ_self d, hc.1, rfl⟩
    · simp only [maxRows, if_neg hc] at h ⊢
      obtain ⟨r, hr, h1, h2⟩ := ih h
      exact ⟨r, Nat.lt_succ_of_lt hr, h1, h2⟩

theorem le_maxRows (g : Geom K) (T : HTab K) (k : K) :
    ∀ d r, r < d → (T r (g.col r k)).key = k → (T r (g.col r k)).cnt ≤ maxRows g T k d := by
  intro d
  induction d with
  | zero => intro r hr; omega
  | succ d ih =>
    intro r hr hkey
    by_cases hc : (T d (g.col d k)).key = k ∧ (T d (g.col d k)).cnt > maxRows g T k d
    · simp only [maxRows, if_pos hc]
      by_cases hrd : r = d
      · subst hrd; exact Nat.le_refl _
      · have := ih r (by omega) hkey
        omega
    · simp only [maxRows, if_neg hc]
      by_cases hrd : r = d
      · subst hrd
        have : ¬ (T r (g.col r k)).cnt > maxRows g T k r := fun h => hc ⟨hkey, h⟩
        omega
      · exact ih r (by omega) hkey

/-! ### the candidate set -/

theorem mem_cellOrder (g : Geom K) (r c : Nat) :
    (r, c) ∈ cellOrder g ↔ r < g.depth ∧ c < g.width := by
  simp [cellOrder, List.mem_flatMap, List.mem_map, List.mem_range]

theorem lookup_ne_zero {cand : List (K × Nat)} {k : K} (h : lookup cand k ≠ 0) :
    ∃ p ∈ cand, p.1 = k := by
  unfold lookup at h
  split at h
  · next p hp =>
    exact ⟨p, List.mem_of_find?_eq_some hp, by simpa using List.find?_some hp⟩
  · exact absurd rfl h

theorem lookup_eq_zero_not_mem {cand : List (K × Nat)} {k : K}
    (hpos : ∀ p ∈ cand, 0 < p.2) (h : lookup cand k = 0) : k ∉ cand.map Prod.fst := by
  intro hm
  rw [List.mem_map] at hm
  obtain ⟨p, hp, rfl⟩ := hm
  unfold lookup at h
  split at h
  · next q hq =>
    have := hpos q (List.mem_of_find?_eq_some hq)
    omega
  · next hn =>
    rw [List.find?_eq_none] at hn
    have := hn p hp
    simp at this

/-- every stored pair is `(x, hh[x])` with `hh[x] ≥ thr` -/
def CandOK (g : Geom K) (s : HH K) (thr : Nat) (cand : List (K × Nat)) : Prop :=
  ∀ p ∈ cand, p.2 = getitem g s p.1 ∧ thr ≤ p.2

theorem candStep_ok {g : Geom K} {s : HH K} {thr : Nat} {cand : List (K × Nat)} (r c : Nat)
    (h : CandOK g s thr cand) : CandOK g s thr (candStep g s thr cand r c) := by
  unfold candStep
  simp only
  split
  · exact h
  · split
    · split
      · next hthr =>
        intro p hp
        rw [List.mem_append, List.mem_singleton] at hp
        rcases hp with hp | rfl
        · exact h p hp
        · exact ⟨rfl, hthr⟩
      · exact h
    · exact h

theorem candStep_mono {g : Geom K} {s : HH K} {thr : Nat} {cand : List (K × Nat)} (r c : Nat)
    {p : K × Nat} (h : p ∈ cand) : p ∈ candStep g s thr cand r c := by
  unfold candStep
  simp only
  split
  · exact h
  · split
    · split
      · exact List.mem_append_left _ h
      · exact h
    · exact h

theorem candStep_hit {g : Geom K} {s : HH K} {thr : Nat} {cand : List (K × Nat)} (r c : Nat)
    (hok : CandOK g s thr cand) (hcnt : (s.tab r c).cnt ≠ 0)
    (hthr : thr ≤ getitem g s (s.tab r c).key) :
    ((s.tab r c).key, getitem g s (s.tab r c).key) ∈ candStep g s thr cand r c := by
  unfold candStep
  simp only [if_neg hcnt]
  split
  · exact List.mem_append_right _ (List.mem_singleton.2 rfl)
  · next hl =>
    obtain ⟨p, hp, hpk⟩ := lookup_ne_zero hl
    have := (hok p hp).1
    have hpe : p = ((s.tab r c).key, getitem g s (s.tab r c).key) := by
      cases p with
      | mk a b => simp only at hpk this; subst hpk; rw [this]
    rw [← hpe]; exact hp

theorem foldl_candStep_ok {g : Geom K} {s : HH K} {thr : Nat} (L : List (Nat × Nat))
    (acc : List (K × Nat)) (h : CandOK g s thr acc) :
    CandOK g s thr (L.foldl (fun cand rc => candStep g s thr cand rc.1 rc.2) acc) :=
  foldl_inv (CandOK g s thr) _ L (fun _ a _ hb => candStep_ok a.1 a.2 hb) acc h

theorem foldl_candStep_mono {g : Geom K} {s : HH K} {thr : Nat} (L : List (Nat × Nat))
    (acc : List (K × Nat)) {p : K × Nat} (h : p ∈ acc) :
    p ∈ L.foldl (fun cand rc => candStep g s thr cand rc.1 rc.2) acc :=
  foldl_inv (fun l => p ∈ l) _ L (fun _ a _ hb => candStep_mono a.1 a.2 hb) acc h

theorem foldl_candStep_hit {g : Geom K} {s : HH K} {thr : Nat} (L : List (Nat × Nat))
    (acc : List (K × Nat)) (hok : CandOK g s thr acc) (r c : Nat) (hrc : (r, c) ∈ L)
    (hcnt : (s.tab r c).cnt ≠ 0) (hthr : thr ≤ getitem g s (s.tab r c).key) :
    ((s.tab r c).key, getitem g s (s.tab r c).key) ∈
      L.foldl (fun cand rc => candStep g s thr cand rc.1 rc.2) acc := by
  induction L generalizing acc with
  | nil => cases hrc
  | cons rc L ih =>
    simp only [List.foldl_cons]
    rw [List.mem_cons] at hrc
    rcases hrc with hrc | hrc
    · subst hrc
      exact foldl_candStep_mono L _ (candStep_hit r c hok hcnt hthr)
    · exact ih _ (candStep_ok _ _ hok) hrc

theorem candidates_ok (g : Geom K) (s : HH K) (thr : Nat) :
    CandOK g s thr (candidates g s thr) :=
  foldl_candStep_ok _ [] (fun _ hp => by cases hp)

/-- a key whose count is attained in one of its own cells and is `≥ max thr 1` is a candidate -/
theorem candidates_complete (g : Geom K) (hg : g.WF) (s : HH K) (thr : Nat) (k : K)
    (hk : max thr 1 ≤ getitem g s k) : (k, getitem g s k) ∈ candidates g s thr := by
  have h1 : 1 ≤ maxRows g s.tab k g.depth := by
    have : 1 ≤ getitem g s k := by omega
    exact this
  obtain ⟨r, hr, hkey, hcnt⟩ := maxRows_attained g s.tab k g.depth h1
  have hmem : (r, g.col r k) ∈ cellOrder g := (mem_cellOrder g r _).2 ⟨hr, hg r k⟩
  have hc0 : (s.tab r (g.col r k)).cnt ≠ 0 := by omega
  have hthr : thr ≤ getitem g s (s.tab r (g.col r k)).key := by rw [hkey]; omega
  have := foldl_candStep_hit (g := g) (s := s) (thr := thr) (cellOrder g) []
    (fun _ hp => by cases hp) r (g.col r k) hmem hc0 hthr
  rw [hkey] at this
  exact this

/-- `candidates` reads only the table -/
theorem candidates_congr (g : Geom K) (s s' : HH K) (thr : Nat) (h : s.tab = s'.tab) :
    candidates g s thr = candidates g s' thr := by
  cases s with
  | mk t a b =>
    cases s' with
    | mk t' a' b' =>
      simp only at h
      subst h
      rfl

theorem candidates_of_zero (g : Geom K) (s : HH K) (thr : Nat)
    (h : ∀ r c, (s.tab r c).cnt = 0) : candidates g s thr = [] := by
  unfold candidates
  refine foldl_inv (fun l => l = []) _ _ ?_ [] rfl
  intro b a _ hb
  subst hb
  unfold candStep
  simp only [h, if_true]

/-! ### distinct keys and positive counts: need a hypothesis on the state

`query_nodup` and the `0 < p.2` part of `query_counts` are FALSE for arbitrary states when
`thr = 0`: a non-empty cell whose key does not hash to that cell has `hh[key] = 0`, is inserted
with value 0, is then invisible to `lookup`, and is inserted again from the next such cell.
They hold when `0 < thr`, or when every non-empty cell holds a key that hashes to it (`Owned`,
true of every reachable state). -/

/-- what is needed of the state: a non-empty cell's key that passes the threshold has a
    positive count -/
def PosOK (g : Geom K) (s : HH K) (thr : Nat) : Prop :=
  ∀ r c, r < g.depth → c < g.width → (s.tab r c).cnt ≠ 0 →
    thr ≤ getitem g s (s.tab r c).key → 0 < getitem g s (s.tab r c).key

/-- every non-empty cell holds a key that hashes to it -/
def Owned (g : Geom K) (s : HH K) : Prop :=
  ∀ r c, r < g.depth → c < g.width → (s.tab r c).cnt ≠ 0 → c = g.col r (s.tab r c).key

theorem PosOK_of_thr (g : Geom K) (s : HH K) (thr : Nat) (h : 0 < thr) : PosOK g s thr := by
  intro r c _ _ _ h1; omega

theorem PosOK_of_owned (g : Geom K) (s : HH K) (thr : Nat) (h : Owned g s) : PosOK g s thr := by
  intro r c hr hc hcnt _
  have hcol := h r c hr hc hcnt
  have := le_maxRows g s.tab (s.tab r c).key g.depth r hr (by rw [← hcol])
  rw [← hcol] at this
  have h2 : (s.tab r c).cnt ≤ getitem g s (s.tab r c).key := this
  omega

theorem Owned_eval (g : Geom K) (e : K) (h : Hist K) : Owned g (eval g e h) := by
  induction h with
  | new => intro r c _ _ hcnt; exact absurd rfl hcnt
  | add h k v ih =>
    intro r c hr hc
    simp only [eval, add]
    split
    · next hcond =>
      have ih' := ih r c hr hc
      generalize (eval g e h).tab r c = cell at ih' ⊢
      unfold HCell.add
      split
      · next hk => intro _; simp only; rw [hk]; exact hcond.2
      · split
        · intro _; exact hcond.2
        · simp only; intro hne; exact ih' (by omega)
    · exact ih r c hr hc
  | merge a b iha ihb =>
    intro r c hr hc
    simp only [eval, merge]
    have iha' := iha r c hr hc
    have ihb' := ihb r c hr hc
    generalize (eval g e a).tab r c = ca at iha' ⊢
    generalize (eval g e b).tab r c = cb at ihb' ⊢
    unfold HCell.merge
    split
    · next hk =>
      simp only
      split
      · intro _
        by_cases h0 : ca.cnt = 0
        · rw [hk]; exact ihb' (by omega)
        · exact iha' h0
      · intro hne
        by_cases h0 : ca.cnt = 0
        · rw [hk]; exact ihb' (by omega)
        · exact iha' h0
    · split
      · simp only; intro hne; exact iha' (by omega)
      · simp only; intro hne; exact ihb' (by omega)

def CandInv (g : Geom K) (s : HH K) (thr : Nat) (cand : List (K × Nat)) : Prop :=
  (∀ p ∈ cand, p.2 = getitem g s p.1 ∧ thr ≤ p.2 ∧ 0 < p.2) ∧ (cand.map Prod.fst).Nodup

theorem candStep_inv {g : Geom K} {s : HH K} {thr : Nat} {cand : List (K × Nat)} (r c : Nat)
    (hpos : (s.tab r c).cnt ≠ 0 → thr ≤ getitem g s (s.tab r c).key →
      0 < getitem g s (s.tab r c).key)
    (h : CandInv g s thr cand) : CandInv g s thr (candStep g s thr cand r c) := by
  unfold candStep
  simp only
  split
  · exact h
  · next hcnt =>
    split
    · next hl =>
      split
      · next hthr =>
        refine ⟨?_, ?_⟩
        · intro p hp
          rw [List.mem_append, List.mem_singleton] at hp
          rcases hp with hp | rfl
          · exact h.1 p hp
          · exact ⟨rfl, hthr, hpos hcnt hthr⟩
        · rw [List.map_append, List.nodup_append]
          refine ⟨h.2, by simp, ?_⟩
          intro a ha b hb
          simp only [List.map_cons, List.map_nil, List.mem_singleton] at hb
          subst hb
          intro hab
          subst hab
          exact lookup_eq_zero_not_mem (fun p hp => (h.1 p hp).2.2) hl ha
      · exact h
    · exact h

theorem candidates_inv (g : Geom K) (s : HH K) (thr : Nat) (hpos : PosOK g s thr) :
    CandInv g s thr (candidates g s thr) := by
  unfold candidates
  refine foldl_inv (CandInv g s thr) _ _ ?_ [] ⟨fun _ hp => (by cases hp), List.nodup_nil⟩
  intro b a ha hb
  obtain ⟨r, c⟩ := a
  have := (mem_cellOrder g r c).1 ha
  exact candStep_inv r c (hpos r c this.1 this.2) hb

/-- corrected `query_nodup` -/
theorem queryFresh_nodup_of (g : Geom K) (s : HH K) (kk : Option Nat) (thr : Nat)
    (hpos : PosOK g s thr) : ((queryFresh g s kk thr).map Prod.fst).Nodup :=
  mostCommon_nodup _ kk (candidates_inv g s thr hpos).2

/-- corrected `query_counts` -/
theorem queryFresh_counts_of (g : Geom K) (s : HH K) (kk : Option Nat) (thr : Nat)
    (hpos : PosOK g s thr) :
    ∀ p ∈ queryFresh g s kk thr, p.2 = getitem g s p.1 ∧ thr ≤ p.2 ∧ 0 < p.2 :=
  fun p hp => (candidates_inv g s thr hpos).1 p (mem_of_mem_mostCommon hp)

/-- the part of `query_counts` that holds for every state -/
theorem queryFresh_counts_weak (g : Geom K) (s : HH K) (kk : Option Nat) (thr : Nat) :
    ∀ p ∈ queryFresh g s kk thr, p.2 = getitem g s p.1 ∧ thr ≤ p.2 :=
  fun p hp => candidates_ok g s thr p (mem_of_mem_mostCommon hp)

/-! ### reachable states: counts are bounded by `n_added` and by `CAP` -/

theorem eval_cnt_le (g : Geom K) (e : K) (h : Hist K) (r c : Nat) :
    ((eval g e h).tab r c).cnt ≤ (eval g e h).nAdded ∧ ((eval g e h).tab r c).cnt ≤ CAP := by
  induction h generalizing r c with
  | new => exact ⟨Nat.le_refl _, Nat.zero_le _⟩
  | add h k v ih =>
    simp only [eval, add]
    have ih' := ih r c
    split
    · have := HCell.add_cnt_le ((eval g e h).tab r c) k (min v CAP) ih'.2 (Nat.min_le_right _ _)
      omega
    · omega
  | merge a b iha ihb =>
    simp only [eval, merge]
    have ha := iha r c
    have hb := ihb r c
    have := HCell.merge_cnt_le ((eval g e a).tab r c) ((eval g e b).tab r c) ha.2 hb.2
    omega

end HH

/-! ### the cache -/
namespace HHQ
variable {K : Type} [DecidableEq K]

/-- the cached candidate set is never *stale and believed fresh* -/
def Valid (g : Geom K) (q : HHQ K) : Prop :=
  q.nAddedSort ≤ q.hh.nAdded ∧
  (q.nAddedSort = q.hh.nAdded → q.cand = HH.candidates g q.hh q.thrSort) ∧
  (∀ r c, (q.hh.tab r c).cnt ≤ CAP)

theorem Valid_empty (g : Geom K) (e : K) : Valid g (HHQ.empty e) := by
  refine ⟨Nat.le_refl _, ?_, fun _ _ => Nat.zero_le _⟩
  intro _
  exact (HH.candidates_of_zero g (HH.empty e) 0 (fun _ _ => rfl)).symm

theorem Valid_add (g : Geom K) (q : HHQ K) (k : K) (v : Nat) (h : Valid g q) :
    Valid g (q.add g k v) := by
  obtain ⟨h1, h2, h3⟩ := h
  refine ⟨?_, ?_, ?_⟩
  · show q.nAddedSort ≤ q.hh.nAdded + min v CAP
    omega
  · intro heq
    have heq' : q.nAddedSort = q.hh.nAdded + min v CAP := heq
    have hv0 : min v CAP = 0 := by omega
    have htab : (q.hh.add g k v).tab = q.hh.tab := by
      funext r c
      simp only [HH.add, hv0]
      split
      · exact HCell.add_zero _ k (h3 r c)
      · rfl
    show q.cand = HH.candidates g (q.hh.add g k v) q.thrSort
    rw [HH.candidates_congr g _ _ _ htab]
    exact h2 (by omega)
  · intro r c
    show ((q.hh.add g k v).tab r c).cnt ≤ CAP
    simp only [HH.add]
    split
    · exact (HCell.add_cnt_le _ k _ (h3 r c) (Nat.min_le_right _ _)).2
    · exact h3 r c

theorem Valid_merge_eval (g : Geom K) (e : K) (q : HHQ K) (o : Hist K) (cand : List (K × Nat))
    (n t : Nat) (h : Valid g q) :
    Valid g (q.merge { hh := HH.eval g e o, cand := cand, nAddedSort := n, thrSort := t }) := by
  obtain ⟨h1, h2, h3⟩ := h
  refine ⟨?_, ?_, ?_⟩
  · show q.nAddedSort ≤ q.hh.nAdded + (HH.eval g e o).nAdded
    omega
  · intro heq
    have heq' : q.nAddedSort = q.hh.nAdded + (HH.eval g e o).nAdded := heq
    have hv0 : (HH.eval g e o).nAdded = 0 := by omega
    have htab : (q.hh.merge (HH.eval g e o)).tab = q.hh.tab := by
      funext r c
      simp only [HH.merge]
      have := (HH.eval_cnt_le g e o r c).1
      exact HCell.merge_zero _ _ (h3 r c) (by omega)
    show q.cand = HH.candidates g (q.hh.merge (HH.eval g e o)) q.thrSort
    rw [HH.candidates_congr g _ _ _ htab]
    exact h2 (by omega)
  · intro r c
    show ((q.hh.merge (HH.eval g e o)).tab r c).cnt ≤ CAP
    simp only [HH.merge]
    exact (HCell.merge_cnt_le _ _ (h3 r c) (HH.eval_cnt_le g e o r c).2).2

theorem Valid_regen (g : Geom K) (q : HHQ K) (thr : Nat) (h : Valid g q) :
    Valid g (q.regen g thr) :=
  ⟨Nat.le_refl _, fun _ => rfl, h.2.2⟩

theorem Valid_query (g : Geom K) (q : HHQ K) (kk : Option Nat) (thr : Nat) (h : Valid g q) :
    Valid g (q.query g kk thr).1 := by
  unfold HHQ.query
  simp only
  split
  · exact Valid_regen g q thr h
  · exact h

theorem query_of_valid (g : Geom K) (q : HHQ K) (kk : Option Nat) (thr : Nat) (h : Valid g q) :
    (q.query g kk thr).2 = HH.queryFresh g q.hh kk thr := by
  unfold HHQ.query HH.queryFresh
  simp only
  split
  · rfl
  · next hc =>
    have h1 : ¬ q.nAddedSort < q.hh.nAdded := fun h' => hc (Or.inl h')
    have h2 : q.thrSort = thr := Classical.byContradiction fun h' => hc (Or.inr h')
    have := h.2.1 (by have := h.1; omega)
    rw [this, h2]

theorem query_hh (g : Geom K) (q : HHQ K) (kk : Option Nat) (thr : Nat) :
    (q.query g kk thr).1.hh = q.hh := by
  unfold HHQ.query
  simp only
  split <;> rfl

end HHQ
end Sketchnu
