/- Proofs/Unbias.lean — helper lemmas for Properties/C06Unbias.lean (single Mathlib modules allowed) -/
import Mathlib.Tactic.Ring
import Mathlib.Tactic.FieldSimp
import Mathlib.Tactic.Linarith
import Mathlib.Tactic.LinearCombination
import Mathlib.Tactic.NormNum
import Mathlib.Algebra.Order.Field.Basic
import Mathlib.Data.Rat.Defs
import Model.LogCounter
namespace Sketchnu
end Sketchnu
