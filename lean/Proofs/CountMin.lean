/-
  Proofs/CountMin.lean — helper lemmas for the linear count-min model.
-/
import Model.CountMin
namespace Sketchnu
variable {K : Type}

theorem qrows_le_cap (g : Geom K) (cap : Nat) (T : Tab) (k : K) (d : Nat) :
    qrows g cap T k d ≤ cap := by
  induction d with
  | zero => simp [qrows]
  | succ d ih => simp only [qrows]; split <;> omega

/-- the running minimum is below every visited counter -/
theorem qrows_le (g : Geom K) (cap : Nat) (T : Tab) (k : K) (d r : Nat) (h : r < d) :
    qrows g cap T k d ≤ T r (g.col r k) := by
  induction d with
  | zero => omega
  | succ d ih =>
    simp only [qrows]
    by_cases hr : r = d
    · subst hr; split <;> omega
    · have := ih (by omega); split <;> omega

/-- anything below the ceiling and below all visited counters is below the running minimum -/
theorem le_qrows (g : Geom K) (cap : Nat) (T : Tab) (k : K) (d x : Nat) (hc : x ≤ cap)
    (h : ∀ r, r < d → x ≤ T r (g.col r k)) : x ≤ qrows g cap T k d := by
  induction d with
  | zero => simpa [qrows]
  | succ d ih =>
    simp only [qrows]
    have h1 := ih (fun r hr => h r (by omega))
    have h2 := h d (by omega)
    split <;> omega

/-- the running minimum is attained (or is the ceiling) -/
theorem qrows_attained (g : Geom K) (cap : Nat) (T : Tab) (k : K) (d : Nat) :
    qrows g cap T k d = cap ∨ ∃ r, r < d ∧ qrows g cap T k d = T r (g.col r k) := by
  induction d with
  | zero => left; rfl
  | succ d ih =>
    simp only [qrows]
    split
    · right; exact ⟨d, by omega, rfl⟩
    · rcases ih with h | ⟨r, hr, h⟩
      · left; exact h
      · right; exact ⟨r, by omega, h⟩

theorem qrows_mono (g : Geom K) (cap : Nat) (T T' : Tab) (k : K) (d : Nat)
    (h : ∀ r, r < d → T r (g.col r k) ≤ T' r (g.col r k)) :
    qrows g cap T k d ≤ qrows g cap T' k d := by
  induction d with
  | zero => simp [qrows]
  | succ d ih =>
    simp only [qrows]
    have h1 := ih (fun r hr => h r (by omega))
    have h2 := h d (by omega)
    split <;> split <;> omega

theorem tquery_le_cap (g : Geom K) (cap : Nat) (T : Tab) (k : K) : tquery g cap T k ≤ cap :=
  qrows_le_cap g cap T k g.depth

theorem tquery_le (g : Geom K) (cap : Nat) (T : Tab) (k : K) (r : Nat) (h : r < g.depth) :
    tquery g cap T k ≤ T r (g.col r k) := qrows_le g cap T k g.depth r h

theorem le_tquery (g : Geom K) (cap : Nat) (T : Tab) (k : K) (x : Nat) (hc : x ≤ cap)
    (h : ∀ r, r < g.depth → x ≤ T r (g.col r k)) : x ≤ tquery g cap T k :=
  le_qrows g cap T k g.depth x hc h

theorem tquery_mono (g : Geom K) (cap : Nat) (T T' : Tab) (k : K)
    (h : ∀ r, r < g.depth → T r (g.col r k) ≤ T' r (g.col r k)) :
    tquery g cap T k ≤ tquery g cap T' k := qrows_mono g cap T T' k g.depth h

/-- pointwise rewriting lemma for the conservative update -/
theorem raiseTo_apply (g : Geom K) (T : Tab) (k : K) (nc r c : Nat) :
    raiseTo g T k nc r c = if r < g.depth ∧ c = g.col r k ∧ T r c < nc then nc else T r c := rfl

theorem raiseTo_ge (g : Geom K) (T : Tab) (k : K) (nc r c : Nat) : T r c ≤ raiseTo g T k nc r c := by
  rw [raiseTo_apply]; split
  · next h => omega
  · omega

theorem raiseTo_own (g : Geom K) (T : Tab) (k : K) (nc r : Nat) (hr : r < g.depth) :
    raiseTo g T k nc r (g.col r k) = max (T r (g.col r k)) nc := by
  rw [raiseTo_apply]; split
  · next h => omega
  · next h =>
    have : ¬ (T r (g.col r k) < nc) := fun hlt => h ⟨hr, rfl, hlt⟩
    omega

theorem raiseTo_other (g : Geom K) (T : Tab) (k : K) (nc r c : Nat) (hc : c ≠ g.col r k) :
    raiseTo g T k nc r c = T r c := by
  rw [raiseTo_apply]; split
  · next h => exact absurd h.2.1 hc
  · rfl

/-- after raising `k`'s cells to `nc ≥ old minimum`, `k`'s query is `min nc cap`-ish: exactly `nc`
    when `nc ≤ cap` and the old minimum was `≤ nc`. -/
theorem tquery_raiseTo_self (g : Geom K) (cap : Nat) (T : Tab) (k : K) (nc : Nat)
    (hm : tquery g cap T k ≤ nc) (hc : nc ≤ cap) (hlt : tquery g cap T k < cap) :
    tquery g cap (raiseTo g T k nc) k = nc := by
  apply Nat.le_antisymm
  · -- the old minimum is attained in some row; that row now holds exactly nc
    rcases qrows_attained g cap T k g.depth with h | ⟨r, hr, h⟩
    · unfold tquery at hlt; omega
    · have h1 := tquery_le g cap (raiseTo g T k nc) k r hr
      rw [raiseTo_own g T k nc r hr] at h1
      unfold tquery at hm; omega
  · apply le_tquery _ _ _ _ _ hc
    intro r hr
    rw [raiseTo_own g T k nc r hr]; omega

theorem allLt_iff (n : Nat) (p : Nat → Bool) : allLt n p = true ↔ ∀ i, i < n → p i = true := by
  induction n with
  | zero => simp [allLt]
  | succ n ih =>
    simp only [allLt, Bool.and_eq_true, ih]
    constructor
    · rintro ⟨h1, h2⟩ i hi
      by_cases h : i = n
      · subst h; exact h2
      · exact h1 i (by omega)
    · intro h; exact ⟨fun i hi => h i (by omega), h n (by omega)⟩

end Sketchnu
