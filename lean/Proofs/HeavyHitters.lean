/- Proofs/HeavyHitters.lean — helper lemmas for Properties/C03.lean and C04.lean -/
import Model.HeavyHitters
import Proofs.Contract
namespace Sketchnu
variable {K : Type} [DecidableEq K]

/-! ### single-cell lemmas -/
namespace HCell

/-- potential of key `x` in a cell (same as `C04.phi`) -/
def phi (c : HCell K) (x : K) : Int := if c.key = x then (c.cnt : Int) else -(c.cnt : Int)

theorem add_cnt_le_true (c : HCell K) (k : K) (v0 v : Nat) (f : K → Nat)
    (h : c.cnt ≤ f c.key) (hv : v0 ≤ v) :
    (c.add k v0).cnt ≤ f (c.add k v0).key + (if k = (c.add k v0).key then v else 0) := by
  unfold HCell.add
  grind [CAP]

theorem merge_cnt_le_true (a b : HCell K) (fa fb : K → Nat)
    (ha : a.cnt ≤ fa a.key) (hb : b.cnt ≤ fb b.key) :
    (a.merge b).cnt ≤ fa (a.merge b).key + fb (a.merge b).key := by
  unfold HCell.merge
  grind [CAP]

theorem add_cnt_le (c : HCell K) (k : K) (v : Nat) : (c.add k v).cnt ≤ c.cnt + v := by
  unfold HCell.add
  grind [CAP]

theorem merge_cnt_le (a b : HCell K) : (a.merge b).cnt ≤ a.cnt + b.cnt := by
  unfold HCell.merge
  grind [CAP]

theorem add_phi_ge (c : HCell K) (k : K) (v : Nat) (x : K) (h : c.cnt + v ≤ CAP) :
    phi c x + (if k = x then (v : Int) else -(v : Int)) ≤ phi (c.add k v) x := by
  unfold HCell.add phi
  grind [CAP]

theorem merge_phi_ge (a b : HCell K) (x : K) (h : a.cnt + b.cnt ≤ CAP) :
    phi a x + phi b x ≤ phi (a.merge b) x := by
  unfold HCell.merge phi
  grind [CAP]

end HCell

namespace HH

theorem add_tab (g : Geom K) (s : HH K) (k : K) (v : Nat) (r c : Nat) :
    (HH.add g s k v).tab r c =
      if r < g.depth ∧ c = g.col r k then (s.tab r c).add k (min v CAP) else s.tab r c := rfl

theorem merge_tab (a b : HH K) (r c : Nat) :
    (HH.merge a b).tab r c = (a.tab r c).merge (b.tab r c) := rfl

/-! ### C03: stored counts never exceed the true count of the stored key -/

theorem cell_le_true (g : Geom K) (e : K) (h : Hist K) (r c : Nat) :
    ((HH.eval g e h).tab r c).cnt ≤ h.trueCount ((HH.eval g e h).tab r c).key := by
  induction h generalizing r c with
  | new => simp [HH.eval, HH.empty]
  | add h k v ih =>
    simp only [HH.eval, add_tab]
    split
    · have := HCell.add_cnt_le_true ((HH.eval g e h).tab r c) k (min v CAP) v (h.trueCount)
        (ih r c) (Nat.min_le_left _ _)
      simpa [Hist.trueCount] using this
    · have := ih r c
      simp only [Hist.trueCount]
      omega
  | merge a b iha ihb =>
    simp only [HH.eval, merge_tab, Hist.trueCount]
    exact HCell.merge_cnt_le_true _ _ _ _ (iha r c) (ihb r c)

theorem maxRows_attained (g : Geom K) (T : HTab K) (k : K) (d : Nat) :
    maxRows g T k d = 0 ∨
      ∃ r, r < d ∧ (T r (g.col r k)).key = k ∧ maxRows g T k d = (T r (g.col r k)).cnt := by
  induction d with
  | zero => left; rfl
  | succ d ih =>
    simp only [maxRows]
    split
    · rename_i hc
      right; exact ⟨d, by omega, hc.1, rfl⟩
    · rcases ih with h | ⟨r, hr, hk, h⟩
      · left; exact h
      · right; exact ⟨r, by omega, hk, h⟩

theorem maxRows_ge (g : Geom K) (T : HTab K) (k : K) (d r : Nat) (hr : r < d)
    (hk : (T r (g.col r k)).key = k) : (T r (g.col r k)).cnt ≤ maxRows g T k d := by
  induction d with
  | zero => omega
  | succ d ih =>
    simp only [maxRows]
    by_cases hrd : r = d
    · subst hrd
      split
      · omega
      · rename_i hc
        have : ¬ ((T r (g.col r k)).cnt > maxRows g T k r) := fun h => hc ⟨hk, h⟩
        omega
    · have := ih (by omega)
      split <;> omega

theorem getitem_le_true (g : Geom K) (e : K) (h : Hist K) (k : K) :
    HH.getitem g (HH.eval g e h) k ≤ h.trueCount k := by
  unfold HH.getitem
  rcases maxRows_attained g (HH.eval g e h).tab k g.depth with h0 | ⟨r, _, hk, h1⟩
  · omega
  · have := cell_le_true g e h r (g.col r k)
    rw [hk] at this
    omega

end HH

/-! ### `insertDesc` / `sortDesc` / `mostCommon`: membership -/
namespace HH

theorem mem_insertDesc (x y : K × Nat) (l : List (K × Nat)) :
    x ∈ insertDesc y l ↔ x = y ∨ x ∈ l := by
  induction l with
  | nil => simp [insertDesc]
  | cons z zs ih =>
    simp only [insertDesc]
    split
    · simp only [List.mem_cons, ih]
      constructor
      · rintro (h | h | h)
        · exact Or.inr (Or.inl h)
        · exact Or.inl h
        · exact Or.inr (Or.inr h)
      · rintro (h | h | h)
        · exact Or.inr (Or.inl h)
        · exact Or.inl h
        · exact Or.inr (Or.inr h)
    · simp [List.mem_cons]

theorem mem_foldl_insertDesc (x : K × Nat) (l acc : List (K × Nat)) :
    x ∈ l.foldl (fun acc x => insertDesc x acc) acc ↔ x ∈ acc ∨ x ∈ l := by
  induction l generalizing acc with
  | nil => simp
  | cons y ys ih =>
    simp only [List.foldl_cons, ih, mem_insertDesc, List.mem_cons]
    constructor
    · rintro ((h | h) | h)
      · exact Or.inr (Or.inl h)
      · exact Or.inl h
      · exact Or.inr (Or.inr h)
    · rintro (h | h | h)
      · exact Or.inl (Or.inr h)
      · exact Or.inl (Or.inl h)
      · exact Or.inr h

theorem mem_sortDesc (x : K × Nat) (l : List (K × Nat)) : x ∈ sortDesc l ↔ x ∈ l := by
  unfold sortDesc
  simp [mem_foldl_insertDesc]

theorem mem_of_mem_mostCommon (x : K × Nat) (l : List (K × Nat)) (kk : Option Nat)
    (h : x ∈ mostCommon l kk) : x ∈ l := by
  unfold mostCommon at h
  cases kk with
  | none => exact (mem_sortDesc x l).1 h
  | some n => exact (mem_sortDesc x l).1 (List.mem_of_mem_take h)

/-! ### `candidates`: every entry is `(key, hh[key])` -/

theorem candStep_form (g : Geom K) (s : HH K) (thr : Nat) (cand : List (K × Nat)) (r c : Nat)
    (h : ∀ p ∈ cand, p.2 = getitem g s p.1) :
    ∀ p ∈ candStep g s thr cand r c, p.2 = getitem g s p.1 := by
  unfold candStep
  intro p hp
  simp only at hp
  split at hp
  · exact h p hp
  · split at hp
    · split at hp
      · rw [List.mem_append] at hp
        rcases hp with hp | hp
        · exact h p hp
        · simp only [List.mem_singleton] at hp
          subst hp; rfl
      · exact h p hp
    · exact h p hp

theorem candFold_form (g : Geom K) (s : HH K) (thr : Nat) (L : List (Nat × Nat))
    (cand : List (K × Nat)) (h : ∀ p ∈ cand, p.2 = getitem g s p.1) :
    ∀ p ∈ L.foldl (fun cand rc => candStep g s thr cand rc.1 rc.2) cand,
      p.2 = getitem g s p.1 := by
  induction L generalizing cand with
  | nil => simpa using h
  | cons rc L ih =>
    simp only [List.foldl_cons]
    exact ih _ (candStep_form g s thr cand rc.1 rc.2 h)

theorem candidates_form (g : Geom K) (s : HH K) (thr : Nat) :
    ∀ p ∈ candidates g s thr, p.2 = getitem g s p.1 :=
  candFold_form g s thr _ [] (by simp)

end HH

/-! ### loads -/

theorem cellLoad_le_total (g : Geom K) (h : Hist K) (r c : Nat) :
    h.cellLoad g r c ≤ h.totalWeight := by
  induction h with
  | new => simp [Hist.cellLoad, Hist.totalWeight]
  | add h k v ih =>
    simp only [Hist.cellLoad, Hist.totalWeight]
    split <;> omega
  | merge a b iha ihb =>
    simp only [Hist.cellLoad, Hist.totalWeight]
    omega

theorem cellLoad_add_le_total (g : Geom K) (h : Hist K) (r c c' : Nat) (hne : c ≠ c') :
    h.cellLoad g r c + h.cellLoad g r c' ≤ h.totalWeight := by
  induction h with
  | new => simp [Hist.cellLoad, Hist.totalWeight]
  | add h k v ih =>
    simp only [Hist.cellLoad, Hist.totalWeight]
    split <;> split <;> omega
  | merge a b iha ihb =>
    simp only [Hist.cellLoad, Hist.totalWeight]
    omega

/-! ### C04: the Boyer–Moore potential invariant -/
namespace HH

/-- no stored count exceeds the load of its cell (any history) -/
theorem cnt_le_load (g : Geom K) (e : K) (h : Hist K) (r c : Nat) :
    ((HH.eval g e h).tab r c).cnt ≤ h.cellLoad g r c := by
  induction h generalizing r c with
  | new => simp [HH.eval, HH.empty]
  | add h k v ih =>
    simp only [HH.eval, add_tab, Hist.cellLoad]
    have h0 := ih r c
    split
    · rename_i hc
      have h1 := HCell.add_cnt_le ((HH.eval g e h).tab r c) k (min v CAP)
      have h2 : min v CAP ≤ v := Nat.min_le_left _ _
      rw [if_pos hc.2.symm]
      omega
    · omega
  | merge a b iha ihb =>
    simp only [HH.eval, merge_tab, Hist.cellLoad]
    have h1 := HCell.merge_cnt_le ((HH.eval g e a).tab r c) ((HH.eval g e b).tab r c)
    have := iha r c
    have := ihb r c
    omega

theorem phi_inv (g : Geom K) (e : K) (h : Hist K) (hns : h.totalWeight ≤ CAP) (x : K) (r : Nat)
    (hr : r < g.depth) :
    (2 * (h.trueCount x : Int) - (h.cellLoad g r (g.col r x) : Int))
      ≤ HCell.phi ((HH.eval g e h).tab r (g.col r x)) x := by
  induction h generalizing x with
  | new =>
    simp only [HH.eval, HH.empty, HCell.phi, Hist.trueCount, Hist.cellLoad]
    by_cases he : e = x <;> simp [he]
  | add h k v ih =>
    simp only [Hist.totalWeight] at hns
    have ih' := ih (by omega) x
    have hv : min v CAP = v := Nat.min_eq_left (by omega)
    by_cases hc : g.col r x = g.col r k
    · have htab : (HH.eval g e (.add h k v)).tab r (g.col r x)
          = ((HH.eval g e h).tab r (g.col r x)).add k v := by
        simp only [HH.eval, add_tab, hv]
        rw [if_pos ⟨hr, hc⟩]
      have hload : (Hist.add h k v).cellLoad g r (g.col r x)
          = h.cellLoad g r (g.col r x) + v := by
        simp only [Hist.cellLoad]
        rw [if_pos hc.symm]
      rw [htab, hload]
      have h1 := cnt_le_load g e h r (g.col r x)
      have h2 := cellLoad_le_total g h r (g.col r x)
      have h3 := HCell.add_phi_ge ((HH.eval g e h).tab r (g.col r x)) k v x (by omega)
      by_cases hk : k = x
      · have htc : (Hist.add h k v).trueCount x = h.trueCount x + v := by
          simp only [Hist.trueCount]
          rw [if_pos hk]
        rw [htc]
        rw [if_pos hk] at h3
        push_cast
        omega
      · have htc : (Hist.add h k v).trueCount x = h.trueCount x := by
          simp only [Hist.trueCount]
          rw [if_neg hk]
          rfl
        rw [htc]
        rw [if_neg hk] at h3
        push_cast
        omega
    · have hk : k ≠ x := fun hk => hc (by rw [hk])
      have htab : (HH.eval g e (.add h k v)).tab r (g.col r x)
          = (HH.eval g e h).tab r (g.col r x) := by
        simp only [HH.eval, add_tab]
        rw [if_neg (fun hh => hc hh.2)]
      have hload : (Hist.add h k v).cellLoad g r (g.col r x)
          = h.cellLoad g r (g.col r x) := by
        simp only [Hist.cellLoad]
        rw [if_neg (fun hh => hc hh.symm)]
        rfl
      have htc : (Hist.add h k v).trueCount x = h.trueCount x := by
        simp only [Hist.trueCount]
        rw [if_neg hk]
        rfl
      rw [htab, hload, htc]
      exact ih'
  | merge a b iha ihb =>
    simp only [Hist.totalWeight] at hns
    have ha := iha (by omega) x
    have hb := ihb (by omega) x
    simp only [HH.eval, merge_tab, Hist.cellLoad, Hist.trueCount]
    have h1 := cnt_le_load g e a r (g.col r x)
    have h2 := cellLoad_le_total g a r (g.col r x)
    have h3 := cnt_le_load g e b r (g.col r x)
    have h4 := cellLoad_le_total g b r (g.col r x)
    have h5 := HCell.merge_phi_ge ((HH.eval g e a).tab r (g.col r x))
      ((HH.eval g e b).tab r (g.col r x)) x (by omega)
    push_cast
    omega

/-- a positive bound forces the cell to store the key -/
theorem phi_pos_key (c : HCell K) (x : K) (h : 0 < HCell.phi c x) :
    c.key = x ∧ HCell.phi c x = (c.cnt : Int) := by
  unfold HCell.phi at *
  by_cases hk : c.key = x
  · exact ⟨hk, by rw [if_pos hk]⟩
  · rw [if_neg hk] at h
    omega

theorem getitem_ge (g : Geom K) (e : K) (h : Hist K) (hns : h.totalWeight ≤ CAP) (k : K) (r : Nat)
    (hr : r < g.depth) :
    (2 * (h.trueCount k : Int) - (h.cellLoad g r (g.col r k) : Int))
      ≤ (HH.getitem g (HH.eval g e h) k : Int) := by
  have h1 := phi_inv g e h hns k r hr
  by_cases hp : 0 < HCell.phi ((HH.eval g e h).tab r (g.col r k)) k
  · obtain ⟨hk, he⟩ := phi_pos_key _ _ hp
    have := maxRows_ge g (HH.eval g e h).tab k g.depth r hr hk
    unfold getitem
    omega
  · omega

/-! ### `candidates`: completeness and uniqueness -/

theorem mem_cellOrder (g : Geom K) (r c : Nat) :
    (r, c) ∈ cellOrder g ↔ r < g.depth ∧ c < g.width := by
  simp [cellOrder, List.mem_flatMap, List.mem_map, List.mem_range]

/-- a key with a positive `hh[key]` that is already in the candidate set is found by `lookup` -/
theorem lookup_ne_zero (g : Geom K) (s : HH K) (cand : List (K × Nat))
    (hf : ∀ p ∈ cand, p.2 = getitem g s p.1) (q : K × Nat) (hq : q ∈ cand)
    (hpos : 0 < getitem g s q.1) : lookup cand q.1 ≠ 0 := by
  unfold lookup
  cases hfind : cand.find? (fun p => p.1 = q.1) with
  | none =>
    rw [List.find?_eq_none] at hfind
    have := hfind q hq
    simp at this
  | some p =>
    have hp := List.mem_of_find?_eq_some hfind
    have hk := List.find?_some hfind
    simp only [decide_eq_true_eq] at hk
    have := hf p hp
    rw [hk] at this
    simp only
    omega

/-- a non-zero `lookup` means the key is in the candidate set -/
theorem mem_of_lookup_ne_zero (cand : List (K × Nat)) (x : K) (h : lookup cand x ≠ 0) :
    ∃ p ∈ cand, p.1 = x := by
  unfold lookup at h
  cases hfind : cand.find? (fun p => p.1 = x) with
  | none => rw [hfind] at h; simp at h
  | some p =>
    have hp := List.mem_of_find?_eq_some hfind
    have hk := List.find?_some hfind
    simp only [decide_eq_true_eq] at hk
    exact ⟨p, hp, hk⟩

theorem candStep_mono (g : Geom K) (s : HH K) (thr : Nat) (cand : List (K × Nat)) (r c : Nat)
    (p : K × Nat) (hp : p ∈ cand) : p ∈ candStep g s thr cand r c := by
  unfold candStep
  simp only
  split
  · exact hp
  · split
    · split
      · exact List.mem_append_left _ hp
      · exact hp
    · exact hp

theorem candFold_mono (g : Geom K) (s : HH K) (thr : Nat) (L : List (Nat × Nat))
    (cand : List (K × Nat)) (p : K × Nat) (hp : p ∈ cand) :
    p ∈ L.foldl (fun cand rc => candStep g s thr cand rc.1 rc.2) cand := by
  induction L generalizing cand with
  | nil => simpa using hp
  | cons rc L ih =>
    simp only [List.foldl_cons]
    exact ih _ (candStep_mono g s thr cand rc.1 rc.2 p hp)

theorem candStep_complete (g : Geom K) (s : HH K) (thr : Nat) (cand : List (K × Nat)) (r c : Nat)
    (hf : ∀ p ∈ cand, p.2 = getitem g s p.1)
    (hcnt : (s.tab r c).cnt ≠ 0) (hthr : thr ≤ getitem g s (s.tab r c).key) :
    ((s.tab r c).key, getitem g s (s.tab r c).key) ∈ candStep g s thr cand r c := by
  unfold candStep
  simp only
  rw [if_neg hcnt]
  split
  · exact List.mem_append_right _ (List.mem_singleton.2 rfl)
  · rename_i hl
    obtain ⟨p, hp, hk⟩ := mem_of_lookup_ne_zero cand _ hl
    have := hf p hp
    rw [hk] at this
    have hpe : p = ((s.tab r c).key, getitem g s (s.tab r c).key) := Prod.ext hk this
    rw [← hpe]; exact hp

theorem candFold_complete (g : Geom K) (s : HH K) (thr : Nat) (L : List (Nat × Nat))
    (cand : List (K × Nat)) (hf : ∀ p ∈ cand, p.2 = getitem g s p.1)
    (r c : Nat) (hrc : (r, c) ∈ L)
    (hcnt : (s.tab r c).cnt ≠ 0) (hthr : thr ≤ getitem g s (s.tab r c).key) :
    ((s.tab r c).key, getitem g s (s.tab r c).key) ∈
      L.foldl (fun cand rc => candStep g s thr cand rc.1 rc.2) cand := by
  induction L generalizing cand with
  | nil => simp at hrc
  | cons rc L ih =>
    simp only [List.foldl_cons]
    rcases List.mem_cons.1 hrc with h | h
    · subst h
      exact candFold_mono g s thr L _ _ (candStep_complete g s thr cand r c hf hcnt hthr)
    · exact ih _ (candStep_form g s thr cand rc.1 rc.2 hf) h

/-- a non-empty cell of the table whose key reaches the threshold is a candidate -/
theorem candidates_complete (g : Geom K) (s : HH K) (thr : Nat) (r c : Nat)
    (hr : r < g.depth) (hc : c < g.width)
    (hcnt : (s.tab r c).cnt ≠ 0) (hthr : thr ≤ getitem g s (s.tab r c).key) :
    ((s.tab r c).key, getitem g s (s.tab r c).key) ∈ candidates g s thr :=
  candFold_complete g s thr _ [] (by simp) r c ((mem_cellOrder g r c).2 ⟨hr, hc⟩) hcnt hthr

theorem candStep_count (g : Geom K) (s : HH K) (thr : Nat) (cand : List (K × Nat)) (r c : Nat)
    (hf : ∀ p ∈ cand, p.2 = getitem g s p.1) (x : K) (hpos : 0 < getitem g s x)
    (h1 : cand.count (x, getitem g s x) ≤ 1) :
    (candStep g s thr cand r c).count (x, getitem g s x) ≤ 1 := by
  unfold candStep
  simp only
  split
  · exact h1
  · split
    · rename_i hl
      split
      · rw [List.count_append, List.count_singleton]
        by_cases hk : (s.tab r c).key = x
        · have h0 : cand.count (x, getitem g s x) = 0 := by
            rw [List.count_eq_zero]
            intro hmem
            exact lookup_ne_zero g s cand hf (x, getitem g s x) hmem hpos (by rw [← hk]; exact hl)
          rw [h0]; split <;> omega
        · have : ¬ (((s.tab r c).key, getitem g s (s.tab r c).key) == (x, getitem g s x)) = true := by
            simp [hk]
          rw [if_neg this]; omega
      · exact h1
    · exact h1

theorem candFold_count (g : Geom K) (s : HH K) (thr : Nat) (L : List (Nat × Nat))
    (cand : List (K × Nat)) (hf : ∀ p ∈ cand, p.2 = getitem g s p.1)
    (x : K) (hpos : 0 < getitem g s x) (h1 : cand.count (x, getitem g s x) ≤ 1) :
    (L.foldl (fun cand rc => candStep g s thr cand rc.1 rc.2) cand).count (x, getitem g s x)
      ≤ 1 := by
  induction L generalizing cand with
  | nil => simpa using h1
  | cons rc L ih =>
    simp only [List.foldl_cons]
    exact ih _ (candStep_form g s thr cand rc.1 rc.2 hf)
      (candStep_count g s thr cand rc.1 rc.2 hf x hpos h1)

theorem candidates_count (g : Geom K) (s : HH K) (thr : Nat) (x : K)
    (hpos : 0 < getitem g s x) : (candidates g s thr).count (x, getitem g s x) ≤ 1 :=
  candFold_count g s thr _ [] (by simp) x hpos (by simp)

/-! ### `sortDesc`: permutation, sortedness, strict maximum comes first -/

theorem insertDesc_perm (x : K × Nat) (l : List (K × Nat)) : (insertDesc x l).Perm (x :: l) := by
  induction l with
  | nil => exact List.Perm.refl _
  | cons y ys ih =>
    simp only [insertDesc]
    split
    · exact (List.Perm.cons y ih).trans (List.Perm.swap x y ys)
    · exact List.Perm.refl _

theorem foldl_insertDesc_perm (l acc : List (K × Nat)) :
    (l.foldl (fun acc x => insertDesc x acc) acc).Perm (l ++ acc) := by
  induction l generalizing acc with
  | nil => exact List.Perm.refl _
  | cons y ys ih =>
    simp only [List.foldl_cons, List.cons_append]
    exact (ih (insertDesc y acc)).trans
      ((List.Perm.append_left ys (insertDesc_perm y acc)).trans List.perm_middle)

theorem sortDesc_perm (l : List (K × Nat)) : (sortDesc l).Perm l := by
  unfold sortDesc
  simpa using foldl_insertDesc_perm l []

theorem insertDesc_sorted (x : K × Nat) (l : List (K × Nat))
    (h : l.Pairwise (fun a b => a.2 ≥ b.2)) :
    (insertDesc x l).Pairwise (fun a b => a.2 ≥ b.2) := by
  induction l with
  | nil => simp [insertDesc]
  | cons y ys ih =>
    rw [List.pairwise_cons] at h
    simp only [insertDesc]
    split
    · rename_i hy
      rw [List.pairwise_cons]
      refine ⟨?_, ih h.2⟩
      intro z hz
      rcases (mem_insertDesc z x ys).1 hz with hz | hz
      · subst hz; exact hy
      · exact h.1 z hz
    · rename_i hy
      rw [List.pairwise_cons]
      refine ⟨?_, List.pairwise_cons.2 h⟩
      intro z hz
      rcases List.mem_cons.1 hz with hz | hz
      · subst hz; omega
      · have := h.1 z hz; omega

theorem foldl_insertDesc_sorted (l acc : List (K × Nat))
    (h : acc.Pairwise (fun a b => a.2 ≥ b.2)) :
    (l.foldl (fun acc x => insertDesc x acc) acc).Pairwise (fun a b => a.2 ≥ b.2) := by
  induction l generalizing acc with
  | nil => simpa using h
  | cons y ys ih =>
    simp only [List.foldl_cons]
    exact ih _ (insertDesc_sorted y acc h)

theorem sortDesc_sorted (l : List (K × Nat)) :
    (sortDesc l).Pairwise (fun a b => a.2 ≥ b.2) :=
  foldl_insertDesc_sorted l [] List.Pairwise.nil

/-- an element that strictly beats every other entry and occurs once is reported first -/
theorem sortDesc_head (l : List (K × Nat)) (x : K × Nat) (hx : x ∈ l)
    (hmax : ∀ p ∈ l, p = x ∨ p.2 < x.2) (hc : l.count x ≤ 1) :
    ∃ rest, sortDesc l = x :: rest ∧ ∀ p ∈ rest, p.2 < x.2 := by
  have hperm := sortDesc_perm l
  have hsort := sortDesc_sorted l
  cases hs : sortDesc l with
  | nil =>
    have := (mem_sortDesc x l).2 hx
    rw [hs] at this
    simp at this
  | cons y rest =>
    rw [hs] at hperm hsort
    rw [List.pairwise_cons] at hsort
    have hxin : x ∈ y :: rest := hperm.mem_iff.2 hx
    have hyin : y ∈ l := hperm.mem_iff.1 (List.mem_cons_self)
    have hyx : y = x := by
      rcases hmax y hyin with h | h
      · exact h
      · rcases List.mem_cons.1 hxin with h' | h'
        · exact h'.symm
        · have := hsort.1 x h'; omega
    subst hyx
    refine ⟨rest, rfl, ?_⟩
    have hcnt := hperm.count_eq y
    rw [List.count_cons_self] at hcnt
    have hnot : y ∉ rest := by
      rw [← List.count_eq_zero]; omega
    intro p hp
    have hpl : p ∈ l := hperm.mem_iff.1 (List.mem_cons_of_mem _ hp)
    rcases hmax p hpl with h | h
    · subst h; exact absurd hp hnot
    · exact h

theorem mostCommon_head (l : List (K × Nat)) (kk : Option Nat) (hkk : kk ≠ some 0)
    (x : K × Nat) (rest : List (K × Nat)) (hs : sortDesc l = x :: rest) :
    ∃ rest', mostCommon l kk = x :: rest' ∧ ∀ p ∈ rest', p ∈ rest := by
  unfold mostCommon
  cases kk with
  | none => exact ⟨rest, hs, fun p hp => hp⟩
  | some n =>
    cases n with
    | zero => exact absurd rfl hkk
    | succ n =>
      simp only [hs, List.take_succ_cons]
      exact ⟨rest.take n, rfl, fun p hp => List.mem_of_mem_take hp⟩

/-! ### C04: a majority key beats every other key -/

theorem major_key (g : Geom K) (e : K) (h : Hist K) (hns : h.totalWeight ≤ CAP) (k : K)
    (hmaj : h.totalWeight < 2 * h.trueCount k) (r : Nat) (hr : r < g.depth) :
    ((HH.eval g e h).tab r (g.col r k)).key = k ∧
      2 * h.trueCount k ≤ ((HH.eval g e h).tab r (g.col r k)).cnt + h.cellLoad g r (g.col r k) := by
  have h1 := phi_inv g e h hns k r hr
  have h2 := cellLoad_le_total g h r (g.col r k)
  obtain ⟨hk, he⟩ := phi_pos_key ((HH.eval g e h).tab r (g.col r k)) k (by omega)
  exact ⟨hk, by omega⟩

theorem major_getitem (g : Geom K) (hd : 0 < g.depth) (e : K) (h : Hist K)
    (hns : h.totalWeight ≤ CAP) (k : K) (hmaj : h.totalWeight < 2 * h.trueCount k) :
    2 * h.trueCount k - h.totalWeight ≤ getitem g (HH.eval g e h) k ∧
      0 < getitem g (HH.eval g e h) k := by
  have h1 := getitem_ge g e h hns k 0 hd
  have h2 := cellLoad_le_total g h 0 (g.col 0 k)
  omega

theorem major_other_lt (g : Geom K) (hd : 0 < g.depth) (e : K) (h : Hist K)
    (hns : h.totalWeight ≤ CAP) (k : K) (hmaj : h.totalWeight < 2 * h.trueCount k)
    (x : K) (hx : x ≠ k) :
    getitem g (HH.eval g e h) x < getitem g (HH.eval g e h) k := by
  have hk0 := major_getitem g hd e h hns k hmaj
  rcases maxRows_attained g (HH.eval g e h).tab x g.depth with h0 | ⟨r, hr, hkey, hval⟩
  · unfold getitem at *; omega
  · obtain ⟨hkk, _⟩ := major_key g e h hns k hmaj r hr
    have hcol : g.col r x ≠ g.col r k := by
      intro hc
      rw [hc] at hkey
      exact hx (hkey.symm.trans hkk)
    have h1 := cellLoad_add_le_total g h r (g.col r x) (g.col r k) hcol
    have h2 := cnt_le_load g e h r (g.col r x)
    have h3 := getitem_ge g e h hns k r hr
    have h4 : getitem g (HH.eval g e h) x = ((HH.eval g e h).tab r (g.col r x)).cnt := hval
    omega

end HH

theorem trueCount_pos_mem (h : Hist K) (k : K) (hpos : 0 < h.trueCount k) : h.mem k := by
  induction h with
  | new => simp [Hist.trueCount] at hpos
  | add h k' v ih =>
    simp only [Hist.trueCount] at hpos
    simp only [Hist.mem]
    by_cases hk : k' = k
    · left; exact hk
    · right; apply ih; simpa [hk] using hpos
  | merge a b iha ihb =>
    simp only [Hist.trueCount] at hpos
    simp only [Hist.mem]
    by_cases ha : 0 < a.trueCount k
    · left; exact iha ha
    · right; apply ihb; omega

end Sketchnu
