/- Proofs/Entry.lean — helper lemmas for Properties/C12.lean -/
import Model.Entry
import Proofs.Lin
import Proofs.LogCounter
namespace Sketchnu
end Sketchnu
