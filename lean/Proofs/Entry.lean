/- Proofs/Entry.lean — helper lemmas for Properties/C12.lean -/
import Model.Entry
import Proofs.Lin
import Proofs.LogCounter
namespace Sketchnu

/-! ### `iter` -/

theorem iter_succ' {α : Type} (f : α → α) (n : Nat) (a : α) :
    iter f (n + 1) a = f (iter f n a) := by
  induction n generalizing a with
  | zero => rfl
  | succ n ih =>
    show iter f (n + 1) (f a) = f (iter f n (f a))
    exact ih (f a)

/-- a left fold over `n` copies of `a` is `n` applications of the step -/
theorem foldl_replicate_iter {α β : Type} (f : β → α → β) (a : α) (n : Nat) (s : β) :
    (List.replicate n a).foldl f s = iter (fun s => f s a) n s := by
  induction n generalizing s with
  | zero => rfl
  | succ n ih =>
    rw [List.replicate_succ, List.foldl_cons]
    exact ih (f s a)

variable {K D : Type} [DecidableEq K]

/-- raising twice to increasing targets is raising once to the larger -/
theorem raiseTo_raiseTo (g : Geom K) (T : Tab) (k : K) (a b : Nat) (h : a ≤ b) :
    raiseTo g (raiseTo g T k a) k b = raiseTo g T k b := by
  funext r c
  simp only [raiseTo_apply]
  by_cases h1 : r < g.depth ∧ c = g.col r k
  · obtain ⟨hr, hc⟩ := h1
    subst hc
    simp only [hr, true_and]
    split <;> split <;> (try split) <;> omega
  · have e : ∀ p : Prop, (r < g.depth ∧ c = g.col r k ∧ p) = False := by
      intro p; apply propext; constructor
      · intro hp; exact h1 ⟨hp.1, hp.2.1⟩
      · intro hf; exact hf.elim
    simp only [e, if_false]

/-! ### linear count-min: `add k v` is `v` unit adds -/

namespace Lin

theorem ext' (a b : Lin) (h1 : a.tab = b.tab) (h2 : a.nAdded = b.nAdded)
    (h3 : a.nRecords = b.nRecords) : a = b := by
  cases a; cases b; simp only at h1 h2 h3; subst h1; subst h2; subst h3; rfl

/-- table after an add, saturated or not -/
theorem add_tab (g : Geom K) (s : Lin) (k : K) (v : Nat) :
    (add g s k v).tab = raiseTo g s.tab k (min (query g s k + v) CAP) := by
  by_cases h : query g s k = CAP
  · rw [add_of_sat g s k v h]
    have e : min (query g s k + v) CAP = tquery g CAP s.tab k := by
      unfold query at h ⊢; omega
    rw [e, raiseTo_min_id]
  · exact add_tab_of_lt g s k v h

theorem add_nAdded' (g : Geom K) (s : Lin) (k : K) (v : Nat) :
    (add g s k v).nAdded = s.nAdded + min (min v CAP) (CAP - query g s k) := by
  unfold add
  simp only
  split
  · next h => rw [h]; omega
  · rfl

theorem add_nRecords (g : Geom K) (s : Lin) (k : K) (v : Nat) :
    (add g s k v).nRecords = s.nRecords := by
  unfold add
  simp only
  split <;> rfl

theorem add_zero (g : Geom K) (s : Lin) (k : K) : add g s k 0 = s := by
  apply ext'
  · rw [add_tab]
    have hle : query g s k ≤ CAP := tquery_le_cap g CAP s.tab k
    have e : min (query g s k + 0) CAP = tquery g CAP s.tab k := by
      unfold query at hle ⊢; omega
    rw [e, raiseTo_min_id]
  · rw [add_nAdded']; omega
  · exact add_nRecords g s k 0

theorem add_succ (g : Geom K) (s : Lin) (k : K) (v : Nat) :
    add g (add g s k v) k 1 = add g s k (v + 1) := by
  have hle : query g s k ≤ CAP := tquery_le_cap g CAP s.tab k
  apply ext'
  · rw [add_tab g (add g s k v), add_tab g s k v, add_tab g s k (v + 1), add_self,
      raiseTo_raiseTo _ _ _ _ _ (by omega)]
    congr 1
    omega
  · rw [add_nAdded' g (add g s k v), add_nAdded' g s k v, add_nAdded' g s k (v + 1), add_self]
    have hC : 1 ≤ CAP := by unfold CAP; omega
    generalize query g s k = q at hle ⊢
    generalize CAP = C at hle hC ⊢
    omega
  · rw [add_nRecords, add_nRecords, add_nRecords]

/-- `add(key, v)` is exactly `v` unit adds (whole state) -/
theorem add_mult (g : Geom K) (s : Lin) (k : K) (v : Nat) :
    add g s k v = iter (fun s => add g s k 1) v s := by
  induction v with
  | zero => exact add_zero g s k
  | succ v ih => rw [iter_succ', ← ih, add_succ]

end Lin

/-! ### heavy hitters -/

namespace HCell

theorem add_zero (c : HCell K) (hc : c.cnt ≤ CAP) (k : K) : c.add k 0 = c := by
  cases c with
  | mk key cnt =>
    simp only at hc
    unfold add
    simp only
    split
    · split
      · rfl
      · have : cnt = CAP := by omega
        rw [this]
    · split
      · omega
      · rfl

theorem add_cnt_le (c : HCell K) (hc : c.cnt ≤ CAP) (k : K) : (c.add k 1).cnt ≤ CAP := by
  have hC : 1 ≤ CAP := by unfold CAP; omega
  unfold add
  split
  · simp only; split <;> omega
  · split
    · simp only; omega
    · simp only; omega

/-- one more unit after `v`, for `v + 1 ≤ CAP` (see `add_mult_false` for larger `v`) -/
theorem add_succ (c : HCell K) (k : K) (v : Nat) (hv : v < CAP) :
    (c.add k v).add k 1 = c.add k (v + 1) := by
  cases c with
  | mk key cnt =>
    unfold add
    simp only
    by_cases hk : key = k
    · simp only [hk, if_true]
      split <;> split <;> (try split) <;> simp only [HCell.mk.injEq, true_and] <;> omega
    · simp only [hk, if_false]
      by_cases h1 : v > cnt
      · have h2 : v + 1 > cnt := by omega
        simp only [h1, h2, if_true]
        split
        · simp only [HCell.mk.injEq, true_and]; omega
        · simp only [HCell.mk.injEq, true_and]; omega
      · simp only [h1, if_false, hk]
        by_cases h2 : v + 1 > cnt
        · have h3 : 1 > cnt - v := by omega
          simp only [h2, h3, if_true, HCell.mk.injEq, true_and]
          omega
        · have h3 : ¬ (1 > cnt - v) := by omega
          simp only [h2, h3, if_false, HCell.mk.injEq, true_and]
          omega

/-- the Boyer–Moore replace rule `v - count` equals `count` decrements, one replacement and
    `v - count - 1` increments — for `v ≤ CAP` -/
theorem add_mult (c : HCell K) (hc : c.cnt ≤ CAP) (k : K) (v : Nat) (hv : v ≤ CAP) :
    c.add k v = iter (fun c => c.add k 1) v c := by
  induction v with
  | zero => exact add_zero c hc k
  | succ v ih => rw [iter_succ', ← ih (by omega), add_succ c k v (by omega)]

theorem iter_cnt_le (k : K) (v : Nat) (c : HCell K) (hc : c.cnt ≤ CAP) :
    (iter (fun c => c.add k 1) v c).cnt ≤ CAP := by
  induction v with
  | zero => exact hc
  | succ v ih => rw [iter_succ']; exact add_cnt_le _ ih k

/-- `Properties/C12.lean : hh_cell_add_mult` is FALSE without a bound on `v`: a cell holding another
    key with count 0 receives `v = CAP + 1`: the kernel stores `CAP + 1`, unit adds saturate at `CAP`. -/
theorem add_mult_false :
    ¬ (∀ (c : HCell Nat), c.cnt ≤ CAP → ∀ (k : Nat) (v : Nat),
        c.add k v = iter (fun c => c.add k 1) v c) := by
  intro h
  have h1 := h ⟨0, 0⟩ (Nat.zero_le _) 1 (CAP + 1)
  have h2 := iter_cnt_le (1 : Nat) (CAP + 1) (⟨0, 0⟩ : HCell Nat) (Nat.zero_le _)
  rw [← h1] at h2
  have h3 : ((⟨0, 0⟩ : HCell Nat).add 1 (CAP + 1)).cnt = CAP + 1 := by
    unfold add; simp
  omega

end HCell

namespace HH

theorem ext' (a b : HH K) (h1 : a.tab = b.tab) (h2 : a.nAdded = b.nAdded)
    (h3 : a.nRecords = b.nRecords) : a = b := by
  cases a; cases b; simp only at h1 h2 h3; subst h1; subst h2; subst h3; rfl

theorem add_zero (g : Geom K) (s : HH K) (hs : ∀ r c, (s.tab r c).cnt ≤ CAP) (k : K) :
    add g s k 0 = s := by
  apply ext'
  · funext r c
    simp only [add, Nat.zero_min]
    split
    · exact HCell.add_zero _ (hs r c) k
    · rfl
  · simp only [add, Nat.zero_min, Nat.add_zero]
  · rfl

theorem add_succ (g : Geom K) (s : HH K) (k : K) (v : Nat) (hv : v < CAP) :
    add g (add g s k v) k 1 = add g s k (v + 1) := by
  have e0 : min v CAP = v := Nat.min_eq_left (by omega)
  have e1 : min 1 CAP = 1 := by unfold CAP; omega
  have e2 : min (v + 1) CAP = v + 1 := Nat.min_eq_left (by omega)
  apply ext'
  · funext r c
    simp only [add, e0, e1, e2]
    by_cases h : r < g.depth ∧ c = g.col r k
    · simp only [h, and_self, if_true]
      exact HCell.add_succ _ k v hv
    · simp only [h, if_false]
  · simp only [add, e0, e1, e2]; omega
  · rfl

/-- heavy hitters: `add(key, v)` is exactly `v` unit adds for `v ≤ CAP` (whole state) -/
theorem add_mult (g : Geom K) (s : HH K) (hs : ∀ r c, (s.tab r c).cnt ≤ CAP) (k : K) (v : Nat)
    (hv : v ≤ CAP) : add g s k v = iter (fun s => add g s k 1) v s := by
  induction v with
  | zero => exact add_zero g s hs k
  | succ v ih => rw [iter_succ', ← ih (by omega), add_succ g s k v (by omega)]

end HH

/-! ### log counters -/

/-- `v + 1` steps = `v` steps then one more, threading the draw state -/
theorem logCounter_snoc (cfg : LogCfg D) (draws : Nat → Nat → D) (v c : Nat) (rs : RandState) :
    logCounter cfg draws (v + 1) c rs =
      logCounter cfg draws 1 (logCounter cfg draws v c rs).1 (logCounter cfg draws v c rs).2 := by
  induction v generalizing c rs with
  | zero => rfl
  | succ v ih =>
    rw [logCounter_succ cfg draws (v + 1) c rs, logCounter_succ cfg draws v c rs]
    by_cases h1 : c ≥ cfg.maxc
    · simp only [h1, if_true]
      exact (logCounter_stop cfg draws 1 c rs h1).symm
    · simp only [h1, if_false]
      by_cases h2 : c < cfg.nr
      · simp only [h2, if_true]; exact ih (c + 1) rs
      · simp only [h2, if_false]
        split
        · exact ih (c + 1) rs.next.2
        · exact ih c rs.next.2

theorem logCounter_iter (cfg : LogCfg D) (draws : Nat → Nat → D) (v c : Nat) (rs : RandState) :
    logCounter cfg draws v c rs =
      iter (fun p : Nat × RandState => logCounter cfg draws 1 p.1 p.2) v (c, rs) := by
  induction v with
  | zero => rfl
  | succ v ih => rw [iter_succ', ← ih, logCounter_snoc]

namespace Log

theorem ext' (a b : Log) (h1 : a.tab = b.tab) (h2 : a.nAdded = b.nAdded)
    (h3 : a.nRecords = b.nRecords) (h4 : a.rs = b.rs) : a = b := by
  cases a; cases b; simp only at h1 h2 h3 h4; subst h1; subst h2; subst h3; subst h4; rfl

theorem add_rs (g : Geom K) (cfg : LogCfg D) (draws : Nat → Nat → D) (s : Log) (k : K) (v : Nat) :
    (add g cfg draws s k v).rs = (logCounter cfg draws v (queryC g cfg s k) s.rs).2 := by
  unfold add
  simp only
  split <;> rfl

theorem add_zero (g : Geom K) (cfg : LogCfg D) (draws : Nat → Nat → D) (s : Log) (k : K) :
    add g cfg draws s k 0 = s := by
  apply ext'
  · rw [add_tab]
    show raiseTo g s.tab k (tquery g cfg.maxc s.tab k) = s.tab
    exact raiseTo_min_id g cfg.maxc s.tab k
  · exact (add_books g cfg draws s k 0).1
  · exact (add_books g cfg draws s k 0).2
  · rw [add_rs]; rfl

theorem add_succ (g : Geom K) (cfg : LogCfg D) (draws : Nat → Nat → D) (s : Log) (k : K) (v : Nat) :
    add g cfg draws (add g cfg draws s k v) k 1 = add g cfg draws s k (v + 1) := by
  apply ext'
  · rw [add_tab g cfg draws (add g cfg draws s k v), add_tab g cfg draws s k v,
      add_tab g cfg draws s k (v + 1), add_self, add_rs,
      raiseTo_raiseTo _ _ _ _ _ (logCounter_steps cfg draws 1 _ _).1, ← logCounter_snoc]
  · rw [(add_books g cfg draws (add g cfg draws s k v) k 1).1, (add_books g cfg draws s k v).1,
      (add_books g cfg draws s k (v + 1)).1]
    omega
  · rw [(add_books g cfg draws (add g cfg draws s k v) k 1).2, (add_books g cfg draws s k v).2,
      (add_books g cfg draws s k (v + 1)).2]
  · rw [add_rs g cfg draws (add g cfg draws s k v), add_self, add_rs g cfg draws s k v,
      add_rs g cfg draws s k (v + 1), ← logCounter_snoc]

/-- log sketch: `add(key, v)` is exactly `v` unit adds under the same draw stream (whole state) -/
theorem add_mult (g : Geom K) (cfg : LogCfg D) (draws : Nat → Nat → D) (s : Log) (k : K) (v : Nat) :
    add g cfg draws s k v = iter (fun s => add g cfg draws s k 1) v s := by
  induction v with
  | zero => exact add_zero g cfg draws s k
  | succ v ih => rw [iter_succ', ← ih, add_succ]

end Log

/-! ### ngram entry point -/

theorem addNgram_short {S : Type} (add1 : S → List UInt8 → S) (s : S) (key : List UInt8) (n : Nat)
    (h : key.length ≤ n) : addNgram add1 s key n = add1 s key := by
  unfold addNgram windows
  rw [if_pos h]
  rfl

theorem addNgram_long {S : Type} (add1 : S → List UInt8 → S) (s : S) (key : List UInt8) (n : Nat)
    (hn : 1 ≤ n) (h : n < key.length) :
    addNgram add1 s key n =
      (List.range (key.length - n + 1)).foldl (fun s i => add1 s ((key.drop i).take n)) s := by
  unfold addNgram windows
  rw [if_neg (by omega), List.foldl_map]
  have e : key.length - (n - 1) = key.length - n + 1 := by omega
  rw [e]

end Sketchnu
