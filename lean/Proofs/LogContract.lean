/-
  Proofs/LogContract.lean — step contracts for log count-min tables (counter units) and the
  properties of a decode function that the history theorems need.
  (Definitions only; lemmas about them go to Proofs/LogCounter.lean and Proofs/LogMerge.lean.)
-/
import Model.LogCounter
import Proofs.Contract
namespace Sketchnu
variable {K : Type} [DecidableEq K]

/-- What the theorems need of the (scaled) decode function `d` on counters `0..maxc`:
    `d c = c * u` up to `num_reserved + 1` (linear zone, `u` = the scale) and strictly
    increasing.  `decS_ok` (Proofs/LogMerge.lean) shows `decS B S nr (maxc - nr)` satisfies it. -/
structure DecOK (d : Nat → Nat) (u nr maxc : Nat) : Prop where
  upos : 0 < u
  nr_lt : nr < maxc
  lin  : ∀ c, c ≤ nr + 1 → d c = c * u
  mono : ∀ a b, a < b → b ≤ maxc → d a < d b

/-- Contract of a log `add(k, v)` step from `T` to `T'` (counter units, ceiling `maxc`):
    no counter decreases; only `k`'s cells change; each of `k`'s cells ends
    `≥ min (query T k + v) (nr + 1)` (exact zone) and `≤ max old (min (old + v) maxc)`. -/
structure LogAddOK (g : Geom K) (nr maxc : Nat) (T : Tab) (k : K) (v : Nat) (T' : Tab) : Prop where
  mono  : ∀ r c, r < g.depth → c < g.width → T r c ≤ T' r c
  frame : ∀ r c, r < g.depth → c < g.width → c ≠ g.col r k → T' r c = T r c
  lower : ∀ r, r < g.depth → min (tquery g maxc T k + v) (nr + 1) ≤ T' r (g.col r k)
  upper : ∀ r, r < g.depth →
    T' r (g.col r k) ≤ max (T r (g.col r k)) (min (T r (g.col r k) + v) maxc)

/-- Contract of a log merge step: every cell is the nearest-counter specification. -/
def LogMergeOK (g : Geom K) (d : Nat → Nat) (maxc mcS : Nat) (A B T' : Tab) : Prop :=
  ∀ r c, r < g.depth → c < g.width → T' r c = mergeLogSpec d maxc mcS (A r c) (B r c)

/-- Log tables reachable by contract-respecting steps, with the history that produced them. -/
inductive LogReach (g : Geom K) (d : Nat → Nat) (nr maxc mcS : Nat) : Hist K → Tab → Prop
  | new (T : Tab) : (∀ r c, r < g.depth → c < g.width → T r c = 0) → LogReach g d nr maxc mcS .new T
  | add {h : Hist K} {T T' : Tab} (k : K) (v : Nat) :
      LogReach g d nr maxc mcS h T → LogAddOK g nr maxc T k v T' →
      LogReach g d nr maxc mcS (.add h k v) T'
  | merge {a b : Hist K} {A B T' : Tab} :
      LogReach g d nr maxc mcS a A → LogReach g d nr maxc mcS b B →
      LogMergeOK g d maxc mcS A B T' → LogReach g d nr maxc mcS (.merge a b) T'

end Sketchnu
