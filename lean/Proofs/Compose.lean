/-
  Proofs/Compose.lean — helper definitions and lemmas for Properties/C08Compose.lean:
  history trees of merge trees, per-operation sums (cell loads, total weight, membership) of
  `histOfOps`, their invariance in a final protocol state, and soundness of the executable
  scheduler (`runActions`) w.r.t. `PReach` (used for the non-vacuity example).
-/
import Proofs.Parallel
namespace Sketchnu
variable {I K S : Type}

/-- the history tree corresponding to a merge tree over per-worker histories -/
def MTree.hist {K : Type} : MTree (Hist K) → Hist K
  | .leaf h => h
  | .node a b => .merge a.hist b.hist

/-- map a function over the leaves -/
def MTree.map {α β : Type} (f : α → β) : MTree α → MTree β
  | .leaf a => .leaf (f a)
  | .node a b => .node (a.map f) (b.map f)

theorem MTree.leaves_map {α β : Type} (f : α → β) (t : MTree α) :
    (t.map f).leaves = t.leaves.map f := by
  induction t with
  | leaf a => rfl
  | node a b iha ihb => simp only [MTree.map, MTree.leaves, iha, ihb, List.map_append]

theorem MTree.leaves_ne_nil {α : Type} (t : MTree α) : t.leaves ≠ [] := by
  induction t with
  | leaf a => simp [MTree.leaves]
  | node a b iha _ => simp [MTree.leaves, iha]

/-- a tree whose leaves are the image of a list is the image of a tree over that list -/
theorem exists_hist_tree {α β : Type} : ∀ (t' : MTree β) (l : List α) (f : α → β),
    t'.leaves = l.map f → ∃ t : MTree α, t.leaves = l ∧ t.map f = t'
  | .leaf b, l, f, h => by
    match l, h with
    | [a], h =>
      simp only [MTree.leaves, List.map_cons, List.map_nil, List.cons.injEq, and_true] at h
      exact ⟨.leaf a, rfl, by simp only [MTree.map, h]⟩
    | [], h => simp [MTree.leaves] at h
    | _ :: _ :: _, h => simp [MTree.leaves] at h
  | .node a b, l, f, h => by
    simp only [MTree.leaves] at h
    obtain ⟨l₁, l₂, hl, h₁, h₂⟩ := List.map_eq_append_iff.mp h.symm
    obtain ⟨ta, hta, hma⟩ := exists_hist_tree a l₁ f h₁.symm
    obtain ⟨tb, htb, hmb⟩ := exists_hist_tree b l₂ f h₂.symm
    exact ⟨.node ta tb, by simp only [MTree.leaves, hta, htb, hl], by simp only [MTree.map, hma, hmb]⟩

/-- `parallel_merging` over the images of a non-empty list is the evaluation of the image of a
    tree over that list -/
theorem parallelMerging_map_tree {α : Type} (merge : S → S → S) (f : α → S) (l : List α) (hl : l ≠ []) :
    ∃ t : MTree α, t.leaves = l ∧ parallelMerging merge (l.map f) = some ((t.map f).eval merge) := by
  obtain ⟨t', ht', hr⟩ := parallelMerging_tree merge (l.map f) (by simpa using hl)
  obtain ⟨t, ht, hm⟩ := exists_hist_tree t' l f ht'
  exact ⟨t, ht, by rw [hr, hm]⟩

/-! ### per-operation sums of `histOfOps` -/

section Sums
variable [DecidableEq K]

theorem cellLoad_foldl (g : Geom K) (r c : Nat) (ops : List (K × Nat)) (h : Hist K) :
    (ops.foldl (fun h kv => Hist.add h kv.1 kv.2) h).cellLoad g r c
      = h.cellLoad g r c + (ops.map fun kv => if g.col r kv.1 = c then kv.2 else 0).sum := by
  induction ops generalizing h with
  | nil => simp
  | cons kv ops ih =>
    simp only [List.foldl_cons, ih, Hist.cellLoad, List.map_cons, List.sum_cons]
    omega

theorem cellLoad_histOfOps (g : Geom K) (r c : Nat) (ops : List (K × Nat)) :
    (histOfOps ops).cellLoad g r c = (ops.map fun kv => if g.col r kv.1 = c then kv.2 else 0).sum := by
  simp [histOfOps, cellLoad_foldl, Hist.cellLoad]

theorem totalWeight_foldl (ops : List (K × Nat)) (h : Hist K) :
    (ops.foldl (fun h kv => Hist.add h kv.1 kv.2) h).totalWeight
      = h.totalWeight + (ops.map fun kv => kv.2).sum := by
  induction ops generalizing h with
  | nil => simp
  | cons kv ops ih =>
    simp only [List.foldl_cons, ih, Hist.totalWeight, List.map_cons, List.sum_cons]
    omega

theorem totalWeight_histOfOps (ops : List (K × Nat)) :
    (histOfOps ops).totalWeight = (ops.map fun kv => kv.2).sum := by
  simp [histOfOps, totalWeight_foldl, Hist.totalWeight]

theorem trueCount_histOfOps' (k : K) (ops : List (K × Nat)) :
    (histOfOps ops).trueCount k = (ops.map fun kv => if kv.1 = k then kv.2 else 0).sum :=
  trueCount_histOfOps k ops

theorem mem_foldl (k : K) (ops : List (K × Nat)) (h : Hist K) :
    (ops.foldl (fun h kv => Hist.add h kv.1 kv.2) h).mem k ↔ (h.mem k ∨ ∃ kv ∈ ops, kv.1 = k) := by
  induction ops generalizing h with
  | nil => simp
  | cons kv ops ih =>
    simp only [List.foldl_cons, ih, Hist.mem, List.mem_cons, exists_eq_or_imp]
    constructor
    · rintro ((h1 | h1) | h1)
      · exact Or.inr (Or.inl h1)
      · exact Or.inl h1
      · exact Or.inr (Or.inr h1)
    · rintro (h1 | h1 | h1)
      · exact Or.inl (Or.inr h1)
      · exact Or.inl (Or.inl h1)
      · exact Or.inr h1

theorem mem_histOfOps (k : K) (ops : List (K × Nat)) :
    (histOfOps ops).mem k ↔ ∃ kv ∈ ops, kv.1 = k := by
  simp [histOfOps, mem_foldl, Hist.mem]

end Sums

/-! ### invariance in a final state -/

/-- any per-operation sum, summed over the workers, is the sum over the workers' items -/
theorem opsSum_workers (f : K × Nat → Nat) (cb : I → Outcome K) (ws : List (WState I)) :
    (ws.map fun w => ((workerOps cb w.got).map f).sum).sum
      = ((workerOps cb (ws.flatMap (·.got))).map f).sum := by
  induction ws with
  | nil => rfl
  | cons a l ih =>
    rw [List.map_cons, List.sum_cons, ih]
    simp [workerOps]

/-- … and in a final state equals the sum over the whole stream -/
theorem opsSum_total {cap : Nat} {items : List I} {n : Nat} {s : PState I}
    (R : PReach cap items n s) (hf : s.final) (cb : I → Outcome K) (f : K × Nat → Nat) :
    (s.workers.map fun w => ((workerOps cb w.got).map f).sum).sum
      = ((workerOps cb items).map f).sum := by
  rw [opsSum_workers]
  exact ((List.Perm.flatMap_right _ (R.exactly_once hf).1).map f).sum_nat

/-- the keys occurring in some worker's history are the keys of the sequential history -/
theorem mem_total [DecidableEq K] {cap : Nat} {items : List I} {n : Nat} {s : PState I}
    (R : PReach cap items n s) (hf : s.final) (cb : I → Outcome K) (k : K) :
    (∃ w ∈ s.workers, (histOfOps (workerOps cb w.got)).mem k)
      ↔ (histOfOps (workerOps cb items)).mem k := by
  have hperm : (workerOps cb s.processed).Perm (workerOps cb items) :=
    List.Perm.flatMap_right _ (R.exactly_once hf).1
  rw [PState.processed, ← workerOps_workers] at hperm
  rw [mem_histOfOps]
  constructor
  · rintro ⟨w, hw, hm⟩
    obtain ⟨kv, h1, h2⟩ := (mem_histOfOps k _).mp hm
    exact ⟨kv, hperm.mem_iff.mp (List.mem_flatMap.mpr ⟨w, hw, h1⟩), h2⟩
  · rintro ⟨kv, h1, h2⟩
    obtain ⟨w, hw, h3⟩ := List.mem_flatMap.mp (hperm.mem_iff.mpr h1)
    exact ⟨w, hw, (mem_histOfOps k _).mpr ⟨kv, h3, h2⟩⟩

/-! ### the executable scheduler is sound for `PStep` / `PReach` -/

theorem applyAction_sound {cap : Nat} {s t : PState I} {a : PAction}
    (h : applyAction cap s a = some t) : PStep cap s t := by
  cases a with
  | put =>
    simp only [applyAction] at h
    split at h
    · next hlt =>
      split at h
      · next x rest htodo =>
        cases h
        exact PStep.putItem s x rest htodo hlt
      · next htodo =>
        split at h
        · next p hp =>
          cases h
          exact PStep.putPill s p htodo hp hlt
        · cases h
    · cases h
  | take w =>
    simp only [applyAction] at h
    split at h
    · next x q ws hq hw =>
      split at h
      · cases h
      · next hd =>
        cases h
        exact PStep.takeItem s w x q ws hq hw (by simpa using hd)
    · next q ws hq hw =>
      split at h
      · cases h
      · next hd =>
        cases h
        exact PStep.takePill s w q ws hq hw (by simpa using hd)
    · cases h

theorem runActions_reach {cap : Nat} {items : List I} {n : Nat} (as : List PAction) :
    ∀ {s t : PState I}, PReach cap items n s → runActions cap s as = some t → PReach cap items n t := by
  induction as with
  | nil =>
    intro s t R h
    simp only [runActions, Option.some.injEq] at h
    exact h ▸ R
  | cons a rest ih =>
    intro s t R h
    simp only [runActions] at h
    split at h
    · next u hu => exact ih (R.step (applyAction_sound hu)) h
    · cases h

end Sketchnu
