/- Proofs/LogCounter.lean — helper lemmas for Properties/C05Log.lean, C06.lean (deterministic part), C18.lean -/
import Proofs.LogContract
namespace Sketchnu
variable {K D : Type}

/-! ### `_rand` -/

theorem RandState.next_consumed (s : RandState) (hp : s.ptr ≤ BATCH) :
    s.next.2.consumed = s.consumed + 1 ∧ s.next.2.ptr ≤ BATCH := by
  unfold RandState.next RandState.consumed
  split
  · next h => simp only [h]; unfold BATCH; omega
  · next h => simp only; omega

theorem RandState.next_pos (s : RandState) (hp : s.ptr ≤ BATCH) :
    s.next.1 = (s.consumed / BATCH, s.consumed % BATCH) := by
  unfold RandState.next RandState.consumed
  split
  · next h =>
    simp only [h]
    have : s.batch * BATCH + BATCH = (s.batch + 1) * BATCH := by rw [Nat.add_mul]; omega
    rw [this]
    simp [BATCH]
  · next h =>
    have hlt : s.ptr < BATCH := by omega
    simp only
    unfold BATCH at *
    congr 1 <;> omega

/-! ### `_log_counter` -/

/-- one-step unfolding with the draw destructured -/
theorem logCounter_succ (cfg : LogCfg D) (draws : Nat → Nat → D) (v c : Nat) (rs : RandState) :
    logCounter cfg draws (v + 1) c rs =
      if c ≥ cfg.maxc then (c, rs)
      else if c < cfg.nr then logCounter cfg draws v (c + 1) rs
      else if cfg.inc (c - cfg.nr) (draws rs.next.1.1 rs.next.1.2) then
        logCounter cfg draws v (c + 1) rs.next.2
      else logCounter cfg draws v c rs.next.2 := by
  rfl

theorem logCounter_stop (cfg : LogCfg D) (draws : Nat → Nat → D) (v c : Nat) (rs : RandState)
    (hc : cfg.maxc ≤ c) : logCounter cfg draws v c rs = (c, rs) := by
  cases v with
  | zero => rfl
  | succ v => rw [logCounter_succ]; simp [hc]

theorem logCounter_steps (cfg : LogCfg D) (draws : Nat → Nat → D) (v c : Nat) (rs : RandState) :
    c ≤ (logCounter cfg draws v c rs).1 ∧ (logCounter cfg draws v c rs).1 ≤ c + v := by
  induction v generalizing c rs with
  | zero => simp [logCounter]
  | succ v ih =>
    rw [logCounter_succ]
    split
    · simp
    · split
      · have := ih (c + 1) rs; omega
      · split
        · have := ih (c + 1) rs.next.2; omega
        · have := ih c rs.next.2; omega

theorem logCounter_le_max (cfg : LogCfg D) (draws : Nat → Nat → D) (v c : Nat) (rs : RandState)
    (hc : c ≤ cfg.maxc) : (logCounter cfg draws v c rs).1 ≤ cfg.maxc := by
  induction v generalizing c rs with
  | zero => simpa [logCounter]
  | succ v ih =>
    rw [logCounter_succ]
    split
    · simpa
    · split
      · exact ih (c + 1) rs (by omega)
      · split
        · exact ih (c + 1) rs.next.2 (by omega)
        · exact ih c rs.next.2 hc

/-- in the exact zone the counter is at least `min (c + v) (nr + 1)` -/
theorem logCounter_lower (cfg : LogCfg D) (draws : Nat → Nat → D) (v c : Nat) (rs : RandState)
    (h0 : ∀ u, cfg.inc 0 u = true) (hnr : cfg.nr < cfg.maxc) :
    min (c + v) (cfg.nr + 1) ≤ (logCounter cfg draws v c rs).1 := by
  induction v generalizing c rs with
  | zero => simp only [logCounter]; omega
  | succ v ih =>
    rw [logCounter_succ]
    split
    · simp only; omega
    · split
      · have := ih (c + 1) rs; omega
      · by_cases hc : c = cfg.nr
        · have : c - cfg.nr = 0 := by omega
          rw [this, h0]
          simp only [if_true]
          have := ih (c + 1) rs.next.2; omega
        · split
          · have := (logCounter_steps cfg draws v (c + 1) rs.next.2).1; omega
          · have := (logCounter_steps cfg draws v c rs.next.2).1; omega

theorem logCounter_exact (cfg : LogCfg D) (draws : Nat → Nat → D) (v c : Nat) (rs : RandState)
    (h0 : ∀ u, cfg.inc 0 u = true) (hnr : cfg.nr < cfg.maxc) (hfit : c + v ≤ cfg.nr + 1) :
    (logCounter cfg draws v c rs).1 = c + v := by
  have h1 := logCounter_lower cfg draws v c rs h0 hnr
  have h2 := (logCounter_steps cfg draws v c rs).2
  omega

theorem logCounter_draws (cfg : LogCfg D) (draws : Nat → Nat → D) (v c : Nat) (rs : RandState)
    (hp : rs.ptr ≤ BATCH) :
    rs.consumed ≤ (logCounter cfg draws v c rs).2.consumed ∧
    (logCounter cfg draws v c rs).2.consumed ≤ rs.consumed + v ∧
    (logCounter cfg draws v c rs).2.ptr ≤ BATCH := by
  induction v generalizing c rs with
  | zero => simp only [logCounter]; omega
  | succ v ih =>
    have hn := RandState.next_consumed rs hp
    rw [logCounter_succ]
    split
    · simp only; omega
    · split
      · have := ih (c + 1) rs hp; omega
      · split
        · have := ih (c + 1) rs.next.2 hn.2; omega
        · have := ih c rs.next.2 hn.2; omega

/-! ### `_add_log*` -/

/-- raising a key's cells to its current minimum changes nothing -/
theorem raiseTo_min_id (g : Geom K) (cap : Nat) (T : Tab) (k : K) :
    raiseTo g T k (tquery g cap T k) = T := by
  funext r c
  rw [raiseTo_apply]
  split
  · next h =>
    obtain ⟨hr, hc, hlt⟩ := h
    subst hc
    have := tquery_le g cap T k r hr
    omega
  · rfl

namespace Log

theorem add_tab (g : Geom K) (cfg : LogCfg D) (draws : Nat → Nat → D) (s : Log) (k : K) (v : Nat) :
    (add g cfg draws s k v).tab =
      raiseTo g s.tab k (logCounter cfg draws v (queryC g cfg s k) s.rs).1 := by
  unfold add
  simp only
  split
  · next h =>
    simp only
    rw [h]
    exact (raiseTo_min_id g cfg.maxc s.tab k).symm
  · rfl

theorem add_books (g : Geom K) (cfg : LogCfg D) (draws : Nat → Nat → D) (s : Log) (k : K) (v : Nat) :
    (add g cfg draws s k v).nAdded = s.nAdded + v ∧ (add g cfg draws s k v).nRecords = s.nRecords := by
  unfold add
  simp only
  split <;> exact ⟨rfl, rfl⟩

/-- the added key's new estimate is the new counter -/
theorem add_self (g : Geom K) (cfg : LogCfg D) (draws : Nat → Nat → D) (s : Log) (k : K) (v : Nat) :
    queryC g cfg (add g cfg draws s k v) k =
      (logCounter cfg draws v (queryC g cfg s k) s.rs).1 := by
  have hle : queryC g cfg s k ≤ cfg.maxc := tquery_le_cap g cfg.maxc s.tab k
  have hst := logCounter_steps cfg draws v (queryC g cfg s k) s.rs
  have hmx := logCounter_le_max cfg draws v (queryC g cfg s k) s.rs hle
  by_cases h : queryC g cfg s k = cfg.maxc
  · have hs := logCounter_stop cfg draws v (queryC g cfg s k) s.rs (by omega)
    show tquery g cfg.maxc (add g cfg draws s k v).tab k = _
    rw [add_tab, hs]
    show tquery g cfg.maxc (raiseTo g s.tab k (tquery g cfg.maxc s.tab k)) k = _
    rw [raiseTo_min_id]
    rfl
  · show tquery g cfg.maxc (add g cfg draws s k v).tab k = _
    rw [add_tab]
    apply tquery_raiseTo_self
    · exact hst.1
    · exact hmx
    · unfold queryC at h hle; omega

theorem add_tab_mono (g : Geom K) (cfg : LogCfg D) (draws : Nat → Nat → D) (s : Log) (k : K) (v : Nat)
    (r c : Nat) : s.tab r c ≤ (add g cfg draws s k v).tab r c := by
  rw [add_tab]; exact raiseTo_ge _ _ _ _ _ _

theorem add_local (g : Geom K) (cfg : LogCfg D) (draws : Nat → Nat → D) (s : Log) (k : K) (v : Nat)
    (r c : Nat) (hne : (add g cfg draws s k v).tab r c ≠ s.tab r c) :
    r < g.depth ∧ c = g.col r k := by
  rw [add_tab, raiseTo_apply] at hne
  split at hne
  · next hc => exact ⟨hc.1, hc.2.1⟩
  · exact absurd rfl hne

theorem add_mono (g : Geom K) (cfg : LogCfg D) (draws : Nat → Nat → D) (s : Log) (k k' : K) (v : Nat) :
    queryC g cfg s k' ≤ queryC g cfg (add g cfg draws s k v) k' :=
  tquery_mono g cfg.maxc _ _ k' (fun r _ => add_tab_mono g cfg draws s k v r _)

theorem add_bound (g : Geom K) (cfg : LogCfg D) (draws : Nat → Nat → D) (s : Log) (k k' : K) (v : Nat) :
    queryC g cfg (add g cfg draws s k v) k' ≤
      max (queryC g cfg s k') (queryC g cfg (add g cfg draws s k v) k) := by
  rw [add_self]
  rcases qrows_attained g cfg.maxc s.tab k' g.depth with hc | ⟨r, hr, hq⟩
  · have h1 : queryC g cfg s k' = cfg.maxc := hc
    have h2 : queryC g cfg (add g cfg draws s k v) k' ≤ cfg.maxc := tquery_le_cap g cfg.maxc _ k'
    omega
  · have h1 : queryC g cfg (add g cfg draws s k v) k' ≤ (add g cfg draws s k v).tab r (g.col r k') :=
      tquery_le g cfg.maxc _ k' r hr
    rw [add_tab, raiseTo_apply] at h1
    have h2 : queryC g cfg s k' = s.tab r (g.col r k') := hq
    split at h1 <;> omega

theorem add_ok [DecidableEq K] (g : Geom K) (cfg : LogCfg D) (draws : Nat → Nat → D) (s : Log) (k : K)
    (v : Nat) (h0 : ∀ u, cfg.inc 0 u = true) (hnr : cfg.nr < cfg.maxc) :
    LogAddOK g cfg.nr cfg.maxc s.tab k v (add g cfg draws s k v).tab := by
  have hle : queryC g cfg s k ≤ cfg.maxc := tquery_le_cap g cfg.maxc s.tab k
  have hst := logCounter_steps cfg draws v (queryC g cfg s k) s.rs
  have hmx := logCounter_le_max cfg draws v (queryC g cfg s k) s.rs hle
  have hlo := logCounter_lower cfg draws v (queryC g cfg s k) s.rs h0 hnr
  refine ⟨fun r c _ _ => add_tab_mono g cfg draws s k v r c, ?_, ?_, ?_⟩
  · intro r c _ _ hne
    rw [add_tab]; exact raiseTo_other _ _ _ _ _ _ hne
  · intro r hr
    rw [add_tab, raiseTo_own _ _ _ _ _ hr]
    unfold queryC at *; omega
  · intro r hr
    rw [add_tab, raiseTo_own _ _ _ _ _ hr]
    have := tquery_le g cfg.maxc s.tab k r hr
    unfold queryC at *; omega

end Log
end Sketchnu
