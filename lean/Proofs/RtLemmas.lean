/-
  Proofs/RtLemmas.lean — lemmas about the run-time vocabulary of the whole-kernel translation (`Model/Rt.lean`).
-/
import Model.Rt
namespace Sketchnu.Rt

/-- a `Rt.loop` is the left fold over `0, 1, …, n-1` -/
theorem loop_eq_foldl {σ : Type} (n : Nat) (s : σ) (f : Nat → σ → σ) :
    Rt.loop n s f = (List.range n).foldl (fun st i => f i st) s := by
  induction n with
  | zero => rfl
  | succ n ih => rw [Rt.loop_succ, List.range_succ, List.foldl_append, ih]; rfl

theorem ite_app2 {α β γ : Type} (p : Prop) [Decidable p] (f g : α → β → γ) (a : α) (b : β) :
    (if p then f else g) a b = if p then f a b else g a b := by split <;> rfl

theorem ite_app1 {α β : Type} (p : Prop) [Decidable p] (f g : α → β) (a : α) :
    (if p then f else g) a = if p then f a else g a := by split <;> rfl

/-- byte-string keys: `len`, slicing, any hash `H`, and any rendering `arr` of the (padded) byte array -/
def bytesOps {B : Type} (H : List UInt8 → Nat → Nat) (arr : List UInt8 → Nat → B) : KeyOps (List UInt8) B :=
  { H := H, klen := List.length, slice := fun k i j => (k.drop i).take (j - i), arr := arr }

theorem bytesOps_slice {B : Type} (H : List UInt8 → Nat → Nat) (arr : List UInt8 → Nat → B) (key : List UInt8) (i n : Nat) :
    (bytesOps H arr).slice key i (i + n) = (key.drop i).take n := by
  simp [bytesOps]

/-- an invariant carried through a fold -/
theorem foldl_rel {α β γ : Type} (R : α → β → Prop) (f : α → γ → α) (g : β → γ → β)
    (h : ∀ a b x, R a b → R (f a x) (g b x)) (l : List γ) (a : α) (b : β) (hab : R a b) :
    R (l.foldl f a) (l.foldl g b) := by
  induction l generalizing a b with
  | nil => exact hab
  | cons x xs ih => exact ih _ _ (h a b x hab)

/-- loop invariant rule: `P 0 init`, and every iteration `i < n` takes `P i` to `P (i+1)` -/
theorem loop_inv {σ : Type} (P : Nat → σ → Prop) (n : Nat) (s : σ) (f : Nat → σ → σ)
    (h0 : P 0 s) (hs : ∀ i st, i < n → P i st → P (i + 1) (f i st)) : P n (loop n s f) := by
  induction n with
  | zero => exact h0
  | succ n ih =>
    rw [loop_succ]
    exact hs n _ (Nat.lt_succ_self n) (ih (fun i st hi => hs i st (Nat.lt_succ_of_lt hi)))

/-- loop invariant rule with a consequence `Q` of the invariant after the last iteration -/
theorem loop_inv' {σ : Type} (P : Nat → σ → Prop) (Q : σ → Prop) (n : Nat) (s : σ) (f : Nat → σ → σ)
    (h0 : P 0 s) (hs : ∀ i st, i < n → P i st → P (i + 1) (f i st)) (hq : ∀ st, P n st → Q st) : Q (loop n s f) :=
  hq _ (loop_inv P n s f h0 hs)

end Sketchnu.Rt
