/- Proofs/Hll.lean — helper lemmas for Properties/C02.lean -/
import Model.Hll
namespace Sketchnu

/-! ### `bitLen` -/

theorem bitLen_zero : bitLen 0 = 0 := by
  unfold bitLen; rfl

theorem bitLen_pos (x : Nat) (hx : x ≠ 0) : bitLen x = bitLen (x / 2) + 1 := by
  cases x with
  | zero => exact absurd rfl hx
  | succ n => rw [bitLen]

theorem bitLen_le_iff (x : Nat) : ∀ n, bitLen x ≤ n ↔ x < 2 ^ n := by
  induction x using Nat.strongRecOn with
  | ind x ih =>
    intro n
    by_cases hx : x = 0
    · subst hx
      have : 0 < 2 ^ n := Nat.two_pow_pos _
      simp [bitLen_zero, this]
    · rw [bitLen_pos x hx]
      cases n with
      | zero => simp; omega
      | succ m =>
        have h := ih (x / 2) (by omega) m
        rw [Nat.pow_succ]
        omega

/-- shifting out `s` low bits of a value that stays non-zero removes exactly `s` digits -/
theorem bitLen_div_pow (s : Nat) : ∀ x, x / 2 ^ s ≠ 0 → bitLen (x / 2 ^ s) + s = bitLen x := by
  induction s with
  | zero => intro x _; simp
  | succ s ih =>
    intro x hx
    have hx0 : x ≠ 0 := by
      intro h; subst h; simp at hx
    have e : x / 2 ^ (s + 1) = (x / 2) / 2 ^ s := by
      rw [Nat.pow_succ, Nat.mul_comm, Nat.div_div_eq_div_mul]
    rw [e] at hx ⊢
    have := ih (x / 2) hx
    rw [bitLen_pos x hx0]
    omega

/-! ### `nlz64` as five halving steps -/

/-- one branch of the binary search -/
def nlzStep (s : Nat) (nx : Nat × Nat) : Nat × Nat :=
  if nx.2 >>> s ≠ 0 then (nx.1 - s, nx.2 >>> s) else nx

/-- the last `if` -/
def nlzFin (nx : Nat × Nat) : Nat :=
  if nx.2 >>> 1 ≠ 0 then nx.1 - 2 else nx.1 - nx.2

theorem nlz64_eq_steps (x : Nat) :
    nlz64 x = nlzFin (nlzStep 2 (nlzStep 4 (nlzStep 8 (nlzStep 16 (nlzStep 32 (64, x)))))) := by
  rfl

/-- invariant: `x < 2^(2s)` and `n = T + bitLen x` become `x' < 2^s` and `n' = T + bitLen x'` -/
theorem nlzStep_inv (s T : Nat) (nx : Nat × Nat)
    (hlt : nx.2 < 2 ^ (2 * s)) (hn : nx.1 = T + bitLen nx.2) :
    (nlzStep s nx).2 < 2 ^ s ∧ (nlzStep s nx).1 = T + bitLen (nlzStep s nx).2 := by
  obtain ⟨n, x⟩ := nx
  simp only at hlt hn
  unfold nlzStep
  simp only [Nat.shiftRight_eq_div_pow]
  have hpos : 0 < 2 ^ s := Nat.two_pow_pos _
  by_cases h : x / 2 ^ s ≠ 0
  · rw [if_pos h]
    simp only
    have hb := bitLen_div_pow s x h
    refine ⟨?_, by omega⟩
    rw [Nat.div_lt_iff_lt_mul hpos, ← Nat.pow_add]
    have : s + s = 2 * s := by omega
    rw [this]; exact hlt
  · rw [if_neg h]
    simp only
    refine ⟨?_, hn⟩
    have h0 : x / 2 ^ s = 0 := by omega
    rcases (Nat.div_eq_zero_iff.mp h0) with h1 | h1
    · omega
    · exact h1

theorem nlzFin_inv (T : Nat) (nx : Nat × Nat)
    (hlt : nx.2 < 2 ^ 2) (hn : nx.1 = T + bitLen nx.2) : nlzFin nx = T := by
  obtain ⟨n, x⟩ := nx
  simp only at hlt hn
  unfold nlzFin
  simp only [Nat.shiftRight_eq_div_pow]
  have b0 : bitLen 0 = 0 := bitLen_zero
  have b1 : bitLen 1 = 1 := by rw [bitLen_pos 1 (by decide)]; simp [bitLen_zero]
  have b2 : bitLen 2 = 2 := by rw [bitLen_pos 2 (by decide)]; simp [b1]
  have b3 : bitLen 3 = 2 := by rw [bitLen_pos 3 (by decide)]; simp [b1]
  have hx : x = 0 ∨ x = 1 ∨ x = 2 ∨ x = 3 := by omega
  rcases hx with h | h | h | h <;> subst h <;> simp <;> omega

theorem nlz64_eq (x : Nat) (hx : x < 2 ^ 64) : nlz64 x = 64 - bitLen x := by
  have hb : bitLen x ≤ 64 := (bitLen_le_iff x 64).mpr hx
  rw [nlz64_eq_steps]
  have i0 : ((64, x) : Nat × Nat).2 < 2 ^ (2 * 32) ∧
      ((64, x) : Nat × Nat).1 = (64 - bitLen x) + bitLen ((64, x) : Nat × Nat).2 :=
    ⟨hx, by simp only; omega⟩
  have i1 := nlzStep_inv 32 _ _ i0.1 i0.2
  have i2 := nlzStep_inv 16 _ _ i1.1 i1.2
  have i3 := nlzStep_inv 8 _ _ i2.1 i2.2
  have i4 := nlzStep_inv 4 _ _ i3.1 i3.2
  have i5 := nlzStep_inv 2 _ _ i4.1 i4.2
  exact nlzFin_inv _ _ i5.1 i5.2

theorem hllRank_eq (p h : Nat) (hh : h < 2 ^ 64) :
    hllRank p h = (64 - p) - bitLen (h / 2 ^ p) + 1 := by
  unfold hllRank
  rw [Nat.shiftRight_eq_div_pow]
  have : h / 2 ^ p < 2 ^ 64 := Nat.lt_of_le_of_lt (Nat.div_le_self _ _) hh
  rw [nlz64_eq _ this]
  omega

/-! ### register denotation -/

namespace Hll
variable {K : Type} [DecidableEq K]

theorem eval_ge (p : Nat) (H : K → Nat) (h : Hist K) (i : Nat) :
    ∀ k, h.mem k → hllIdx p (H k) = i → hllRank p (H k) ≤ eval p H h i := by
  induction h with
  | new => intro k hk; exact absurd hk (by simp [Hist.mem])
  | add h k' v ih =>
    intro k hk hi
    simp only [eval, add]
    simp only [Hist.mem] at hk
    rcases hk with hk | hk
    · subst hk
      rw [if_pos hi.symm]
      exact Nat.le_max_right _ _
    · have := ih k hk hi
      split
      · exact Nat.le_trans this (Nat.le_max_left _ _)
      · exact this
  | merge a b iha ihb =>
    intro k hk hi
    simp only [eval, merge]
    simp only [Hist.mem] at hk
    rcases hk with hk | hk
    · exact Nat.le_trans (iha k hk hi) (Nat.le_max_left _ _)
    · exact Nat.le_trans (ihb k hk hi) (Nat.le_max_right _ _)

theorem eval_attained (p : Nat) (H : K → Nat) (h : Hist K) (i : Nat) :
    eval p H h i = 0 ∨ ∃ k, h.mem k ∧ hllIdx p (H k) = i ∧ eval p H h i = hllRank p (H k) := by
  induction h with
  | new => left; rfl
  | add h k' v ih =>
    simp only [eval, add, Hist.mem]
    by_cases hi : i = hllIdx p (H k')
    · rw [if_pos hi]
      by_cases hle : eval p H h i ≤ hllRank p (H k')
      · right
        exact ⟨k', Or.inl rfl, hi.symm, Nat.max_eq_right hle⟩
      · have hm : max (eval p H h i) (hllRank p (H k')) = eval p H h i :=
          Nat.max_eq_left (by omega)
        rw [hm]
        rcases ih with h0 | ⟨k, hk, hki, he⟩
        · left; exact h0
        · right; exact ⟨k, Or.inr hk, hki, he⟩
    · rw [if_neg hi]
      rcases ih with h0 | ⟨k, hk, hki, he⟩
      · left; exact h0
      · right; exact ⟨k, Or.inr hk, hki, he⟩
  | merge a b iha ihb =>
    simp only [eval, merge, Hist.mem]
    by_cases hle : eval p H a i ≤ eval p H b i
    · rw [Nat.max_eq_right hle]
      rcases ihb with h0 | ⟨k, hk, hki, he⟩
      · left; exact h0
      · right; exact ⟨k, Or.inr hk, hki, he⟩
    · rw [Nat.max_eq_left (by omega)]
      rcases iha with h0 | ⟨k, hk, hki, he⟩
      · left; exact h0
      · right; exact ⟨k, Or.inl hk, hki, he⟩

/-- monotonicity in the key set -/
theorem eval_mono (p : Nat) (H : K → Nat) (h₁ h₂ : Hist K)
    (hsub : ∀ k, h₁.mem k → h₂.mem k) (i : Nat) : eval p H h₁ i ≤ eval p H h₂ i := by
  rcases eval_attained p H h₁ i with h0 | ⟨k, hk, hki, he⟩
  · omega
  · rw [he]; exact eval_ge p H h₂ i k (hsub k hk) hki

theorem eval_setOnly (p : Nat) (H : K → Nat) (h₁ h₂ : Hist K)
    (hset : ∀ k, h₁.mem k ↔ h₂.mem k) : eval p H h₁ = eval p H h₂ := by
  funext i
  exact Nat.le_antisymm (eval_mono p H h₁ h₂ (fun k => (hset k).mp) i)
    (eval_mono p H h₂ h₁ (fun k => (hset k).mpr) i)

theorem mem_foldl_add (l : List K) : ∀ (acc : Hist K) (k : K),
    (l.foldl (fun h k => Hist.add h k 1) acc).mem k ↔ acc.mem k ∨ k ∈ l := by
  induction l with
  | nil => intro acc k; simp
  | cons a l ih =>
    intro acc k
    simp only [List.foldl_cons, List.mem_cons]
    rw [ih]
    simp only [Hist.mem]
    constructor
    · rintro ((h | h) | h)
      · exact Or.inr (Or.inl h.symm)
      · exact Or.inl h
      · exact Or.inr (Or.inr h)
    · rintro (h | h | h)
      · exact Or.inl (Or.inr h)
      · exact Or.inl (Or.inl h.symm)
      · exact Or.inr h

end Hll

end Sketchnu
