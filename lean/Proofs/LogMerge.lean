/- Proofs/LogMerge.lean — helper lemmas for Properties/C09.lean (nearest counter, decS) -/
import Proofs.LogContract
namespace Sketchnu
namespace LogMerge

/-! ### `nearest` -/

/-- `ndist` without the `if`, in a form `omega` understands -/
theorem ndist_eq (a b : Nat) : ndist a b = (b - a) + (a - b) := by
  unfold ndist; split <;> omega

theorem nearest_spec (d : Nat → Nat) (t n : Nat) :
    nearest d t n ≤ n ∧ (∀ c, c ≤ n → ndist (d (nearest d t n)) t ≤ ndist (d c) t) ∧
    (∀ c, c < nearest d t n → ndist (d (nearest d t n)) t < ndist (d c) t) := by
  induction n with
  | zero => simp [nearest]
  | succ n ih =>
    obtain ⟨h1, h2, h3⟩ := ih
    simp only [nearest]
    split
    · next hlt =>
      refine ⟨Nat.le_refl _, ?_, ?_⟩
      · intro c hc
        by_cases hcn : c = n + 1
        · subst hcn; exact Nat.le_refl _
        · have := h2 c (by omega); omega
      · intro c hc
        have := h2 c (by omega); omega
    · next hge =>
      refine ⟨by omega, ?_, h3⟩
      intro c hc
      by_cases hcn : c = n + 1
      · subst hcn; omega
      · exact h2 c (by omega)

/-- the three conjuncts of `nearest_spec` characterise the index -/
theorem nearest_unique (d : Nat → Nat) (t n i : Nat) (h1 : i ≤ n)
    (h2 : ∀ c, c ≤ n → ndist (d i) t ≤ ndist (d c) t)
    (h3 : ∀ c, c < i → ndist (d i) t < ndist (d c) t) : nearest d t n = i := by
  obtain ⟨m1, m2, m3⟩ := nearest_spec d t n
  rcases Nat.lt_trichotomy (nearest d t n) i with h | h | h
  · have := h3 _ h; have := m2 i h1; omega
  · exact h
  · have := m3 _ h; have := h2 _ m1; omega

/-- weak monotonicity from strict monotonicity -/
theorem mono_le (d : Nat → Nat) (n : Nat) (hmono : ∀ a b, a < b → b ≤ n → d a < d b)
    (a b : Nat) (hab : a ≤ b) (hb : b ≤ n) : d a ≤ d b := by
  by_cases h : a = b
  · subst h; exact Nat.le_refl _
  · exact Nat.le_of_lt (hmono a b (by omega) hb)

theorem nearest_ge (d : Nat → Nat) (n : Nat) (hmono : ∀ a b, a < b → b ≤ n → d a < d b)
    (t j : Nat) (hj : j ≤ n) (ht : d j ≤ t) : j ≤ nearest d t n := by
  obtain ⟨_, m2, _⟩ := nearest_spec d t n
  apply Nat.le_of_not_lt
  intro hlt
  have h1 := hmono _ _ hlt hj
  have h2 := m2 j hj
  simp only [ndist_eq] at h2
  omega

theorem nearest_exact (d : Nat → Nat) (n : Nat) (hmono : ∀ a b, a < b → b ≤ n → d a < d b)
    (j : Nat) (hj : j ≤ n) : nearest d (d j) n = j := by
  apply nearest_unique d (d j) n j hj
  · intro c _
    simp only [ndist_eq]; omega
  · intro c hc
    have := hmono c j hc hj
    simp only [ndist_eq]; omega

/-! ### `decS` -/

theorem geomS_one (B S K : Nat) : geomS B S K 1 = S ^ K := by
  simp [geomS]

theorem decS_step (B S nr K : Nat) (hB : 0 < B) (hS : 0 < S) (c : Nat) :
    decS B S nr K c < decS B S nr K (c + 1) := by
  unfold decS
  by_cases h1 : c + 1 ≤ nr
  · have h2 : c ≤ nr := by omega
    have hp : 0 < S ^ K := Nat.pow_pos hS
    simp only [h1, h2, if_true, Nat.succ_mul]
    omega
  · by_cases h2 : c ≤ nr
    · have hc : c = nr := by omega
      subst hc
      have hp : 0 < S ^ K := Nat.pow_pos hS
      simp only [h1, h2, if_true, if_false]
      have : c + 1 - c = 1 := by omega
      rw [this, geomS_one]
      omega
    · simp only [h1, h2, if_false]
      have : c + 1 - nr = (c - nr) + 1 := by omega
      rw [this]
      simp only [geomS]
      have hp : 0 < B ^ (c - nr) * S ^ (K - (c - nr)) :=
        Nat.mul_pos (Nat.pow_pos hB) (Nat.pow_pos hS)
      omega

theorem decS_mono (B S nr K : Nat) (hB : 0 < B) (hS : 0 < S) (a b : Nat) (hab : a < b) :
    decS B S nr K a < decS B S nr K b := by
  induction b with
  | zero => omega
  | succ b ih =>
    have hs := decS_step B S nr K hB hS b
    by_cases h : a = b
    · subst h; exact hs
    · exact Nat.lt_trans (ih (by omega)) hs

theorem decS_lin (B S nr K : Nat) (c : Nat) (hc : c ≤ nr + 1) :
    decS B S nr K c = c * S ^ K := by
  unfold decS
  by_cases h : c ≤ nr
  · simp [h]
  · have hc' : c = nr + 1 := by omega
    subst hc'
    simp only [h, if_false]
    have : nr + 1 - nr = 1 := by omega
    rw [this, geomS_one, Nat.succ_mul]

/-! ### `bracket` / `nearestFast` -/

theorem bracket_spec (d : Nat → Nat) (t : Nat) (fuel lo hi : Nat) (hlt : lo < hi)
    (hlo : d lo ≤ t) (hhi : t < d hi) (hf : hi - lo ≤ fuel + 1) :
    lo ≤ bracket d t fuel lo hi ∧ bracket d t fuel lo hi < hi ∧
    d (bracket d t fuel lo hi) ≤ t ∧ t < d (bracket d t fuel lo hi + 1) := by
  induction fuel generalizing lo hi with
  | zero =>
    have : hi = lo + 1 := by omega
    subst this
    simp only [bracket]
    exact ⟨Nat.le_refl _, by omega, hlo, hhi⟩
  | succ fuel ih =>
    simp only [bracket]
    split
    · next h =>
      have : hi = lo + 1 := by omega
      subst this
      exact ⟨Nat.le_refl _, by omega, hlo, hhi⟩
    · next h =>
      have hm1 : lo < (lo + hi) / 2 := by omega
      have hm2 : (lo + hi) / 2 < hi := by omega
      split
      · next hmid =>
        obtain ⟨r1, r2, r3, r4⟩ := ih ((lo + hi) / 2) hi hm2 hmid hhi (by omega)
        exact ⟨by omega, r2, r3, r4⟩
      · next hmid =>
        obtain ⟨r1, r2, r3, r4⟩ := ih lo ((lo + hi) / 2) hm1 hlo (by omega) (by omega)
        exact ⟨r1, by omega, r3, r4⟩

theorem nearestFast_eq (d : Nat → Nat) (n : Nat) (hmono : ∀ a b, a < b → b ≤ n → d a < d b)
    (t : Nat) : nearestFast d t n = nearest d t n := by
  have hle := mono_le d n hmono
  symm
  unfold nearestFast
  split
  · next h0 =>
    apply nearest_unique d t n 0 (Nat.zero_le _)
    · intro c hc
      have := hle 0 c (Nat.zero_le _) hc
      simp only [ndist_eq]; omega
    · intro c hc; omega
  · next h0 =>
    split
    · next hn =>
      apply nearest_unique d t n n (Nat.le_refl _)
      · intro c hc
        have := hle c n hc (Nat.le_refl _)
        simp only [ndist_eq]; omega
      · intro c hc
        have := hmono c n hc (Nat.le_refl _)
        simp only [ndist_eq]; omega
    · next hn =>
      have hnpos : 0 < n := by
        apply Nat.pos_of_ne_zero
        intro h; subst h; omega
      obtain ⟨_, r2, r3, r4⟩ :=
        bracket_spec d t (n + 1) 0 n hnpos (by omega) (by omega) (by omega)
      generalize bracket d t (n + 1) 0 n = lo at r2 r3 r4
      simp only
      have below : ∀ c, c ≤ lo → ndist (d lo) t ≤ ndist (d c) t := by
        intro c hc
        have := hle c lo hc (by omega)
        simp only [ndist_eq]; omega
      have sbelow : ∀ c, c < lo → ndist (d lo) t < ndist (d c) t := by
        intro c hc
        have := hmono c lo hc (by omega)
        simp only [ndist_eq]; omega
      have above : ∀ c, lo + 1 ≤ c → c ≤ n → ndist (d (lo + 1)) t ≤ ndist (d c) t := by
        intro c hc hcn
        have := hle (lo + 1) c hc hcn
        simp only [ndist_eq]; omega
      split
      · next hcmp =>
        apply nearest_unique d t n (lo + 1) (by omega)
        · intro c hc
          by_cases hcl : c ≤ lo
          · have := below c hcl; omega
          · exact above c (by omega) hc
        · intro c hc
          have := below c (by omega); omega
      · next hcmp =>
        apply nearest_unique d t n lo (by omega)
        · intro c hc
          by_cases hcl : c ≤ lo
          · exact below c hcl
          · have := above c (by omega) hc; omega
        · exact sbelow

end LogMerge
end Sketchnu
