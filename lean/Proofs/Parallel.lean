/- Proofs/Parallel.lean — helper lemmas for Properties/C08.lean and C19.lean -/
import Model.Parallel
namespace Sketchnu
end Sketchnu
