/- Proofs/Parallel.lean — helper lemmas for Properties/C08.lean and C19.lean -/
import Model.Parallel
namespace Sketchnu
variable {I K S : Type}

/-! ### single steps -/

theorem PStep.measure_lt {cap : Nat} {s t : PState I} (h : PStep cap s t) : t.measure < s.measure := by
  cases h <;> simp_all [PState.measure] <;> omega

theorem PStep.done_stays {cap : Nat} {s t : PState I} (h : PStep cap s t) (w : Nat) (ws : WState I)
    (hw : s.workers[w]? = some ws) (hd : ws.done = true) : t.workers[w]? = some ws := by
  cases h with
  | putItem x rest h1 h2 => exact hw
  | putPill p h1 h2 h3 => exact hw
  | takeItem w' x q ws' h1 h2 h3 =>
    have hne : w' ≠ w := by
      intro e; subst e; rw [hw] at h2; cases h2; simp [hd] at h3
    simpa [List.getElem?_set_ne hne] using hw
  | takePill w' q ws' h1 h2 h3 =>
    have hne : w' ≠ w := by
      intro e; subst e; rw [hw] at h2; cases h2; simp [hd] at h3
    simpa [List.getElem?_set_ne hne] using hw

/-! ### the exit-code monitor -/

theorem monitor_closed_stays (l : List (List (Option Int))) (r : Bool) :
    monitor l true = some r → r = true := by
  induction l with
  | nil => simp [monitor]
  | cons c rest ih =>
    simp only [monitor, Bool.true_or]
    split
    · exact ih
    · intro h; simpa using h.symm

theorem monitor_cons_running (codes : List (Option Int)) (rest : List (List (Option Int))) (closed : Bool)
    (h : pollAnyNone codes = true) : monitor (codes :: rest) closed = monitor rest (closed || pollClosed codes) := by
  simp [monitor, h]

theorem monitor_cons_ended (codes : List (Option Int)) (rest : List (List (Option Int))) (closed : Bool)
    (h : pollAnyNone codes = false) : monitor (codes :: rest) closed = some (closed || pollClosed codes) := by
  simp [monitor, h]

theorem monitor_dead (pre : List (List (Option Int))) (codes : List (Option Int)) (rest : List (List (Option Int)))
    (closed r : Bool) (h : monitor (pre ++ codes :: rest) closed = some r)
    (hpre : ∀ c ∈ pre, pollAnyNone c = true) (hbad : pollClosed codes = true) : r = true := by
  induction pre generalizing closed with
  | nil =>
    simp only [List.nil_append, monitor, hbad, Bool.or_true] at h
    split at h
    · exact monitor_closed_stays _ _ h
    · simpa using h.symm
  | cons c pre ih =>
    rw [List.cons_append, monitor_cons_running _ _ _ (hpre c (by simp))] at h
    exact ih _ h (fun c' hc' => hpre c' (by simp [hc']))

theorem monitor_clean (snaps : List (List (Option Int))) (r : Bool) (h : monitor snaps false = some r)
    (hclean : ∀ codes ∈ snaps, pollClosed codes = false) : r = false := by
  induction snaps with
  | nil => simp [monitor] at h
  | cons c rest ih =>
    have hc : pollClosed c = false := hclean c (by simp)
    simp only [monitor, hc, Bool.or_false] at h
    split at h
    · exact ih h (fun c' hc' => hclean c' (by simp [hc']))
    · simpa using h.symm

/-! ### merge rounds -/

theorem mergeRound_length (merge : S → S → S) : ∀ l : List S, (mergeRound merge l).length = (l.length + 1) / 2
  | [] => by simp [mergeRound]
  | [_] => by simp [mergeRound]
  | a :: b :: rest => by
    simp only [mergeRound, List.length_cons, mergeRound_length merge rest]; omega

theorem mergeRounds_length (merge : S → S → S) (fuel : Nat) (l : List S)
    (h0 : 0 < l.length) (hf : l.length ≤ fuel + 1) : (mergeRounds merge fuel l).length = 1 := by
  induction fuel generalizing l with
  | zero => simp only [mergeRounds]; omega
  | succ fuel ih =>
    simp only [mergeRounds]
    split
    · omega
    · apply ih
      · rw [mergeRound_length]; omega
      · rw [mergeRound_length]; omega

theorem mergeRound_map_eval (merge : S → S → S) : ∀ ts : List (MTree S),
    mergeRound merge (ts.map (MTree.eval merge)) = (mergeRound MTree.node ts).map (MTree.eval merge)
  | [] => by simp [mergeRound]
  | [_] => by simp [mergeRound]
  | a :: b :: rest => by
    simp only [mergeRound, List.map_cons, MTree.eval, mergeRound_map_eval merge rest]

theorem mergeRound_leaves : ∀ ts : List (MTree S),
    (mergeRound MTree.node ts).flatMap MTree.leaves = ts.flatMap MTree.leaves
  | [] => by simp [mergeRound]
  | [_] => by simp [mergeRound]
  | a :: b :: rest => by
    simp only [mergeRound, List.flatMap_cons, MTree.leaves, mergeRound_leaves rest, List.append_assoc]

theorem mergeRounds_map_eval (merge : S → S → S) (fuel : Nat) (ts : List (MTree S)) :
    mergeRounds merge fuel (ts.map (MTree.eval merge))
      = (mergeRounds MTree.node fuel ts).map (MTree.eval merge) := by
  induction fuel generalizing ts with
  | zero => rfl
  | succ fuel ih =>
    simp only [mergeRounds, List.length_map]
    split
    · rfl
    · rw [mergeRound_map_eval, ih]

theorem mergeRounds_leaves (fuel : Nat) (ts : List (MTree S)) :
    (mergeRounds MTree.node fuel ts).flatMap MTree.leaves = ts.flatMap MTree.leaves := by
  induction fuel generalizing ts with
  | zero => rfl
  | succ fuel ih =>
    simp only [mergeRounds]
    split
    · rfl
    · rw [ih, mergeRound_leaves]

theorem map_leaf_eval (merge : S → S → S) (l : List S) : (l.map MTree.leaf).map (MTree.eval merge) = l := by
  induction l with
  | nil => rfl
  | cons a l ih => simp_all [MTree.eval]

theorem map_leaf_leaves (l : List S) : (l.map MTree.leaf).flatMap MTree.leaves = l := by
  induction l with
  | nil => rfl
  | cons a l ih => simp_all [MTree.leaves]

theorem parallelMerging_tree (merge : S → S → S) (l : List S) (hl : l ≠ []) :
    ∃ t : MTree S, t.leaves = l ∧ parallelMerging merge l = some (t.eval merge) := by
  have hpos : 0 < l.length := List.length_pos_iff.mpr hl
  have hlen := mergeRounds_length MTree.node l.length (l.map MTree.leaf)
    (by simpa using hpos) (by simp)
  obtain ⟨t, ht⟩ := List.length_eq_one_iff.mp hlen
  refine ⟨t, ?_, ?_⟩
  · have := mergeRounds_leaves l.length (l.map MTree.leaf)
    rw [ht, map_leaf_leaves] at this
    simpa using this
  · have := mergeRounds_map_eval merge l.length (l.map MTree.leaf)
    rw [ht, map_leaf_eval] at this
    simp [parallelMerging, this]

theorem merge_foldl (merge : S → S → S) (hassoc : ∀ a b c, merge (merge a b) c = merge a (merge b c))
    (x : S) (r : List S) (b : S) : merge x (r.foldl merge b) = r.foldl merge (merge x b) := by
  induction r generalizing b with
  | nil => rfl
  | cons c r ih => simp only [List.foldl_cons, ih, hassoc]

theorem MTree.eval_foldl (merge : S → S → S) (hassoc : ∀ a b c, merge (merge a b) c = merge a (merge b c))
    (t : MTree S) : ∃ a rest, t.leaves = a :: rest ∧ t.eval merge = rest.foldl merge a := by
  induction t with
  | leaf s => exact ⟨s, [], rfl, rfl⟩
  | node l r ihl ihr =>
    obtain ⟨a, r1, hl1, hl2⟩ := ihl
    obtain ⟨b, r2, hr1, hr2⟩ := ihr
    refine ⟨a, r1 ++ b :: r2, by simp [MTree.leaves, hl1, hr1], ?_⟩
    simp only [MTree.eval, hl2, hr2, List.foldl_append, List.foldl_cons]
    exact merge_foldl merge hassoc _ _ _

theorem parallelMerging_assoc (merge : S → S → S) (hassoc : ∀ a b c, merge (merge a b) c = merge a (merge b c))
    (a : S) (l : List S) : parallelMerging merge (a :: l) = some (l.foldl merge a) := by
  obtain ⟨t, ht, hr⟩ := parallelMerging_tree merge (a :: l) (by simp)
  obtain ⟨a', rest, h1, h2⟩ := MTree.eval_foldl merge hassoc t
  rw [ht] at h1
  cases h1
  rw [hr, h2]

/-! ### list facts for the protocol invariant -/

/-- number of workers still running -/
def running (l : List (WState I)) : Nat := (l.filter (fun w => !w.done)).length

theorem running_set_false (l : List (WState I)) (w : Nat) (ws : WState I) (g : List I)
    (hw : l[w]? = some ws) (hd : ws.done = false) :
    running (l.set w { done := false, got := g }) = running l := by
  induction l generalizing w with
  | nil => simp at hw
  | cons a l ih =>
    cases w with
    | zero =>
      simp only [List.getElem?_cons_zero, Option.some.injEq] at hw
      subst hw
      simp [running, List.filter, hd]
    | succ w =>
      simp only [List.getElem?_cons_succ] at hw
      have := ih w hw
      simp only [running, List.set_cons_succ, List.filter_cons] at this ⊢
      split <;> simp [this]

theorem running_set_true (l : List (WState I)) (w : Nat) (ws : WState I) (g : List I)
    (hw : l[w]? = some ws) (hd : ws.done = false) :
    running (l.set w { done := true, got := g }) + 1 = running l := by
  induction l generalizing w with
  | nil => simp at hw
  | cons a l ih =>
    cases w with
    | zero =>
      simp only [List.getElem?_cons_zero, Option.some.injEq] at hw
      subst hw
      simp [running, List.filter, hd]
    | succ w =>
      simp only [List.getElem?_cons_succ] at hw
      have := ih w hw
      simp only [running, List.set_cons_succ, List.filter_cons] at this ⊢
      split <;> simp [this] <;> omega

theorem flatMap_got_set_append (l : List (WState I)) (w : Nat) (ws : WState I) (d : Bool) (x : I)
    (hw : l[w]? = some ws) :
    ((l.set w { done := d, got := ws.got ++ [x] }).flatMap (·.got)).Perm (l.flatMap (·.got) ++ [x]) := by
  induction l generalizing w with
  | nil => simp at hw
  | cons a l ih =>
    cases w with
    | zero =>
      simp only [List.getElem?_cons_zero, Option.some.injEq] at hw
      subst hw
      simp only [List.set_cons_zero, List.flatMap_cons, List.append_assoc]
      exact List.Perm.append_left _ List.perm_append_comm
    | succ w =>
      simp only [List.getElem?_cons_succ] at hw
      simp only [List.set_cons_succ, List.flatMap_cons, List.append_assoc]
      exact List.Perm.append_left _ (ih w hw)

theorem flatMap_got_set_same (l : List (WState I)) (w : Nat) (ws : WState I) (d : Bool)
    (hw : l[w]? = some ws) :
    (l.set w { done := d, got := ws.got }).flatMap (·.got) = l.flatMap (·.got) := by
  induction l generalizing w with
  | nil => simp at hw
  | cons a l ih =>
    cases w with
    | zero =>
      simp only [List.getElem?_cons_zero, Option.some.injEq] at hw
      subst hw
      simp
    | succ w =>
      simp only [List.getElem?_cons_succ] at hw
      simp [ih w hw]

theorem map_some_replicate_cons_some {its : List I} {k : Nat} {x : I} {q : List (Option I)}
    (h : its.map some ++ List.replicate k none = some x :: q) :
    ∃ its', its = x :: its' ∧ q = its'.map some ++ List.replicate k none := by
  cases its with
  | nil =>
    cases k with
    | zero => simp at h
    | succ k => simp [List.replicate_succ] at h
  | cons y its' =>
    simp only [List.map_cons, List.cons_append, List.cons.injEq, Option.some.injEq] at h
    exact ⟨its', by rw [h.1], h.2.symm⟩

theorem map_some_replicate_cons_none {its : List I} {k : Nat} {q : List (Option I)}
    (h : its.map some ++ List.replicate k none = none :: q) :
    its = [] ∧ ∃ k', k = k' + 1 ∧ q = List.replicate k' none := by
  cases its with
  | nil =>
    cases k with
    | zero => simp at h
    | succ k =>
      simp only [List.map_nil, List.nil_append, List.replicate_succ, List.cons.injEq, true_and] at h
      exact ⟨rfl, k, rfl, h.symm⟩
  | cons y its' => simp at h

/-! ### the protocol invariant -/

structure PInv (items : List I) (n : Nat) (s : PState I) : Prop where
  perm    : (s.processed ++ s.queued ++ s.todo).Perm items
  len     : s.workers.length = n
  pills   : s.pills + (s.queue.filter Option.isNone).length = running s.workers
  shape   : ∃ (its : List I) (k : Nat), s.queue = its.map some ++ List.replicate k none ∧ ((0 < k ∨ s.pills < n) → s.todo = [])
  drained : (∃ w ∈ s.workers, w.done = true) → s.queued = [] ∧ s.todo = []

theorem PInv.init (items : List I) (n : Nat) : PInv items n (PState.init items n) := by
  refine ⟨?_, ?_, ?_, ?_, ?_⟩
  · have : (List.replicate n ({ done := false, got := [] } : WState I)).flatMap (·.got) = [] := by
      induction n with
      | zero => rfl
      | succ n ih => simp [List.replicate_succ]
    simp [PState.init, PState.processed, PState.queued, this]
  · simp [PState.init]
  · have : ∀ m : Nat, running (List.replicate m ({ done := false, got := [] } : WState I)) = m := by
      intro m
      simp [running]
    simp [PState.init, this]
  · exact ⟨[], 0, by simp [PState.init], by simp [PState.init]⟩
  · rintro ⟨w, hw, hd⟩
    simp only [PState.init, List.mem_replicate] at hw
    rw [hw.2] at hd
    cases hd

theorem PInv.step {cap : Nat} {items : List I} {n : Nat} {s t : PState I}
    (inv : PInv items n s) (h : PStep cap s t) : PInv items n t := by
  obtain ⟨hperm, hlen, hpills, ⟨its, k, hq, htodo⟩, hdr⟩ := inv
  cases h with
  | putItem x rest h1 h2 =>
    have hnd : ¬ ∃ w ∈ s.workers, w.done = true := by
      intro hex; have := (hdr hex).2; rw [h1] at this; cases this
    have hk : ¬ (0 < k ∨ s.pills < n) := by
      intro hh; have := htodo hh; rw [h1] at this; cases this
    have hk0 : k = 0 := by omega
    refine ⟨?_, hlen, ?_, ?_, ?_⟩
    · simp only [PState.processed, PState.queued, h1, List.filterMap_append, List.filterMap_cons,
        List.filterMap_nil, id, List.append_assoc, List.cons_append, List.nil_append] at hperm ⊢
      exact hperm
    · simpa [List.filter_append] using hpills
    · refine ⟨its ++ [x], 0, ?_, ?_⟩
      · simp [hq, hk0]
      · intro hh; exact absurd (Or.inr (hh.resolve_left (by omega))) hk
    · intro hex; exact absurd hex hnd
  | putPill p h1 h2 h3 =>
    refine ⟨?_, hlen, ?_, ?_, ?_⟩
    · simpa [PState.processed, PState.queued, List.filterMap_append] using hperm
    · simp only [List.filter_append, List.length_append] at hpills ⊢
      simp only [h2] at hpills
      simp only [List.filter_cons, Option.isNone_none, if_true, List.filter_nil, List.length_cons,
        List.length_nil]
      omega
    · refine ⟨its, k + 1, ?_, fun _ => h1⟩
      simp [hq, List.replicate_succ', List.append_assoc]
    · intro hex
      have := hdr hex
      simpa [PState.queued, List.filterMap_append] using this
  | takeItem w x q ws h1 h2 h3 =>
    rw [h1] at hq
    obtain ⟨its', hits, hq'⟩ := map_some_replicate_cons_some hq.symm
    have hnd : ¬ ∃ w ∈ s.workers, w.done = true := by
      intro hex; have := (hdr hex).1; simp [PState.queued, h1] at this
    refine ⟨?_, by simpa using hlen, ?_, ⟨its', k, hq', htodo⟩, ?_⟩
    · have hp := flatMap_got_set_append s.workers w ws false x h2
      simp only [PState.processed, PState.queued, h1, List.filterMap_cons, id] at hperm ⊢
      refine List.Perm.trans ?_ hperm
      refine List.Perm.append_right _ ?_
      refine (List.Perm.append_right _ hp).trans ?_
      simp
    · rw [running_set_false _ _ _ _ h2 h3]
      simpa [h1] using hpills
    · rintro ⟨w', hw', hd'⟩
      rcases List.mem_or_eq_of_mem_set hw' with hm | he
      · exact absurd ⟨w', hm, hd'⟩ hnd
      · rw [he] at hd'; cases hd'
  | takePill w q ws h1 h2 h3 =>
    rw [h1] at hq
    obtain ⟨hits, k', hk', hq'⟩ := map_some_replicate_cons_none hq.symm
    have ht : s.todo = [] := htodo (Or.inl (by omega))
    refine ⟨?_, by simpa using hlen, ?_, ⟨[], k', by simp [hq'], fun _ => ht⟩, ?_⟩
    · simp only [PState.processed, PState.queued, h1, List.filterMap_cons, id] at hperm ⊢
      rw [flatMap_got_set_same _ _ _ _ h2]
      exact hperm
    · have := running_set_true s.workers w ws ws.got h2 h3
      simp only [h1, List.filter_cons, Option.isNone_none, if_true, List.length_cons] at hpills
      show s.pills + (q.filter Option.isNone).length = running (s.workers.set w { done := true, got := ws.got })
      omega
    · intro _
      refine ⟨?_, ht⟩
      show q.filterMap id = []
      rw [hq']
      clear hq' hk' hq
      induction k' with
      | zero => rfl
      | succ k ih => simp [List.replicate_succ, ih]

theorem PReach.inv {cap : Nat} {items : List I} {n : Nat} {s : PState I}
    (R : PReach cap items n s) : PInv items n s := by
  induction R with
  | init => exact PInv.init items n
  | step _ h ih => exact ih.step h

theorem PReach.exactly_once {cap : Nat} {items : List I} {n : Nat} {s : PState I}
    (R : PReach cap items n s) (hf : s.final) : s.processed.Perm items ∧ s.workers.length = n := by
  have inv := R.inv
  refine ⟨?_, inv.len⟩
  have := inv.perm
  simpa [PState.queued, hf.1, hf.2.2.1] using this

theorem PReach.no_deadlock {cap : Nat} (hcap : 1 ≤ cap) {items : List I} {n : Nat} (hn : 1 ≤ n)
    {s : PState I} (R : PReach cap items n s) (hnf : ¬ s.final) : ∃ t, PStep cap s t := by
  obtain ⟨hperm, hlen, hpills, ⟨its, k, hq, htodo⟩, hdr⟩ := R.inv
  cases hqueue : s.queue with
  | nil =>
    cases htd : s.todo with
    | cons x rest => exact ⟨_, PStep.putItem s x rest htd (by simp [hqueue]; omega)⟩
    | nil =>
      cases hp : s.pills with
      | succ p => exact ⟨_, PStep.putPill s p htd hp (by simp [hqueue]; omega)⟩
      | zero =>
        exfalso
        apply hnf
        refine ⟨htd, hp, hqueue, ?_⟩
        simp only [hp, hqueue, List.filter_nil, List.length_nil, running] at hpills
        have hnil := List.length_eq_zero_iff.mp hpills.symm
        intro w hw
        have := List.filter_eq_nil_iff.mp hnil w hw
        simpa using this
  | cons o q =>
    cases o with
    | some x =>
      have hnd : ¬ ∃ w ∈ s.workers, w.done = true := by
        intro hex; have := (hdr hex).1; simp [PState.queued, hqueue] at this
      have h0 : 0 < s.workers.length := by omega
      refine ⟨_, PStep.takeItem s 0 x q s.workers[0] hqueue (by simp) ?_⟩
      cases hd : (s.workers[0]).done with
      | false => rfl
      | true => exact absurd ⟨_, List.getElem_mem h0, hd⟩ hnd
    | none =>
      simp only [hqueue, List.filter_cons, Option.isNone_none, if_true, List.length_cons, running] at hpills
      have hpos : 0 < (s.workers.filter (fun w => !w.done)).length := by omega
      obtain ⟨ws, hws⟩ := List.exists_mem_of_length_pos hpos
      rw [List.mem_filter] at hws
      obtain ⟨i, hi⟩ := List.mem_iff_getElem?.mp hws.1
      exact ⟨_, PStep.takePill s i q ws hqueue hi (by simpa using hws.2)⟩

/-! ### record counts and operations -/

theorem workerRecords_append (cb : I → Outcome K) (a b : List I) :
    workerRecords cb (a ++ b) = workerRecords cb a + workerRecords cb b := by
  simp [workerRecords]

theorem workerRecords_perm (cb : I → Outcome K) {a b : List I} (h : a.Perm b) :
    workerRecords cb a = workerRecords cb b :=
  (h.map _).sum_nat

theorem workerRecords_workers (cb : I → Outcome K) (ws : List (WState I)) :
    (ws.map fun w => workerRecords cb w.got).sum = workerRecords cb (ws.flatMap (·.got)) := by
  induction ws with
  | nil => rfl
  | cons a l ih => simp [workerRecords_append, ih]

theorem workerOps_workers (cb : I → Outcome K) (ws : List (WState I)) :
    (ws.flatMap fun w => workerOps cb w.got) = workerOps cb (ws.flatMap (·.got)) := by
  simp [workerOps, List.flatMap_assoc]

theorem workerRecords_filter (cb : I → Outcome K) (got : List I) :
    workerRecords cb got = ((got.filter fun x => (cb x).ret.isSome).map fun x => (cb x).ret.getD 0).sum := by
  induction got with
  | nil => rfl
  | cons x l ih =>
    simp only [workerRecords, List.map_cons, List.sum_cons, List.filter_cons] at ih ⊢
    cases h : (cb x).ret with
    | none => simpa [h] using ih
    | some v => simpa [h] using ih

/-- weight added for `k` by a list of operations -/
def opsCount [DecidableEq K] (k : K) (ops : List (K × Nat)) : Nat :=
  (ops.map fun kv => if kv.1 = k then kv.2 else 0).sum

theorem trueCount_foldl [DecidableEq K] (k : K) (ops : List (K × Nat)) (h : Hist K) :
    (ops.foldl (fun h kv => Hist.add h kv.1 kv.2) h).trueCount k = h.trueCount k + opsCount k ops := by
  induction ops generalizing h with
  | nil => simp [opsCount]
  | cons kv ops ih =>
    simp only [List.foldl_cons, ih, Hist.trueCount, opsCount, List.map_cons, List.sum_cons]
    omega

theorem trueCount_histOfOps [DecidableEq K] (k : K) (ops : List (K × Nat)) :
    (histOfOps ops).trueCount k = opsCount k ops := by
  simp [histOfOps, trueCount_foldl, Hist.trueCount]

theorem opsCount_append [DecidableEq K] (k : K) (a b : List (K × Nat)) :
    opsCount k (a ++ b) = opsCount k a + opsCount k b := by
  simp [opsCount]

theorem opsCount_perm [DecidableEq K] (k : K) {a b : List (K × Nat)} (h : a.Perm b) :
    opsCount k a = opsCount k b :=
  (h.map _).sum_nat

theorem opsCount_workers [DecidableEq K] (k : K) (cb : I → Outcome K) (ws : List (WState I)) :
    (ws.map fun w => (histOfOps (workerOps cb w.got)).trueCount k).sum
      = opsCount k (workerOps cb (ws.flatMap (·.got))) := by
  induction ws with
  | nil => rfl
  | cons a l ih =>
    rw [List.map_cons, List.sum_cons, ih, trueCount_histOfOps]
    simp [workerOps, opsCount_append]

theorem hist_total [DecidableEq K] {cap : Nat} {items : List I} {n : Nat} {s : PState I}
    (R : PReach cap items n s) (hf : s.final) (cb : I → Outcome K) (k : K) :
    ((s.workers.map fun w => (histOfOps (workerOps cb w.got)).trueCount k).sum)
      = (histOfOps (workerOps cb items)).trueCount k := by
  rw [opsCount_workers, trueCount_histOfOps]
  exact opsCount_perm k (List.Perm.flatMap_right _ (R.exactly_once hf).1)

end Sketchnu
