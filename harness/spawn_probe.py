"""spawn_probe.py <n_workers> <ok|die> — a REAL spawned parallel_add run (thorough tier of C08 / C19).
Prints `RESULT PASS` or `RESULT <what failed>`."""
import os
import sys
import time
import warnings

warnings.simplefilter("ignore")
sys.path.insert(0, os.environ.get("SKETCHNU_REPO", "/repo"))


def cb_ok(item, cms, hh, hll):
    for k in item:
        cms.add(k)
        hh.add(k)
        hll.add(k)
    return len(item)


def cb_die(item, hll):
    if item and item[0] == b"die":
        os._exit(3)
    for k in item:
        hll.add(k)
    return len(item)


if __name__ == "__main__":
    from sketchnu import CountMin, HeavyHitters, HyperLogLog, parallel_add

    nw, mode = int(sys.argv[1]), sys.argv[2]
    items = [[b"k%d" % ((i * 7 + j) % 23) for j in range(5)] for i in range(4 * nw + 1)]
    t0 = time.time()
    if mode == "ok":
        cms, hh, hll = parallel_add((x for x in items), cb_ok, n_workers=nw, cms_args={"cms_type": "linear", "width": 64, "depth": 3},
                                    hh_args={"width": 16, "depth": 2, "max_key_len": 8}, hll_args={"p": 8, "seed": 1})
        seq = HyperLogLog(8, 1)
        total = 0
        for it in items:
            for k in it:
                seq.add(k)
                total += 1
        bad = []
        if bytes(seq.registers) != bytes(hll.registers):
            bad.append("hll registers differ from sequential")
        if int(cms.n_added()) != total or int(hh.n_added()) != total:
            bad.append(f"n_added {int(cms.n_added())}/{int(hh.n_added())} != {total}")
        if int(cms.n_records()) != total or int(hh.n_records()) != total:
            bad.append(f"n_records {int(cms.n_records())}/{int(hh.n_records())} != {total}")
        from collections import Counter
        true = Counter(k for it in items for k in it)
        for k, f in true.items():
            if int(cms.query(k)) < f or int(hh[k]) > f:
                bad.append(f"bounds violated for {k!r}")
                break
        print("RESULT " + ("PASS" if not bad else "; ".join(bad)), flush=True)
    else:
        items[len(items) // 2] = [b"die"]
        try:
            r = parallel_add(items, cb_die, n_workers=nw, hll_args={"p": 8})
            print(f"RESULT dead worker but parallel_add returned {type(r).__name__} after {time.time()-t0:.0f}s", flush=True)
        except BaseException as e:  # noqa
            print("RESULT PASS" if time.time() - t0 < 300 else f"RESULT raised {type(e).__name__} only after {time.time()-t0:.0f}s", flush=True)
            os._exit(0)
