"""
hashtr.py — translator for `sketchnu/hashes.py`: the three hash functions and their helpers, WHOLE, into Lean over machine words
(`UInt64`, `UInt32`, `UInt8`, `List UInt8` for `bytes`) → `lean/Model/Generated/FullHash.lean` (namespace `Sketchnu.SrcHash`).

Typing follows the explicit @njit signatures.  `uint64(len(key))` ↦ `key.length.toUInt64`; `tail[i]` ↦ `tail.getD i 0` (an out-of-bounds
read cannot be expressed — trusted); `key[a:]` ↦ `key.drop a.toNat`; `np.frombuffer(key[: n], np.uint64)` ↦ `frombuffer64 (key.take n.toNat)`
(little-endian words, `Model/Hash.lean`); `for v in blocks` / `for i in range(nblocks)` ↦ `List.foldl`; an `if/elif` chain assigns the
variables that are live before it.  Arguments are converted to the callee's parameter types (`UInt8 → UInt64` etc.).

`Properties/FullHash.lean` proves the generated functions equal to `Impl.*` (hence, by C11, to the published algorithms) for every key
shorter than 2^64 (resp. 2^32) bytes and every seed.
"""
import ast
import os

from translate import TranslateError, REPO, GEN, _parse, _write_if_changed

TY = {"uint64": "UInt64", "uint32": "UInt32", "uint8": "UInt8"}
OPS = {ast.BitXor: "^^^", ast.Mult: "*", ast.RShift: ">>>", ast.LShift: "<<<", ast.Sub: "-", ast.Add: "+", ast.BitOr: "|||", ast.BitAnd: "&&&", ast.FloorDiv: "/"}
FUNCS = ["_xor_shiftl", "_fhmix64", "fasthash64", "fasthash32", "_xor32", "_shift32r", "_shift32l", "_rotl32", "_fmix32", "murmur3"]
LEAN_NAME = {"_xor_shiftl": "xor_shiftl", "_fhmix64": "fhmix64", "fasthash64": "fasthash64", "fasthash32": "fasthash32", "_xor32": "xor32", "_shift32r": "shift32r",
             "_shift32l": "shift32l", "_rotl32": "rotl32", "_fmix32": "fmix32", "murmur3": "murmur3"}


def _sig(fn):
    dec = [d for d in fn.decorator_list if isinstance(d, ast.Call) and ast.unparse(d.func) == "njit"]
    if len(dec) != 1 or not dec[0].args or not isinstance(dec[0].args[0], ast.Call):
        raise TranslateError(f"{fn.name}: no explicit @njit(signature)")
    sig = dec[0].args[0]

    def ty(n):
        u = ast.unparse(n)
        if u in TY:
            return TY[u]
        if u.endswith(('Bytes(types.uint8, 1, "C")', "Bytes(types.uint8, 1, 'C')", 'Bytes(uint8, 1, "C")', "Bytes(uint8, 1, 'C')")):
            return "Bytes"
        raise TranslateError(f"{fn.name}: unsupported type `{u}` in the signature")
    return ty(sig.func), [ty(a) for a in sig.args]


class H:
    def __init__(self, fn, sigs):
        self.fn, self.sigs = fn, sigs
        self.ret, ptys = sigs[fn.name]
        self.env = {a.arg: t for a, t in zip(fn.args.args, ptys)}

    def conv(self, e, have, want):
        if have == want or want is None:
            return e
        if have == "lit":
            return f"({e} : {want})"
        pair = {("UInt8", "UInt64"): ".toUInt64", ("UInt8", "UInt32"): ".toUInt32", ("UInt32", "UInt64"): ".toUInt64", ("UInt64", "UInt32"): ".toUInt32"}
        if (have, want) in pair:
            return f"({e}){pair[(have, want)]}"
        raise TranslateError(f"{self.fn.name}: cannot convert {have} to {want} in `{e}`")

    def expr(self, n, want=None):
        """returns (lean, type); type 'lit' for a bare integer literal"""
        if isinstance(n, ast.Constant) and isinstance(n.value, int):
            return (str(n.value), "lit") if want is None else (f"({n.value} : {want})", want)
        if isinstance(n, ast.Name):
            if n.id not in self.env:
                raise TranslateError(f"{self.fn.name}: unknown name `{n.id}`")
            return n.id, self.env[n.id]
        if isinstance(n, ast.Subscript) and isinstance(n.value, ast.Name) and self.env.get(n.value.id) == "Bytes" and isinstance(n.slice, ast.Constant):
            return f"({n.value.id}.getD {n.slice.value} 0)", "UInt8"
        if isinstance(n, ast.Subscript) and isinstance(n.value, ast.Name) and self.env.get(n.value.id) in ("ListU64", "ListU32") and isinstance(n.slice, ast.Name):
            t = "UInt64" if self.env[n.value.id] == "ListU64" else "UInt32"
            return f"({n.value.id}.getD {n.slice.id} 0)", t
        if isinstance(n, ast.Call):
            f = ast.unparse(n.func)
            if f in TY and len(n.args) == 1:
                a = n.args[0]
                if isinstance(a, ast.Call) and ast.unparse(a.func) == "len" and isinstance(a.args[0], ast.Name) and self.env.get(a.args[0].id) == "Bytes":
                    return f"{a.args[0].id}.length.to{TY[f]}", TY[f]
                e, t = self.expr(a)
                return self.conv(e, t, TY[f]), TY[f]
            if f in self.sigs:
                ret, ptys = self.sigs[f]
                if len(ptys) != len(n.args):
                    raise TranslateError(f"{self.fn.name}: call `{ast.unparse(n)}`: arity")
                args = []
                for a, pt in zip(n.args, ptys):
                    e, t = self.expr(a)
                    args.append(self.conv(e, t, pt))
                return "(" + " ".join([LEAN_NAME[f]] + [x if x.replace("_", "").isalnum() else f"({x})" for x in args]) + ")", ret
            raise TranslateError(f"{self.fn.name}: unsupported call `{ast.unparse(n)}`")
        if isinstance(n, ast.BinOp) and type(n.op) in OPS:
            l, lt = self.expr(n.left)
            r, rt = self.expr(n.right)
            t = lt if lt != "lit" else rt
            if t == "lit":
                t = want or "UInt64"
            if lt not in ("lit", t) or rt not in ("lit", t):
                raise TranslateError(f"{self.fn.name}: operands of `{ast.unparse(n)}` have types {lt} and {rt} (Numba would promote; not modelled)")
            return f"({self.conv(l, lt, t)} {OPS[type(n.op)]} {self.conv(r, rt, t)})", t
        raise TranslateError(f"{self.fn.name}: unsupported expression `{ast.unparse(n)}`")

    def test(self, n):
        if isinstance(n, ast.Compare) and len(n.ops) == 1 and isinstance(n.ops[0], (ast.Eq, ast.Gt)):
            l, lt = self.expr(n.left)
            r, rt = self.expr(n.comparators[0])
            t = lt if lt != "lit" else rt
            op = "=" if isinstance(n.ops[0], ast.Eq) else ">"
            return f"{self.conv(l, lt, t)} {op} {self.conv(r, rt, t)}"
        raise TranslateError(f"{self.fn.name}: unsupported test `{ast.unparse(n)}`")

    @staticmethod
    def assigned(stmts):
        out = []
        for s in stmts:
            for x in ast.walk(s):
                t = None
                if isinstance(x, ast.Assign) and isinstance(x.targets[0], ast.Name):
                    t = x.targets[0].id
                elif isinstance(x, ast.AugAssign) and isinstance(x.target, ast.Name):
                    t = x.target.id
                if t and t not in out:
                    out.append(t)
        return out

    def tup(self, names):
        return names[0] if len(names) == 1 else "(" + ", ".join(names) + ")"

    def bind(self, names, src, ind):
        if len(names) == 1:
            return f"{ind}let {names[0]} := {src}\n"
        return "".join(f"{ind}let {nm} := {src}{'.2' * i}{'.1' if i < len(names) - 1 else ''}\n" for i, nm in enumerate(names))

    def block(self, stmts, ind, outs=None):
        code = ""
        for idx, s in enumerate(stmts):
            if isinstance(s, ast.Expr) and isinstance(s.value, ast.Constant):
                continue
            if isinstance(s, ast.Return):
                if outs is not None:
                    raise TranslateError(f"{self.fn.name}: return inside a branch")
                e, t = self.expr(s.value, self.ret)
                return code + ind + self.conv(e, t, self.ret) + "\n"
            if isinstance(s, ast.Assign) and len(s.targets) == 1 and isinstance(s.targets[0], ast.Name):
                name = s.targets[0].id
                v = s.value
                u = ast.unparse(v)
                # bytes / word-list forms
                if isinstance(v, ast.Call) and ast.unparse(v.func) == "np.frombuffer" and len(v.args) == 2 and isinstance(v.args[0], ast.Subscript) \
                        and isinstance(v.args[0].slice, ast.Slice) and v.args[0].slice.lower is None and v.args[0].slice.step is None:
                    key = ast.unparse(v.args[0].value)
                    up, upt = self.expr(v.args[0].slice.upper)
                    w = ast.unparse(v.args[1]).split(".")[-1]
                    if self.env.get(key) != "Bytes" or w not in ("uint64", "uint32"):
                        raise TranslateError(f"{self.fn.name}: unsupported `{u}`")
                    code += f"{ind}let {name} := frombuffer{w[4:]} ({key}.take ({up}).toNat)\n"
                    self.env[name] = "ListU64" if w == "uint64" else "ListU32"
                    continue
                if isinstance(v, ast.Subscript) and isinstance(v.slice, ast.Slice) and v.slice.upper is None and v.slice.step is None and self.env.get(ast.unparse(v.value)) == "Bytes":
                    lo, _ = self.expr(v.slice.lower)
                    code += f"{ind}let {name} := {ast.unparse(v.value)}.drop ({lo}).toNat\n"
                    self.env[name] = "Bytes"
                    continue
                want = self.env.get(name)
                e, t = self.expr(v, want)
                if t == "lit":
                    raise TranslateError(f"{self.fn.name}: untyped literal assigned to `{name}`")
                if want is not None and t != want:
                    raise TranslateError(f"{self.fn.name}: `{name}` changes type from {want} to {t} (Numba would unify; not modelled)")
                self.env[name] = t
                code += f"{ind}let {name} : {t} := {e}\n"
                continue
            if isinstance(s, ast.AugAssign) and isinstance(s.target, ast.Name) and type(s.op) in OPS:
                name = s.target.id
                t = self.env[name]
                e, et = self.expr(s.value)
                code += f"{ind}let {name} : {t} := {name} {OPS[type(s.op)]} {self.conv(e, et, t)}\n"
                continue
            if isinstance(s, ast.If):
                # collect the if/elif chain
                chain, node = [], s
                while True:
                    chain.append((node.test, node.body))
                    if len(node.orelse) == 1 and isinstance(node.orelse[0], ast.If):
                        node = node.orelse[0]
                    else:
                        tail_else = node.orelse
                        break
                live = [x for x in self.assigned([s]) if x in self.env]
                if not live:
                    raise TranslateError(f"{self.fn.name}: `if {ast.unparse(s.test)}` has no effect on live variables")
                tmp = f"t_{idx}_{len(ind)}"
                code += f"{ind}let {tmp} :=\n"
                saved = dict(self.env)
                first = True
                for tst, body in chain:
                    self.env = dict(saved)
                    code += f"{ind}  {'if' if first else 'else if'} {self.test(tst)} then\n{self.block(body, ind + '    ', outs=live)}"
                    first = False
                self.env = dict(saved)
                code += f"{ind}  else\n" + (self.block(tail_else, ind + "    ", outs=live) if tail_else else f"{ind}    {self.tup(live)}\n")
                self.env = dict(saved)
                code += self.bind(live, tmp, ind)
                continue
            if isinstance(s, ast.For) and isinstance(s.target, ast.Name):
                live = [x for x in self.assigned(s.body) if x in self.env]
                if not live:
                    raise TranslateError(f"{self.fn.name}: loop without effect")
                v = s.target.id
                saved = dict(self.env)
                if isinstance(s.iter, ast.Name) and self.env.get(s.iter.id) in ("ListU64", "ListU32"):
                    self.env[v] = "UInt64" if self.env[s.iter.id] == "ListU64" else "UInt32"
                    src = s.iter.id
                elif isinstance(s.iter, ast.Call) and ast.unparse(s.iter.func) == "range" and len(s.iter.args) == 1:
                    e, t = self.expr(s.iter.args[0])
                    self.env[v] = "Nat"
                    src = f"(List.range ({e}).toNat)"
                else:
                    raise TranslateError(f"{self.fn.name}: unsupported loop `for {v} in {ast.unparse(s.iter)}`")
                st = f"st_{idx}"
                body = self.bind(live, st, ind + "    ") + self.block(s.body, ind + "    ", outs=live)
                self.env = saved
                tmp = f"t_{idx}_{len(ind)}"
                code += f"{ind}let {tmp} := {src}.foldl (fun {st} {v} =>\n{body}{ind}  ) {self.tup(live)}\n" + self.bind(live, tmp, ind)
                continue
            raise TranslateError(f"{self.fn.name}: unsupported statement `{ast.unparse(s)[:60]}`")
        if outs is None:
            raise TranslateError(f"{self.fn.name}: falls off the end")
        return code + ind + self.tup(outs) + "\n"


def render():
    src, tree = _parse(os.path.join(REPO, "sketchnu", "hashes.py"))
    fns = {n.name: n for n in tree.body if isinstance(n, ast.FunctionDef)}
    L = ["/- GENERATED by harness/hashtr.py from /repo/sketchnu/hashes.py — do not edit.  The hash functions, whole, over machine words. -/",
         "import Model.Hash", "namespace Sketchnu.SrcHash", "open Sketchnu", ""]
    errors = []
    sigs = {}
    for name in FUNCS:
        try:
            if name not in fns:
                raise TranslateError(f"function {name} not found")
            sigs[name] = _sig(fns[name])
            h = H(fns[name], sigs)
            body = h.block(list(fns[name].body), "  ")
            ret, ptys = sigs[name]
            params = " ".join(f"({a.arg} : {'Bytes' if t == 'Bytes' else t})" for a, t in zip(fns[name].args.args, ptys))
            L.append(f"/-- `hashes.{name}` — the whole function -/\ndef {LEAN_NAME[name]} {params} : {ret} :=\n{body}")
        except TranslateError as e:
            errors.append(f"hash {name}: {e}")
            sigs.pop(name, None)
            L.append(f"-- TRANSLATION FAILED for {name}: {e}\n-- (no definition emitted: the obligations in Properties/FullHash.lean that mention it no longer check)\n")
    L.append("end Sketchnu.SrcHash")
    return "\n".join(L) + "\n", errors


def run():
    text, errors = render()
    changed = ["FullHash.lean"] if _write_if_changed(os.path.join(GEN, "FullHash.lean"), text) else []
    return changed, errors


if __name__ == "__main__":
    t, e = render()
    print(t)
    print(e)
