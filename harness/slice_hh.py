"""
slice_hh.py — heavy hitters (C03, C04, C13; reused by C12, C18, C10).

Case = history of add / update / dict / add_ngram / merge / save-load / query / getitem on up to 4
real HeavyHitters sketches (widths 1-16, depths 1-4, max_key_len 1-16, NUL- and length-sensitive key
alphabet, multiplicities incl. 0 and ≥ 2^32).  The Lean model works on key *identities* (first
max_key_len bytes); the harness maps the real cells (padded bytes, length) back to identities and
checks that the padding is clean.  Columns are observed from a probe sketch.
"""
import os
import struct
import tempfile
import time

from core import Session
from real import CAP, Probe, hexk, key_alphabet, np, sk, value_near


def windows(key, n):
    if len(key) <= n:
        return [key]
    return [key[i:i + n] for i in range(len(key) - (n - 1))]


def gen_case(rng, tier, small=False):
    width = rng.choice([1, 1, 1, 2, 2, 3, 4, 5, 8, 16])
    depth = rng.choice([1, 1, 2, 2, 3, 4])
    mkl = rng.choice([1, 2, 3, 4, 4, 5, 8, 16])
    nkeys = rng.choice([2, 3, 4, 5, 7, 10])
    keys = key_alphabet(rng, nkeys, max_key_len=mkl)
    nsk = rng.choice([1, 1, 2, 2, 3, 4])
    phi = rng.choice([None, None, 0.5, 0.1, 0.9, 1.0, 0.01])
    nops = rng.randrange(4, 30 if tier == "quick" else 60)
    ops = []
    for _ in range(nops):
        x = rng.random()
        s = rng.randrange(nsk)
        if x < 0.45:
            ops.append(["add", s, rng.randrange(nkeys), None])
        elif x < 0.58 and nsk > 1:
            ops.append(["merge", s, rng.choice([t for t in range(nsk) if t != s])])
        elif x < 0.64:
            ops.append(["update_list", s, [rng.randrange(nkeys) for _ in range(rng.randrange(0, 6))]])
        elif x < 0.70:
            ops.append(["update_dict", s, [[k, None] for k in rng.sample(range(nkeys), rng.randrange(0, min(4, nkeys) + 1))]])
        elif x < 0.76:
            k = rng.randrange(nkeys)
            ops.append(["ngram", s, k, rng.choice([1, 2, 3, max(len(keys[k]), 1), len(keys[k]) + 1, 255, 256, 257, 65536, 2**32 + 1])])
        elif x < 0.80:
            ops.append(["saveload", s])
        else:
            kk = rng.choice([1, 2, 3, None, None, 5])
            thr = rng.choice([None, None, 0, 1, 1, 2, rng.randrange(0, 20), CAP, "same", "same"])
            ops.append(["query", s, kk, thr])
    return {"depth": depth, "width": width, "mkl": mkl, "phi": phi, "keys": [k.hex() for k in keys], "nsk": nsk, "ops": ops}


class HHRun:
    def __init__(self, case, rng):
        self.case = case
        self.rng = rng
        self.depth, self.width, self.mkl = case["depth"], case["width"], case["mkl"]
        self.raw = [bytes.fromhex(h) for h in case["keys"]]
        self.probe = Probe("hh", self.depth, self.width, max_key_len=self.mkl)
        self.ident = [b""]  # kid -> truncated key ; kid 0 is the empty key (content of an empty cell)
        self.kid = {b"": 0}
        self.probe.cols(b"")
        self.fails = []
        self.ops = []      # driver ops
        self.resolved = []
        self.stats = {"replace": 0, "shared": False, "queries": 0, "cache_hit": 0, "cache_miss": 0, "sat": 0}
        s = sk()
        kw = {} if case["phi"] is None else {"phi": case["phi"]}
        # "handles" cases (about one in five, decided by the case itself so that a replay takes the same path): every sketch lives in shared memory
        # and has a second handle attached to its block, the way parallel_add uses them; every WRITE goes through that handle, every READ (query,
        # hh[key], dumps) through the owner — the owner must answer from the block, not from what it remembers of its own calls
        self.handles = case.get("handles", (len(case["ops"]) + 3 * self.width + self.depth) % 5 == 0)
        self.kw = kw
        if self.handles:
            hhmod = s.heavyhitters if hasattr(s, "heavyhitters") else __import__("sketchnu.heavyhitters", fromlist=["x"])
            if getattr(hhmod.sleep, "__name__", "") == "sleep":
                hhmod.sleep = lambda s_: None  # the 0.25 s pause in __del__ (test-side patch, this slice only; C16 keeps the original)
            self.hs = [s.HeavyHitters(self.width, self.depth, self.mkl, shared_memory=True, **kw) for _ in range(case["nsk"])]
            self.views = [self._view(o) for o in self.hs]
        else:
            self.hs = [s.HeavyHitters(self.width, self.depth, self.mkl, **kw) for _ in range(case["nsk"])]
            self.views = None
        self.phi_bits = struct.unpack("<Q", struct.pack("<d", float(self.hs[0].phi)))[0]
        self.last_thr = [None] * case["nsk"]
        nk = lambda: {"true": {}, "load": [[0] * self.width for _ in range(self.depth)], "N": 0}
        self.truth = [nk() for _ in self.hs]
        self.model_cache = [(0, 0)] * case["nsk"]  # (n_added_sort, thr_sort) as the code keeps them

    def _view(self, owner):
        v = sk().HeavyHitters(self.width, self.depth, self.mkl, **self.kw)
        v.attach_existing_shm(owner.shm.name)
        return v

    def w(self, i):
        """the handle writes to sketch i go through"""
        return self.views[i] if self.views is not None else self.hs[i]

    def close(self):
        if self.views is not None:
            import gc
            while self.views:
                v = self.views.pop()
                del v
            self.views = None
            gc.collect()
            while self.hs:
                o = self.hs.pop()
                del o
            gc.collect()

    def _kid(self, key):
        t = key[: self.mkl]
        if t not in self.kid:
            self.kid[t] = len(self.ident)
            self.ident.append(t)
            self.probe.cols(t)
        return self.kid[t]

    def cols(self, kid):
        return self.probe.cols(self.ident[kid])

    def dump(self, i):
        h = self.hs[i]
        rows = []
        for r in range(self.depth):
            cells = []
            for c in range(self.width):
                L = int(h.key_lens[r, c])
                kb = bytes(h.lhh[r, c, :L])
                if any(h.lhh[r, c, L:]):
                    self.fails.append({"what": f"heavy-hitter cell ({r},{c}) has non-zero padding beyond its length", "case": self.replay_case()})
                kid = self.kid.get(kb, None)
                cells.append(f"{kid if kid is not None else '?'}:{int(h.lhh_count[r, c])}")
            rows.append(" ".join(cells))
        return " / ".join(rows) + f" | {int(h.n_added())} {int(h.n_records())}"

    def _tadd(self, i, kid, v):
        t = self.truth[i]
        t["true"][kid] = t["true"].get(kid, 0) + v
        t["N"] += v
        for r, c in enumerate(self.cols(kid)):
            t["load"][r][c] += v

    def _value(self, i, kid):
        cur = int(self.hs[i][self.ident[kid]])
        return max(0, self.rng.choice([0, 1, 1, 1, 2, 3, 5, self.rng.randrange(1, 40), cur, cur + 1, max(cur - 1, 0)] +
                               ([CAP - cur, CAP - cur - 1, CAP - cur + 1, CAP, 2**32, 2**33 + 5, CAP - 2] if self.rng.random() < 0.25 else [])))

    def _add(self, i, rawkey, v, via="add"):
        kid = self._kid(rawkey)
        if via == "add":
            self.w(i).add(rawkey, v)
        self._tadd(i, kid, v)
        self.ops.append([f"hh.add {i} {kid} {v}", None, "op"])
        return kid

    def run(self):
        for op in self.case["ops"]:
            k = op[0]
            if k == "add":
                _, i, ki, v = op
                raw = self.raw[ki]
                kid = self._kid(raw)
                if v is None:
                    v = self._value(i, kid)
                self.resolved.append(["add", i, ki, v])
                self._add(i, raw, v)
                self.ops.append([f"hh.dump {i}", self.dump(i), "exact"])
            elif k == "update_list":
                _, i, kis = op
                self.resolved.append(op)
                self.w(i).update([self.raw[j] for j in kis])
                for j in kis:
                    self._add(i, self.raw[j], 1, via="none")
                self.ops.append([f"hh.dump {i}", self.dump(i), "exact"])
            elif k == "update_dict":
                _, i, items = op
                d = {}
                for j, v in items:
                    if v is None:
                        v = self._value(i, self._kid(self.raw[j]))
                    d[j] = v
                self.resolved.append(["update_dict", i, [[j, v] for j, v in d.items()]])
                self.w(i).update({self.raw[j]: v for j, v in d.items()})
                # NB: two raw keys with the same dict position order
                for j, v in d.items():
                    self._add(i, self.raw[j], v, via="none")
                self.ops.append([f"hh.dump {i}", self.dump(i), "exact"])
            elif k == "ngram":
                _, i, ki, n = op
                self.resolved.append(op)
                self.w(i).add_ngram(self.raw[ki], n)
                for w in windows(self.raw[ki], n):
                    self._add(i, w, 1, via="none")
                self.ops.append([f"hh.dump {i}", self.dump(i), "exact"])
            elif k == "merge":
                _, a, b = op
                self.resolved.append(op)
                before_b = self.dump(b)
                self.w(a).merge(self.w(b))
                ta, tb = self.truth[a], self.truth[b]
                for kid, v in tb["true"].items():
                    ta["true"][kid] = ta["true"].get(kid, 0) + v
                ta["N"] += tb["N"]
                ta["load"] = [[x + y for x, y in zip(ra, rb)] for ra, rb in zip(ta["load"], tb["load"])]
                self.ops.append([f"hh.merge {a} {b}", None, "op"])
                self.ops.append([f"hh.dump {a}", self.dump(a), "exact"])
                if self.dump(b) != before_b:
                    self.fails.append({"what": "HeavyHitters.merge modified its argument", "case": self.replay_case()})
            elif k == "saveload":
                _, i = op
                self.resolved.append(op)
                before = self.dump(i)
                fd, path = tempfile.mkstemp(suffix=".npz", dir="/dev/shm" if os.path.isdir("/dev/shm") else None)
                os.close(fd)
                try:
                    self.hs[i].save(path)
                    if self.views is not None:
                        self.views[i] = None
                        self.hs[i] = None
                        import gc
                        gc.collect()
                        self.hs[i] = sk().HeavyHitters.load(path, shared_memory=True)
                        self.views[i] = self._view(self.hs[i])
                    else:
                        self.hs[i] = sk().HeavyHitters.load(path)
                finally:
                    os.unlink(path)
                if self.dump(i) != before:
                    self.fails.append({"what": "save/load changed the heavy-hitter state", "case": self.replay_case()})
                # load() ends with generate_candidate_set() at the default threshold
                self.ops.append([f"hh.defthr {i} {self.phi_bits:016x}", None, "aux"])
                dthr = int(float(self.hs[i].phi) * int(self.hs[i].n_added()))
                self.ops[-1][1] = str(dthr)
                self.ops[-1][2] = "defthr"
                self.ops.append([f"hh.regen {i} {dthr}", None, "op"])
                self.last_thr[i] = None
            elif k == "query":
                _, i, kk, thr = op
                if thr == "same":
                    thr = self.last_thr[i]
                self.resolved.append(["query", i, kk, thr])
                self.last_thr[i] = thr
                self._query(i, kk, thr)
            # hh[k] for every identity after every op: C03 / C04 oracles on real values
            self._check_getitem(op[1])
        return self

    def _query(self, i, kk, thr):
        h = self.hs[i]
        n_added = int(h.n_added())
        dthr = int(float(h.phi) * n_added)
        if thr is None:
            self.ops.append([f"hh.defthr {i} {self.phi_bits:016x}", str(dthr), "defthr"])
            tval = dthr
        else:
            tval = thr
        # cache path bookkeeping (for evidence)
        try:  # evidence only: the attributes are internals and may not exist under a change
            miss = int(h.n_added_sort) < n_added or int(h.threshold_sort) != tval
        except Exception:
            miss = True
        self.stats["cache_miss" if miss else "cache_hit"] += 1
        self.stats["queries"] += 1
        ans = h.query(kk, thr) if kk is not None else h.query(None, thr)
        pairs = [(self.kid.get(kb, "?"), int(c)) for kb, c in ans]
        s = " ".join(f"{a}:{b}" for a, b in pairs)
        kks = "inf" if kk is None else str(kk)
        self.ops.append([f"hh.query {i} {kks} {tval}", s, "exact"])
        self.ops.append([f"hh.fresh {i} {kks} {tval}", s, "fresh"])
        # ---- python oracles (C13)
        cnts = [c for _, c in ans]
        keys = [kb for kb, _ in ans]
        w = f"query({kk},{thr}) on sketch {i}"
        if kk is not None and len(ans) > kk:
            self._fail("C13", f"{w} returned {len(ans)} > k pairs")
        if len(set(keys)) != len(keys):
            self._fail("C13", f"{w} returned duplicate keys {keys}")
        if any(a < b for a, b in zip(cnts, cnts[1:])):
            self._fail("C13", f"{w} counts not non-increasing: {cnts}")
        for kb, c in ans:
            try:
                got_c = int(h[kb])
            except Exception as e:  # e.g. a reported key longer than max_key_len: it cannot be a key of this sketch at all
                got_c = None
                self._fail("C13", f"{w}: reported key {kb!r} is not a key of this sketch (hh[key] raises {type(e).__name__})")
                self._fail("C03", f"{w}: reported ({kb!r}, {c}) but hh[{kb!r}] raises {type(e).__name__}: the key was never added to this sketch")
            if got_c is not None and got_c != c:
                self._fail("C13", f"{w}: reported count {c} != hh[{kb!r}] = {got_c}")
            if c < tval:
                self._fail("C13", f"{w}: reported count {c} below threshold {tval}")
            kid = self.kid.get(kb)
            tr = self.truth[i]["true"].get(kid, 0) if kid is not None else 0
            if c > tr:
                self._fail("C03", f"{w}: reported ({kb!r}, {c}) but the key's true count is {tr}")
        # freshness oracle: a freshly loaded copy answers the same
        fd, path = tempfile.mkstemp(suffix=".npz", dir="/dev/shm" if os.path.isdir("/dev/shm") else None)
        os.close(fd)
        try:
            h.save(path)
            h2 = sk().HeavyHitters.load(path)
        finally:
            os.unlink(path)
        ans2 = h2.query(kk, thr) if kk is not None else h2.query(None, thr)
        if [(a, int(b)) for a, b in ans2] != [(a, int(b)) for a, b in ans]:
            self._fail("C13", f"{w}: answer {ans} differs from a freshly loaded copy's {ans2} (stale cache?)")
        full = h2.query(None, thr)
        if kk is not None and [int(c) for _, c in full][:kk] != cnts:
            self._fail("C13", f"{w}: counts are not the first k of the unbounded answer")
        # completeness: every identity with hh >= max(thr,1) is in the unbounded answer
        fullkeys = {kb for kb, _ in full}
        for kid, kb in enumerate(self.ident):
            if self.truth[i]["true"].get(kid, 0) > 0 and int(h[kb]) >= max(tval, 1) and kb not in fullkeys:
                self._fail("C13", f"{w}: key {kb!r} with hh={int(h[kb])} ≥ threshold missing from the unbounded answer")

    def _fail(self, pid, what):
        self.fails.append({"pid": pid, "what": f"{pid} {what}", "case": self.replay_case()})

    def _check_getitem(self, i):
        h = self.hs[i]
        t = self.truth[i]
        nosat = t["N"] <= CAP
        for kid, kb in enumerate(self.ident):
            got = int(h[kb])
            f = t["true"].get(kid, 0)
            if got > f:
                self._fail("C03", f"hh[{kb!r}] = {got} exceeds the true count {f} (sketch {i})")
            if nosat:
                cols = self.cols(kid)
                bound = max(2 * f - t["load"][r][cols[r]] for r in range(self.depth))
                if bound > 0 and got < bound:
                    self._fail("C04", f"hh[{kb!r}] = {got} below max_r(2f - W_r) = {bound} (f={f}, sketch {i})")
                if 2 * f > t["N"] and f > 0:
                    ans = h.query(1, 2 * f - t["N"])
                    if not ans or ans[0][0] != kb or int(ans[0][1]) < 2 * f - t["N"]:
                        self._fail("C04", f"majority key {kb!r} (f={f} of N={t['N']}) not reported first by query(1, 2f-N): {ans}")
                    # the query above changed the cache; mirror it in the model
                    s = " ".join(f"{self.kid.get(a, '?')}:{int(b)}" for a, b in ans)
                    self.ops.append([f"hh.query {i} 1 {2 * f - t['N']}", s, "exact"])
        # over-long lookups whose length wraps in 8 bits (256 + L, 512 + L bytes, L < max_key_len) and whose first L bytes are a stored key: the key's
        # identity is its first max_key_len bytes; the lookup may refuse (the unchanged code raises ValueError) but may not answer for another key
        # (in-memory sketches only: an exception raised inside a Numba kernel keeps its array arguments referenced, and a shared block then cannot be closed)
        if len(self.ops) % 3 == 0 and not self.handles:
            for kid0, kb0 in list(enumerate(self.ident))[:4]:
                if len(kb0) >= self.mkl or t["true"].get(kid0, 0) == 0:
                    continue
                for extra in (256, 512):
                    probe = kb0 + b"x" * extra
                    ident = probe[: self.mkl]
                    f_id = t["true"].get(self.kid.get(ident, -1), 0)
                    try:
                        got = int(h[probe])
                    except Exception:
                        self.stats["overlong_refused"] = self.stats.get("overlong_refused", 0) + 1
                        continue
                    self.stats["overlong_answered"] = self.stats.get("overlong_answered", 0) + 1
                    if got > f_id:
                        self._fail("C03", f"hh[key] for a {len(probe)}-byte key starting with the stored key {kb0!r} = {got}, but the key's identity {ident!r} has true count {f_id} (sketch {i})")
        self.ops.append([f"hh.get {i} {self.rng.randrange(len(self.ident))}", None, "aux"])
        kid = int(self.ops[-1][0].split()[-1])
        self.ops[-1][1] = str(int(h[self.ident[kid]]))
        self.ops[-1][2] = "exact"

    def replay_case(self):
        c = dict(self.case)
        c["handles"] = bool(self.handles)
        c["ops"] = self.resolved + self.case["ops"][len(self.resolved):]
        return c

    def driver_ops(self):
        pre = [[f"cfg {self.depth} {self.width}", None, "setup"]]
        for kid, kb in enumerate(self.ident):
            pre.append([f"key {kid} {hexk(kb)} " + " ".join(map(str, self.cols(kid))), None, "setup"])
        for i in range(len(self.hs)):
            pre.append([f"hh.new {i}", None, "setup"])
        # final oracle cross-check: Lean trueCount / cellLoad vs Python truth
        post = []
        for i in range(len(self.hs)):
            t = self.truth[i]
            for kid in range(len(self.ident)):
                cols = self.cols(kid)
                loads = " ".join(str(t["load"][r][cols[r]]) for r in range(self.depth))
                post.append([f"hh.oracle {i} {kid}", f"{t['true'].get(kid, 0)} | {loads} | {t['N']}", "ocross"])
        return pre + self.ops + post

    def nontrivial(self):
        seen = {}
        shared = False
        for kid in range(len(self.ident)):
            if not any(t["true"].get(kid, 0) for t in self.truth):
                continue
            for r, c in enumerate(self.cols(kid)):
                if (r, c) in seen:
                    shared = True
                seen[(r, c)] = kid
        return shared


def boundary_cases(rng, tier):
    """default-threshold rounding boundaries: widths w and totals n = m·w for which the float product (1.0 / w) · n lands just BELOW m, so that
    floor(phi · n_added) = m − 1 although n_added // width = m; a key with count exactly m − 1 decides.  Queried before and after save/load
    (a loaded sketch has an explicit phi, the original the default one)."""
    out = []
    ws = [w for w in range(2, 200) if any((1.0 / w) * (m * w) < m for m in range(2, 12))]
    for w in rng.sample(ws, min(len(ws), 2 if tier == "quick" else 8)):
        m = rng.choice([m for m in range(2, 12) if (1.0 / w) * (m * w) < m])
        n = m * w
        heavy = n - (m - 1) - m
        if heavy <= m:
            continue
        keys = [b"hv", b"r1", b"r2"]
        ops = [["add", 0, 0, heavy], ["add", 0, 1, m - 1], ["add", 0, 2, m], ["query", 0, None, None], ["query", 0, 2, None], ["saveload", 0],
               ["query", 0, None, None], ["query", 0, None, "same"], ["add", 0, 0, w], ["query", 0, None, None]]
        out.append({"depth": rng.choice([1, 2]), "width": w, "mkl": 4, "phi": None, "keys": [k.hex() for k in keys], "nsk": 1, "ops": ops})
    return out


def run_slice(res, rng, tier, pids, n_cases, budget_s, label="hh"):
    t0 = time.time()
    sess = Session()
    n = 0
    corpus = boundary_cases(rng, tier)
    res.count("default_threshold_boundary_cases", len(corpus))
    while n < n_cases and time.time() - t0 < budget_s:
        case = corpus.pop() if corpus else gen_case(rng, tier)
        run = HHRun(case, rng).run()
        fails = [f for f in run.fails if f.get("pid", pids[0]) in pids or "pid" not in f]
        res.oracle_failures += fails[:3]
        sess.add_case(run.replay_case(), run.driver_ops())
        res.evaluations += 1
        n += 1
        if run.nontrivial():
            res.count("cases_with_shared_cell")
            res.nontrivial(run.replay_case())
        for k in ("queries", "cache_hit", "cache_miss", "overlong_refused", "overlong_answered"):
            res.count(k, run.stats.get(k, 0))
        res.sample({"slice": label, "depth": run.depth, "width": run.width, "max_key_len": run.mkl, "keys": run.case["keys"][:4],
                    "ops": run.resolved[:8], "handles": bool(run.handles)})
        if run.handles:
            res.count("cases_through_handles")
        run.close()
    mism, ncmp = sess.run()
    res.mismatches += mism
    res.traces += n
    res.count("comparisons", ncmp)
    res.slices[label] = {"cases": n, "comparisons": ncmp, "mismatches": len(mism), "wall_s": round(time.time() - t0, 1)}


def exhaustive_width1(res, rng, max_adds=5):
    """all orderings of small weighted multisets in a width-1 sketch, all 2-way partitions: C03/C04 oracles"""
    from itertools import product

    s = sk()
    t0 = time.time()
    keys = [b"a", b"a\0", b"\0"]
    n = 0
    for L in range(1, max_adds + 1):
        for seq in product(range(3), repeat=L):
            for wts in ([1] * L, [(j % 3) + 1 for j in range(L)]):
                for mask in ({0, (1 << L) - 1, rng.randrange(1 << L)}):
                    a, b = s.HeavyHitters(1, 1, 4), s.HeavyHitters(1, 1, 4)
                    f = [0, 0, 0]
                    for j, (k, w) in enumerate(zip(seq, wts)):
                        (a if (mask >> j) & 1 else b).add(keys[k], w)
                        f[k] += w
                    a.merge(b)
                    N = sum(f)
                    n += 1
                    for k in range(3):
                        got = int(a[keys[k]])
                        if got > f[k]:
                            res.oracle_failures.append({"pid": "C03", "what": f"C03 width-1: hh[{keys[k]!r}]={got} > true {f[k]} for sequence {seq} weights {wts} mask {mask}",
                                                        "case": {"seq": seq, "wts": wts, "mask": mask}})
                        if got < 2 * f[k] - N:
                            res.oracle_failures.append({"pid": "C04", "what": f"C04 width-1: hh[{keys[k]!r}]={got} < 2f-N={2*f[k]-N} for sequence {seq} weights {wts} mask {mask}",
                                                        "case": {"seq": seq, "wts": wts, "mask": mask}})
    res.evaluations += n
    res.count("exhaustive_width1_runs", n)
    res.nontrivial(["hh-width1", n])
    res.slices["hh-width1-exhaustive"] = {"runs": n, "wall_s": round(time.time() - t0, 1)}
