"""fresh_load.py — run in a NEW interpreter by slice_misc.persist_fresh_process: loads the files named in a JSON manifest (in the order given) with the
loaders named there and prints, per file, the public attributes and the answers to the listed queries.  Nothing else is created in this process
before the loads, so whatever a loaded sketch needs must come from the file."""
import json
import struct
import sys
import warnings

warnings.simplefilter("ignore")
man = json.load(open(sys.argv[1]))
sys.path.insert(0, man["repo"])
import numpy as np  # noqa: E402
import sketchnu  # noqa: E402

assert sketchnu.__file__.startswith(man["repo"]), sketchnu.__file__
PUBLIC = ("width", "depth", "max_count", "num_reserved", "base", "p", "seed", "phi", "max_key_len", "uint_maxval", "m", "alpha", "threshold")
loaders = {"linear": sketchnu.CountMinLinear.load, "log16": sketchnu.CountMinLog16.load, "log8": sketchnu.CountMinLog8.load,
           "hh": sketchnu.HeavyHitters.load, "hll": sketchnu.HyperLogLog.load, "any": sketchnu.load}


def fb(x):
    return "%016x" % struct.unpack("<Q", struct.pack("<d", float(x)))[0]


out = []
for item in man["files"]:
    rec = {"id": item["id"]}
    try:
        o = loaders[item["loader"]](item["path"], shared_memory=item["shm"])
        rec["class"] = type(o).__name__
        rec["public"] = {a: (type(getattr(o, a)).__name__, repr(getattr(o, a))) for a in PUBLIC if hasattr(o, a)}
        st = {}
        for n in ("cms", "registers", "lhh", "lhh_count", "key_lens", "n_added_records"):
            if hasattr(o, n):
                st[n] = np.array(getattr(o, n)).tolist()
        rec["state"] = st
        if item["kind"] == "hll":
            rec["answers"] = [fb(o.query())]
        else:
            rec["answers"] = [fb(o[bytes.fromhex(k)]) for k in item["keys"]]
            rec["n"] = [int(o.n_added()), int(o.n_records())]
        if item["kind"] == "hh":
            rec["top"] = [[k.hex(), int(c)] for k, c in o.query(5)]
        del o
    except Exception as e:  # reported to the parent, which decides
        rec["error"] = f"{type(e).__name__}: {e}"
    out.append(rec)
json.dump(out, open(sys.argv[2], "w"))
