#!/venv/bin/python
"""
check.py — entry point of every registered check.

    /venv/bin/python harness/check.py <Cxx> [--tier quick|thorough] [--replay FILE]

exit 0: the property held on everything explored (KNOWN-FINDING lines may be printed)
exit 1: `VIOLATION property=<id> replay=<path>` (ends with `no-failing-input-found` when a proof
        obligation or the correspondence broke but no failing input was found on the real code)
exit 2: harness problem (time-out, crash) — never reported as a violation
"""
import argparse
import json
import os
import sys
import traceback

sys.path.insert(0, os.path.dirname(os.path.abspath(__file__)))
import core  # noqa: E402


def main():
    ap = argparse.ArgumentParser()
    ap.add_argument("pid")
    ap.add_argument("--tier", default=os.environ.get("VERIF_TIER", "quick"))
    ap.add_argument("--replay")
    a = ap.parse_args()
    seed = int(os.environ.get("VERIF_SEED", "0") or 0)
    tier = a.tier if a.tier in ("quick", "thorough") else "quick"
    core.TIER = tier
    # watchdog: a check that runs away is a harness problem (exit 2), never a verdict
    import signal

    def _alarm(signum, frame):
        raise core.Timeout(f"overall time limit of the {tier} tier exceeded")

    signal.signal(signal.SIGALRM, _alarm)
    signal.alarm(int(os.environ.get("VERIF_TIME_LIMIT", 1500 if tier == "quick" else 3 * 3600)))
    import props  # noqa: E402

    fn = getattr(props, "check_" + a.pid, None)
    if fn is None:
        print(f"no check for {a.pid}", file=sys.stderr)
        return 2
    if a.replay:
        rp = getattr(props, "replay_" + a.pid, None) or props.replay_generic
        return rp(a.pid, json.load(open(a.replay)))
    try:
        return fn(tier, seed)
    except core.Timeout as e:
        print(f"[check] TIMEOUT {e}", file=sys.stderr)
        return 2
    except Exception:
        traceback.print_exc()
        return 2


if __name__ == "__main__":
    sys.exit(main())
