"""
real.py — adapters around the real sketchnu code (imported from SKETCHNU_REPO, default /repo)
and the input generators shared by the slices.
"""
import os
import sys
import time
import warnings

REPO = os.environ.get("SKETCHNU_REPO", "/repo")
_T_IMPORT = None
CAP = 2**32 - 1


def sk():
    """import sketchnu from REPO (costs ~18 s: eager numba compilation)"""
    global _T_IMPORT
    if "sketchnu" in sys.modules:
        return sys.modules["sketchnu"]
    t0 = time.time()
    warnings.simplefilter("ignore")
    if REPO not in sys.path:
        sys.path.insert(0, REPO)
    import sketchnu  # noqa

    assert os.path.abspath(sketchnu.__file__).startswith(os.path.abspath(REPO)), sketchnu.__file__
    _T_IMPORT = time.time() - t0
    return sketchnu


def np():
    import numpy

    return numpy


def hexk(b):
    return b.hex() if b else "-"


# ------------------------------------------------------------------ columns observed from a probe


class Probe:
    """column per row of each key, observed by adding the key once to an empty sketch of the same
    shape and kind and reading which cell became non-zero"""

    def __init__(self, kind, depth, width, **kw):
        self.kind, self.depth, self.width, self.kw = kind, depth, width, kw
        self.cache = {}

    def _fresh(self):
        s = sk()
        if self.kind == "linear":
            return s.CountMinLinear(self.width, self.depth)
        if self.kind == "log16":
            return s.CountMinLog16(self.width, self.depth, **self.kw)
        if self.kind == "log8":
            return s.CountMinLog8(self.width, self.depth, **self.kw)
        if self.kind == "hh":
            return s.HeavyHitters(self.width, self.depth, **self.kw)
        raise ValueError(self.kind)

    def cols(self, key):
        if key in self.cache:
            return self.cache[key]
        p = self._fresh()
        p.add(key, 1)
        tab = p.lhh_count if self.kind == "hh" else p.cms
        out = []
        for r in range(self.depth):
            nz = np().nonzero(tab[r])[0]
            if len(nz) != 1:
                raise AssertionError(f"probe: row {r} has {len(nz)} non-zero cells after one add of {key!r}")
            out.append(int(nz[0]))
        self.cache[key] = out
        return out


# ------------------------------------------------------------------ generators


def key_alphabet(rng, n, max_key_len=None):
    """keys incl. empty, all-NUL, NUL-suffixed pairs, high bytes, prefix-sharing long keys"""
    base = [b"", b"\0", b"\0\0", b"a", b"a\0", b"a\0\0", b"\x7f", b"\x80", b"\xff", b"ab", b"\xff\x00\x80"]
    if max_key_len:
        m = max_key_len
        stem = bytes(rng.randrange(256) for _ in range(m + 2))
        base += [stem[: m - 1] if m > 1 else b"z", stem[:m], stem[: m + 1], stem[: m + 2], b"\0" * m, b"\0" * (m + 1)]
    out = []
    seen = set()
    for k in base:
        if k not in seen:
            seen.add(k)
            out.append(k)
    while len(out) < n + len(base):
        L = rng.choice([1, 2, 3, 5, 7, 8, 9, 15, 16, 17, 24, 31, 33, 40, 64])
        k = bytes(rng.choice([0, 0x7F, 0x80, 0xFF, rng.randrange(256), rng.randrange(256)]) for _ in range(L))
        if k not in seen:
            seen.add(k)
            out.append(k)
    rng.shuffle(out)
    return out[:n]


def value_near(rng, cap=CAP, dist=None):
    """multiplicities: 0, 1, small, near the ceiling, beyond it, and 'distance to ceiling ±1'"""
    choices = [0, 1, 1, 1, 2, 3, rng.randrange(1, 50), rng.randrange(1, 1000), cap // 2 + 1, cap // 2 + 7, 3 * 10**9 if cap > 3 * 10**9 else cap - 2, cap - 3, cap - 1, cap, cap + 1, cap + 3,
               2**32, 2**40, rng.randrange(cap // 2, cap)]
    if dist is not None:
        choices += [max(dist - 1, 0), dist, dist + 1, dist, max(dist - 1, 0)]
    return rng.choice(choices)
