"""
kernels.py — a small translator from the decision-logic cores of the Numba kernels to Lean.

For each kernel listed in KERNELS it locates a statement block in /repo's current source (by
function name and a structural path), symbolically executes it over *scalar stand-ins* for the
subscripted array cells (`cms[row, col]` → `cms`, …), and emits a Lean definition
`Sketchnu.Src.<name>` in `lean/Model/Generated/Kernels.lean` that returns the final values of the
written cells as nested `if … then … else …` expressions over `Nat`.

`lean/Properties/Src.lean` then proves, for ALL inputs, that each generated definition equals the
corresponding hand-written model function (`nlz64`, the cell of `Lin.merge`, `HCell.add`,
`HCell.merge`, `RandState.next`, …) — so a change of the decision logic in the source breaks a
proof obligation of the properties that rest on it, not merely a test.

Supported Python subset (anything else raises TranslateError, i.e. "the translator can no longer
tie this kernel to the model"): assignments and augmented assignments to names or subscripted
arrays, `if/elif/else`, `return` inside `if` (early exit) and at the end, integer literals,
`uintN(...)`/`np.uintN(...)`/`float64`-free casts (dropped: the model is over Nat with the code's own
guards), `+ - * // % >> <<`, comparisons, `and`/`or`/`not`, `min`/`max`, and opaque boolean
tests declared per kernel.
"""
import ast
import os

from translate import TranslateError, REPO, GEN, _parse, _func, _write_if_changed

CASTS = {"uint8", "uint16", "uint32", "uint64", "int", "int64", "float64"}
BINOPS = {ast.Add: "+", ast.Sub: "-", ast.Mult: "*", ast.FloorDiv: "/", ast.Mod: "%", ast.RShift: ">>>", ast.LShift: "<<<", ast.BitAnd: "&&&"}
CMPOPS = {ast.Eq: "=", ast.NotEq: "≠", ast.Lt: "<", ast.LtE: "≤", ast.Gt: ">", ast.GtE: "≥"}


class Sym:
    """symbolic executor over a dict var -> Lean expression string"""

    def __init__(self, spec):
        self.spec = spec
        self.opaque = spec.get("opaque", {})  # normalised source text of a test -> Lean Bool parameter name

    def base(self, node):
        if isinstance(node, ast.Name):
            return node.id
        if isinstance(node, ast.Subscript):
            return self.base(node.value)
        if isinstance(node, ast.Attribute):
            return self.base(node.value) + "_" + node.attr
        raise TranslateError(f"unsupported assignment target {ast.dump(node)[:60]}")

    def expr(self, n, st):
        if isinstance(n, ast.Constant) and isinstance(n.value, int) and not isinstance(n.value, bool):
            return str(n.value)
        if isinstance(n, ast.Name):
            if n.id in st:
                return st[n.id]
            raise TranslateError(f"unknown name {n.id}")
        if isinstance(n, ast.Subscript):
            b = self.base(n)
            if b in st:
                return st[b]
            raise TranslateError(f"unknown array {b}")
        if isinstance(n, ast.Call):
            f = n.func
            name = f.id if isinstance(f, ast.Name) else (f.attr if isinstance(f, ast.Attribute) else None)
            if name in CASTS and len(n.args) == 1:
                return self.expr(n.args[0], st)
            if name in ("min", "max") and len(n.args) == 2:
                return f"({name} {self.expr(n.args[0], st)} {self.expr(n.args[1], st)})"
            if name in self.spec.get("calls", {}):
                # a call to another translated kernel: becomes a call of its Lean counterpart
                return "(" + self.spec["calls"][name] + " " + " ".join(self.expr(a, st) for a in n.args) + ")"
            raise TranslateError(f"unsupported call {ast.unparse(n)}")
        if isinstance(n, ast.BinOp) and type(n.op) in BINOPS:
            return f"({self.expr(n.left, st)} {BINOPS[type(n.op)]} {self.expr(n.right, st)})"
        raise TranslateError(f"unsupported expression {ast.unparse(n)}")

    def test(self, n, st):
        src = ast.unparse(n)
        if src in self.opaque:
            return f"({self.opaque[src]} = true)"
        if isinstance(n, ast.BoolOp):
            op = " ∧ " if isinstance(n.op, ast.And) else " ∨ "
            vals = list(n.values)
            parts = []
            # a declared opaque conjunction may be a prefix of a longer `and` chain
            for key, nm in self.opaque.items():
                ks = key.split(" and ")
                if isinstance(n.op, ast.And) and len(vals) > len(ks) and [ast.unparse(v) for v in vals[:len(ks)]] == ks:
                    parts.append(f"({nm} = true)")
                    vals = vals[len(ks):]
                    break
            parts += [self.test(v, st) for v in vals]
            return "(" + op.join(parts) + ")"
        if isinstance(n, ast.UnaryOp) and isinstance(n.op, ast.Not):
            return f"(¬ {self.test(n.operand, st)})"
        if isinstance(n, ast.Compare) and len(n.ops) == 1 and type(n.ops[0]) in CMPOPS:
            return f"({self.expr(n.left, st)} {CMPOPS[type(n.ops[0])]} {self.expr(n.comparators[0], st)})"
        raise TranslateError(f"unsupported test {src}")

    # ---- code generation: SSA-style `let` chains (no path explosion), early returns become if/else

    def _has_return(self, stmts):
        for s in stmts:
            for n in ast.walk(s):
                if isinstance(n, ast.Return):
                    return True
        return False

    def _fresh(self, base):
        self.counter = getattr(self, "counter", 0) + 1
        return f"{base}_{self.counter}"

    def _out(self, st, ret=None):
        outs = self.spec["outputs"]
        vals = [ret if o == "return" else st[o] for o in outs]
        return vals[0] if len(vals) == 1 else "(" + ", ".join(vals) + ")"

    def _pure(self, stmts, st):
        """symbolic execution of a return-free block by substitution: returns the new state"""
        st = dict(st)
        for s in stmts:
            if isinstance(s, ast.Expr) and isinstance(s.value, ast.Constant):
                continue
            if isinstance(s, ast.Assign) and len(s.targets) == 1 and not isinstance(s.targets[0], ast.Tuple):
                st[self.base(s.targets[0])] = self.expr(s.value, st)
            elif isinstance(s, ast.AugAssign) and type(s.op) in BINOPS:
                b = self.base(s.target)
                st[b] = f"({st[b]} {BINOPS[type(s.op)]} {self.expr(s.value, st)})"
            elif isinstance(s, ast.Assign) and len(s.targets) == 1 and isinstance(s.targets[0], ast.Tuple) and isinstance(s.value, ast.Call) \
                    and getattr(s.value.func, "id", None) in self.spec.get("tuple_calls", {}):
                outs = self.spec["tuple_calls"][s.value.func.id](self, s.value, st)
                for tgt, e in zip(s.targets[0].elts, outs):
                    st[self.base(tgt)] = e
            elif isinstance(s, ast.If):
                c = self.test(s.test, st)
                s1 = self._pure(s.body, st)
                s2 = self._pure(s.orelse, st)
                for v in set(s1) | set(s2):
                    a, b2 = s1.get(v, st.get(v)), s2.get(v, st.get(v))
                    if a is None or b2 is None:
                        continue  # branch-local temporary
                    st[v] = a if a == b2 else f"(if {c} then {a} else {b2})"
            else:
                raise TranslateError(f"unsupported statement {ast.unparse(s)[:60]}")
        return st

    def _seq(self, stmts, st):
        if not stmts:
            if "return" in self.spec["outputs"]:
                raise TranslateError("function may fall off the end without returning")
            return self._out(st)
        s, rest = stmts[0], stmts[1:]
        if isinstance(s, ast.Expr) and isinstance(s.value, ast.Constant):
            return self._seq(rest, st)  # docstring
        if isinstance(s, ast.Assign) and len(s.targets) == 1 and not isinstance(s.targets[0], ast.Tuple):
            st = dict(st)
            b = self.base(s.targets[0])
            nm = self._fresh(b)
            e = self.expr(s.value, st)
            st[b] = nm
            return f"let {nm} := {e}; {self._seq(rest, st)}"
        if isinstance(s, ast.Assign) and len(s.targets) == 1 and isinstance(s.targets[0], ast.Tuple) and isinstance(s.value, ast.Call) \
                and getattr(s.value.func, "id", None) in self.spec.get("tuple_calls", {}):
            st = dict(st)
            outs = self.spec["tuple_calls"][s.value.func.id](self, s.value, st)
            lets = ""
            for tgt, e in zip(s.targets[0].elts, outs):
                b = self.base(tgt)
                nm = self._fresh(b)
                lets += f"let {nm} := {e}; "
                st[b] = nm
            return lets + self._seq(rest, st)
        if isinstance(s, ast.AugAssign) and type(s.op) in BINOPS:
            b = self.base(s.target)
            st = dict(st)
            nm = self._fresh(b)
            e = f"({st[b]} {BINOPS[type(s.op)]} {self.expr(s.value, st)})"
            st[b] = nm
            return f"let {nm} := {e}; {self._seq(rest, st)}"
        if isinstance(s, ast.Return):
            if s.value is None or (isinstance(s.value, ast.Constant) and s.value.value is None):
                return self._out(st)
            if isinstance(s.value, ast.Tuple):
                vals = [self.expr(e, st) for e in s.value.elts]
                if len(vals) != len(self.spec["outputs"]):
                    raise TranslateError("return arity")
                return "(" + ", ".join(vals) + ")"
            return self._out(st, self.expr(s.value, st))
        if isinstance(s, ast.If):
            c = self.test(s.test, st)
            if self._has_return([s]):
                a = self._seq(list(s.body) + rest, st)
                b2 = self._seq(list(s.orelse) + rest, st)
                return f"(if {c} then ({a}) else ({b2}))"
            s1 = self._pure(s.body, st)
            s2 = self._pure(s.orelse, st)
            st2 = dict(st)
            merged = []
            for v in sorted(set(s1) | set(s2)):
                a, b2 = s1.get(v, st.get(v)), s2.get(v, st.get(v))
                if a is None or b2 is None or (a == st.get(v) and b2 == st.get(v)):
                    continue
                merged.append((v, a, b2))
            if not merged:
                return self._seq(rest, st2)
            if len(merged) == 1:
                v, a, b2 = merged[0]
                nm = self._fresh(v)
                st2[v] = nm
                return f"let {nm} := (if {c} then {a} else {b2}); " + self._seq(rest, st2)
            # several variables change together: one tuple-valued `if`, destructured (as a person would write it)
            names = []
            for v, a, b2 in merged:
                nm = self._fresh(v)
                names.append(nm)
                st2[v] = nm
            ta = "(" + ", ".join(a for _, a, _ in merged) + ")"
            tb = "(" + ", ".join(b2 for _, _, b2 in merged) + ")"
            return f"let ({', '.join(names)}) := (if {c} then {ta} else {tb}); " + self._seq(rest, st2)
        raise TranslateError(f"unsupported statement {ast.unparse(s)[:60]}")


def _find(fn, path):
    """path: list of selectors: ('for', i) i-th For in body, ('if', i), ('body',) … returns a stmt list"""
    stmts = fn.body
    for sel in path:
        kind, idx = sel
        cands = [x for x in stmts if isinstance(x, {"for": ast.For, "if": ast.If}[kind])]
        if idx >= len(cands):
            raise TranslateError(f"{fn.name}: no {kind} #{idx}")
        node = cands[idx]
        stmts = node.body
    return stmts


# name -> spec
KERNELS = {
    "nlz64": dict(file="hyperloglog.py", func="_n_leading_zeros64", path=[], params=["x"], outputs=["return"],
                  doc="`_n_leading_zeros64` — the whole function"),
    "mergeLinearCell": dict(file="countmin.py", func="_merge_linear", path=[("for", 0), ("for", 0)], params=["cms", "other_cms", "uint_maxval"], outputs=["cms"],
                            doc="`_merge_linear` — body of the cell loop"),
    "hllMergeCell": dict(file="hyperloglog.py", func="_merge", path=[("for", 0)], params=["registers", "other_registers"], outputs=["registers"],
                         doc="`hyperloglog._merge` — body of the register loop"),
    "hhAddCell": dict(file="heavyhitters.py", func="_add", path=[("for", 0)], skip_first=1,
                      params=["keys_match", "lhh", "key_array", "lhh_count", "key_lens", "key_len", "value", "uint_maxval"],
                      opaque={"key_lens[row, col] == key_len and np.all(key_array == lhh[row, col])": "keys_match"},
                      outputs=["lhh", "lhh_count", "key_lens"], bools=["keys_match"], keys=["lhh", "key_array"],
                      doc="`heavyhitters._add` — body of the row loop after the column is computed; the match test "
                          "`key_lens[row, col] == key_len and np.all(key_array == lhh[row, col])` is the parameter `keys_match`"),
    "hhMergeCell": dict(file="heavyhitters.py", func="_merge", path=[("for", 0), ("for", 0)], skip_first=1,
                        params=["keys_match", "lhh", "other_lhh", "lhh_count", "other_lhh_count", "key_lens", "other_key_lens", "uint_maxval"],
                        opaque={"keys_match": "keys_match"},
                        outputs=["lhh", "lhh_count", "key_lens"], bools=["keys_match"], keys=["lhh", "other_lhh"],
                        doc="`heavyhitters._merge` — body of the cell loop after `keys_match` is computed"),
    "queryStepLinear": dict(file="countmin.py", func="_query_linear", path=[("for", 0)], skip_first=1, params=["min_count", "cms"], outputs=["min_count"],
                            doc="`_query_linear` — body of the row loop after the column is computed (running minimum)"),
    "queryStepLog16": dict(file="countmin.py", func="_query_log16", path=[("for", 0)], skip_first=1, params=["min_count", "cms"], outputs=["min_count"],
                           doc="`_query_log16` — body of the row loop after the column is computed"),
    "queryStepLog8": dict(file="countmin.py", func="_query_log8", path=[("for", 0)], skip_first=1, params=["min_count", "cms"], outputs=["min_count"],
                          doc="`_query_log8` — body of the row loop after the column is computed"),
    "hllAdd": dict(file="hyperloglog.py", func="_add", path=[], skip_first=1, params=["hash_val", "m", "p", "registers"], outputs=["reg_idx", "registers"],
                   calls={"_n_leading_zeros64": "nlz64"}, drop_return_none=True,
                   doc="`hyperloglog._add` after the hash: register index, rank, max (the call of `_n_leading_zeros64` is the translated `nlz64`)"),
    "hhMaxStep": dict(file="heavyhitters.py", func="_max_count", path=[("for", 0)], skip_first=1,
                      params=["keys_match", "lhh_count", "max_count"],
                      opaque={"key_lens[row, col] == key_len and np.all(key_array == lhh[row, col])": "keys_match"}, bools=["keys_match"],
                      outputs=["max_count"],
                      doc="`heavyhitters._max_count` — body of the row loop after the column is computed; the match test is the parameter `keys_match`"),
    "logCounterStep": dict(file="countmin.py", func="_log_counter", path=[("for", 0)],
                           params=["counter", "uint_maxval", "below", "inc", "rand_ptr"], bools=["below", "inc"],
                           opaque={"cprime < 0": "below", "rand < base ** (-cprime)": "inc"},
                           init={"one": "1", "num_reserved": "0", "stopped": "0"},
                           tuple_calls={"_rand": lambda sym, call, st: ["0", f"(randNext {sym.expr(call.args[1], st)})"]},
                           outputs=["stopped", "counter", "rand_ptr"], early_return_flag="stopped",
                           doc="`_log_counter` — body of the `for i in range(value)` loop: stop at the maximum, unconditional step below "
                               "num_reserved (`below` = the test `cprime < 0` with cprime = counter - num_reserved), otherwise one draw from `_rand` "
                               "and a step iff `inc` (= the test `rand < base ** (-cprime)`)"),
    "randNext": dict(file="countmin.py", func="_rand", path=[], params=["rand_ptr"], outputs=["rand_ptr"], stop_at_return=True,
                     opaque={}, doc="`_rand` — the pointer update (`rand_batch[:] = np.random.rand(2048)` is the refill, dropped)"),
    "addLinearScalar": dict(file="countmin.py", func="_add_linear", path=[], skip_first=1, params=["min_count", "value", "uint_maxval", "n_added_records"],
                            outputs=["changed", "new_count", "n_added_records"], drop_for=True,
                            doc="`_add_linear` after the query: early exit at the ceiling, cap, new count, bookkeeping "
                                "(the row loop that raises counters below `new_count` is `raiseTo`)"),
}


def translate_kernel(name, spec):
    src, tree = _parse(os.path.join(REPO, "sketchnu", spec["file"]))
    fn = _func(tree, spec["func"])
    stmts = list(_find(fn, spec["path"]))
    # drop docstring
    if stmts and isinstance(stmts[0], ast.Expr) and isinstance(stmts[0].value, ast.Constant):
        stmts = stmts[1:]
    stmts = stmts[spec.get("skip_first", 0):]
    if name == "hhMergeCell":
        pass
    if name == "randNext":
        # if rand_ptr == uint64(2048): rand_batch[:] = …; rand_ptr = 1  else: rand_ptr += 1 ; return rand_batch[rand_ptr - 1], rand_ptr
        new = []
        for s in stmts:
            if isinstance(s, ast.Return):
                break
            new.append(s)
        stmts = new

        class Drop(ast.NodeTransformer):
            def visit_Assign(self, node):
                t = node.targets[0]
                if isinstance(t, ast.Subscript) and isinstance(t.value, ast.Name) and t.value.id == "rand_batch":
                    return None
                return node

        stmts = [Drop().visit(s) for s in stmts]
        stmts = [s for s in stmts if s is not None]
    if name == "addLinearScalar":
        # statements up to (not including) the final for loop; `return` at the ceiling = unchanged
        new = []
        for s in stmts:
            if isinstance(s, ast.For):
                break
            new.append(s)
        stmts = new
    sym = Sym(spec)
    st = {p: p for p in spec["params"]}
    st.update(spec.get("init", {}))
    if spec.get("early_return_flag"):
        flag = spec["early_return_flag"]

        class Early(ast.NodeTransformer):
            def visit_Return(self, node):
                return [ast.parse(f"{flag} = 1").body[0], ast.Return(value=None)]

        stmts = [Early().visit(s_) for s_ in stmts]
        for s_ in stmts:
            ast.fix_missing_locations(s_)
    if name == "addLinearScalar":
        st["changed"] = "1"
        # the early `return` must yield (0, min_count, n_added_records): emulate by rewriting `return` → outputs with changed = 0
        class Ret(ast.NodeTransformer):
            def visit_Return(self, node):
                return [ast.parse("changed = 0").body[0], ast.parse("new_count = min_count").body[0], ast.Return(value=None)]
        stmts = [Ret().visit(s) for s in stmts]
        flat = []
        for s in stmts:
            flat.append(s)
        stmts = flat
        for s in stmts:
            ast.fix_missing_locations(s)
    body = sym._seq(stmts, st)
    # Lean signature
    bools = set(spec.get("bools", []))
    keys = set(spec.get("keys", []))
    args = []
    for p in spec["params"]:
        if p in bools:
            args.append(f"({p} : Bool)")
        elif p in keys:
            args.append(f"({p} : K)")
        else:
            args.append(f"({p} : Nat)")
    outs = spec["outputs"]
    ty = " × ".join("K" if o in keys else "Nat" for o in outs)
    kparam = "{K : Type} " if keys else ""
    return f"/-- {spec['doc']} -/\ndef {name} {kparam}{' '.join(args)} : {ty} :=\n  {body}\n"


GROUPS = {
    "KernelsHll": ["nlz64", "hllMergeCell", "hllAdd"],
    "KernelsLin": ["mergeLinearCell", "addLinearScalar", "queryStepLinear", "queryStepLog16", "queryStepLog8"],
    "KernelsHH": ["hhAddCell", "hhMergeCell", "hhMaxStep"],
    "KernelsRand": ["randNext", "logCounterStep"],
    "KernelsPar": ["monitorStep", "mergeRound", "worker"],
    "KernelsHHQ": ["hhQuery"],
}

EXPECT_STMT = {
    "logCounterStep": (1, "cprime = float64(counter) - float64(num_reserved)"),
    # statements the translation treats as the definition of an opaque test: they must read exactly so
    "hhMergeCell": (0, "keys_match = np.all(lhh[row, col] == other_lhh[row, col]) and key_lens[row, col] == other_key_lens[row, col]"),
}


# kernels of which only a part is translated: everything AROUND the translated part must read exactly so (a statement added
# before or after the loop would otherwise escape the tie between source and model)
SKELETON = {
    "logCounterStep": ["one = uint16(1)", "for i in range(value): <translated>", "return (counter, rand_ptr)"],
    "randNext": ["if rand_ptr == uint64(2048): <translated>", "return (rand_batch[rand_ptr - uint64(1)], rand_ptr)"],
}


def _skeleton(fn):
    out = []
    for s_ in fn.body:
        if isinstance(s_, ast.Expr) and isinstance(s_.value, ast.Constant):
            continue
        if isinstance(s_, (ast.For, ast.If)):
            out.append(ast.unparse(s_).split("\n")[0] + " <translated>")
        else:
            out.append(ast.unparse(s_))
    return out


def translate_monitor():
    """`parallel_add`'s exit-code monitor: body of `for i, p in enumerate(workers)` inside `while any_none`.
    Effects are abstracted to flags: `closed` (both queues closed) and `killedAll` (every worker killed)."""
    src, tree = _parse(os.path.join(REPO, "sketchnu", "helpers.py"))
    fn = _func(tree, "parallel_add")
    loops = [n for n in ast.walk(fn) if isinstance(n, ast.While)]
    if len(loops) != 1 or ast.unparse(loops[0].test) != "any_none":
        raise TranslateError("parallel_add: expected exactly one `while any_none:` loop")
    w = loops[0]
    body = [x for x in w.body]
    # sleep(1); any_none = False; for i, p in enumerate(workers): …
    shape = [ast.unparse(x).split("\n")[0] for x in body]
    if len(body) != 3 or shape[0] != "sleep(1)" or shape[1] != "any_none = False" or not shape[2].startswith("for i, p in enumerate(workers)"):
        raise TranslateError(f"monitor loop has an unexpected shape: {shape}")
    inner = body[2].body
    if len(inner) != 1 or not isinstance(inner[0], ast.If):
        raise TranslateError("monitor loop body is not a single if/elif")
    first = inner[0]
    if ast.unparse(first.test) != "p.exitcode is None" or [ast.unparse(x) for x in first.body] != ["any_none = True"]:
        raise TranslateError("monitor: first branch is not `if p.exitcode is None: any_none = True`")
    if len(first.orelse) != 1 or not isinstance(first.orelse[0], ast.If) or first.orelse[0].orelse:
        raise TranslateError("monitor: expected a single `elif` without else")
    second = first.orelse[0]
    if ast.unparse(second.test) != "p.exitcode != 0":
        raise TranslateError(f"monitor: second branch tests `{ast.unparse(second.test)}`, not `p.exitcode != 0`")
    killed_all = False
    closed = set()
    for st in second.body:
        u = ast.unparse(st)
        if isinstance(st, ast.For) and ast.unparse(st.target) == "worker" and ast.unparse(st.iter) == "workers":
            killed_all = [ast.unparse(x) for x in st.body] == ["worker.kill()"]
        if u in ("queue.close()", "log_queue.close()"):
            closed.add(u)
    c = "true" if closed == {"queue.close()", "log_queue.close()"} else "closed"
    k = "true" if killed_all else "killedAll"
    return ("/-- `parallel_add` — one worker's turn in the exit-code monitor (`while any_none: … for i, p in enumerate(workers)`):\n"
            "    `isNone` = `p.exitcode is None`, `nonzero` = `p.exitcode != 0`; effects abstracted to `closed` (both queues closed)\n"
            "    and `killedAll` (`for worker in workers: worker.kill()`) -/\n"
            "def monitorStep (isNone nonzero : Bool) (anyNone closed killedAll : Bool) : Bool × Bool × Bool :=\n"
            f"  if isNone = true then (true, closed, killedAll) else if nonzero = true then (anyNone, {c}, {k}) else (anyNone, closed, killedAll)\n")


def _method(tree, cls, name):
    for n in tree.body:
        if isinstance(n, ast.ClassDef) and n.name == cls:
            for m in n.body:
                if isinstance(m, ast.FunctionDef) and m.name == name:
                    b = list(m.body)
                    if b and isinstance(b[0], ast.Expr) and isinstance(b[0].value, ast.Constant):
                        b = b[1:]
                    return b
    raise TranslateError(f"{cls}.{name} not found")


HHQ_QUERY_SKELETON = [
    "if threshold is None:\n    threshold = int(self.phi * self.n_added())\nelse:\n    threshold = np.uint32(threshold)",
    "if <regen test>:\n    self.generate_candidate_set(threshold)",
    "return self.candidate_set.most_common(k)",
]
HHQ_REGEN_SKELETON = [
    "if threshold is None:\n    threshold = int(self.phi * self.n_added())\nelif not isinstance(threshold, int):\n    threshold = np.uint32(threshold)",
    "self.n_added_sort = self.n_added()",
    "self.threshold_sort = threshold",
    "self.candidate_set = Counter()",
    "for row in range(self.depth): for column in range(self.width): <cell visit>",
]
HHQ_VISIT_SKELETON = [
    "if <empty test>:\n    continue",
    "key_len = self.key_lens[row, column]",
    "key = bytes(self.lhh[row, column, :key_len])",
    "if <unseen test>:\n    max_count = _max_count(self.lhh, self.lhh_count, self.key_lens, self.width, self.depth, self.max_key_len, key, key_len)\n"
    "    if <threshold test>:\n        self.candidate_set[key] = max_count",
]


def translate_hhquery():
    """`HeavyHitters.query` / `generate_candidate_set` (plain Python): the cache test of `query`, and the visit of one cell in
    `generate_candidate_set`, with everything around them required to read exactly as modelled (`HHQ.query`, `HHQ.regen`, `HH.candStep`)."""
    src, tree = _parse(os.path.join(REPO, "sketchnu", "heavyhitters.py"))
    q = _method(tree, "HeavyHitters", "query")
    if len(q) != 3 or not isinstance(q[1], ast.If) or q[1].orelse:
        raise TranslateError(f"HeavyHitters.query: expected 3 statements (threshold, regenerate-if, return), found {[ast.unparse(x)[:50] for x in q]}")
    regen_test = q[1].test
    got = [ast.unparse(q[0]), "if <regen test>:\n    " + "\n    ".join(ast.unparse(x) for x in q[1].body), ast.unparse(q[2])]
    if got != HHQ_QUERY_SKELETON:
        raise TranslateError(f"HeavyHitters.query no longer reads as modelled: {got!r}")
    names = {"self.n_added_sort": "n_added_sort", "self.n_added()": "n_added", "self.threshold_sort": "threshold_sort", "threshold": "threshold"}

    def tr_test(n, names):
        if isinstance(n, ast.BoolOp):
            return "(" + (" ∧ " if isinstance(n.op, ast.And) else " ∨ ").join(tr_test(v, names) for v in n.values) + ")"
        if isinstance(n, ast.UnaryOp) and isinstance(n.op, ast.Not):
            return f"(¬ {tr_test(n.operand, names)})"
        if isinstance(n, ast.Compare) and len(n.ops) == 1 and type(n.ops[0]) in CMPOPS:
            def side(x):
                u = ast.unparse(x)
                if u in names:
                    return names[u]
                if isinstance(x, ast.Constant) and isinstance(x.value, int):
                    return str(x.value)
                raise TranslateError(f"unsupported operand `{u}` in `{ast.unparse(n)}`")
            return f"({side(n.left)} {CMPOPS[type(n.ops[0])]} {side(n.comparators[0])})"
        raise TranslateError(f"unsupported test `{ast.unparse(n)}`")

    regen = tr_test(regen_test, names)
    g = _method(tree, "HeavyHitters", "generate_candidate_set")
    if len(g) != 5 or not isinstance(g[4], ast.For) or len(g[4].body) != 1 or not isinstance(g[4].body[0], ast.For):
        raise TranslateError("HeavyHitters.generate_candidate_set: expected threshold / n_added_sort / threshold_sort / candidate_set / row-column loops")
    outer, inner = g[4], g[4].body[0]
    got = [ast.unparse(x) for x in g[:4]] + [f"for {ast.unparse(outer.target)} in {ast.unparse(outer.iter)}: for {ast.unparse(inner.target)} in {ast.unparse(inner.iter)}: <cell visit>"]
    if got != HHQ_REGEN_SKELETON:
        raise TranslateError(f"HeavyHitters.generate_candidate_set no longer reads as modelled: {got!r}")
    v = inner.body
    ok = (len(v) == 4 and isinstance(v[0], ast.If) and not v[0].orelse and isinstance(v[3], ast.If) and not v[3].orelse and len(v[3].body) == 2
          and isinstance(v[3].body[1], ast.If) and not v[3].body[1].orelse)
    if not ok:
        raise TranslateError("generate_candidate_set: the visit of one cell no longer has the modelled shape")
    got = ["if <empty test>:\n    " + "\n    ".join(ast.unparse(x) for x in v[0].body), ast.unparse(v[1]), ast.unparse(v[2]),
           "if <unseen test>:\n    " + ast.unparse(v[3].body[0]) + "\n    if <threshold test>:\n        " + "\n        ".join(ast.unparse(x) for x in v[3].body[1].body)]
    if got != HHQ_VISIT_SKELETON:
        raise TranslateError(f"generate_candidate_set: the visit of one cell no longer reads as modelled: {got!r}")
    vnames = {"self.lhh_count[row, column]": "count", "self.candidate_set[key]": "lookup", "max_count": "max_count", "threshold": "threshold"}
    t_empty, t_unseen, t_thr = tr_test(v[0].test, vnames), tr_test(v[3].test, vnames), tr_test(v[3].body[1].test, vnames)
    return ("/-- `HeavyHitters.query`: the test that decides whether the cached candidate set is rebuilt (everything around it reads exactly as modelled) -/\n"
            f"def queryRegen (n_added_sort n_added threshold_sort threshold : Nat) : Bool :=\n  decide {regen}\n\n"
            "/-- `HeavyHitters.generate_candidate_set`: does the visit of one cell insert `(key, max_count)`?  `count` = `lhh_count[row, column]`, "
            "`lookup` = `candidate_set[key]` (0 when absent), `max_count` = `_max_count(…key…)` -/\n"
            "def candInsert (count lookup max_count threshold : Nat) : Bool :=\n"
            f"  if {t_empty} then false else if {t_unseen} then decide {t_thr} else false\n")


WORKER_SKELETON = [
    "log_queue.put({'level': 'INFO', 'text': f'WORKER {worker_id:02} is starting'})",
    "n_records = 0",
    "local_sketches = []",
    "for s in sketch:\n    sk = attach_shared_memory(*s)\n    local_sketches.append(sk)",
    "start = datetime.now()",
    "while True: <loop>",
]
WORKER_LOOP = [
    "q_item = in_queue.get()",
    "if <item test>: <item branch> else: <pill branch>",
]
WORKER_ITEM = [
    "try:\n    n_recs = process_q_item(q_item, *local_sketches, **kwargs)\nexcept Exception as exc:\n    n_recs = 0\n"
    "    msg = f'WORKER {worker_id:02} threw exception on {q_item}: {exc}'\n    log_queue.put({'level': 'ERROR', 'text': msg})",
    "n_records += n_recs",
    "end = datetime.now()",
    "speed = n_records / (end - start).total_seconds()",
    "log_queue.put({'level': 'DEBUG', 'text': f'WORKER {worker_id:02} has processed ' + f'{n_records:,} records at {speed:.3f} records/sec'})",
]
WORKER_PILL = [
    "for local_sketch in local_sketches:\n    try:\n        local_sketch.n_added_records[1] += np.uint64(n_records)\n    except:\n        pass\n    del local_sketch",
    "end = datetime.now()",
    "speed = n_records / (end - start).total_seconds()",
    "log_queue.put({'level': 'INFO', 'text': f'WORKER {worker_id:02} finished ' + f'{n_records:,} records at {speed:.3f} records/sec'})",
    "return None",
]


def translate_worker():
    """`helpers._worker`: the whole function must read exactly as modelled (attach, loop, try/except around the callback, record accounting,
    what happens at the poison pill); the translated parts are the test that tells an item from the pill and the record arithmetic."""
    src, tree = _parse(os.path.join(REPO, "sketchnu", "helpers.py"))
    fn = _func(tree, "_worker")
    body = [x for x in fn.body if not (isinstance(x, ast.Expr) and isinstance(x.value, ast.Constant))]
    got = [ast.unparse(x) if not isinstance(x, ast.While) else f"while {ast.unparse(x.test)}: <loop>" for x in body]
    if got != WORKER_SKELETON:
        raise TranslateError(f"_worker no longer reads as modelled: {got!r}")
    loop = body[-1].body
    if len(loop) != 2 or not isinstance(loop[1], ast.If):
        raise TranslateError("_worker: the loop is not `q_item = in_queue.get(); if …: … else: …`")
    got = [ast.unparse(loop[0]), "if <item test>: <item branch> else: <pill branch>"]
    if got != WORKER_LOOP:
        raise TranslateError(f"_worker loop no longer reads as modelled: {got!r}")
    test = ast.unparse(loop[1].test)
    if test != "q_item is not None":
        raise TranslateError(f"_worker tells an item from the poison pill by `{test}`, not by `q_item is not None`")
    item = [ast.unparse(x) for x in loop[1].body]
    pill = [ast.unparse(x) for x in loop[1].orelse]
    if item != WORKER_ITEM:
        raise TranslateError(f"_worker: the item branch no longer reads as modelled: {item!r}")
    if pill != WORKER_PILL:
        raise TranslateError(f"_worker: the poison-pill branch no longer reads as modelled: {pill!r}")
    return ("/-- `_worker`: is the value taken from the queue an item (`q_item is not None`)?  Any item — also a falsy one — is processed; only `None` stops the worker -/\n"
            "def workerIsItem {I : Type} (q_item : Option I) : Bool := q_item.isSome\n\n"
            "/-- `_worker`, item branch: `n_recs` is the callback's return value, or 0 when the callback raised (`ret = none`); `n_records += n_recs` -/\n"
            "def workerTurn (n_records : Nat) (ret : Option Nat) : Nat :=\n  let n_recs := (match ret with | some r => r | none => 0); n_records + n_recs\n\n"
            "/-- `_worker`, pill branch: every local sketch gets `n_added_records[1] += n_records`, then the worker returns -/\n"
            "def workerFinish (n_added_records_1 n_records : Nat) : Nat := n_added_records_1 + n_records\n")


MERGING_SKELETON = [
    "mergers = []",
    "for i in range(<pair count>):\n    sketch1 = (sketch_type, sketch_args, sketch_array[<dst>].shm.name)\n    sketch2 = (sketch_type, sketch_args, sketch_array[<src>].shm.name)\n"
    "    mergers.append(ctx.Process(target=_merge_worker, args=(sketch1, sketch2)))\n    mergers[-1].start()",
    "for p in mergers:\n    p.join()\n    if p.exitcode < 0:\n        raise RuntimeError(f'A _merge_worker had bad p.exitcode={p.exitcode:}')",
    "new_sketch_array = []",
    "for i in range(<survivor range>):\n    new_sketch_array.append(sketch_array[i])\n    if i + 1 < len(sketch_array):\n        sketch_array[i + 1] = None\n        gc.collect()",
    "sketch_array = new_sketch_array",
    "n_to_merge = len(sketch_array)",
]
MERGE_WORKER = ["s1 = attach_shared_memory(*sketch1)", "s2 = attach_shared_memory(*sketch2)", "s1.merge(s2)", "del s1", "del s2", "gc.collect()", "return None"]


def translate_merging():
    """`parallel_merging`: one round of the `while n_to_merge > 1` loop — which pairs (destination, source) are handed to `_merge_worker`
    (`s1.merge(s2)`), and which indices survive into the next round; everything else must read exactly as modelled."""
    src, tree = _parse(os.path.join(REPO, "sketchnu", "helpers.py"))
    mw = _func(tree, "_merge_worker")
    body = [ast.unparse(x) for x in mw.body if not (isinstance(x, ast.Expr) and isinstance(x.value, ast.Constant))]
    if body != MERGE_WORKER:
        raise TranslateError(f"_merge_worker no longer reads as modelled: {body!r}")
    fn = _func(tree, "parallel_merging")
    loops = [n for n in fn.body if isinstance(n, ast.While)]
    if len(loops) != 1 or ast.unparse(loops[0].test) != "n_to_merge > 1":
        raise TranslateError("parallel_merging: expected exactly one `while n_to_merge > 1:` loop")
    w = [x for x in loops[0].body]
    if w and isinstance(w[-1], ast.Expr) and "log_queue.put" in ast.unparse(w[-1]):
        w = w[:-1]
    if len(w) != 7 or not isinstance(w[1], ast.For) or not isinstance(w[4], ast.For):
        raise TranslateError(f"parallel_merging: a merge round no longer has the modelled shape ({len(w)} statements)")
    pair_loop, surv_loop = w[1], w[4]

    def ex(n, var):
        if isinstance(n, ast.Constant) and isinstance(n.value, int):
            return str(n.value)
        if isinstance(n, ast.Name) and n.id in (var, "n_to_merge"):
            return n.id
        if isinstance(n, ast.BinOp) and type(n.op) in BINOPS:
            return f"({ex(n.left, var)} {BINOPS[type(n.op)]} {ex(n.right, var)})"
        raise TranslateError(f"parallel_merging: unsupported index expression `{ast.unparse(n)}`")

    if not (isinstance(pair_loop.iter, ast.Call) and ast.unparse(pair_loop.iter.func) == "range" and len(pair_loop.iter.args) == 1):
        raise TranslateError("parallel_merging: the pair loop is not `for i in range(n)`")
    count = ex(pair_loop.iter.args[0], "i")
    try:
        dst_node = pair_loop.body[0].value.elts[2].value.value.slice
        src_node = pair_loop.body[1].value.elts[2].value.value.slice
    except Exception:
        raise TranslateError("parallel_merging: cannot locate the indices of the merged pair")
    dst, srci = ex(dst_node, "i"), ex(src_node, "i")
    r = surv_loop.iter
    if not (isinstance(r, ast.Call) and ast.unparse(r.func) == "range" and len(r.args) == 3):
        raise TranslateError("parallel_merging: the survivor loop is not `for i in range(start, stop, step)`")
    start, stop, step = (ex(a, "i") for a in r.args)
    got = [ast.unparse(w[0]),
           ast.unparse(pair_loop).replace(ast.unparse(pair_loop.iter.args[0]), "<pair count>", 1).replace(f"sketch_array[{ast.unparse(dst_node)}]", "sketch_array[<dst>]", 1)
           .replace(f"sketch_array[{ast.unparse(src_node)}]", "sketch_array[<src>]", 1),
           ast.unparse(w[2]), ast.unparse(w[3]),
           ast.unparse(surv_loop).replace(", ".join(ast.unparse(a) for a in r.args), "<survivor range>", 1),
           ast.unparse(w[5]), ast.unparse(w[6])]
    if got != MERGING_SKELETON:
        raise TranslateError(f"parallel_merging: a merge round no longer reads as modelled: {got!r}")
    return ("/-- `parallel_merging`, one round over `n_to_merge` sketches: the pairs (destination, source) of the spawned `_merge_worker`s (`s1.merge(s2)`), in loop order -/\n"
            f"def mergePairs (n_to_merge : Nat) : List (Nat × Nat) :=\n  (List.range {count}).map fun i => ({dst}, {srci})\n\n"
            "/-- … and the indices that survive into the next round (`for i in range(start, stop, step)`) -/\n"
            f"def survivors (n_to_merge : Nat) : List Nat :=\n  (List.range (({stop} - {start} + {step} - 1) / {step})).map fun j => {start} + j * {step}\n")


def render(group):
    """returns (text, errors)"""
    L = ["/- GENERATED by harness/kernels.py from the current /repo source — do not edit.",
         "   Decision-logic cores of the Numba kernels over scalar stand-ins for the array cells. -/",
         "namespace Sketchnu.Src", ""]
    errors = []
    for name in GROUPS[group]:
        if name == "worker":
            try:
                L.append(translate_worker())
            except TranslateError as e:
                errors.append(f"worker: {e}")
                L.append(f"-- TRANSLATION FAILED for worker: {e}\n")
            continue
        if name == "mergeRound":
            try:
                L.append(translate_merging())
            except TranslateError as e:
                errors.append(f"mergeRound: {e}")
                L.append(f"-- TRANSLATION FAILED for mergeRound: {e}\n")
            continue
        if name == "hhQuery":
            try:
                L.append(translate_hhquery())
            except TranslateError as e:
                errors.append(f"hhQuery: {e}")
                L.append(f"-- TRANSLATION FAILED for hhQuery: {e}\n")
            continue
        if name == "monitorStep":
            try:
                L.append(translate_monitor())
            except TranslateError as e:
                errors.append(f"monitorStep: {e}")
                L.append(f"-- TRANSLATION FAILED for monitorStep: {e}\n")
            continue
        spec = KERNELS[name]
        try:
            if name in EXPECT_STMT:
                src, tree = _parse(os.path.join(REPO, "sketchnu", spec["file"]))
                stmts = list(_find(_func(tree, spec["func"]), spec["path"]))
                idx, want = EXPECT_STMT[name]
                got = ast.unparse(stmts[idx])
                if got != want:
                    raise TranslateError(f"{spec['func']}: expected `{want}`, found `{got}`")
            if name in SKELETON:
                src, tree = _parse(os.path.join(REPO, "sketchnu", spec["file"]))
                got = _skeleton(_func(tree, spec["func"]))
                if got != SKELETON[name]:
                    raise TranslateError(f"{spec['func']}: the statements around the translated part read {got!r}, expected {SKELETON[name]!r}")
            L.append(translate_kernel(name, spec))
        except TranslateError as e:
            errors.append(f"{name}: {e}")
            L.append(f"-- TRANSLATION FAILED for {name}: {e}\n-- (no definition emitted: the obligations in Properties/Src*.lean that mention it no longer check)\n")
    L.append("end Sketchnu.Src")
    return "\n".join(L) + "\n", errors


def run():
    """writes the four generated kernel files; returns (changed files, errors)"""
    changed, errors = [], []
    for g in GROUPS:
        text, errs = render(g)
        errors += errs
        if _write_if_changed(os.path.join(GEN, g + ".lean"), text):
            changed.append(g + ".lean")
    return changed, errors


if __name__ == "__main__":
    for g in GROUPS:
        t, e = render(g)
        print(t)
        print(e)
