"""
slice_parallel.py — parallel_add under a synchronous process context (C08, C19).

The REAL `parallel_add`, `_fill_queue`, `_worker`, `parallel_merging`, `_merge_worker` run in-process:
`helpers.get_context` is replaced by a fake context whose `Process.start()` runs the target
synchronously and whose `Queue.get()` hands each worker the items a *schedule* assigns to it
(then its poison pill).  Schedules are valid traces of the Lean protocol model (`PStep`), generated
by simulating the protocol with queue capacity 3·n_workers; the trace is validated by the Lean
driver (`par.run`).  Real shared-memory sketches are used throughout.

Faults (C19): items whose callback raises before touching / after updating the sketches; a worker
that dies (BaseException escaping `_worker`, exit code 3) on its k-th item; scripted exit codes for
the monitor loop.
"""
import itertools
import time
from collections import deque

from core import Session
from real import CAP, Probe, hexk, np, sk


class WorkerDied(BaseException):
    pass


class HangDetected(BaseException):
    pass


class FakeQueue:
    def __init__(self, ctx, maxsize=0):
        self.ctx = ctx
        self.items = deque()
        self.closed = False
        self.maxsize = maxsize
        self.is_work_queue = maxsize > 0

    def put(self, x):
        if self.closed:
            raise ValueError(f"Queue {self!r} is closed")
        self.items.append(x)

    def get(self):
        if self.closed:
            raise ValueError(f"Queue {self!r} is closed")
        if self.is_work_queue:
            w = self.ctx.current_worker
            sched = self.ctx.schedule[w]
            if sched:
                want = sched.popleft()
                # the scheduled item must still be in the queue (each item delivered exactly once); match by identity
                for j, x in enumerate(self.items):
                    if x is want:
                        del self.items[j]
                        break
                else:
                    raise RuntimeError("scheduled item is not in the queue")
                return want
            for j, x in enumerate(self.items):
                if x is None:
                    del self.items[j]
                    break
            else:
                raise RuntimeError("no poison pill left in the queue")
            return None
        return self.items.popleft() if self.items else None

    def close(self):
        self.closed = True


class FakeProcess:
    def __init__(self, ctx, target=None, args=(), kwargs=None):
        self.ctx, self.target, self.args, self.kwargs = ctx, target, args, kwargs or {}
        self.exitcode = None
        self.name = getattr(target, "__name__", "?")

    def start(self):
        import sketchnu.helpers as H

        if self.target is H._log_worker:
            self.exitcode = None  # the log process idles until its pill; never run synchronously
            self.ctx.log_process = self
            return
        try:
            if self.target is H._worker:
                self.ctx.current_worker = self.args[0]
                self.ctx.worker_procs.append(self)
            self.target(*self.args, **self.kwargs)
            self.exitcode = 0
        except WorkerDied:
            self.exitcode = 3
        except Exception as e:  # any uncaught exception kills a real process with exit code 1
            self.ctx.crashes.append((self.name, repr(e)))
            self.exitcode = 1

    def join(self):
        import sketchnu.helpers as H

        if self.target is H._log_worker and self.exitcode is None and not getattr(self, "ran", False):
            # the log process: run the REAL `_log_worker` over everything the library put on the log queue (it ends at the pill, or
            # when the queue is empty).  A log process that dies leaves every writer blocked once the pipe is full — parallel_add hangs.
            self.ran = True
            import logging
            logging.disable(logging.CRITICAL)
            try:
                self.target(*self.args, **self.kwargs)
                self.exitcode = 0
            except Exception as e:
                self.ctx.crashes.append((self.name, repr(e)))
                self.exitcode = 1
            finally:
                logging.disable(logging.NOTSET)
            return
        if self.exitcode is None:
            self.exitcode = 0

    def kill(self):
        self.exitcode = -9


class FakeCtx:
    def __init__(self, schedule):
        self.schedule = [deque(s) for s in schedule]
        self.current_worker = None
        self.worker_procs = []
        self.crashes = []
        self.log_process = None
        self.queues = []

    def Queue(self, maxsize=0):
        q = FakeQueue(self, maxsize)
        self.queues.append(q)
        return q

    def Process(self, target=None, args=(), kwargs=None):
        return FakeProcess(self, target, args, kwargs)


class Patched:
    """context manager: synchronous process context + no sleeping"""

    def __init__(self, ctx):
        self.ctx = ctx

    def __enter__(self):
        import sketchnu.countmin as C
        import sketchnu.heavyhitters as HH
        import sketchnu.helpers as H
        import sketchnu.hyperloglog as L

        self.saved = [(H, "get_context", H.get_context), (H, "sleep", H.sleep), (C, "sleep", C.sleep), (HH, "sleep", HH.sleep), (L, "sleep", L.sleep)]
        H.get_context = lambda method=None: self.ctx
        import types
        nogc = types.SimpleNamespace(collect=lambda *a: 0)
        for mod in (H, C, HH, L):
            mod.sleep = lambda s: None
            self.saved.append((mod, "gc", mod.gc))
            mod.gc = nogc          # gc.collect() costs ~50 ms per call with numba loaded; refcounting frees the views
        return self

    def __exit__(self, *a):
        for mod, name, val in self.saved:
            setattr(mod, name, val)


# ------------------------------------------------------------------------------------ schedules


def random_trace(rng, n_items, n_workers):
    """a valid run of the protocol model with capacity 3·n_workers: returns (actions, per-worker item index lists)"""
    cap = 3 * n_workers
    todo = list(range(n_items))
    pills = n_workers
    queue = []
    done = [False] * n_workers
    got = [[] for _ in range(n_workers)]
    acts = []
    while True:
        enabled = []
        if len(queue) < cap and (todo or pills):
            enabled.append("p")
        if queue:
            for w in range(n_workers):
                if not done[w]:
                    enabled.append(f"t{w}")
        if not enabled:
            break
        a = rng.choice(enabled)
        acts.append(a)
        if a == "p":
            if todo:
                queue.append(todo.pop(0))
            else:
                pills -= 1
                queue.append(None)
        else:
            w = int(a[1:])
            x = queue.pop(0)
            if x is None:
                done[w] = True
            else:
                got[w].append(x)
    assert all(done) and not todo and not queue, (done, todo, queue)
    return acts, got


def assignment_trace(assign, n_workers):
    """the FIFO-consistent trace in which item i goes to worker assign[i] (items in order, then pills)"""
    acts = []
    got = [[] for _ in range(n_workers)]
    for i, w in enumerate(assign):
        acts += ["p", f"t{w}"]
        got[w].append(i)
    for w in range(n_workers):
        acts += ["p", f"t{w}"]
    return acts, got


# ------------------------------------------------------------------------------------ one run


def make_items(rng, n_items, faults=None):
    """item = dict(id, ops=[(key, v)…], ret, fault in {None,'before','after','die'})"""
    items = []
    pool = [b"", b"a", b"a\0", b"\0", b"bb", b"\xff\x80", b"key-%d" % rng.randrange(5)]
    for i in range(n_items):
        ops = [(rng.choice(pool), rng.choice([1, 1, 2, 5])) for _ in range(rng.choice([0, 0, 1, 2, 3]))]  # 40 %: empty (falsy) item
        # which entry point the user's callback feeds the sketches through (equal to add(k, v) by C12: dict item; list / whole-key ngram for v == 1)
        items.append({"id": i, "ops": ops, "ret": rng.randrange(0, 7), "fault": (faults or {}).get(i), "via": rng.choice(["add", "add", "dict", "list", "ngram"])})
    return items


class _Odd(Exception):
    """an exception whose str() itself is unusual (non-ASCII, braces, newline)"""

    def __str__(self):
        return "odd {0} %s \n \u00e9"


def _failure(item, where):
    """the exception a failing callback raises: the property says *any* exception — with a message, without arguments, with
    non-string arguments, an `assert`, a `StopIteration`, a `KeyError`, a custom class"""
    kind = item["id"] % 7
    if kind == 0:
        return RuntimeError(f"callback failed {where}")
    if kind == 1:
        return ValueError()                      # no arguments at all
    if kind == 2:
        return KeyError(("tuple", 3))            # non-string argument
    if kind == 3:
        return AssertionError()                  # what a bare `assert cond` raises
    if kind == 4:
        return StopIteration()
    if kind == 5:
        return _Odd()
    return OSError(5, "Input/output error")


META = {}  # id(payload) -> descriptor; the payload that travels through the queue is a plain list (possibly EMPTY, i.e. falsy)


def callback(payload, *sketches, **kwargs):
    item = META[id(payload)]
    if item["fault"] == "die":
        raise WorkerDied()
    if item["fault"] == "before":
        raise _failure(item, "before touching the sketches")
    via = item.get("via", "add")
    for s in sketches:
        for k, v in item["ops"]:
            if via == "dict":
                s.update({k: v})
            elif via == "list" and v == 1:
                s.update([k])
            elif via == "ngram" and v == 1:
                s.update_ngram([k], len(k) + 1)
            else:
                s.add(k, v)
    if item["fault"] == "after":
        raise _failure(item, "after updating the sketches")
    return item["ret"]


COMBOS = [("cms",), ("hh",), ("hll",), ("cms", "hh"), ("cms", "hll"), ("hh", "hll"), ("cms", "hh", "hll")]


def sketch_args(rng, combo):
    kw = {}
    if "cms" in combo:
        kw["cms_args"] = {"cms_type": "linear", "width": rng.choice([1, 2, 3, 8]), "depth": rng.choice([1, 2, 3])}
    if "hh" in combo:
        kw["hh_args"] = {"width": rng.choice([1, 2, 4]), "depth": rng.choice([1, 2]), "max_key_len": rng.choice([2, 4, 8])}
    if "hll" in combo:
        kw["hll_args"] = {"p": rng.choice([7, 8]), "seed": rng.choice([0, 2**63])}
    return kw


def run_real(items, n_workers, got, kw, as_generator=False):
    """run the real parallel_add under the fake context; returns (result tuple or exception, ctx)"""
    s = sk()
    import sketchnu.helpers as H

    payloads = [list(it["ops"]) for it in items]
    for pl, it in zip(payloads, items):
        META[id(pl)] = it
    ctx = FakeCtx([[payloads[i] for i in g] for g in got])
    ctx.keepalive = payloads
    with Patched(ctx):
        try:
            src = (x for x in payloads) if as_generator else list(payloads)
            r = H.parallel_add(src, callback, n_workers=n_workers, **kw)
            if not isinstance(r, tuple):
                r = (r,)
            return r, ctx
        except BaseException as e:  # noqa
            return e, ctx


def merge_order(n):
    """sequence of (dst, src) merges of parallel_merging for n sketches (round structure of the model)"""
    live = list(range(n))
    out = []
    while len(live) > 1:
        nxt = []
        for i in range(0, len(live) - 1, 2):
            out.append((live[i], live[i + 1]))
            nxt.append(live[i])
        if len(live) % 2:
            nxt.append(live[-1])
        live = nxt
    return out


def tree_string(n):
    lab = [str(i) for i in range(n)]
    live = list(range(n))
    while len(live) > 1:
        nxt = []
        for i in range(0, len(live) - 1, 2):
            lab[live[i]] = f"({lab[live[i]]} {lab[live[i + 1]]})"
            nxt.append(live[i])
        if len(live) % 2:
            nxt.append(live[-1])
        live = nxt
    return lab[live[0]] if live else "none"


def check_run(res, pid_set, items, n_workers, got, kw, acts, combo, label, as_generator=False):
    """execute, evaluate the oracles, return driver ops"""
    s = sk()
    r, ctx = run_real(items, n_workers, got, kw, as_generator)
    desc = {"n_workers": n_workers, "assignment": got, "sketches": combo, "items": [{"ops": [(k.hex(), v) for k, v in it["ops"]], "ret": it["ret"], "fault": it["fault"], "via": it.get("via", "add")} for it in items],
            "args": {k: dict(v) for k, v in kw.items()}, "generator": as_generator}
    ops = []
    dies = any(it["fault"] == "die" for it in items)
    if dies:
        # C19: a dead worker must end in an exception, never in a result
        if not isinstance(r, BaseException):
            res.oracle_failures.append({"pid": "C19", "what": f"C19 a worker died (exit code 3) on one of its items but parallel_add RETURNED sketches ({label})", "case": desc})
        return ops
    if isinstance(r, BaseException):
        res.oracle_failures.append({"pid": "C08" if not any(it["fault"] for it in items) else "C19",
                                    "what": f"parallel_add raised {type(r).__name__}: {r} ({label})", "case": desc})
        return ops
    crashes = [c for c in ctx.crashes if not (c[0] == "_fill_queue" and "UnboundLocalError" in c[1] and not items)]
    if crashes:
        res.oracle_failures.append({"pid": "C08" if not any(it["fault"] for it in items) else "C19",
                                    "what": f"a process crashed inside parallel_add: {ctx.crashes[:2]} ({label})", "case": desc})
    # what every item contributes
    eff = [it for it in items if it["fault"] != "before"]
    total = sum(v for it in eff for _, v in it["ops"])
    nrec = sum(it["ret"] for it in items if it["fault"] is None)
    res_by = dict(zip(combo, r))
    pid_fault = "C19" if any(it["fault"] for it in items) else "C08"
    if "hll" in res_by:
        seq = s.HyperLogLog(**kw["hll_args"])
        for it in eff:
            for k, _ in it["ops"]:
                seq.add(k)
        if bytes(seq.registers) != bytes(res_by["hll"].registers):
            res.oracle_failures.append({"pid": pid_fault, "what": f"{pid_fault} HyperLogLog returned by parallel_add differs from the sequential sketch ({label})", "case": desc})
    for name in ("cms", "hh"):
        if name not in res_by:
            continue
        o = res_by[name]
        if int(o.n_added()) != total:
            res.oracle_failures.append({"pid": pid_fault, "what": f"{pid_fault} {name}.n_added() = {int(o.n_added())}, total multiplicity added = {total} ({label})", "case": desc})
        if int(o.n_records()) != nrec:
            res.oracle_failures.append({"pid": pid_fault, "what": f"{pid_fault} {name}.n_records() = {int(o.n_records())}, sum of successful callback returns = {nrec} ({label})", "case": desc})
    # C01 / C03 / C04 of the result with respect to the whole stream
    keys = sorted({k for it in eff for k, _ in it["ops"]})
    if "cms" in res_by:
        a = kw["cms_args"]
        probe = Probe("linear", a["depth"], a["width"])
        true = {k: sum(v for it in eff for kk, v in it["ops"] if kk == k) for k in keys}
        load = {}
        for k in keys:
            for rr, c in enumerate(probe.cols(k)):
                load[(rr, c)] = load.get((rr, c), 0) + true[k]
        for k in keys:
            est = int(res_by["cms"].query(k))
            hi = min(load[(rr, c)] for rr, c in enumerate(probe.cols(k)))
            if not (min(true[k], CAP) <= est <= min(hi, CAP)):
                res.oracle_failures.append({"pid": pid_fault, "what": f"{pid_fault} count-min result violates C01 for key {k!r}: true {true[k]}, estimate {est}, bound {hi} ({label})", "case": desc})
        # model tie: same schedule in the Lean model (per-worker adds in order, then the merge rounds)
        ops.append([f"cfg {a['depth']} {a['width']}", None, "setup"])
        kid = {k: i for i, k in enumerate(keys)}
        for k in keys:
            ops.append([f"key {kid[k]} {hexk(k)} " + " ".join(map(str, probe.cols(k))), None, "setup"])
        for w in range(n_workers):
            ops.append([f"lin.new {w}", None, "setup"])
            for i in got[w]:
                if items[i]["fault"] != "before":
                    for k, v in items[i]["ops"]:
                        ops.append([f"lin.add {w} {kid[k]} {v}", None, "op"])
        for dst, src in merge_order(n_workers):
            ops.append([f"lin.merge {dst} {src}", None, "op"])
        tab = " / ".join(" ".join(str(int(x)) for x in row) for row in res_by["cms"].cms)
        ops.append(["lin.dump 0", (lambda g, want=f"{tab} | {total}": g.rsplit(" ", 1)[0] == want), "exact"])
    if "hh" in res_by:
        a = kw["hh_args"]
        mkl = a["max_key_len"]
        true = {}
        for it in eff:
            for k, v in it["ops"]:
                true[k[:mkl]] = true.get(k[:mkl], 0) + v
        for k, f in true.items():
            got_c = int(res_by["hh"][k])
            if got_c > f:
                res.oracle_failures.append({"pid": pid_fault, "what": f"{pid_fault} heavy-hitter result over-counts {k!r}: {got_c} > {f} ({label})", "case": desc})
            if 2 * f > total and got_c < 2 * f - total:
                res.oracle_failures.append({"pid": pid_fault, "what": f"{pid_fault} heavy-hitter result loses majority key {k!r}: hh={got_c} < 2f-N={2*f-total} ({label})", "case": desc})
    # the schedule is a valid run of the protocol model, delivering exactly this assignment
    ops.append([f"par.run {3 * n_workers} {n_workers} {len(items)} " + " ".join(acts), "final :: " + " | ".join(" ".join(map(str, g)) for g in got), "trace"])
    ops.append([f"par.tree {n_workers}", tree_string(n_workers), "tree"])
    for name, o in res_by.items():
        del o
    return ops


def merging_rounds(res, rng, max_workers=9):
    """parallel_merging alone for 1..9 sketches: HLL with one distinct key per sketch, and the recorded merge pairs"""
    s = sk()
    import sketchnu.helpers as H

    ops = []
    for n in range(1, max_workers + 1):
        arr = [s.HyperLogLog(7, 5, shared_memory=True) for _ in range(n)]
        for i, h in enumerate(arr):
            h.add(b"k%d" % i)
        cms = [s.CountMinLinear(2, 1, shared_memory=True) for _ in range(n)]
        for i, c in enumerate(cms):
            c.add(b"x", i + 1)
            c.n_added_records[1] = i + 10
        names = {h.shm.name: i for i, h in enumerate(arr)}
        pairs = []
        orig = H._merge_worker

        def spy(s1, s2):
            if s1[2] in names:
                pairs.append((names[s1[2]], names[s2[2]]))
            return orig(s1, s2)

        ctx = FakeCtx([])
        with Patched(ctx):
            H._merge_worker = spy
            try:
                out = H.parallel_merging(list(arr), ctx.Queue())
                outc = H.parallel_merging(list(cms), ctx.Queue())
            finally:
                H._merge_worker = orig
        want = s.HyperLogLog(7, 5)
        for i in range(n):
            want.add(b"k%d" % i)
        if bytes(out.registers) != bytes(want.registers):
            res.oracle_failures.append({"pid": "C08", "what": f"C08 parallel_merging of {n} sketches lost a sketch (registers differ from the union)", "n": n})
        if int(outc.query(b"x")) != n * (n + 1) // 2 or int(outc.n_records()) != sum(i + 10 for i in range(n)):
            res.oracle_failures.append({"pid": "C08", "what": f"C08 parallel_merging of {n} count-min sketches: estimate {int(outc.query(b'x'))} / n_records {int(outc.n_records())} "
                                        f"differ from the sums {n*(n+1)//2} / {sum(i + 10 for i in range(n))}", "n": n})
        if pairs != merge_order(n):
            res.oracle_failures.append({"pid": "C08", "what": f"C08 parallel_merging of {n}: merge pairs {pairs} differ from the documented rounds {merge_order(n)}", "n": n})
        ops.append([f"par.tree {n}", tree_string(n), "tree"])
        res.evaluations += 1
        res.nontrivial(["merging_rounds", n])
        del arr, cms, out, outc
    return ops


def monitor_scripts(res, rng):
    """the monitor loop with scripted exit codes (worker processes that never run): closed ⇒ exception"""
    s = sk()
    import sketchnu.helpers as H

    ops = []
    scripts = [
        [[None, 0], [0, 0]],
        [[None, None], [3, None], [3, 0]],
        [[None, 0], [None, 0], [-9, 0]],
        [[0, 0, 0]],
        [[None, 1, None], [0, 1, 0]],
        [[137]],
        # "R" = a surviving worker blocked on the queue: it keeps running until somebody kills it
        [[None, "R"], [3, "R"]],
        [["R", None, "R"], ["R", -9, "R"]],
    ]
    for script in scripts:
        nw = len(script[0])
        tick = [0]

        class ScriptedProcess(FakeProcess):
            def start(self2):
                import sketchnu.helpers as HH
                if self2.target is HH._worker:
                    self2.idx = self2.args[0]
                    self2.ctx.worker_procs.append(self2)
                    self2.polls = 0
                elif self2.target is HH._log_worker:
                    pass
                else:
                    FakeProcess.start(self2)

            @property
            def exitcode(self2):
                if getattr(self2, "idx", None) is None:
                    return self2.__dict__.get("_ec")
                if self2.__dict__.get("_killed"):
                    return -9
                row = script[min(max(tick[0] - 1, 0), len(script) - 1)]
                v = row[self2.idx]
                return None if v == "R" else v

            @exitcode.setter
            def exitcode(self2, v):
                self2.__dict__["_ec"] = v

            def kill(self2):
                self2.__dict__["_killed"] = True

            def join(self2):
                pass

        ctx = FakeCtx([[] for _ in range(nw)])
        ctx.Process = lambda target=None, args=(), kwargs=None: ScriptedProcess(ctx, target, args, kwargs)
        tick = [0]
        with Patched(ctx):
            def _tick(s_):
                tick[0] += 1
                if tick[0] > 60:
                    raise HangDetected()
            H.sleep = _tick   # one snapshot per monitor iteration; a loop that never ends is a hang
            try:
                H.parallel_add([], callback, n_workers=nw, hll_args={"p": 7})
                outcome = "clean"
            except ValueError as e:
                outcome = "closed" if "closed" in str(e) else f"ValueError:{e}"
            except HangDetected:
                outcome = "HANG"
            except UnboundLocalError:
                outcome = "clean"  # empty item list: _fill_queue's final log line (not part of any property)
            except BaseException as e:  # noqa
                outcome = type(e).__name__
        bad = any(c not in (None, 0, "R") for row in script for c in row)
        if outcome == "HANG":
            res.oracle_failures.append({"pid": "C19", "what": f"C19 monitor: with exit codes {script} (R = survivor blocked on the queue) parallel_add never terminates: "
                                        "after a worker died the surviving workers were not killed", "script": script})
        # polls happen once per loop iteration per worker; the model sees the same snapshots (a killed survivor reads -9)
        if not any(c == "R" for row in script for c in row):
            snaps = ";".join(",".join("n" if c is None else str(c) for c in row) for row in script)
            ops.append([f"par.monitor {snaps}", outcome if outcome in ("clean", "closed") else "closed?", "monitor"])
        if bad and outcome == "clean":
            res.oracle_failures.append({"pid": "C19", "what": f"C19 monitor: a worker exit code ≠ 0 in {script} but parallel_add returned normally", "script": script})
        if not bad and outcome != "clean":
            res.oracle_failures.append({"pid": "C19", "what": f"C19 monitor: all workers exited 0 in {script} but parallel_add ended with {outcome}", "script": script})
        res.evaluations += 1
        res.nontrivial(["monitor", script])
    return ops


class NoSleep:
    """the sketches' __del__ sleeps 0.25 s and calls gc.collect(); neutralised for the whole slice (test-side patch)"""

    def __enter__(self):
        import types

        import sketchnu.countmin as C
        import sketchnu.heavyhitters as HH
        import sketchnu.helpers as H
        import sketchnu.hyperloglog as L

        self.saved = []
        nogc = types.SimpleNamespace(collect=lambda *a: 0)
        for mod in (H, C, HH, L):
            self.saved += [(mod, "sleep", mod.sleep), (mod, "gc", mod.gc)]
            mod.sleep = lambda s: None
            mod.gc = nogc
        return self

    def __exit__(self, *a):
        for mod, name, val in self.saved:
            setattr(mod, name, val)


def run_slice(res, rng, tier, pid):
    with NoSleep():
        _run_slice(res, rng, tier, pid)
    import gc
    gc.collect()


def _run_slice(res, rng, tier, pid):
    s = sk()
    t0 = time.time()
    sess = Session()
    n = 0
    # --- exhaustive assignments (quick: ≤ 3 items, ≤ 3 workers; thorough: ≤ 5 items, ≤ 4 workers)
    max_items, max_workers = (4, 3) if tier == "quick" else (6, 4)
    for nw in range(1, max_workers + 1):
        for ni in range(0 if pid == "C08" else 1, max_items + 1):
            for assign in itertools.product(range(nw), repeat=ni):
                combo = COMBOS[(n) % len(COMBOS)] if tier != "quick" else (("hll",), ("cms",), ("cms", "hh", "hll"), ("hh",))[n % 4]
                kw = sketch_args(rng, combo)
                faults = None
                if pid == "C19":
                    faults = {i: rng.choice([None, "before", "after"]) for i in range(ni)}
                items = make_items(rng, ni, faults)
                acts, got = assignment_trace(assign, nw)
                ops = check_run(res, {pid}, items, nw, got, kw, acts, combo, f"assignment {assign} on {nw} workers")
                sess.add_case({"slice": "parallel-assign", "n_workers": nw, "assign": list(assign), "combo": combo}, ops)
                n += 1
                res.evaluations += 1
                res.nontrivial(["assign", nw, assign, combo, pid])
    res.count("exhaustive_assignments", n)
    # --- C19: every subset of items marked to raise (before / after), ≤ 4 (quick 3) items, 1..3 workers
    if pid == "C19":
        m = 4 if tier == "quick" else 5
        for nw in (1, 2, 3):
            for mask in range(1 << m):
                kind = rng.choice(["before", "after"])
                faults = {i: (kind if (mask >> i) & 1 else None) for i in range(m)}
                items = make_items(rng, m, faults)
                acts, got = random_trace(rng, m, nw)
                combo = ("cms", "hh", "hll") if mask % 3 == 0 else rng.choice(COMBOS)
                kw = sketch_args(rng, combo)
                ops = check_run(res, {pid}, items, nw, got, kw, acts, combo, f"raising subset mask {mask:b} ({kind}) on {nw} workers")
                sess.add_case({"slice": "parallel-faults", "mask": mask, "kind": kind, "n_workers": nw}, ops)
                res.evaluations += 1
                res.nontrivial(["faults", nw, mask, kind])
                res.count("fault_subsets")
        # a worker dies on its k-th item
        for nw in (1, 2, 3):
            for k in range(3):
                ni = 5
                acts, got = random_trace(rng, ni, nw)
                victims = [g[k] for g in got if len(g) > k]
                if not victims:
                    continue
                items = make_items(rng, ni, {victims[0]: "die"})
                combo = rng.choice(COMBOS)
                ops = check_run(res, {pid}, items, nw, got, sketch_args(rng, combo), acts, combo, f"worker dies on its item #{k} ({nw} workers)")
                res.evaluations += 1
                res.nontrivial(["die", nw, k])
                res.count("dead_worker_runs")
        sess.add_case({"slice": "monitor"}, monitor_scripts(res, rng))
    # --- random schedules with more workers (odd counts exercise the carried sketch), all 7 sketch combinations, generator input
    for j in range(60 if tier == "quick" else 500):
        nw = rng.choice([1, 2, 3, 4, 5, 6, 7, 9])
        ni = rng.randrange(0 if pid == "C08" else 1, 9)
        combo = COMBOS[j % len(COMBOS)]
        kw = sketch_args(rng, combo)
        faults = None
        if pid == "C19":
            faults = {i: rng.choice([None, None, "before", "after"]) for i in range(ni)}
        items = make_items(rng, ni, faults)
        acts, got = random_trace(rng, ni, nw)
        ops = check_run(res, {pid}, items, nw, got, kw, acts, combo, f"random schedule, {nw} workers, {ni} items", as_generator=(j % 3 == 0))
        sess.add_case({"slice": "parallel-random", "n_workers": nw, "items": ni, "combo": combo}, ops)
        res.evaluations += 1
        res.nontrivial(["random", nw, got, combo, pid])
        res.count("random_schedules")
        res.sample({"slice": "parallel", "n_workers": nw, "items": ni, "assignment": got, "sketches": combo, "trace": " ".join(acts[:14])})
    if pid == "C08":
        sess.add_case({"slice": "merging_rounds"}, merging_rounds(res, rng, 9))
    mism, ncmp = sess.run()
    res.mismatches += mism
    res.traces += res.evaluations
    res.slices["parallel"] = {"runs": res.evaluations, "comparisons": ncmp, "mismatches": len(mism), "wall_s": round(time.time() - t0, 1)}


def spawned_runs(res, rng, pid):
    """thorough only: real spawned processes"""
    import subprocess
    import sys
    import os

    here = os.path.dirname(os.path.abspath(__file__))
    t0 = time.time()
    for nw in ((1, 2, 3, 5) if pid == "C08" else (2,)):
        mode = "ok" if pid == "C08" else "die"
        p = subprocess.run([sys.executable, os.path.join(here, "spawn_probe.py"), str(nw), mode], capture_output=True, text=True, timeout=600,
                           env={**os.environ, "PYTHONPATH": os.environ.get("SKETCHNU_REPO", "/repo")})
        out = [l for l in p.stdout.splitlines() if l.startswith("RESULT ")]
        res.evaluations += 1
        res.count("spawned_runs")
        if not out:
            res.notes.append(f"spawn_probe {nw} {mode}: no RESULT line (rc={p.returncode}): {p.stderr[-300:]}")
            if mode == "die" and p.returncode != 0:
                continue
            res.oracle_failures.append({"pid": pid, "what": f"{pid} spawned parallel_add run with {nw} workers ({mode}) produced no result: rc={p.returncode}"})
            continue
        verdict = out[-1].split(" ", 1)[1]
        if verdict != "PASS":
            res.oracle_failures.append({"pid": pid, "what": f"{pid} spawned parallel_add run with {nw} workers ({mode}): {verdict}"})
    res.slices["spawned"] = {"wall_s": round(time.time() - t0, 1)}
