"""
slice_hll.py — HyperLogLog registers (C02; reused by C07/C08/C12).

Full stack: the Lean model computes FastHash itself (`Impl.fasthash64`), so the compared
quantity is the whole register file after a history of add / update / add_ngram / merge on up to
5 sketches.  Keys include *constructed* 8-byte keys whose FastHash64 is a chosen value, so every
rank 1..64-p+1 and the register indices 0 and m-1 are reached.

Model-independent oracle: registers == those of a fresh real sketch fed each distinct key once,
query() bit-equal to that sketch's, and registers == max rank per index computed with the
Python reference hash.
"""
import struct
import time

from core import Session
from real import hexk, key_alphabet, sk
from slice_hash import M64, ref_fasthash64

FH_M = 0x880355F21E6D1965
FH_C = 0x2127599BF4325C37
FH_M_INV = pow(FH_M, -1, 1 << 64)
FH_C_INV = pow(FH_C, -1, 1 << 64)


def _unmix(h):
    h ^= h >> 47
    h = (h * FH_C_INV) & M64
    h = h ^ (h >> 23) ^ (h >> 46)
    return h


def preimage8(H, seed):
    """8-byte key whose fasthash64(key, seed) == H"""
    h1 = _unmix(H)
    x = (h1 * FH_M_INV) & M64
    mv = x ^ seed ^ ((8 * FH_M) & M64)
    v = _unmix(mv)
    return v.to_bytes(8, "little")


def windows(key, n):
    if len(key) <= n:
        return [key]
    return [key[i:i + n] for i in range(len(key) - (n - 1))]


def rank_idx(p, h):
    idx = h & ((1 << p) - 1)
    bits = h >> p
    rank = (64 - p) - bits.bit_length() + 1
    return idx, rank


SEEDS = [0, 1, 2**32 - 1, 2**32, 2**63, 2**64 - 1]


def gen_case(rng, tier):
    p = rng.choice([7, 7, 8, 9, 10, 11, 12, 13, 14, 15, 16])
    seed = rng.choice(SEEDS + [rng.randrange(2**64)])
    nk = rng.choice([1, 2, 3, 5, 8, 13, 30])
    keys = key_alphabet(rng, nk)
    # constructed keys: chosen rank and index
    for _ in range(rng.randrange(1, 5)):
        rank = rng.choice([1, 2, 20, 21, 30, 31, 32, 33, 40, 47, 48, 49, 56, 64 - p - 1, 64 - p, 64 - p + 1, rng.randrange(1, 64 - p + 2)])
        rank = max(1, min(rank, 64 - p + 1))
        idx = rng.choice([0, (1 << p) - 1, rng.randrange(1 << p)])
        nbits = 64 - p - rank + 1  # bit length of the remaining bits
        if nbits <= 0:
            rest = 0
        else:
            rest = (1 << (nbits - 1)) | rng.randrange(1 << (nbits - 1)) if nbits > 1 else 1
            # bit patterns on which a leading-zero count that goes through floating point rounds the wrong way:
            # all ones below the top bit (2^k - 1), all ones but the lowest few bits, and the exact power of two
            shape = rng.random()
            if shape < 0.25:
                rest = (1 << nbits) - 1
            elif shape < 0.40:
                rest = ((1 << nbits) - 1) ^ rng.randrange(1 << min(nbits - 1, 8)) if nbits > 1 else 1
            elif shape < 0.50:
                rest = 1 << (nbits - 1)
        H = (rest << p) | idx
        keys.append(preimage8(H, seed))
    nsk = rng.choice([1, 2, 3, 5])
    nops = rng.randrange(3, 40 if tier == "quick" else 80)
    ops = []
    for _ in range(nops):
        x = rng.random()
        s = rng.randrange(nsk)
        if x < 0.5:
            ops.append(("add", s, rng.randrange(len(keys)), rng.choice([1, 1, 0, 7, 2**40])))
        elif x < 0.65 and nsk > 1:
            ops.append(("merge", s, rng.choice([t for t in range(nsk) if t != s])))
        elif x < 0.75:
            ops.append(("update_list", s, [rng.randrange(len(keys)) for _ in range(rng.randrange(0, 6))]))
        elif x < 0.82:
            ops.append(("update_dict", s, [(rng.randrange(len(keys)), rng.randrange(1, 9)) for _ in range(rng.randrange(0, 4))]))
        elif x < 0.92:
            k = rng.randrange(len(keys))
            ops.append(("ngram", s, k, rng.choice([1, 2, 3, 8, max(len(keys[k]), 1), len(keys[k]) + 1, 255, 256, 257, 300, 65536, 2**32, 2**32 + 1])))
        else:
            ops.append(("selfmerge", s))
    # finally merge everything into sketch 0 in a random tree order
    order = list(range(1, nsk))
    rng.shuffle(order)
    for t in order:
        ops.append(("merge", 0, t))
    return {"p": p, "seed": seed, "keys": [k.hex() for k in keys], "nsk": nsk, "ops": ops}


def run_case(case):
    """returns (driver ops, oracle failures, stats)"""
    s = sk()
    import numpy as np

    p, seed = case["p"], case["seed"]
    keys = [bytes.fromhex(h) for h in case["keys"]]
    hs = [s.HyperLogLog(p, seed) for _ in range(case["nsk"])]
    added = [set() for _ in range(case["nsk"])]
    ops = [[f"hll.new {i} {p} {seed}", None, "setup"] for i in range(case["nsk"])]

    def nz(h):
        idx = np.nonzero(h.registers)[0]
        return " ".join(f"{int(i)}:{int(h.registers[i])}" for i in idx)

    nq = 0
    mid_fail = []
    for op in case["ops"]:
        k = op[0]
        if k == "add":
            _, i, kid, v = op
            hs[i].add(keys[kid], v)
            added[i].add(keys[kid])
            ops.append([f"hll.add {i} {hexk(keys[kid])}", None, "op"])
        elif k == "update_list":
            _, i, kids = op
            hs[i].update([keys[j] for j in kids])
            for j in kids:
                added[i].add(keys[j])
                ops.append([f"hll.add {i} {hexk(keys[j])}", None, "op"])
        elif k == "update_dict":
            _, i, items = op
            d = {keys[j]: v for j, v in items}
            hs[i].update(d)
            for kk in d:
                added[i].add(kk)
                ops.append([f"hll.add {i} {hexk(kk)}", None, "op"])
        elif k == "ngram":
            _, i, kid, n = op
            hs[i].add_ngram(keys[kid], n)
            for w in windows(keys[kid], n):
                added[i].add(w)
            ops.append([f"hll.addngram {i} {hexk(keys[kid])} {n}", None, "op"])
        elif k == "merge":
            _, a, b = op
            before_b = bytes(hs[b].registers)
            hs[a].merge(hs[b])
            added[a] |= added[b]
            ops.append([f"hll.merge {a} {b}", None, "op"])
            if bytes(hs[b].registers) != before_b:
                return ops, [{"what": "HyperLogLog.merge modified its argument", "case": case}], {}
        elif k == "selfmerge":
            _, a = op
            hs[a].merge(hs[a])
            ops.append([f"hll.merge {a} {a}", None, "op"])
        i = op[1]
        ops.append([f"hll.nz {i}", nz(hs[i]), "exact"])
        # query() in the MIDDLE of the history (a memoised estimate that some mutating entry point forgets to drop shows up
        # at the next query); every third one is compared with a fresh sketch fed the distinct keys so far
        qmid = hs[i].query()
        nq += 1
        if nq % 3 == 0 and not mid_fail:
            fr = s.HyperLogLog(p, seed)
            for kk in sorted(added[i]):
                fr.add(kk)
            if struct.pack("<d", float(fr.query())) != struct.pack("<d", float(qmid)):
                mid_fail.append({"what": f"C02 query() in mid-history (after op {op[0]}) = {float(qmid)!r}, a fresh sketch fed the same distinct keys gives {float(fr.query())!r}", "case": case})
    fails = list(mid_fail)
    maxrank = 0
    shared = False
    for i, h in enumerate(hs):
        # oracle 1: fresh sketch fed each distinct key once (sorted order — any order must do)
        fresh = s.HyperLogLog(p, seed)
        for kk in sorted(added[i]):
            fresh.add(kk)
        if bytes(fresh.registers) != bytes(h.registers):
            fails.append({"what": f"C02 registers of sketch {i} differ from a fresh sketch fed the {len(added[i])} distinct keys (p={p}, seed={seed})", "case": case})
        elif struct.pack("<d", float(fresh.query())) != struct.pack("<d", float(h.query())):
            fails.append({"what": f"C02 query() differs from the fresh sketch's although registers agree", "case": case})
        # oracle 2: denotation with the Python reference hash
        want = {}
        for kk in added[i]:
            idx, rk = rank_idx(p, ref_fasthash64(kk, seed))
            if idx in want:
                shared = True
            want[idx] = max(want.get(idx, 0), rk)
            maxrank = max(maxrank, rk)
        got = {int(j): int(h.registers[j]) for j in np.nonzero(h.registers)[0]}
        if got != want:
            diff = [(j, got.get(j), want.get(j)) for j in set(got) | set(want) if got.get(j) != want.get(j)][:3]
            fails.append({"what": f"C02 register != max rank over keys with that index (index, got, want): {diff} (p={p}, seed={seed})", "case": case})
    return ops, fails, {"maxrank": maxrank, "shared": shared}


def run_slice(res, rng, tier, n_cases, budget_s):
    t0 = time.time()
    sess = Session()
    n = 0
    while n < n_cases and time.time() - t0 < budget_s:
        case = gen_case(rng, tier)
        ops, fails, st = run_case(case)
        res.oracle_failures += fails
        sess.add_case(case, ops)
        res.evaluations += 1
        n += 1
        if st.get("shared") or st.get("maxrank", 0) >= 20:
            res.nontrivial(case)
        if st.get("maxrank", 0) >= 20:
            res.count("cases_rank_ge_20")
        if st.get("maxrank", 0) >= 40:
            res.count("cases_rank_ge_40")
        if st.get("shared"):
            res.count("cases_two_keys_one_register")
        res.count(f"p_{case['p']}")
        res.sample({"slice": "hll", "p": case["p"], "seed": case["seed"], "keys": case["keys"][:3], "ops": [list(o) for o in case["ops"][:6]]})
    mism, ncmp = sess.run()
    res.mismatches += mism
    res.traces += n
    res.count("comparisons", ncmp)
    res.slices["hll"] = {"cases": n, "comparisons": ncmp, "mismatches": len(mism), "wall_s": round(time.time() - t0, 1)}


def exhaustive_small(res, rng):
    """all orderings and all 2-way partitions of key sets of size ≤ 4: registers identical"""
    from itertools import permutations

    s = sk()
    t0 = time.time()
    n = 0
    fails = []
    for size in (1, 2, 3, 4):
        p = rng.choice([7, 10, 16])
        seed = rng.choice(SEEDS)
        keys = key_alphabet(rng, size)
        ref = None
        for perm in permutations(keys):
            for mask in range(1 << size):
                a, b = s.HyperLogLog(p, seed), s.HyperLogLog(p, seed)
                for j, kk in enumerate(perm):
                    (a if (mask >> j) & 1 else b).add(kk)
                    (a if (mask >> j) & 1 else b).add(kk)  # duplicate
                a.merge(b)
                st = bytes(a.registers)
                if ref is None:
                    ref = st
                elif st != ref:
                    fails.append({"what": f"C02 order/partition dependence: keys {[k.hex() for k in keys]} perm {[k.hex() for k in perm]} mask {mask} p={p} seed={seed}",
                                  "case": {"p": p, "seed": seed, "keys": [k.hex() for k in perm], "mask": mask}})
                n += 1
    res.evaluations += n
    res.count("exhaustive_order_partition_runs", n)
    res.oracle_failures += fails[:5]
    res.slices["hll-exhaustive"] = {"runs": n, "wall_s": round(time.time() - t0, 1)}
    res.nontrivial(["hll-exhaustive", n])
