#!/usr/bin/env python3
"""mkmanifest.py — writes /verif/MANIFEST.json from the table below (single source of truth)."""
import json
import os

VERIF = os.path.dirname(os.path.dirname(os.path.abspath(__file__)))

SRC = (" The Numba kernels are additionally TRANSLATED from the current source on every run — whole kernels with their loops, array stores and calls (harness/kernels2.py → "
       "Model/Generated/Full*.lean), the class methods that wrap them incl. the batch entry points (harness/methods.py → Methods.lean) and the decision-logic cores of the float-bearing "
       "ones (harness/kernels.py → Kernels*.lean) — and proved equal to the hand-written model for all inputs (Properties/Full*.lean, FullApi.lean, Src*.lean), so a changed kernel "
       "or method breaks a proof obligation.")

E2E = (" Properties/EndToEnd.lean closes the chain: the generated definitions are run over ANY history tree (srcRun, srcRunHll, srcRunHH), proved to represent the model's "
       "evaluation of that history, and the property theorem is restated for them (C01_lower_src/C01_upper_src, C02_setOnly_src, C03_getitem_src, C04_getitem_src, C05_self_src, C18_add_mono_src).")

E2ELOG = (" Properties/EndToEndLog.lean closes the chain for the log sketches: ANY history tree run with the GENERATED CountMinLog16/8 add and merge methods "
          "(whole kernels inside; _merge_log16/8 translated with the cell body as a checked pure function of the two cells) yields a table reachable by contract-respecting steps "
          "(srcRunLog16_reach / srcRunLog8_reach), for any _log_counter behaviour meeting LcOK (the model's does for all draws), so C06_lower_src / C06_exact_src hold for the code as it reads. "
          "harness/floattr.py translates the float code of _counter2value and of the merge cell body to Lean Float programs and Properties/SrcFloat.lean proves them definitionally equal to "
          "the float mirror (counter2valueF, mergeLogCellF) that the all-pairs correspondence evaluates.")
SCHEMA = (" The class-level code (constructor validation, what save() writes and load() copies back, the shared-memory byte layouts of __init__ and attach_existing_shm) is TRANSLATED "
          "from the current source on every run (harness/schema.py → Model/Generated/Schema.lean) and proved to be the modelled one for all shapes (Properties/SrcSchema.lean).")

TB = ("Trusted: Lean 4.33 kernel; axioms propext/Classical.choice/Quot.sound only (audited per theorem on every run; no sorry/native_decide/bv_decide); "
      "the hand-written model is tied to /repo by the differential correspondence run of this check (harness, driver glue, translator); "
      "Numba/NumPy/CPython/libm/OS are modelled, not verified.")

CHECKS = {
    "C01": dict(
        text="Theorems C01.lower_contract/upper_contract/exact_contract (and their instances at the exact kernel model) prove true ≤ estimate ≤ per-row collision bound "
             "for EVERY history tree of adds and merges, every key, width, depth and hash, by induction over step contracts AddOK/MergeOK. The run re-checks the proofs, "
             "evaluates the Lean contracts on the real code's before/after tables, the Lean query on real tables, and the bound on real estimates; all short histories are enumerated."
             + SRC + E2E + "",
        tech="Lean 4 proof (induction over history trees with decidable step contracts) + differential correspondence on real tables",
        ref="§4 C01"),
    "C02": dict(
        text="Theorems C02_setOnly/C02_fresh/C02_denote_* prove that the register file is the per-index maximum rank over the SET of keys for any history tree, any hash; "
             "nlz64_spec/rank_spec prove the branch-wise leading-zero count correct for all 64-bit inputs; merge is comm/assoc/idempotent. The run re-checks the proofs and "
             "compares real registers with the full-stack Lean model (incl. FastHash) on histories with constructed high-rank keys."
             + SRC + E2E + "",
        tech="Lean 4 proof (denotational characterisation of registers) + full-stack differential correspondence",
        ref="§4 C02"),
    "C11": dict(
        text="Theorems fasthash64_eq/fasthash32_eq/murmur3_eq prove, for byte strings of ANY length and any seed, that the model of the code's structure with constants regenerated "
             "from the source equals the published reference algorithms; decide-anchors pin the reference to C++-derived vectors. hashes.py is additionally TRANSLATED WHOLE on every run "
             "(harness/hashtr.py → Model/Generated/FullHash.lean, over UInt64/UInt32/bytes) and fasthash64_full/fasthash32_full/murmur3_full + *_src_ref prove that the source as it reads "
             "now equals the model and hence the published algorithms for every seed and every key shorter than 2^64 (2^32) bytes. The run re-checks the proofs and compares the real "
             "functions with both Lean models on every block/tail/alignment class, incl. keys that are views taken inside jitted code.",
        tech="Lean 4 proof (source translated whole = Impl = Ref for all inputs) + differential correspondence",
        ref="§4 C11"),
}

CHECKS.update({
    "C03": dict(
        text="Theorems cell_le_true/C03_getitem/C03_query prove, for every history tree, hash, width and depth, that every stored count is ≤ the true count of the stored key "
             "identity, hence hh[key] and every reported pair never over-count and a never-added key is never reported; padKey_inj proves (padded bytes, length) = identity. "
             "The run re-checks the proofs, compares cells/answers with the model on NUL/length-sensitive keys and evaluates the oracle on real values; width-1 sequences enumerated."
             + SRC + E2E + "",
        tech="Lean 4 proof (cell invariant by induction over history trees) + differential correspondence",
        ref="§4 C03"),
    "C04": dict(
        text="Theorems C04_phi/C04_getitem/C04_query/C04_major prove the Boyer-Moore potential bound 2f - W_r ≤ hh[key] for every history tree absent saturation (total weight ≤ 2^32-1), "
             "that query contains such a key, and that a strict-majority key is reported first, strictly ahead of all others. The run re-checks the proofs, compares with the model and "
             "evaluates the bounds on real values for every key after every operation; width-1 orderings and partitions are enumerated."
             + SRC + E2E + "",
        tech="Lean 4 proof (potential-function invariant, super-additive under merge) + differential correspondence",
        ref="§4 C04"),
    "C13": dict(
        text="Theorems query_length/nodup/sorted/counts/prefix/complete characterise the answer; C13_fresh proves for EVERY sequence of add/merge/query/regenerate operations that the cached "
             "answer equals the answer recomputed from the current cells (invariant: cache valid or detectably stale). The run re-checks the proofs and compares every real answer "
             "(cache hit and miss paths counted) with the model, with the model's fresh recomputation and with a freshly loaded real copy."
             + SRC + "",
        tech="Lean 4 proof (cache-freshness invariant over operation sequences; sortedness/permutation lemmas; the cache test of query() and the cell visit of generate_candidate_set translated from source) + differential correspondence",
        ref="§4 C13"),
})

CHECKS.update({
    "C05": dict(
        text="One-step theorems for EVERY state (not only reachable ones), key and multiplicity: lin_add_self/mono/bound/local/nadded for the linear kernel and logCounter_steps/exact/le_max, "
             "log_add_steps/exact/mono/bound/local/nadded for log8/log16 under ARBITRARY draws and an arbitrary decision function (only inc(0,u)=true assumed for exactness). "
             "The run re-checks the proofs, compares the real kernels with the exact models after every add (tables, n_added, consumed draws; draws placed by the harness) "
             "and evaluates the one-step oracle on the real values."
             + SRC + "",
        tech="Lean 4 proof (one-step theorems over all states, arbitrary draws) + differential correspondence with placed draws",
        ref="§4 C05"),
    "C06": dict(
        text="C06_lower/C06_exact prove estimate ≥ min(true, num_reserved+1) on every history (adds with arbitrary draws, merges by the nearest-counter specification) and exactness for "
             "collision-free keys; rand_fresh proves the t-th draw handed out is element t of the concatenated batches (never recycled, none skipped); step_unbias/chain_mean prove over an "
             "arbitrary field that the expected decoded value after n unit adds is true count + n until the ceiling, given P(rand < base^-c') = base^-c'. The run ties _log_counter/_rand to "
             "the model with placed draws and a seeded Numba generator across refills."
             + SRC + E2ELOG + "",
        tech="Lean 4 proof (history invariants over log contracts; outcome-tree expectation over a field; _rand state machine) + correspondence with placed draws / seeded refills",
        note=TB + " PRNG uniformity/independence is an assumption; the Monte-Carlo comparison in the thorough tier is a refutation search, not part of the proof.",
        ref="§4 C06"),
    "C09": dict(
        text="Linear: lin_merge_cell/comm/empty/ge/query/books (saturating sum and its consequences). Log: nearest_spec, merge_reserved, merge_ceiling, merge_comm, merge_empty, merge_ge, "
             "nearest_ge for ANY decode that is linear up to num_reserved+1 and strictly increasing; decS_ok shows the exact scaled decode of the code's formula is one; nearestFast_eq ties the "
             "driver's evaluator to the specification. The run compares the real merge on ALL 256×256 log8 counter pairs (and 65536 + sampled log16 pairs) with the Lean float mirror, the Lean exact "
             "specification and an independent exact oracle."
             + SRC + E2ELOG + "",
        tech="Lean 4 proof (nearest-counter specification over exact scaled integers) + all-pairs differential correspondence",
        note=TB + " The code evaluates the log merge in float64; ties within 1e-9 of the gap between neighbouring decoded values accept either neighbour.",
        ref="§4 C09"),
    "C18": dict(
        text="lin_sticky (no estimate ever decreases under any sequence of adds and merges on either side; 2^32-1 is absorbing), counter_stop/log_add_sticky/log_merge_sticky for log counters, "
             "hh_alone (a key alone in its cells holds exactly min(true, 2^32-1)) for every history tree. The clause about _find_base (a float Newton iteration) is checked against its "
             "specification |dec(max counter) - max_count| ≤ 1e-6·max_count or ValueError on a configuration grid — a test, labelled as such."
             + SRC + E2ELOG + " C18_log_add_mono_src / C18_log_merge_mono_src: for the generated log code no add and no merge lowers any estimate.",
        tech="Lean 4 proof (monotonicity/stickiness over operation sequences; exact cell content when alone) + correspondence near ceilings + find_base grid test",
        note=TB + " _find_base numerics are NOT proved (checked against a spec on a grid).",
        ref="§4 C18"),
})

CHECKS.update({
    "C07": dict(
        text="PARTIAL. Proved: occupied_le_keys (n distinct keys occupy at most n registers, any history, any hash), C07_empty (the empty sketch's linear-counting value is 0), C07_lc_cap "
             "(the linear-counting value is monotone in the number of occupied registers). The central error-envelope clause is statistical (FastHash ≈ random function, empirical HLL++ "
             "tables) and is NOT a theorem: the run searches for refutations with a seeded Monte-Carlo envelope test at k = 7 and ties query() to the documented estimator (C17 slice).",
        tech="Lean 4 proof of the deterministic clauses + estimator correspondence; the envelope clause is only searched (Monte-Carlo), not proved",
        note=TB + " NOT PROVED: relative error ≤ k·1.04/√m for random key sets (statistical assumption about FastHash and the bias tables).",
        ref="§4 C07"),
    "C10": dict(
        text="C10_roundtrip proves for all five classes that everything a constructor accepted is accepted again on load and that the loaded object equals the saved one (class, every parameter, "
             "tables, bookkeeping), default_phi_valid covers the width-1 heavy-hitter case, C10_dispatch/C10_reject prove the module-level dispatch and TypeError of the other count-min loaders, "
             "C10_continue that any further history gives the same result. The run compares real save/load (shared_memory on/off), every public attribute, continued use under placed draws, "
             "merge with the original and a second generation, the constructor validation grid with the model, and — because an in-process round trip cannot see state the loading process "
             "is expected to rebuild from the file — files saved here and loaded in a NEW interpreter (harness/fresh_load.py), compared on class, attributes, tables and every answer." + SCHEMA,
        tech="Lean 4 proof (round-trip over a model of constructors/save/load incl. validation; save/load schema translated from source) + differential correspondence",
        ref="§4 C10"),
    "C12": dict(
        text="lin_add_mult / hh_add_mult (v ≤ 2^32-1) / log_add_mult (same draw stream) / hll_add_mult prove add(key, v) = v single adds as STATE equalities for every state; logCounter_mult, "
             "hh_cell_add_mult (+ proof that the cap hypothesis is necessary), dict = replicate-list, addNgram_spec/windows_spec characterise the ngram entry points. The run compares every entry "
             "point on a real sketch with the loop of single adds on another real sketch and with the model.",
        tech="Lean 4 proof (kernel laws: multiplicity = iterated unit adds; window characterisation) + real-vs-real and real-vs-model correspondence",
        ref="§4 C12"),
    "C14": dict(
        text="PARTIAL. Proved (Mathlib, finite counting): sum_err, row_markov, depth_product, C14_ideal — for column functions drawn uniformly and independently per row the number of hash tuples "
             "whose classic error reaches T in every row times T^d is ≤ ((N-w_x)·W^(n-1))^d, i.e. fraction ≤ ((N-w_x)/(W·T))^d; bad_estimate_all_rows transfers it through C01's upper bound. "
             "Checked exactly: column = fasthash64(key, row) % width in every kernel. That FastHash behaves like such a family is an ASSUMPTION, only searched (χ² of row pairs, Zipf streams).",
        tech="Lean 4 proof of the ideal-hash bound by counting + exact column correspondence; FastHash randomness is assumed and only searched",
        note=TB + " NOT PROVED: FastHash with seeds 0..d-1 ≈ independent uniform hash functions (statistical).",
        ref="§4 C14"),
    "C15": dict(
        text="merge_ok_iff proves, for every pair of same-family sketches, that the comparison chain (Python short-circuit order, attribute lookup) accepts iff the named parameters agree and "
             "otherwise refuses with TypeError, never touching a missing attribute; compatible_merges is the converse clause. The run enumerates every ordered pair of a configuration grid on the "
             "real code: exception class vs the model, byte snapshots of both operands before/after.",
        tech="Lean 4 proof (decision logic stated outright) + exhaustive grid correspondence",
        ref="§4 C15"),
    "C16": dict(
        text="PARTIAL. Proved: the layouts computed by __init__ and by attach_existing_shm agree for every shape (cms_layouts_agree, hh_layouts_agree), the segments tile the block exactly with a "
             "16-byte bookkeeping tail and are pairwise disjoint (…_tiling, chained_disjoint), little-endian round trip (decode_encode). The run compares real array offsets with the model and the "
             "state seen through owner/views with an in-memory sketch under interleaved operations (owners built by the constructor AND by load(shared_memory=True)), and checks /dev/shm on deletion." + SCHEMA,
        tech="Lean 4 proof of layout agreement/tiling (layouts translated from source) + differential correspondence across views",
        note=TB + " NOT PROVED (runtime): mapping coherence between attached views, unlink semantics of POSIX shared memory.",
        ref="§4 C16"),
    "C17": dict(
        text="Translation validation in nature. Proved on the tables REGENERATED from the source on every run (decide +kernel): 10×200 points, every raw-estimate row strictly increasing, "
             "raw[0]-bias[0] = threshold and raw[199]-bias[199] = 5·2^p exactly; the estimator's literal constants; and over any ordered field the branch structure (spec_*) and the interpolation "
             "(interp_left/inside/skip/between/right). The run compares real query() on boundary-placed register arrays with an independent rendering of the documented estimator and the Lean Float mirror.",
        tech="Lean 4 proof over translated tables (decide +kernel) and of the branch/interpolation structure (the branch structure of _query translated from source = hllSpec) + float correspondence at 1e-9",
        note=TB + " Float evaluation is compared (1e-9), not proved.",
        ref="§4 C17"),
    "C20": dict(
        text="PARTIAL (container modelled). C20_prefix/C20_prefix_classes prove that for a file whose end-of-central-directory signature occurs exactly once, 22 bytes before the end (uniqueSig, "
             "evaluated on every file), EVERY strict prefix fails to open in the model of np.load + zipfile._EndRecData (EOFError / ValueError / BadZipFile), and C20_complete that the whole file "
             "opens. C20_needs_uniqueSig proves the hypothesis necessary, and the run exhibits it on the real code: array data is stored uncompressed and 32-bit counters are caller-chosen, so a file "
             "written by save() can embed a complete sketch file, whose end record zipfile finds in every prefix that contains it — a GENUINE DEFECT of the unchanged tree, listed in known_findings.json "
             "(C20:embedded-complete-archive, printed as KNOWN-FINDING). The run loads every prefix of ordinary real saved files through all loaders and compares the outcome class with the model prefix "
             "by prefix, and loads the prefixes of crafted files: an embedded archive that lacks a required member must make the loader raise (a loader that returns is a new VIOLATION)." + SCHEMA,
        tech="Lean 4 proof (every strict prefix lacks a complete end record; hypothesis proved necessary) + exhaustive prefix correspondence incl. crafted embedded archives",
        note=TB + " np.load/zipfile behaviour is modelled from the installed sources.",
        ref="§4 C20"),
})

CHECKS.update({
    "C08": dict(
        text="PARTIAL (runtime modelled). Proved for the queue protocol as a transition system, any number of workers ≥ 1, any capacity ≥ 1, EVERY interleaving: conservation (processed ++ queued ++ "
             "todo is a permutation of the items), exactly_once, no_deadlock, step_decreases (termination), done_stays; merging_tree/merging_some/merging_assoc (pairwise rounds = a merge tree over "
             "the workers' sketches in order, odd counts included); records_total/ops_total/C08_hist (record counts and the multiset of operations equal the sequential stream's); C08Compose: "
             "C08_hll_result (the merged HyperLogLog IS the sequential one), C08_cms_bounds / C08_hh_bounds (C01 / C03 / C04 hold of the merged result w.r.t. the whole stream), "
             "runActions_reach (traces validated by the driver are runs of the protocol). "
             "The run drives the REAL parallel_add code in-process over all small assignments and random valid protocol traces and compares results with sequential processing and the model.",
        tech="Lean 4 proof (protocol invariant over all interleavings, merge-tree characterisation; the round structure of parallel_merging translated from source = mergeRound) + exhaustive small-schedule correspondence on the real worker/merge code",
        note=TB + " NOT PROVED (runtime): OS scheduling, spawn/pickling, shared-memory coherence, the multiprocessing queue's FIFO/exactly-once contract (assumed).",
        ref="§4 C08"),
    "C19": dict(
        text="PARTIAL (runtime modelled). Proved: records_only_successful and C19_callback (the protocol, hence termination and exactly-once, does not depend on callback outcomes; n_records counts "
             "only successful items; every item's — possibly partial — operations are in exactly one worker's sketch), C19_dead/monitor_ends/monitor_clean (a non-zero exit code in any snapshot the "
             "monitor sees closes the queues, so the outcome is an exception; all-zero ends clean). The run enumerates every subset of raising items, kills a worker on its k-th item and scripts "
             "exit-code snapshots against the real parallel_add code in-process.",
        tech="Lean 4 proof (decision logic of worker loop and exit-code monitor) + fault enumeration on the real code under a synchronous context",
        note=TB + " NOT PROVED (runtime): real process death/signals; that a closed multiprocessing queue raises on put (observed, modelled).",
        ref="§4 C19"),
})

NOT_YET = {}


def main():
    checks = []
    for pid in sorted(CHECKS):
        c = CHECKS[pid]
        checks.append({
            "property_id": pid,
            "quick_cmd": f"/venv/bin/python harness/check.py {pid} --tier quick",
            "thorough_cmd": f"/venv/bin/python harness/check.py {pid} --tier thorough",
            "evidence_file": f"/verif/evidence/{pid}.json",
            "replay_cmd_template": f"/venv/bin/python harness/check.py {pid} --replay {{path}}",
            "engine": "lean4-proof+correspondence",
            "level_claimed": {"category": c.get("cat", "proof"), "text": c["text"], "design_ref": c["ref"]},
            "level_note": c.get("note", TB),
            "technique": c["tech"],
        })
    na = []
    props = [json.loads(l)["id"] for l in open(os.path.join(VERIF, "properties.jsonl"))]
    for pid in props:
        if pid not in CHECKS:
            na.append({"property_id": pid, "reason": NOT_YET.get(pid, "check not registered yet in this build (work in progress; see DESIGN.md §4) — not claimed")})
    m = {
        "version": 1,
        "setup_cmd": "cd /verif && python3 harness/translate.py && cd lean && lake build",
        "hooks": {
            "guard": "SKETCHNU_VERIF",
            "enable": "no source hooks exist: the harness drives the real code from outside (attribute assignment, monkey-patched process context); the guard name is reserved and unused",
            "baseline_off_cmd": "cd /repo && /venv/bin/python -m pytest -ra -q -p no:cacheprovider --timeout=900",
            "source_commits": [],
            "add_only": True,
        },
        "engines": [{"name": "lean4-proof+correspondence", "path": "/verif/harness/check.py",
                     "serves_properties": sorted(CHECKS), "kind_free_text": "Lean 4 theorems over an executable model (lean/), translator for constants/tables, line-protocol driver, Python differential harness"}],
        "checks": checks,
        "not_applicable": na,
        "notes": "Genuine defects repaired by unguarded `fix:` commits in /repo are listed in /verif/known_findings.json (status fixed).",
    }
    with open(os.path.join(VERIF, "MANIFEST.json"), "w") as f:
        json.dump(m, f, indent=1)
    print("checks:", len(checks), "not_applicable:", len(na))


if __name__ == "__main__":
    main()
