#!/usr/bin/env python3
"""mkmanifest.py — writes /verif/MANIFEST.json from the table below (single source of truth)."""
import json
import os

VERIF = os.path.dirname(os.path.dirname(os.path.abspath(__file__)))

TB = ("Trusted: Lean 4.33 kernel; axioms propext/Classical.choice/Quot.sound only (audited per theorem on every run; no sorry/native_decide/bv_decide); "
      "the hand-written model is tied to /repo by the differential correspondence run of this check (harness, driver glue, translator); "
      "Numba/NumPy/CPython/libm/OS are modelled, not verified.")

CHECKS = {
    "C01": dict(
        text="Theorems C01.lower_contract/upper_contract/exact_contract (and their instances at the exact kernel model) prove true ≤ estimate ≤ per-row collision bound "
             "for EVERY history tree of adds and merges, every key, width, depth and hash, by induction over step contracts AddOK/MergeOK. The run re-checks the proofs, "
             "evaluates the Lean contracts on the real code's before/after tables, the Lean query on real tables, and the bound on real estimates; all short histories are enumerated.",
        tech="Lean 4 proof (induction over history trees with decidable step contracts) + differential correspondence on real tables",
        ref="§4 C01"),
    "C02": dict(
        text="Theorems C02_setOnly/C02_fresh/C02_denote_* prove that the register file is the per-index maximum rank over the SET of keys for any history tree, any hash; "
             "nlz64_spec/rank_spec prove the branch-wise leading-zero count correct for all 64-bit inputs; merge is comm/assoc/idempotent. The run re-checks the proofs and "
             "compares real registers with the full-stack Lean model (incl. FastHash) on histories with constructed high-rank keys.",
        tech="Lean 4 proof (denotational characterisation of registers) + full-stack differential correspondence",
        ref="§4 C02"),
    "C11": dict(
        text="Theorems fasthash64_eq/fasthash32_eq/murmur3_eq prove, for byte strings of ANY length and any seed, that the model of the code's structure with constants regenerated "
             "from the source equals the published reference algorithms; decide-anchors pin the reference to C++-derived vectors. The run regenerates the constants, re-checks "
             "the proofs and compares the real functions with both Lean models on every block/tail/alignment class.",
        tech="Lean 4 proof (Impl = Ref for all inputs, constants translated from source) + differential correspondence",
        ref="§4 C11"),
}

CHECKS.update({
    "C03": dict(
        text="Theorems cell_le_true/C03_getitem/C03_query prove, for every history tree, hash, width and depth, that every stored count is ≤ the true count of the stored key "
             "identity, hence hh[key] and every reported pair never over-count and a never-added key is never reported; padKey_inj proves (padded bytes, length) = identity. "
             "The run re-checks the proofs, compares cells/answers with the model on NUL/length-sensitive keys and evaluates the oracle on real values; width-1 sequences enumerated.",
        tech="Lean 4 proof (cell invariant by induction over history trees) + differential correspondence",
        ref="§4 C03"),
    "C04": dict(
        text="Theorems C04_phi/C04_getitem/C04_query/C04_major prove the Boyer-Moore potential bound 2f - W_r ≤ hh[key] for every history tree absent saturation (total weight ≤ 2^32-1), "
             "that query contains such a key, and that a strict-majority key is reported first, strictly ahead of all others. The run re-checks the proofs, compares with the model and "
             "evaluates the bounds on real values for every key after every operation; width-1 orderings and partitions are enumerated.",
        tech="Lean 4 proof (potential-function invariant, super-additive under merge) + differential correspondence",
        ref="§4 C04"),
    "C13": dict(
        text="Theorems query_length/nodup/sorted/counts/prefix/complete characterise the answer; C13_fresh proves for EVERY sequence of add/merge/query/regenerate operations that the cached "
             "answer equals the answer recomputed from the current cells (invariant: cache valid or detectably stale). The run re-checks the proofs and compares every real answer "
             "(cache hit and miss paths counted) with the model, with the model's fresh recomputation and with a freshly loaded real copy.",
        tech="Lean 4 proof (cache-freshness invariant over operation sequences; sortedness/permutation lemmas) + differential correspondence",
        ref="§4 C13"),
})

NOT_YET = {}


def main():
    checks = []
    for pid in sorted(CHECKS):
        c = CHECKS[pid]
        checks.append({
            "property_id": pid,
            "quick_cmd": f"/venv/bin/python harness/check.py {pid} --tier quick",
            "thorough_cmd": f"/venv/bin/python harness/check.py {pid} --tier thorough",
            "evidence_file": f"/verif/evidence/{pid}.json",
            "replay_cmd_template": f"/venv/bin/python harness/check.py {pid} --replay {{path}}",
            "engine": "lean4-proof+correspondence",
            "level_claimed": {"category": c.get("cat", "proof"), "text": c["text"], "design_ref": c["ref"]},
            "level_note": c.get("note", TB),
            "technique": c["tech"],
        })
    na = []
    props = [json.loads(l)["id"] for l in open(os.path.join(VERIF, "properties.jsonl"))]
    for pid in props:
        if pid not in CHECKS:
            na.append({"property_id": pid, "reason": NOT_YET.get(pid, "check not registered yet in this build (work in progress; see DESIGN.md §4) — not claimed")})
    m = {
        "version": 1,
        "setup_cmd": "cd /verif && python3 harness/translate.py && cd lean && lake build",
        "hooks": {
            "guard": "SKETCHNU_VERIF",
            "enable": "no source hooks exist: the harness drives the real code from outside (attribute assignment, monkey-patched process context); the guard name is reserved and unused",
            "baseline_off_cmd": "cd /repo && /venv/bin/python -m pytest -ra -q -p no:cacheprovider --timeout=900",
            "source_commits": [],
            "add_only": True,
        },
        "engines": [{"name": "lean4-proof+correspondence", "path": "/verif/harness/check.py",
                     "serves_properties": sorted(CHECKS), "kind_free_text": "Lean 4 theorems over an executable model (lean/), translator for constants/tables, line-protocol driver, Python differential harness"}],
        "checks": checks,
        "not_applicable": na,
        "notes": "Genuine defects repaired by unguarded `fix:` commits in /repo are listed in /verif/known_findings.json (status fixed).",
    }
    with open(os.path.join(VERIF, "MANIFEST.json"), "w") as f:
        json.dump(m, f, indent=1)
    print("checks:", len(checks), "not_applicable:", len(na))


if __name__ == "__main__":
    main()
