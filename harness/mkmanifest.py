#!/usr/bin/env python3
"""mkmanifest.py — writes /verif/MANIFEST.json from the table below (single source of truth)."""
import json
import os

VERIF = os.path.dirname(os.path.dirname(os.path.abspath(__file__)))

TB = ("Trusted: Lean 4.33 kernel; axioms propext/Classical.choice/Quot.sound only (audited per theorem on every run; no sorry/native_decide/bv_decide); "
      "the hand-written model is tied to /repo by the differential correspondence run of this check (harness, driver glue, translator); "
      "Numba/NumPy/CPython/libm/OS are modelled, not verified.")

CHECKS = {
    "C01": dict(
        text="Theorems C01.lower_contract/upper_contract/exact_contract (and their instances at the exact kernel model) prove true ≤ estimate ≤ per-row collision bound "
             "for EVERY history tree of adds and merges, every key, width, depth and hash, by induction over step contracts AddOK/MergeOK. The run re-checks the proofs, "
             "evaluates the Lean contracts on the real code's before/after tables, the Lean query on real tables, and the bound on real estimates; all short histories are enumerated.",
        tech="Lean 4 proof (induction over history trees with decidable step contracts) + differential correspondence on real tables",
        ref="§4 C01"),
    "C02": dict(
        text="Theorems C02_setOnly/C02_fresh/C02_denote_* prove that the register file is the per-index maximum rank over the SET of keys for any history tree, any hash; "
             "nlz64_spec/rank_spec prove the branch-wise leading-zero count correct for all 64-bit inputs; merge is comm/assoc/idempotent. The run re-checks the proofs and "
             "compares real registers with the full-stack Lean model (incl. FastHash) on histories with constructed high-rank keys.",
        tech="Lean 4 proof (denotational characterisation of registers) + full-stack differential correspondence",
        ref="§4 C02"),
    "C11": dict(
        text="Theorems fasthash64_eq/fasthash32_eq/murmur3_eq prove, for byte strings of ANY length and any seed, that the model of the code's structure with constants regenerated "
             "from the source equals the published reference algorithms; decide-anchors pin the reference to C++-derived vectors. The run regenerates the constants, re-checks "
             "the proofs and compares the real functions with both Lean models on every block/tail/alignment class.",
        tech="Lean 4 proof (Impl = Ref for all inputs, constants translated from source) + differential correspondence",
        ref="§4 C11"),
}

CHECKS.update({
    "C03": dict(
        text="Theorems cell_le_true/C03_getitem/C03_query prove, for every history tree, hash, width and depth, that every stored count is ≤ the true count of the stored key "
             "identity, hence hh[key] and every reported pair never over-count and a never-added key is never reported; padKey_inj proves (padded bytes, length) = identity. "
             "The run re-checks the proofs, compares cells/answers with the model on NUL/length-sensitive keys and evaluates the oracle on real values; width-1 sequences enumerated.",
        tech="Lean 4 proof (cell invariant by induction over history trees) + differential correspondence",
        ref="§4 C03"),
    "C04": dict(
        text="Theorems C04_phi/C04_getitem/C04_query/C04_major prove the Boyer-Moore potential bound 2f - W_r ≤ hh[key] for every history tree absent saturation (total weight ≤ 2^32-1), "
             "that query contains such a key, and that a strict-majority key is reported first, strictly ahead of all others. The run re-checks the proofs, compares with the model and "
             "evaluates the bounds on real values for every key after every operation; width-1 orderings and partitions are enumerated.",
        tech="Lean 4 proof (potential-function invariant, super-additive under merge) + differential correspondence",
        ref="§4 C04"),
    "C13": dict(
        text="Theorems query_length/nodup/sorted/counts/prefix/complete characterise the answer; C13_fresh proves for EVERY sequence of add/merge/query/regenerate operations that the cached "
             "answer equals the answer recomputed from the current cells (invariant: cache valid or detectably stale). The run re-checks the proofs and compares every real answer "
             "(cache hit and miss paths counted) with the model, with the model's fresh recomputation and with a freshly loaded real copy.",
        tech="Lean 4 proof (cache-freshness invariant over operation sequences; sortedness/permutation lemmas) + differential correspondence",
        ref="§4 C13"),
})

CHECKS.update({
    "C05": dict(
        text="One-step theorems for EVERY state (not only reachable ones), key and multiplicity: lin_add_self/mono/bound/local/nadded for the linear kernel and logCounter_steps/exact/le_max, "
             "log_add_steps/exact/mono/bound/local/nadded for log8/log16 under ARBITRARY draws and an arbitrary decision function (only inc(0,u)=true assumed for exactness). "
             "The run re-checks the proofs, compares the real kernels with the exact models after every add (tables, n_added, consumed draws; draws placed by the harness) "
             "and evaluates the one-step oracle on the real values.",
        tech="Lean 4 proof (one-step theorems over all states, arbitrary draws) + differential correspondence with placed draws",
        ref="§4 C05"),
    "C06": dict(
        text="C06_lower/C06_exact prove estimate ≥ min(true, num_reserved+1) on every history (adds with arbitrary draws, merges by the nearest-counter specification) and exactness for "
             "collision-free keys; rand_fresh proves the t-th draw handed out is element t of the concatenated batches (never recycled, none skipped); step_unbias/chain_mean prove over an "
             "arbitrary field that the expected decoded value after n unit adds is true count + n until the ceiling, given P(rand < base^-c') = base^-c'. The run ties _log_counter/_rand to "
             "the model with placed draws and a seeded Numba generator across refills.",
        tech="Lean 4 proof (history invariants over log contracts; outcome-tree expectation over a field; _rand state machine) + correspondence with placed draws / seeded refills",
        note=TB + " PRNG uniformity/independence is an assumption; the Monte-Carlo comparison in the thorough tier is a refutation search, not part of the proof.",
        ref="§4 C06"),
    "C09": dict(
        text="Linear: lin_merge_cell/comm/empty/ge/query/books (saturating sum and its consequences). Log: nearest_spec, merge_reserved, merge_ceiling, merge_comm, merge_empty, merge_ge, "
             "nearest_ge for ANY decode that is linear up to num_reserved+1 and strictly increasing; decS_ok shows the exact scaled decode of the code's formula is one; nearestFast_eq ties the "
             "driver's evaluator to the specification. The run compares the real merge on ALL 256×256 log8 counter pairs (and 65536 + sampled log16 pairs) with the Lean float mirror, the Lean exact "
             "specification and an independent exact oracle.",
        tech="Lean 4 proof (nearest-counter specification over exact scaled integers) + all-pairs differential correspondence",
        note=TB + " The code evaluates the log merge in float64; ties within 1e-9 of the gap between neighbouring decoded values accept either neighbour.",
        ref="§4 C09"),
    "C18": dict(
        text="lin_sticky (no estimate ever decreases under any sequence of adds and merges on either side; 2^32-1 is absorbing), counter_stop/log_add_sticky/log_merge_sticky for log counters, "
             "hh_alone (a key alone in its cells holds exactly min(true, 2^32-1)) for every history tree. The clause about _find_base (a float Newton iteration) is checked against its "
             "specification |dec(max counter) - max_count| ≤ 1e-6·max_count or ValueError on a configuration grid — a test, labelled as such.",
        tech="Lean 4 proof (monotonicity/stickiness over operation sequences; exact cell content when alone) + correspondence near ceilings + find_base grid test",
        note=TB + " _find_base numerics are NOT proved (checked against a spec on a grid).",
        ref="§4 C18"),
})

NOT_YET = {}


def main():
    checks = []
    for pid in sorted(CHECKS):
        c = CHECKS[pid]
        checks.append({
            "property_id": pid,
            "quick_cmd": f"/venv/bin/python harness/check.py {pid} --tier quick",
            "thorough_cmd": f"/venv/bin/python harness/check.py {pid} --tier thorough",
            "evidence_file": f"/verif/evidence/{pid}.json",
            "replay_cmd_template": f"/venv/bin/python harness/check.py {pid} --replay {{path}}",
            "engine": "lean4-proof+correspondence",
            "level_claimed": {"category": c.get("cat", "proof"), "text": c["text"], "design_ref": c["ref"]},
            "level_note": c.get("note", TB),
            "technique": c["tech"],
        })
    na = []
    props = [json.loads(l)["id"] for l in open(os.path.join(VERIF, "properties.jsonl"))]
    for pid in props:
        if pid not in CHECKS:
            na.append({"property_id": pid, "reason": NOT_YET.get(pid, "check not registered yet in this build (work in progress; see DESIGN.md §4) — not claimed")})
    m = {
        "version": 1,
        "setup_cmd": "cd /verif && python3 harness/translate.py && cd lean && lake build",
        "hooks": {
            "guard": "SKETCHNU_VERIF",
            "enable": "no source hooks exist: the harness drives the real code from outside (attribute assignment, monkey-patched process context); the guard name is reserved and unused",
            "baseline_off_cmd": "cd /repo && /venv/bin/python -m pytest -ra -q -p no:cacheprovider --timeout=900",
            "source_commits": [],
            "add_only": True,
        },
        "engines": [{"name": "lean4-proof+correspondence", "path": "/verif/harness/check.py",
                     "serves_properties": sorted(CHECKS), "kind_free_text": "Lean 4 theorems over an executable model (lean/), translator for constants/tables, line-protocol driver, Python differential harness"}],
        "checks": checks,
        "not_applicable": na,
        "notes": "Genuine defects repaired by unguarded `fix:` commits in /repo are listed in /verif/known_findings.json (status fixed).",
    }
    with open(os.path.join(VERIF, "MANIFEST.json"), "w") as f:
        json.dump(m, f, indent=1)
    print("checks:", len(checks), "not_applicable:", len(na))


if __name__ == "__main__":
    main()
