"""
slice_cms.py — linear count-min correspondence slices (serves C01, C05, C09, C12, C18).

A *case* is a history of operations on up to 4 real CountMinLinear sketches.  The same
operations are sent to the Lean driver.  Comparisons are tagged with a kind:

  exact     model state after the op == real state (table, n_added, n_records)
  contract  Lean `addOKb` / `mergeOKb` evaluated on the REAL before/after tables
  qkernel   Lean `tquery` of the REAL table (probe columns) == real query()
  oracle    property oracle evaluated in Python on real outputs (model independent)
  ocross    Lean's `trueCount`/`cellLoad` of the history == the Python oracle's
"""
import os
import tempfile

from core import Session
from real import CAP, Probe, hexk, key_alphabet, np, sk, value_near


def windows(key, n):
    if len(key) <= n:
        return [key]
    return [key[i:i + n] for i in range(len(key) - (n - 1))]


def gen_history(rng, tier, exhaustive=None):
    """returns dict(depth,width,keys,ops) ; ops over sketch ids 0..nsk-1"""
    if exhaustive is not None:
        return exhaustive
    width = rng.choice([1, 1, 2, 2, 3, 3, 4, 5, 7, 8, 13, 16, 31, 64])
    depth = rng.choice([1, 1, 2, 2, 3, 4, 5, 8])
    nkeys = rng.choice([2, 3, 4, 6, 9, 12])
    keys = key_alphabet(rng, nkeys)
    nsk = rng.choice([1, 2, 2, 3, 4])
    nops = rng.randrange(5, 61 if tier == "thorough" else 36)
    ops = []
    for _ in range(nops):
        x = rng.random()
        s = rng.randrange(nsk)
        if x < 0.55:
            ops.append(("add", s, rng.randrange(nkeys), None))  # value chosen at run time (near ceiling)
        elif x < 0.66 and nsk > 1:
            b = rng.choice([t for t in range(nsk) if t != s])
            ops.append(("merge", s, b))
        elif x < 0.70:
            ops.append(("merge", s, s))  # a sketch merged into itself (aliasing operands)
        elif x < 0.78:
            ops.append(("update_list", s, [rng.randrange(nkeys) for _ in range(rng.randrange(0, 6))]))
        elif x < 0.85:
            ks = rng.sample(range(nkeys), rng.randrange(0, min(4, nkeys) + 1))
            ops.append(("update_dict", s, [(k, None) for k in ks]))
        elif x < 0.92:
            k = rng.randrange(nkeys)
            ops.append(("ngram", s, k, rng.choice([1, 2, 3, max(len(keys[k]), 1), len(keys[k]) + 1, 255, 256, 257, 65536, 2**32 + 1])))
        else:
            ops.append(("saveload", s, rng.random() < 0.3))
    return {"depth": depth, "width": width, "keys": [k.hex() for k in keys], "nsk": nsk, "ops": ops}


def _tab(cms):
    return [[int(v) for v in row] for row in cms]


def _dump(tab, na, nr):
    return " / ".join(" ".join(str(v) for v in row) for row in tab) + f" | {na} {nr}"


def _flat(tab):
    return " ".join(str(v) for row in tab for v in row)


class LinearRun:
    """executes one case on the real code and records everything the oracles need"""

    def __init__(self, case, rng):
        s = sk()
        self.case = case
        self.depth, self.width = case["depth"], case["width"]
        self.keys = [bytes.fromhex(h) for h in case["keys"]]
        self.probe = Probe("linear", self.depth, self.width)
        self.kid = {}
        self.allkeys = []
        for k in self.keys:
            self._kid(k)
        from slice_log import shm_shape
        shm = shm_shape(self.width, self.depth)   # odd shapes ≥ 9 cells: sketches in shared-memory blocks
        self.sk = [s.CountMinLinear(self.width, self.depth, shared_memory=shm) for _ in range(case["nsk"])]
        self.steps = []  # dicts
        self.rng = rng
        self.resolved_ops = []
        # BLIND histories (every other case): during the history the estimates are read off the table directly (columns from the probe sketch),
        # never through query() — reading through the API re-hashes and can hide (or cause) state that only a write-after-write sequence exposes
        self.blind = (len(case["ops"]) + case["width"]) % 2 == 0

    def _kid(self, k):
        if k not in self.kid:
            self.kid[k] = len(self.allkeys)
            self.allkeys.append(k)
            self.probe.cols(k)
        return self.kid[k]

    def cols(self, kid):
        return self.probe.cols(self.allkeys[kid])

    def state(self, i):
        c = self.sk[i]
        return _tab(c.cms), int(c.n_added()), int(c.n_records())

    def direct_queries(self, i):
        tab = self.sk[i].cms
        out = []
        for kid in range(len(self.allkeys)):
            cols = self.cols(kid)
            out.append(min(int(tab[r][cols[r]]) for r in range(self.depth)))
        return out

    def queries(self, i, api=False):
        if self.blind and not api:
            return self.direct_queries(i)
        return [int(self.sk[i].query(k)) for k in self.allkeys]

    def _value(self, i, kid):
        q = self.direct_queries(i)[kid] if self.blind else int(self.sk[i].query(self.allkeys[kid]))
        return value_near(self.rng, CAP, CAP - q)

    def _single_add(self, i, kid, v, via):
        before = self.state(i)
        qb = self.queries(i)
        key = self.allkeys[kid]
        if via == "add":
            self.sk[i].add(key, v)
        elif via == "add1":
            self.sk[i].add(key)
        after = self.state(i)
        qa = self.queries(i)
        self.steps.append({"op": "add", "s": i, "kid": kid, "v": v, "before": before, "after": after, "qb": qb, "qa": qa})

    def run(self):
        for op in self.case["ops"]:
            kind = op[0]
            if kind == "add":
                _, i, kid, v = op
                if v is None:
                    v = self._value(i, kid)
                self.resolved_ops.append(("add", i, kid, v))
                self._single_add(i, kid, v, "add")
            elif kind == "merge":
                _, a, b = op
                self.resolved_ops.append(op)
                ba, bb = self.state(a), self.state(b)
                qa0, qb0 = self.queries(a), self.queries(b)
                self.sk[a].merge(self.sk[b])
                self.steps.append({"op": "merge", "a": a, "b": b, "before_a": ba, "before_b": bb, "after": self.state(a),
                                   "after_b": self.state(b), "qa_before": qa0, "qb_before": qb0, "qa": self.queries(a)})
            elif kind == "update_list":
                _, i, kids = op
                self.resolved_ops.append(op)
                # the real entry point on the real sketch; the model sees the loop of single adds (C12)
                before = self.state(i)
                self.sk[i].update([self.allkeys[k] for k in kids])
                self.steps.append({"op": "batch", "s": i, "adds": [(k, 1) for k in kids], "before": before,
                                   "after": self.state(i), "entry": "update(list)"})
            elif kind == "update_dict":
                _, i, items = op
                d = {}
                for k, v in items:
                    if v is None:
                        v = self._value(i, k)
                    d[k] = v
                self.resolved_ops.append(("update_dict", i, list(d.items())))
                before = self.state(i)
                self.sk[i].update({self.allkeys[k]: v for k, v in d.items()})
                self.steps.append({"op": "batch", "s": i, "adds": list(d.items()), "before": before, "after": self.state(i),
                                   "entry": "update(dict)"})
            elif kind == "ngram":
                _, i, kid, n = op
                self.resolved_ops.append(op)
                ws = windows(self.allkeys[kid], n)
                wk = [self._kid(w) for w in ws]
                before = self.state(i)
                self.sk[i].add_ngram(self.allkeys[kid], n)
                self.steps.append({"op": "batch", "s": i, "adds": [(k, 1) for k in wk], "before": before, "after": self.state(i),
                                   "entry": f"add_ngram(n={n})"})
            elif kind == "saveload":
                _, i, shm = op
                self.resolved_ops.append(op)
                before = self.state(i)
                fd, path = tempfile.mkstemp(suffix=".npz", dir="/dev/shm" if os.path.isdir("/dev/shm") else None)
                os.close(fd)
                try:
                    self.sk[i].save(path)
                    self.sk[i] = sk().CountMinLinear.load(path)
                finally:
                    os.unlink(path)
                self.steps.append({"op": "saveload", "s": i, "before": before, "after": self.state(i)})
        self.final_q = [self.queries(i, api=True) for i in range(len(self.sk))]
        if self.blind:
            for i in range(len(self.sk)):
                if self.direct_queries(i) != self.final_q[i]:
                    self.steps.append({"op": "final-query-mismatch", "s": i, "direct": self.direct_queries(i), "api": self.final_q[i]})
        self.final_state = [self.state(i) for i in range(len(self.sk))]
        return self

    # ------------------------------------------------------------ python oracle (model independent)
    def truth(self):
        """per sketch: true count per key id, and cell loads per (row, col), total weight"""
        nk = len(self.allkeys)
        T = [dict() for _ in self.sk]

        def empty():
            return {"true": [0] * nk, "load": [[0] * self.width for _ in range(self.depth)], "N": 0}

        st = [empty() for _ in self.sk]

        def add(i, kid, v):
            st[i]["true"][kid] += v
            st[i]["N"] += v
            for r, c in enumerate(self.cols(kid)):
                st[i]["load"][r][c] += v

        for s in self.steps:
            if s["op"] == "add":
                add(s["s"], s["kid"], s["v"])
            elif s["op"] == "batch":
                for k, v in s["adds"]:
                    add(s["s"], k, v)
            elif s["op"] == "merge":
                a, b = st[s["a"]], st[s["b"]]
                a["true"] = [x + y for x, y in zip(a["true"], b["true"])]
                a["N"] += b["N"]
                a["load"] = [[x + y for x, y in zip(ra, rb)] for ra, rb in zip(a["load"], b["load"])]
        return st

    def oracle_failures(self, props):
        """evaluate the property oracles on the recorded real behaviour"""
        fails = []
        nk = nk_all = len(self.allkeys)
        cols = [self.cols(k) for k in range(nk)]
        if "C01" in props:
            st = self.truth()
            for i in range(len(self.sk)):
                for k in range(nk):
                    est = self.final_q[i][k]
                    lo = min(st[i]["true"][k], CAP)
                    hi = min(min(st[i]["load"][r][cols[k][r]] for r in range(self.depth)), CAP)
                    if not (lo <= est <= hi):
                        fails.append({"what": f"C01 bound violated: sketch {i} key {self.allkeys[k].hex() or '-'} true={st[i]['true'][k]} "
                                              f"estimate={est} collision_bound={hi}", "sketch": i, "kid": k})
        for s in self.steps:
            if s["op"] == "add" and ("C05" in props or "C18" in props):
                k, v = s["kid"], s["v"]
                qb, qa = s["qb"], s["qa"]
                nk = len(qb)  # keys known at that time (add_ngram registers window keys later)
                tb, na_b, nr_b = s["before"]
                ta, na_a, nr_a = s["after"]
                if "C05" in props:
                    if qa[k] != min(qb[k] + v, CAP):
                        fails.append({"what": f"C05 add({self.allkeys[k].hex() or '-'},{v}): estimate {qb[k]} -> {qa[k]}, expected {min(qb[k]+v, CAP)}"})
                    for j in range(nk):
                        if qa[j] < qb[j]:
                            fails.append({"what": f"C05 add lowered another key's estimate {qb[j]} -> {qa[j]}"})
                        if qa[j] > max(qb[j], qa[k]):
                            fails.append({"what": f"C05 add raised key {j} to {qa[j]} above max(own old {qb[j]}, added key's new {qa[k]})"})
                    for r in range(self.depth):
                        ch = [c for c in range(self.width) if ta[r][c] != tb[r][c]]
                        if len(ch) > 1 or (ch and ch[0] != cols[k][r]):
                            fails.append({"what": f"C05 add changed cells {ch} in row {r} (key's column {cols[k][r]})"})
                    veff = min(v, CAP)
                    if qb[k] + veff <= CAP and na_a != na_b + veff:
                        fails.append({"what": f"C05 n_added {na_b} -> {na_a} after uncut add of {v}"})
                if "C18" in props:
                    for j in range(nk):
                        if qa[j] < qb[j] or (qb[j] == CAP and qa[j] != CAP):
                            fails.append({"what": f"C18 estimate of key {j} fell {qb[j]} -> {qa[j]} on add"})
                    for r in range(self.depth):
                        for c in range(self.width):
                            if ta[r][c] < tb[r][c]:
                                fails.append({"what": f"C18 counter ({r},{c}) decreased {tb[r][c]} -> {ta[r][c]} on add"})
            if s["op"] == "merge" and ("C09" in props or "C18" in props):
                nk = len(s["qa"])
                A, na, nra = s["before_a"]
                B, nb, nrb = s["before_b"]
                R, nr_, nrr = s["after"]
                if "C09" in props:
                    for r in range(self.depth):
                        for c in range(self.width):
                            if R[r][c] != min(A[r][c] + B[r][c], CAP):
                                fails.append({"what": f"C09 merged cell ({r},{c}) = {R[r][c]}, expected min({A[r][c]}+{B[r][c]}, 2^32-1)"
                                                      + (" (sketch merged into itself)" if s["a"] == s["b"] else "")})
                    if s["a"] != s["b"] and s["after_b"] != s["before_b"]:
                        fails.append({"what": "C09 merge modified its argument"})
                    if s["a"] != s["b"] and (nr_ != na + nb or nrr != nra + nrb):
                        fails.append({"what": f"C09 bookkeeping after merge: n_added {nr_} (expected {na+nb}), n_records {nrr} (expected {nra+nrb})"})
                    for j in range(nk):
                        if s["qa"][j] < min(s["qa_before"][j] + s["qb_before"][j], CAP):
                            fails.append({"what": f"C09 merged estimate {s['qa'][j]} below sum of estimates"})
                if "C18" in props:
                    for j in range(nk):
                        if s["qa"][j] < s["qa_before"][j] or s["qa"][j] < s["qb_before"][j]:
                            fails.append({"what": f"C18 estimate fell on merge: {s['qa_before'][j]},{s['qb_before'][j]} -> {s['qa'][j]}"})
            if s["op"] == "final-query-mismatch":
                fails.append({"what": f"query() of sketch {s['s']} disagrees with its own table: table minima {s['direct']}, query() {s['api']} (the column ids in use are not the keys')"})
            if s["op"] == "saveload" and s["before"] != s["after"] and ("C01" in props or "C10" in props):
                fails.append({"what": "save/load changed the linear sketch state"})
        for f in fails:
            f["case"] = self.replay_case()
        return fails

    def replay_case(self):
        c = dict(self.case)
        c["ops"] = self.resolved_ops
        c["keys"] = [k.hex() for k in self.allkeys]
        return c

    # ------------------------------------------------------------ driver lines
    def driver_ops(self, kinds):
        ops = []
        ops.append([f"cfg {self.depth} {self.width}", None, "setup"])
        for kid, k in enumerate(self.allkeys):
            ops.append([f"key {kid} {hexk(k)} " + " ".join(map(str, self.cols(kid))), None, "setup"])
        for i in range(len(self.sk)):
            ops.append([f"lin.new {i}", None, "setup"])
        st = self.truth() if "ocross" in kinds else None
        for s in self.steps:
            if s["op"] == "add":
                ops.append([f"lin.add {s['s']} {s['kid']} {s['v']}", None, "op"])
                if "exact" in kinds:
                    ops.append([f"lin.dump {s['s']}", _dump(*s["after"]), "exact"])
                if "contract" in kinds:
                    ops.append([f"lin.set 900 0 0 {_flat(s['before'][0])}", None, "setup"])
                    ops.append([f"lin.set 901 0 0 {_flat(s['after'][0])}", None, "setup"])
                    ops.append([f"lin.addok 900 {s['kid']} {s['v']} 901", "true", "contract"])
            elif s["op"] == "batch":
                for k, v in s["adds"]:
                    ops.append([f"lin.add {s['s']} {k} {v}", None, "op"])
                if "exact" in kinds or "entry" in kinds:
                    ops.append([f"lin.dump {s['s']}", _dump(*s["after"]), "entry" if "entry" in kinds else "exact"])
            elif s["op"] == "merge":
                ops.append([f"lin.merge {s['a']} {s['b']}", None, "op"])
                if "exact" in kinds:
                    ops.append([f"lin.dump {s['a']}", _dump(*s["after"]), "exact"])
                    if s["a"] != s["b"]:
                        ops.append([f"lin.dump {s['b']}", _dump(*s["after_b"]), "exact"])
                if "contract" in kinds:
                    ops.append([f"lin.set 900 0 0 {_flat(s['before_a'][0])}", None, "setup"])
                    ops.append([f"lin.set 901 0 0 {_flat(s['before_b'][0])}", None, "setup"])
                    ops.append([f"lin.set 902 0 0 {_flat(s['after'][0])}", None, "setup"])
                    ops.append(["lin.mergeok 900 901 902", "true", "contract"])
            elif s["op"] == "saveload":
                if "exact" in kinds:
                    ops.append([f"lin.dump {s['s']}", _dump(*s["after"]), "exact"])
        for i in range(len(self.sk)):
            tab, na, nr = self.final_state[i]
            if "qkernel" in kinds:
                ops.append([f"lin.set 901 {na} {nr} {_flat(tab)}", None, "setup"])
            for kid in range(len(self.allkeys)):
                if "exact" in kinds:
                    ops.append([f"lin.query {i} {kid}", str(self.final_q[i][kid]), "exact"])
                if "qkernel" in kinds:
                    ops.append([f"lin.query 901 {kid}", str(self.final_q[i][kid]), "qkernel"])
                if "ocross" in kinds:
                    cols = self.cols(kid)
                    loads = " ".join(str(st[i]["load"][r][cols[r]]) for r in range(self.depth))
                    ops.append([f"lin.oracle {i} {kid}", f"{st[i]['true'][kid]} | {loads} | {st[i]['N']}", "ocross"])
        return ops

    def nontrivial(self):
        """a case is non-trivial when ≥ 1 cell is shared by ≥ 2 keys or a ceiling branch is hit"""
        shared = False
        seen = {}
        for kid in range(len(self.allkeys)):
            for r, c in enumerate(self.cols(kid)):
                if (r, c) in seen and seen[(r, c)] != kid:
                    shared = True
                seen[(r, c)] = kid
        ceiling = any(CAP in row for st in self.final_state for row in st[0])
        return shared, ceiling


def exhaustive_cases(max_len):
    """all histories of length ≤ max_len over a 3-key alphabet, 2 sketches, width 2, values {1, CAP-1}"""
    keys = [b"", b"a", b"a\0"]
    atoms = [("add", s, k, v) for s in (0, 1) for k in range(3) for v in (1, CAP - 1)] + [("merge", 0, 1), ("merge", 1, 0), ("merge", 0, 0)]
    from itertools import product

    for L in range(1, max_len + 1):
        for seq in product(atoms, repeat=L):
            yield {"depth": 2, "width": 2, "keys": [k.hex() for k in keys], "nsk": 2, "ops": list(seq)}


def run_slice(res, rng, tier, props, kinds, n_cases, budget_s, exhaustive_len=0, label="cms-linear"):
    """generate, run on real code, compare with the driver; fills res"""
    import time

    t0 = time.time()
    sess = Session()
    runs = []
    n_exh = 0

    def one(case):
        run = LinearRun(case, rng).run()
        runs.append(run)
        res.evaluations += 1
        shared, ceiling = run.nontrivial()
        if shared:
            res.count("cases_with_shared_cell")
        if ceiling:
            res.count("cases_hitting_ceiling")
        for s in run.steps:
            res.count("op_" + s["op"])
        if shared or ceiling:
            res.nontrivial(run.replay_case())
        res.sample({"slice": label, "depth": run.depth, "width": run.width, "keys": run.case["keys"][:4], "ops": [list(o) for o in run.resolved_ops[:8]]})
        res.oracle_failures += run.oracle_failures(props)
        sess.add_case(run.replay_case(), run.driver_ops(kinds))

    if exhaustive_len:
        for case in exhaustive_cases(exhaustive_len):
            one(case)
            n_exh += 1
    i = 0
    while i < n_cases and time.time() - t0 < budget_s:
        one(gen_history(rng, tier))
        i += 1
    mism, n_cmp = sess.run()
    res.traces += len(runs)
    res.count("comparisons", n_cmp)
    res.mismatches += [m for m in mism if m["kind"] in kinds or m["kind"] == "entry"]
    res.slices[label] = {"cases": len(runs), "exhaustive_cases": n_exh, "comparisons": n_cmp, "kinds": sorted(kinds),
                         "mismatches": len(mism), "wall_s": round(time.time() - t0, 1)}
    return runs
