"""
core.py — shared machinery of the sketchnu checks: translator + lake build + axiom audit,
Lean driver sessions, verdict logic, evidence, known findings, replays.

Runs under /venv/bin/python (the interpreter that has sketchnu's dependencies).
"""
import fcntl
import hashlib
import json
import os
import random
import re
import subprocess
import sys
import time

VERIF = os.path.dirname(os.path.dirname(os.path.abspath(__file__)))
REPO = os.environ.get("SKETCHNU_REPO", "/repo")
LEAN = os.path.join(VERIF, "lean")
DRIVER = os.path.join(LEAN, ".lake", "build", "bin", "sketchnu_model")
EVID = os.path.join(VERIF, "evidence")
REPLAYS = os.path.join(VERIF, "replays")
ALLOWED_AXIOMS = {"propext", "Classical.choice", "Quot.sound"}
TIER = "quick"  # set by check.py
FACTOR = 1     # case-budget multiplier, raised when a modelled kernel's AST fingerprint drifted from the baseline
FORBIDDEN = re.compile(r"\b(sorry|admit|native_decide|bv_decide|implemented_by|unsafe)\b|^axiom\s|maxHeartbeats\s+0", re.M)

sys.path.insert(0, os.path.dirname(os.path.abspath(__file__)))
import translate  # noqa: E402

# which Lean property files carry the theorems of each property
PROPERTY_FILES = {
    "C01": ["C01", "SrcLin", "FullLin", "FullApi", "EndToEnd"], "C02": ["C02", "SrcHll", "FullHll", "FullApi", "EndToEnd"], "C03": ["C03", "SrcHH", "FullHH", "SrcHHQ", "FullApi", "EndToEnd"], "C04": ["C04", "SrcHH", "FullHH", "EndToEnd"],
    "C05": ["C05", "C05Log", "SrcLin", "FullLin", "FullLog", "FullApi"],
    "C06": ["C06", "C06Unbias", "C09Link", "SrcRand", "FullLog", "FullLogMerge", "FullApi", "EndToEndLog"], "C07": ["C07", "FullEst", "SrcFloatHll"], "C08": ["C08", "C08Compose", "SrcPar"], "C09": ["C09", "C09Link", "SrcLin", "FullLin", "FullLog", "FullLogMerge", "FullApi", "EndToEndLog", "SrcFloat"],
    "C10": ["C10", "SrcSchema"],
    "C11": ["C11", "FullHash"], "C12": ["C12", "FullLin", "FullLog", "FullHll", "FullHH", "FullApi"], "C13": ["C13", "SrcHH", "FullHH", "SrcHHQ"], "C14": ["C14"], "C15": ["C15"], "C16": ["C16", "SrcSchema"],
    "C17": ["C17", "FullEst", "SrcFloatHll"], "C18": ["C18", "C09Link", "SrcLin", "FullLin", "FullLog", "FullLogMerge", "FullApi", "EndToEndLog", "SrcFloat"], "C19": ["C19", "SrcPar"], "C20": ["C20", "SrcSchema"],
}


# which properties a translation failure of a section of hashes.py breaks (the other properties take the hash as a parameter:
# their slices observe the columns through a probe sketch)
SECTION_PROPERTIES = {"murmur3": ("C11",), "fasthash": ("C11", "C14", "C02", "C07", "C08", "C12")}


class Timeout(Exception):
    pass


def log(*a):
    print("[check]", *a, file=sys.stderr, flush=True)


# ----------------------------------------------------------------------------- Lean side


class LeanStatus:
    def __init__(self):
        self.translate_error = None
        self.generated_changed = []
        self.fingerprints = {}
        self.driver_ok = False
        self.build_ok = False
        self.build_log = ""
        self.failed_modules = []
        self.theorems = {}  # name -> {"axioms": [...], "ok": bool}
        self.forbidden_hits = []
        self.leanchecker = "not run (quick tier)"
        self.kernel_errors = []
        self.drifted = []
        self.wall = 0.0

    def obligations(self):
        return len(self.theorems)

    def discharged(self):
        return sum(1 for t in self.theorems.values() if t["ok"])

    def all_ok(self):
        return (
            self.translate_error is None
            and self.build_ok
            and not self.forbidden_hits
            and self.theorems
            and all(t["ok"] for t in self.theorems.values())
        )

    def broken(self):
        out = []
        if self.translate_error:
            out.append(f"translator: {self.translate_error}")
        for m in self.failed_modules:
            out.append(f"module {m} does not build")
        for n, t in self.theorems.items():
            if not t["ok"]:
                out.append(f"theorem {n}: {t.get('why', 'not checked')}")
        for h in self.forbidden_hits:
            out.append(f"forbidden token {h}")
        return out


def _run(cmd, cwd=None, timeout=1500, inp=None):
    try:
        p = subprocess.run(cmd, cwd=cwd, input=inp, capture_output=True, text=True, timeout=timeout)
    except subprocess.TimeoutExpired:
        raise Timeout(f"{cmd[0]} timed out after {timeout}s")
    return p.returncode, p.stdout + p.stderr


def _theorem_names(prop_file):
    """fully qualified names of the theorems declared in lean/Properties/<prop_file>.lean"""
    path = os.path.join(LEAN, "Properties", prop_file + ".lean")
    if not os.path.exists(path):
        return []
    src = open(path).read()
    # strip block comments
    src_nc = re.sub(r"/-.*?-/", "", src, flags=re.S)
    ns = []
    names = []
    for line in src_nc.splitlines():
        line = re.sub(r"--.*$", "", line)
        m = re.match(r"\s*namespace\s+(\S+)", line)
        if m:
            ns.append(m.group(1))
            continue
        m = re.match(r"\s*end\s+(\S+)", line)
        if m and ns and ns[-1] == m.group(1):
            ns.pop()
            continue
        if re.match(r"\s*private\s+theorem\s", line):
            continue  # helper lemma, checked through the theorems that use it
        m = re.match(r"\s*(?:protected\s+)?theorem\s+(\S+)", line)
        if m:
            names.append(".".join(ns + [m.group(1)]))
    return names


def _strip_comments(src):
    src = re.sub(r"/-.*?-/", "", src, flags=re.S)
    return re.sub(r"--.*$", "", src, flags=re.M)


def lean_check(pid, quick=True):
    """translate → build → audit the theorems of property `pid`.  Never raises on proof failure."""
    st = LeanStatus()
    t0 = time.time()
    os.makedirs(os.path.join(LEAN, ".lake"), exist_ok=True)
    lock = open(os.path.join(LEAN, ".lake", "check.lock"), "w")
    fcntl.flock(lock, fcntl.LOCK_EX)
    try:
        try:
            r = translate.run()
            st.generated_changed = r["changed"]
            st.fingerprints = r["fingerprints"]
            st.kernel_errors = r.get("kernel_errors", [])
            # a section of hashes.py that can no longer be translated breaks the properties that rest on that hash only
            for sec, msg in r.get("section_errors", {}).items():
                if pid in SECTION_PROPERTIES.get(sec, ()):
                    st.translate_error = ((st.translate_error + "; ") if st.translate_error else "") + f"hashes.py section {sec}: {msg}"
            try:
                base = json.load(open(os.path.join(VERIF, "harness", "fingerprints.json")))
                st.drifted = sorted(k for k in set(base) | set(st.fingerprints) if base.get(k) != st.fingerprints.get(k))
            except FileNotFoundError:
                st.drifted = []
            if st.drifted:
                global FACTOR
                FACTOR = 3
                log(f"{len(st.drifted)} kernel fingerprint(s) drifted ({', '.join(st.drifted[:4])}…): case budgets ×{FACTOR}")
        except translate.TranslateError as e:
            st.translate_error = str(e)
        except Exception as e:  # source does not even parse
            st.translate_error = f"{type(e).__name__}: {e}"
        # driver first (depends on Model only)
        rc, out = _run(["lake", "build", "sketchnu_model"], cwd=LEAN)
        st.driver_ok = rc == 0 and os.path.exists(DRIVER)
        st.build_log = out[-4000:]
        files = PROPERTY_FILES.get(pid, [])
        mods = [f"Properties.{f}" for f in files if os.path.exists(os.path.join(LEAN, "Properties", f + ".lean"))]
        failed = []
        if mods:
            rc, out = _run(["lake", "build"] + mods, cwd=LEAN)
            st.build_log += out[-6000:]
            if rc != 0:
                for m in re.findall(r"^- (\S+)$", out, flags=re.M):
                    failed.append(m)
                if not failed:
                    failed = list(mods)
        st.failed_modules = failed
        st.build_ok = st.driver_ok and not failed and bool(mods)
        # forbidden tokens in every project file in the import closure of the property modules
        seen = set()
        todo = [f"Properties.{f}" for f in files] + ["Driver"]
        while todo:
            m = todo.pop()
            if m in seen:
                continue
            seen.add(m)
            path = os.path.join(LEAN, *m.split(".")) + ".lean"
            if not os.path.exists(path):
                continue
            raw = open(path).read()
            for im in re.findall(r"^import\s+(\S+)", raw, flags=re.M):
                if im.split(".")[0] in ("Model", "Proofs", "Properties"):
                    todo.append(im)
            src = _strip_comments(raw)
            for mm in FORBIDDEN.finditer(src):
                st.forbidden_hits.append(f"{os.path.relpath(path, LEAN)}: {mm.group(0).strip()}")
        # axiom audit
        names = {}
        for f in files:
            for n in _theorem_names(f):
                names[n] = f
        audit_dir = os.path.join(LEAN, ".lake", "audit")
        os.makedirs(audit_dir, exist_ok=True)
        for f in files:
            mod = f"Properties.{f}"
            these = [n for n, ff in names.items() if ff == f]
            if mod in failed or not os.path.exists(os.path.join(LEAN, "Properties", f + ".lean")):
                for n in these:
                    st.theorems[n] = {"axioms": [], "ok": False, "why": f"{mod} does not build"}
                continue
            af = os.path.join(audit_dir, f"Audit_{f}.lean")
            with open(af, "w") as fh:
                fh.write(f"import {mod}\n" + "".join(f"#print axioms {n}\n" for n in these))
            rc, out = _run(["lake", "env", "lean", af], cwd=LEAN, timeout=600)
            cur = None
            found = {}
            for line in out.splitlines():
                m = re.match(r"'([^']+)' depends on axioms: \[(.*)", line)
                if m:
                    cur = m.group(1)
                    found[cur] = m.group(2)
                    continue
                m = re.match(r"'([^']+)' does not depend on any axioms", line)
                if m:
                    found[m.group(1)] = ""
                    cur = None
                    continue
                if cur is not None:
                    found[cur] += " " + line
            for n in these:
                if n not in found:
                    st.theorems[n] = {"axioms": [], "ok": False, "why": "no #print axioms output: " + out[-300:]}
                    continue
                ax = [a.strip().rstrip("]") for a in found[n].replace("]", "").split(",") if a.strip().rstrip("]")]
                bad = [a for a in ax if a not in ALLOWED_AXIOMS]
                st.theorems[n] = {"axioms": ax, "ok": not bad, "why": ("axioms " + ",".join(bad)) if bad else ""}
        # thorough tier: independent re-check of the compiled property modules with leanchecker
        if TIER == "thorough" and mods and not failed:
            rc, out = _run(["lake", "env", "leanchecker"] + mods, cwd=LEAN, timeout=1800)
            st.leanchecker = "ok" if rc == 0 else f"FAILED rc={rc}: {out[-500:]}"
            if rc != 0:
                st.failed_modules.append("leanchecker(" + ",".join(mods) + ")")
                st.build_ok = False
    finally:
        fcntl.flock(lock, fcntl.LOCK_UN)
        lock.close()
    st.wall = time.time() - t0
    import real
    real.sk()  # ~18 s eager numba compilation, paid here so that slice budgets measure cases only
    return st


class DriverError(Exception):
    pass


# commands of the driver that print exactly one line
def _prints(cmd):
    if cmd in ("cfg", "key"):
        return False
    base = cmd.split(".")[-1] if "." in cmd else cmd
    silent = {"new", "set", "add", "merge", "addngram", "cfg", "draws", "drawsclear", "regen"}
    if cmd in ("lin.hist.add", "lin.hist.merge"):
        return False
    return base not in silent


def run_driver(lines, timeout=600):
    """feed lines to the Lean driver, return the list of output lines"""
    if not os.path.exists(DRIVER):
        raise DriverError("driver executable missing")
    try:
        p = subprocess.run([DRIVER], input="\n".join(lines) + "\n", capture_output=True, text=True, timeout=timeout)
    except subprocess.TimeoutExpired:
        raise Timeout("lean driver timed out")
    if p.returncode != 0:
        raise DriverError(f"driver exit {p.returncode}: {p.stderr[-500:]}")
    return p.stdout.splitlines()


class Session:
    """A batch of cases for the driver.  Each case is a list of (line, expected or None, kind)."""

    def __init__(self):
        self.cases = []

    def add_case(self, meta, ops):
        self.cases.append((meta, ops))

    def run(self):
        """returns list of mismatches: dict(case=meta, line, expected, got, kind, index)"""
        lines = []
        for i, (meta, ops) in enumerate(self.cases):
            lines.append(f"echo CASE {i}")
            for op in ops:
                lines.append(op[0])
        out = run_driver(lines)
        pos = 0
        mism = []
        n_cmp = 0
        for i, (meta, ops) in enumerate(self.cases):
            if pos >= len(out) or out[pos] != f"echo CASE {i}":
                raise DriverError(f"protocol desync at case {i}: {out[pos:pos+2]}")
            pos += 1
            for j, op in enumerate(ops):
                line, exp, kind = op[0], op[1], op[2]
                cmd = line.split(" ", 1)[0]
                if _prints(cmd):
                    got = out[pos] if pos < len(out) else "<eof>"
                    pos += 1
                    if exp is not None:
                        n_cmp += 1
                        if callable(exp):
                            ok = exp(got)
                        else:
                            ok = got == exp
                        if not ok:
                            mism.append({"case_index": i, "case": meta, "op_index": j, "line": line,
                                         "expected": exp if not callable(exp) else "<predicate>", "got": got, "kind": kind})
                    op.append(got) if isinstance(op, list) else None
        return mism, n_cmp


# ----------------------------------------------------------------------------- verdict / evidence


class Result:
    """accumulates what a check run covered"""

    def __init__(self, pid, tier, seed):
        self.pid, self.tier, self.seed = pid, tier, seed
        self.t0 = time.time()
        self.evaluations = 0
        self.distinct = set()
        self.samples = []
        self.rule = ""
        self.counters = {}
        self.mismatches = []   # correspondence disagreements (model vs real)
        self.oracle_failures = []  # property oracle failed on real outputs: concrete violations
        self.traces = 0
        self.exhaustive = False
        self.notes = []
        self.slices = {}

    def count(self, key, n=1):
        self.counters[key] = self.counters.get(key, 0) + n

    def nontrivial(self, obj):
        h = hashlib.sha1(json.dumps(obj, sort_keys=True, default=str).encode()).hexdigest()
        self.distinct.add(h)

    def sample(self, obj, limit=4):
        if len(self.samples) < limit:
            self.samples.append(obj)


def load_known():
    p = os.path.join(VERIF, "known_findings.json")
    try:
        return json.load(open(p))
    except FileNotFoundError:
        return {"findings": []}


def write_replay(pid, obj):
    os.makedirs(REPLAYS, exist_ok=True)
    name = f"{pid}_{int(time.time())}_{os.getpid()}.json"
    path = os.path.join(REPLAYS, name)
    with open(path, "w") as f:
        json.dump(obj, f, indent=1, default=str)
    return path


def write_evidence(res, lean, level, extra_cov=None, assumptions=None, violations=0):
    os.makedirs(EVID, exist_ok=True)
    cov = {
        "obligations": max(lean.obligations(), 1) if lean else 1,
        "discharged": lean.discharged() if lean else 0,
        "checker_cmd": f"cd /verif/lean && lake build Properties.{' Properties.'.join(PROPERTY_FILES.get(res.pid, []))} && lake env lean .lake/audit/Audit_*.lean   (#print axioms on every property theorem)",
        "trusted_base": [
            "Lean 4.33.0 kernel",
            "axioms allowed: propext, Classical.choice, Quot.sound (audited per theorem on this run)",
            "hand-written model tied to /repo by differential correspondence (this harness, the driver's parsing/re-tabulation glue)",
            "translators harness/translate.py (constants, HLL tables, merge guards), kernels.py (decision-logic cores, HH query logic, merge rounds, worker skeleton), "
            "kernels2.py (whole Numba kernels; integer casts dropped, arrays as total functions), methods.py (class methods, batch entry points), schema.py (save/load schema, "
            "constructor validation, shared-memory layouts), hashtr.py (hashes.py over machine words), floattr.py (float code of _counter2value and of the log merge cell body; "
            "Numba's cast/promotion rules as listed in the file)",
            "Numba, NumPy, CPython, libm, OS are modelled, not verified",
        ],
        "theorems": {n: t["axioms"] for n, t in (lean.theorems.items() if lean else [])},
        "evaluations": res.evaluations,
        "distinct_nontrivial": len(res.distinct),
        "rule": res.rule,
        "samples": res.samples[:6] if res.samples else ["(no cases run)"],
        "traces_validated_against_impl": res.traces,
        "branch_counters": res.counters,
        "exhaustive": res.exhaustive,
        "slices": res.slices,
        "generated_changed": lean.generated_changed if lean else [],
        "broken_obligations": lean.broken() if lean else ["lean not run"],
        "lean_wall_s": round(lean.wall, 1) if lean else 0,
        "leanchecker": lean.leanchecker if lean else "",
        "drifted_kernels": lean.drifted if lean else [],
        "kernel_translation_errors": lean.kernel_errors if lean else [],
        "budget_factor": FACTOR,
        "notes": res.notes,
    }
    sl = sys.modules.get("slice_log")
    if sl is not None and getattr(sl, "SHM_COUNT", 0):
        cov["branch_counters"]["histories_on_shared_memory_sketches"] = sl.SHM_COUNT
    if extra_cov:
        cov.update(extra_cov)
    ev = {
        "property_id": res.pid,
        "tier": res.tier,
        "seed": res.seed,
        "level": level,
        "coverage": cov,
        "assumptions": assumptions or [],
        "wall_s": round(time.time() - res.t0, 2),
        "violations": violations,
    }
    with open(os.path.join(EVID, f"{res.pid}.json"), "w") as f:
        json.dump(ev, f, indent=1, default=str)


def finish(res, lean, level, search, signature_of=None, assumptions=None, extra_cov=None):
    """Verdict logic of DESIGN §2.6.  `search()` -> list of concrete failing cases on the real code
    (each a dict with at least 'what'); called only when something is broken and no concrete
    oracle failure is known yet."""
    known = load_known()
    concrete = list(res.oracle_failures)
    broken = []
    if lean is not None and not lean.all_ok():
        broken += lean.broken()
    if res.mismatches:
        broken.append(f"correspondence: {len(res.mismatches)} disagreement(s), first: {json.dumps(res.mismatches[0], default=str)[:400]}")
    def _listed(c):
        sig = signature_of(c) if signature_of else None
        return any(k.get("property") == res.pid and k.get("status") == "known" and sig is not None and k.get("signature") == sig for k in known.get("findings", []))

    # search when something no longer checks and every concrete failure at hand is one the known-findings file already lists
    # (a listed finding explains nothing about a proof obligation or a correspondence that broke)
    if broken and all(_listed(c) for c in concrete) and search is not None:
        log("something is broken; searching the real code for a failing input …")
        try:
            concrete = concrete + (search() or [])
        except Timeout:
            raise
        except Exception as e:  # a crashing search must not hide the breakage
            res.notes.append(f"search crashed: {type(e).__name__}: {e}")
            concrete = []
    # split concrete failures into known and new
    new, listed = [], []
    for c in concrete:
        sig = signature_of(c) if signature_of else None
        hit = None
        for k in known.get("findings", []):
            if k.get("property") == res.pid and k.get("status") == "known" and sig is not None and k.get("signature") == sig:
                hit = k
        (listed if hit else new).append((c, hit))
    for c, k in listed:
        print(f"KNOWN-FINDING: property={res.pid} {k.get('what', c.get('what', ''))}")
    violations = 0
    rc = 0
    if new:
        violations = len(new)
        path = write_replay(res.pid, {"property": res.pid, "kind": "failing-input", "seed": res.seed, "tier": res.tier,
                                      "failing": [c for c, _ in new][:5], "broken": broken})
        print(f"VIOLATION property={res.pid} replay={path}")
        rc = 1
    elif broken:
        violations = 1
        path = write_replay(res.pid, {"property": res.pid, "kind": "no-failing-input-found", "seed": res.seed, "tier": res.tier,
                                      "no_longer_checks": broken, "mismatches": res.mismatches[:5],
                                      "build_log_tail": (lean.build_log[-3000:] if lean else "")})
        print(f"VIOLATION property={res.pid} replay={path} no-failing-input-found")
        rc = 1
    write_evidence(res, lean, level, extra_cov=extra_cov, assumptions=assumptions, violations=violations)
    log(f"{res.pid} {res.tier}: evaluations={res.evaluations} distinct_nontrivial={len(res.distinct)} "
        f"obligations={lean.obligations() if lean else 0}/{lean.discharged() if lean else 0} rc={rc} wall={time.time()-res.t0:.1f}s")
    return rc


def B(x):
    """scale a case count / time budget by the drift factor"""
    return x * FACTOR


def rng_for(seed, name):
    return random.Random(f"{seed}/{name}")
