"""
slice_hash.py — hashes (C11) and column derivation (C14_cols).

Real `fasthash64/fasthash32/murmur3` vs the Lean `Impl.*` model (generated constants) AND the
Lean `Ref.*` transcription of the published algorithms, on lengths 0..257 (every block/tail
combination several times), byte values biased to 00/7f/80/ff, boundary seeds, bytes objects
produced by slicing at every alignment offset, bytes(bytearray), concatenation.
An independent pure-Python transcription of the reference C code is the model-independent oracle.
"""
import time

from core import Session
from real import hexk, sk

M64 = (1 << 64) - 1
M32 = (1 << 32) - 1


# ---- independent Python transcription of fasthash.c / MurmurHash3_x86_32 (oracle for the search)
def _mix(h):
    h ^= h >> 23
    h = (h * 0x2127599BF4325C37) & M64
    h ^= h >> 47
    return h


def ref_fasthash64(buf, seed):
    m = 0x880355F21E6D1965
    n = len(buf)
    h = (seed ^ (n * m)) & M64
    nb = n // 8
    for i in range(nb):
        v = int.from_bytes(buf[8 * i:8 * i + 8], "little")
        h ^= _mix(v)
        h = (h * m) & M64
    tail = buf[8 * nb:]
    if tail:
        v = 0
        for i, b in enumerate(tail):
            v ^= b << (8 * i)
        h ^= _mix(v)
        h = (h * m) & M64
    return _mix(h)


def ref_fasthash32(buf, seed):
    h = ref_fasthash64(buf, seed)
    return (h - (h >> 32)) & M32


def _rotl32(x, r):
    return ((x << r) | (x >> (32 - r))) & M32


def ref_murmur3(buf, seed):
    c1, c2 = 0xCC9E2D51, 0x1B873593
    h = seed & M32
    n = len(buf)
    nb = n // 4
    for i in range(nb):
        k = int.from_bytes(buf[4 * i:4 * i + 4], "little")
        k = (k * c1) & M32
        k = _rotl32(k, 15)
        k = (k * c2) & M32
        h ^= k
        h = _rotl32(h, 13)
        h = (h * 5 + 0xE6546B64) & M32
    tail = buf[4 * nb:]
    if tail:
        k = 0
        for i, b in enumerate(tail):
            k ^= b << (8 * i)
        k = (k * c1) & M32
        k = _rotl32(k, 15)
        k = (k * c2) & M32
        h ^= k
    h ^= n
    h ^= h >> 16
    h = (h * 0x85EBCA6B) & M32
    h ^= h >> 13
    h = (h * 0xC2B2AE35) & M32
    h ^= h >> 16
    return h


_JIT = None


def jit_views():
    """njit wrappers that hash `buf[i:j]` where the slice is taken INSIDE jitted code: the key is then a view into the
    parent buffer (no copy, no NUL terminator behind it), which is how the library's own `_add_ngram_*` kernels call the
    hashes — a read past the end of the key shows up only there"""
    global _JIT
    if _JIT is None:
        from numba import njit
        s = sk()
        f64, f32, m3 = s.fasthash64, s.fasthash32, s.murmur3

        @njit
        def v64(buf, i, j, seed):
            return f64(buf[i:j], seed)

        @njit
        def v32(buf, i, j, seed):
            return f32(buf[i:j], seed)

        @njit
        def vm3(buf, i, j, seed):
            return m3(buf[i:j], seed)

        _JIT = (v64, v32, vm3)
    return _JIT


SEEDS64 = [0, 1, 2**32 - 1, 2**32, 2**63, 2**64 - 1]
SEEDS32 = [0, 1, 29, 2**31, 2**32 - 1]


def gen_keys(rng, tier):
    """(key bytes, how it was produced)"""
    out = []
    lens = list(range(0, 40)) + [rng.randrange(40, 258) for _ in range(20 if tier == "quick" else 120)] + [63, 64, 65, 127, 128, 129, 255, 256, 257]
    reps = 1 if tier == "quick" else 4
    for L in lens * reps:
        mode = rng.random()
        if mode < 0.5:
            raw = bytes(rng.choice([0x00, 0x7F, 0x80, 0xFF]) for _ in range(L))
        else:
            raw = bytes(rng.randrange(256) for _ in range(L))
        how = rng.choice(["plain", "slice", "bytearray", "concat"])
        if how == "slice":
            off = rng.randrange(0, 9)
            big = bytes(rng.randrange(256) for _ in range(off)) + raw + b"xyz"
            key = big[off:off + L]
        elif how == "bytearray":
            key = bytes(bytearray(raw))
        elif how == "concat":
            c = rng.randrange(0, L + 1)
            key = raw[:c] + raw[c:]
        else:
            key = raw
        assert key == raw
        out.append((key, how))
    return out


def run_slice(res, rng, tier, budget_s=25):
    s = sk()
    import numpy as np

    t0 = time.time()
    sess = Session()
    ops = []
    n = 0
    calls = []
    for key, how in gen_keys(rng, tier):
        if time.time() - t0 > budget_s:
            break
        seeds = [rng.choice(SEEDS64), rng.randrange(2**64)]
        for seed in seeds:
            real64 = int(s.fasthash64(key, np.uint64(seed)))
            real32 = int(s.fasthash32(key, np.uint64(seed)))
            calls.append((key, seed))
            ops.append([f"fh64 {hexk(key)} {seed}", str(real64), "impl"])
            ops.append([f"rfh64 {hexk(key)} {seed}", str(real64), "ref"])
            ops.append([f"fh32 {hexk(key)} {seed}", str(real32), "impl"])
            ops.append([f"rfh32 {hexk(key)} {seed}", str(real32), "ref"])
            if real64 != ref_fasthash64(key, seed):
                res.oracle_failures.append({"what": f"fasthash64({key.hex() or '-'}, {seed}) = {real64}, reference algorithm gives {ref_fasthash64(key, seed)}",
                                            "key": key.hex(), "seed": seed, "fn": "fasthash64"})
            if real32 != ref_fasthash32(key, seed):
                res.oracle_failures.append({"what": f"fasthash32({key.hex() or '-'}, {seed}) = {real32}, reference gives {ref_fasthash32(key, seed)}",
                                            "key": key.hex(), "seed": seed, "fn": "fasthash32"})
        for seed in [rng.choice(SEEDS32), rng.randrange(2**32)]:
            real = int(s.murmur3(key, np.uint32(seed)))
            ops.append([f"mm3 {hexk(key)} {seed}", str(real), "impl"])
            ops.append([f"rmm3 {hexk(key)} {seed}", str(real), "ref"])
            if real != ref_murmur3(key, seed):
                res.oracle_failures.append({"what": f"murmur3({key.hex() or '-'}, {seed}) = {real}, reference gives {ref_murmur3(key, seed)}",
                                            "key": key.hex(), "seed": seed, "fn": "murmur3"})
        if n % 3 == 0:
            # the same bytes as a jitted view into a parent buffer whose neighbouring bytes are non-zero
            import numpy as np2
            v64, v32, vm3 = jit_views()
            off = rng.randrange(0, 9)
            parent = bytes(rng.randrange(1, 256) for _ in range(off)) + key + bytes(rng.randrange(1, 256) for _ in range(1 + rng.randrange(9)))
            sd = rng.choice(SEEDS64)
            got64 = int(v64(parent, off, off + len(key), np2.uint64(sd)))
            got32 = int(v32(parent, off, off + len(key), np2.uint64(sd)))
            sd3 = rng.choice(SEEDS32)
            gotm = int(vm3(parent, off, off + len(key), np2.uint32(sd3)))
            res.count("how_jit_view")
            for fn, got, want, sdx in (("fasthash64", got64, ref_fasthash64(key, sd), sd), ("fasthash32", got32, ref_fasthash32(key, sd), sd), ("murmur3", gotm, ref_murmur3(key, sd3), sd3)):
                if got != want:
                    res.oracle_failures.append({"what": f"{fn} of the jitted view parent[{off}:{off + len(key)}] (= {key.hex() or '-'}) with seed {sdx} = {got}, reference algorithm gives {want}: "
                                                        "the value depends on how the bytes object was produced",
                                                "key": key.hex(), "seed": sdx, "fn": fn, "parent": parent.hex(), "off": off})
        n += 1
        res.evaluations += 1
        L = len(key)
        res.nontrivial(["hash", L % 8, L // 8 > 0, L // 8 > 1, L % 4, key[-1:].hex() if key else "", how, min(L, 70)])
        res.count(f"tail8_{L % 8}")
        res.count(f"how_{how}")
        if any(b >= 0x80 for b in key[-(L % 8 or 8):]):
            res.count("high_byte_in_tail")
        if n <= 3:
            res.sample({"slice": "hash", "key": key.hex(), "len": L, "how": how, "fasthash64_seed0": int(s.fasthash64(key, np.uint64(0)))})
    # call-history independence: repeat a sample of calls after everything else ran
    for key, seed in rng.sample(calls, min(50, len(calls))):
        again = int(s.fasthash64(key, np.uint64(seed)))
        if again != ref_fasthash64(key, seed):
            res.oracle_failures.append({"what": f"fasthash64 not a pure function: second call on ({key.hex()}, {seed}) gave {again}",
                                        "key": key.hex(), "seed": seed, "fn": "fasthash64"})
    sess.add_case({"slice": "hash"}, ops)
    mism, ncmp = sess.run()
    res.mismatches += mism
    res.traces += n
    res.count("comparisons", ncmp)
    res.slices["hash"] = {"keys": n, "comparisons": ncmp, "mismatches": len(mism), "wall_s": round(time.time() - t0, 1)}


def huge_keys(res):
    """keys of 2^32 + k bytes (search only — 4 GiB of lazily allocated zero pages, a few seconds each): lengths that do not fit 32 bits.
    Expected value in closed form: every block of an all-zero key mixes to 0, so h = (seed ^ n·m) · m^nblocks [· tail step] then mix."""
    s = sk()
    import numpy as np

    m = 0x880355F21E6D1965
    for extra in (16, 3, 46):
        n = 2**32 + extra
        try:
            key = bytes(n)
        except MemoryError:
            res.notes.append("huge_keys: not enough memory for a 4 GiB key")
            return
        seed = 12345
        nb, tail = n // 8, n % 8
        h = (seed ^ (n * m)) & M64
        h = (h * pow(m, nb, 1 << 64)) & M64       # h ^= mix(0) = 0 ; h *= m, nb times
        if tail:
            h = (h * m) & M64                      # tail value 0 mixes to 0 as well
        want = _mix(h)
        got = int(s.fasthash64(key, np.uint64(seed)))
        res.evaluations += 1
        res.count("huge_keys")
        if got != want:
            res.oracle_failures.append({"what": f"fasthash64 of {n} zero bytes (a length beyond 32 bits) with seed {seed} = {got}, the reference algorithm gives {want}",
                                        "fn": "fasthash64", "huge_len": n, "seed": seed, "key": "", "signature": "C11:huge-key"})
        del key


def rerun(fail):
    s = sk()
    import numpy as np

    if "huge_len" in fail:
        from core import Result
        r = Result("C11", "replay", 0)
        huge_keys(r)
        return bool(r.oracle_failures)
    key = bytes.fromhex(fail["key"])
    seed = fail["seed"]
    fn = fail["fn"]
    if "parent" in fail:
        parent, off = bytes.fromhex(fail["parent"]), fail["off"]
        v64, v32, vm3 = jit_views()
        if fn == "fasthash64":
            return int(v64(parent, off, off + len(key), np.uint64(seed))) != ref_fasthash64(key, seed)
        if fn == "fasthash32":
            return int(v32(parent, off, off + len(key), np.uint64(seed))) != ref_fasthash32(key, seed)
        return int(vm3(parent, off, off + len(key), np.uint32(seed))) != ref_murmur3(key, seed)
    if fn == "fasthash64":
        return int(s.fasthash64(key, np.uint64(seed))) != ref_fasthash64(key, seed)
    if fn == "fasthash32":
        return int(s.fasthash32(key, np.uint64(seed))) != ref_fasthash32(key, seed)
    return int(s.murmur3(key, np.uint32(seed))) != ref_murmur3(key, seed)
