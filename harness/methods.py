"""
methods.py — translator for the METHODS of the sketch classes that wrap the Numba kernels (plain Python glue):
`add`, `query`, `add_ngram`, `merge` (the part after the compatibility guard, which `translate.merge_attrs` handles), `n_added`,
`n_records`, `__getitem__` (heavy hitters).  `self.attr` becomes a parameter `attr` (arrays as functions, scalars as `Nat`), an
assignment `self.rand_ptr = …` becomes a result, calls of kernels are calls of the whole-kernel translations (`kernels2.py`).

Output: `lean/Model/Generated/Methods.lean` (namespace `Sketchnu.Full`, names `<class>_<method>`).  `lean/Properties/FullApi.lean`
proves them equal to the model's API-level functions (`Lin.add` INCLUDING the cap `min(value, 2^32-1)`, `HH.add`, `Hll.add`, …).
"""
import ast
import copy
import os

import kernels2
from kernels2 import Tr, Fn, LEAN_TY, EXTERN_TY, _mutated_of
from translate import TranslateError, REPO, GEN, _parse, _write_if_changed

ATTR_TY = {"cms": "a2", "n_added_records": "a1", "buckets": "a1", "registers": "a1", "lhh": "a3", "lhh_count": "a2", "key_lens": "a2",
           "width": "nat", "depth": "nat", "uint_maxval": "nat", "num_reserved": "nat", "max_count": "nat", "seed": "nat", "p": "nat", "m": "nat",
           "max_key_len": "nat", "rand_ptr": "nat", "base": "f", "rand_nums": "af", "threshold": "nat", "alpha": "f", "raw_estimate": "af", "bias_data": "af"}
ARG_TY = {"key": "key", "value": "nat", "ngram": "nat"}

# (module, class, method, lean name)
METHODS = [
    ("countmin", "CountMinLinear", "query", "linear_query"), ("countmin", "CountMinLinear", "add", "linear_add"),
    ("countmin", "CountMinLinear", "add_ngram", "linear_add_ngram"), ("countmin", "CountMinLinear", "merge", "linear_merge"),
    ("countmin", "CountMinLinear", "n_added", "cms_n_added"), ("countmin", "CountMinLinear", "n_records", "cms_n_records"),
    ("countmin", "CountMinLog16", "add", "log16_add"), ("countmin", "CountMinLog16", "add_ngram", "log16_add_ngram"),
    ("countmin", "CountMinLog8", "add", "log8_add"), ("countmin", "CountMinLog8", "add_ngram", "log8_add_ngram"),
    ("countmin", "CountMinLog16", "merge", "log16_merge"), ("countmin", "CountMinLog8", "merge", "log8_merge"),
    ("hyperloglog", "HyperLogLog", "add", "hll_add_m"), ("hyperloglog", "HyperLogLog", "add_ngram", "hll_add_ngram_m"), ("hyperloglog", "HyperLogLog", "merge", "hll_merge_m"),
    ("heavyhitters", "HeavyHitters", "add", "hh_add_m"), ("heavyhitters", "HeavyHitters", "add_ngram", "hh_add_ngram_m"), ("heavyhitters", "HeavyHitters", "merge", "hh_merge_m"),
    ("heavyhitters", "HeavyHitters", "__getitem__", "hh_getitem"), ("heavyhitters", "HeavyHitters", "n_added", "hh_n_added"), ("heavyhitters", "HeavyHitters", "n_records", "hh_n_records"),
]
EXTERNS = {"_log_counter": ("log_counter", [0, 5, 6], 2)}
INFO = {}

# the batch entry points: (module, class, method, lean prefix of the class's translated methods)
BATCH = [("countmin", "CountMinLinear", "linear"), ("countmin", "CountMinLog16", "log16"), ("countmin", "CountMinLog8", "log8"),
         ("hyperloglog", "HyperLogLog", "hll"), ("heavyhitters", "HeavyHitters", "hh")]
ADD_NAME = {"linear": "linear_add", "log16": "log16_add", "log8": "log8_add", "hll": "hll_add_m", "hh": "hh_add_m"}
NGRAM_NAME = {"linear": "linear_add_ngram", "log16": "log16_add_ngram", "log8": "log8_add_ngram", "hll": "hll_add_ngram_m", "hh": "hh_add_ngram_m"}
UPDATE_DICT_LIST = "if isinstance(keys, Dict):\n    for key, value in keys.items():\n        self.add(key, value)\nelse:\n    for key in keys:\n        self.add(key)"
UPDATE_KEYS_ONLY = "for key in keys:\n    self.add(key)"
UPDATE_NGRAM = "for key in keys:\n    self.add_ngram(key, ngram)"


def _fold(lean, callee, elem_ty, elem_args, doc, extra_params=()):
    """`def lean … (keys : List elem_ty) := keys.foldl (fun st x => callee …) init` threading the callee's results"""
    info = INFO[callee]
    res = info["results"]
    if not res:
        raise TranslateError(f"{callee} has no effect to thread through a loop")
    hdr = ""
    if info["uses_ko"]:
        hdr += " {K B : Type} [DecidableEq B] (ko : Rt.KeyOps K B)"
    elif info["has_a3"]:
        hdr += " {B : Type} [DecidableEq B]"
    for x in info["externs"]:
        hdr += f" ({x} : {EXTERN_TY[x]})"
    outer = [(n, t) for n, t in info["params"] if n not in elem_args]
    for n, t in outer:
        hdr += f" ({n} : {LEAN_TY[t]})"
    for n, t in extra_params:
        if n not in [x for x, _ in outer]:
            hdr += f" ({n} : {LEAN_TY[t]})"
    hdr += f" (keys : List ({elem_ty}))"

    def proj(i):
        if len(res) == 1:
            return "st"
        return "st" + ".2" * i + (".1" if i < len(res) - 1 else "")
    call = [f"Full.{callee}"] + (["ko"] if info["uses_ko"] else []) + info["externs"]
    for n, t in info["params"]:
        if n in elem_args:
            call.append(elem_args[n])
        elif n in res:
            call.append("(" + proj(res.index(n)) + ")" if len(res) > 1 else "st")
        else:
            call.append(n)
    init = res[0] if len(res) == 1 else "(" + ", ".join(res) + ")"
    return f"/-- {doc} -/\ndef {lean}{hdr} :=\n  keys.foldl (fun st x => {' '.join(call)}) {init}\n"


def translate_batch(trees):
    out, errors = {}, []
    for mod, cls, pre in BATCH:
        for meth in ("update", "update_ngram"):
            names = [f"{pre}_update_list", f"{pre}_update_dict"] if meth == "update" else [f"{pre}_update_ngram"]
            try:
                node = _method_node(trees[mod], cls, meth)
                body = list(node.body)
                if body and isinstance(body[0], ast.Expr) and isinstance(body[0].value, ast.Constant):
                    body = body[1:]
                text = "\n".join(ast.unparse(x) for x in body)
                add, ngram = ADD_NAME[pre], NGRAM_NAME[pre]
                if add not in INFO or ngram not in INFO:
                    raise TranslateError(f"{cls}.add / add_ngram were not translated")
                if meth == "update":
                    dflt = INFO[add]["defaults"].get("value")
                    if dflt is None or not dflt.isdigit():
                        raise TranslateError(f"{cls}.add has no integer default for `value`")
                    if text == UPDATE_DICT_LIST:
                        out[names[0]] = _fold(names[0], add, "K", {"key": "x", "value": dflt}, f"`{cls}.update(list)`: `for key in keys: self.add(key)` (default multiplicity {dflt})")
                        out[names[1]] = _fold(names[1], add, "K × Nat", {"key": "x.1", "value": "x.2"}, f"`{cls}.update(dict)`: `for key, value in keys.items(): self.add(key, value)`")
                    elif text == UPDATE_KEYS_ONLY:
                        out[names[0]] = _fold(names[0], add, "K", {"key": "x", "value": dflt}, f"`{cls}.update(list)`: `for key in keys: self.add(key)`")
                        out[names[1]] = _fold(names[1], add, "K × Nat", {"key": "x.1", "value": dflt},
                                              f"`{cls}.update(dict)`: the same loop over the dict's KEYS — the values are ignored (multiplicity {dflt})")
                    else:
                        raise TranslateError(f"{cls}.update no longer reads as modelled: {text!r}")
                else:
                    if text != UPDATE_NGRAM:
                        raise TranslateError(f"{cls}.update_ngram no longer reads as modelled: {text!r}")
                    out[names[0]] = _fold(names[0], ngram, "K", {"key": "x"}, f"`{cls}.update_ngram(keys, ngram)`: `for key in keys: self.add_ngram(key, ngram)`")
            except TranslateError as e:
                for nm in names:
                    errors.append(f"{nm}: {e}")
                    out[nm] = f"-- TRANSLATION FAILED for {nm} ({cls}.{meth}): {e}\n"
    return out, errors



class _Rewrite(ast.NodeTransformer):
    """self.X → X, other.X → other_X; records the attribute parameters in first-use order"""

    def __init__(self):
        self.attrs = []

    def visit_Attribute(self, node):
        if isinstance(node.value, ast.Name) and node.value.id in ("self", "other"):
            name = node.attr if node.value.id == "self" else "other_" + node.attr
            base = node.attr
            if base not in ATTR_TY:
                raise TranslateError(f"attribute `{ast.unparse(node)}` is not a modelled attribute")
            if name not in self.attrs:
                self.attrs.append(name)
            return ast.copy_location(ast.Name(id=name, ctx=node.ctx), node)
        return self.generic_visit(node)


def _method_node(tree, cls, name):
    classes = {n.name: n for n in tree.body if isinstance(n, ast.ClassDef)}
    c = classes.get(cls)
    while c is not None:
        for m in c.body:
            if isinstance(m, ast.FunctionDef) and m.name == name:
                return m
        b = c.bases[0].id if c.bases and isinstance(c.bases[0], ast.Name) else None
        c = classes.get(b)
    raise TranslateError(f"{cls}.{name} not found")


def translate_methods(kernel_fns):
    """kernel_fns: {module: {python kernel name: kernels2.Fn}} as left by kernels2.translate_all"""
    out, errors = {}, []
    trees = {m: _parse(os.path.join(REPO, "sketchnu", m + ".py"))[1] for m in ("countmin", "hyperloglog", "heavyhitters")}
    for mod, cls, meth, lean in METHODS:
        try:
            node = copy.deepcopy(_method_node(trees[mod], cls, meth))
            body = list(node.body)
            if body and isinstance(body[0], ast.Expr) and isinstance(body[0].value, ast.Constant):
                body = body[1:]
            if meth == "merge":
                # the compatibility guard `if …: raise TypeError(…)` is translated by translate.merge_attrs (Model/Generated/MergeAttrs.lean)
                if not (body and isinstance(body[0], ast.If) and len(body[0].body) == 1 and isinstance(body[0].body[0], ast.Raise) and not body[0].orelse):
                    raise TranslateError(f"{cls}.merge does not start with the compatibility guard")
                body = body[1:]
            rw = _Rewrite()
            body = [rw.visit(s) for s in body]
            # `self.rand_ptr = kernel(…)` / `return kernel(…)` where the kernel mutates arrays
            fns = kernel_fns.get(mod, {})
            new = []
            for s in body:
                if isinstance(s, ast.Return) and isinstance(s.value, ast.Call) and isinstance(s.value.func, ast.Name) and s.value.func.id in fns \
                        and fns[s.value.func.id].mutated:
                    new.append(ast.Assign(targets=[ast.Name(id="ret_", ctx=ast.Store())], value=s.value))
                    new.append(ast.Return(value=ast.Name(id="ret_", ctx=ast.Load())))
                else:
                    new.append(s)
            body = new
            for s in body:
                ast.fix_missing_locations(s)
            margs = [a.arg for a in node.args.args if a.arg not in ("self", "other")]
            for a in margs:
                if a not in ARG_TY:
                    raise TranslateError(f"{cls}.{meth}: unmodelled parameter `{a}`")
            params = [(a, ATTR_TY[a[6:] if a.startswith("other_") else a]) for a in rw.attrs] + [(a, ARG_TY[a]) for a in margs]
            fn = Fn.__new__(Fn)
            fn.module, fn.lean = mod, lean
            fn.node = ast.FunctionDef(name=f"{cls}.{meth}", args=node.args, body=body, decorator_list=[], returns=None, type_comment=None)
            fn.params = params
            has_ret = any(isinstance(x, ast.Return) and x.value is not None for s in body for x in ast.walk(s))
            fn.ret = ["nat"] if has_ret else []
            fn.uses_ko, fn.externs = False, []
            fn.mutated = _mutated_of(fn, fns)
            assigned_attrs = []
            for s in body:
                for x in ast.walk(s):
                    if isinstance(x, ast.Assign):
                        for t in x.targets:
                            if isinstance(t, ast.Name) and t.id in rw.attrs and t.id not in assigned_attrs:
                                assigned_attrs.append(t.id)
            Tr._fns = fns
            tr = Tr(fn, fns, {"externs": EXTERNS})
            env = {n: t for n, t in params}
            # assigned scalar attributes come back as results (before the mutated arrays)
            if assigned_attrs:
                if fn.ret:
                    raise TranslateError(f"{cls}.{meth}: returns a value and assigns attributes")
                fn.ret = ["nat"] * len(assigned_attrs)
                body = body + [ast.Return(value=ast.Tuple(elts=[ast.Name(id=a, ctx=ast.Load()) for a in assigned_attrs], ctx=ast.Load())
                                          if len(assigned_attrs) > 1 else ast.Name(id=assigned_attrs[0], ctx=ast.Load()))]
                for s in body:
                    ast.fix_missing_locations(s)
            code = tr.block(body, env, "  ")
            args = ""
            if fn.uses_ko:
                args += " {K B : Type} [DecidableEq B] (ko : Rt.KeyOps K B)"
            elif any(t == "a3" for _, t in params):
                args += " {B : Type} [DecidableEq B]"
            for x in fn.externs:
                args += f" ({x} : {EXTERN_TY[x]})"
            for n, t in params:
                if t in ("f", "af"):
                    continue
                args += f" ({n} : {LEAN_TY[t]})"
            res = ([f"`self.{a}`" for a in assigned_attrs] or (["the return value"] if has_ret else [])) + [f"`{m}`" for m in fn.mutated]
            out[lean] = f"/-- `{cls}.{meth}` (after `self.attr` ↦ parameter); result: ({', '.join(res)}) -/\ndef {lean}{args} :=\n{code}"
            INFO[lean] = {"params": [(n, t) for n, t in params if t not in ("f", "af")], "results": list(assigned_attrs) + list(fn.mutated), "uses_ko": fn.uses_ko,
                          "externs": list(fn.externs), "has_a3": any(t == "a3" for _, t in params),
                          "defaults": {a.arg: ast.unparse(d) for a, d in zip(node.args.args[len(node.args.args) - len(node.args.defaults):], node.args.defaults)}}
        except TranslateError as e:
            errors.append(f"{lean}: {e}")
            out[lean] = f"-- TRANSLATION FAILED for {lean} ({cls}.{meth}): {e}\n-- (no definition emitted: the obligations in Properties/FullApi.lean that mention it no longer check)\n"
    return out, errors


def run():
    # the kernels first (their Fn objects carry mutated/extern information)
    by_mod = {}
    kernels2.translate_all(_collect=by_mod)
    defs, errors = translate_methods(by_mod)
    trees = {m: _parse(os.path.join(REPO, "sketchnu", m + ".py"))[1] for m in ("countmin", "hyperloglog", "heavyhitters")}
    bdefs, berr = translate_batch(trees)
    errors += berr
    L = ["/- GENERATED by harness/methods.py from the class methods of the current /repo source — do not edit. -/",
         "import Model.Generated.FullLin", "import Model.Generated.FullLog", "import Model.Generated.FullHll", "import Model.Generated.FullHH",
         "namespace Sketchnu.Full", "open Sketchnu", ""]
    for _, _, _, lean in METHODS:
        L.append(defs[lean])
    for nm in bdefs:
        L.append(bdefs[nm])
    L.append("end Sketchnu.Full")
    changed = ["Methods.lean"] if _write_if_changed(os.path.join(GEN, "Methods.lean"), "\n".join(L) + "\n") else []
    return changed, errors


if __name__ == "__main__":
    by_mod = {}
    kernels2.translate_all(_collect=by_mod)
    d, e = translate_methods(by_mod)
    trees = {m: _parse(os.path.join(REPO, "sketchnu", m + ".py"))[1] for m in ("countmin", "hyperloglog", "heavyhitters")}
    b, be = translate_batch(trees)
    for k, v in b.items():
        print(v)
    print(e, be)
