"""
slice_misc.py — correspondence slices for C15 (merge-refuse), C20 (truncate), C16 (shm),
C10 (persist), C12 (entry), C17/C07 (hll-query), C14 (cols + statistical search).
"""
import gc
import io
import json
import math
import os
import sys
import struct
import tempfile
import time
import zipfile

from core import Session
from real import CAP, Probe, hexk, key_alphabet, np, sk

TMPDIR = "/dev/shm" if os.path.isdir("/dev/shm") else None


def tmpfile(suffix=".npz"):
    fd, path = tempfile.mkstemp(suffix=suffix, prefix="skverif_", dir=TMPDIR)
    os.close(fd)
    return path


def fbits(x):
    return struct.unpack("<Q", struct.pack("<d", float(x)))[0]


# =============================================================================== C15 merge-refuse


def _mk(desc):
    s = sk()
    k = desc[0]
    if k == "lin":
        return s.CountMinLinear(desc[1], desc[2])
    if k == "log16":
        return s.CountMinLog16(desc[1], desc[2], desc[3], desc[4])
    if k == "log8":
        return s.CountMinLog8(desc[1], desc[2], desc[3], desc[4])
    if k == "hll":
        return s.HyperLogLog(desc[1], desc[2])
    if k == "hh":
        return s.HeavyHitters(desc[1], desc[2], desc[3], phi=desc[4])
    raise ValueError(k)


def _arrays(o):
    names = ("cms", "registers", "lhh", "lhh_count", "key_lens", "n_added_records")
    return {n: bytes(np().ascontiguousarray(getattr(o, n))) for n in names if hasattr(o, n)}


def _compatible(a, b):
    if a[0] != b[0]:
        return False
    if a[0] == "hh":
        return a[1:4] == b[1:4]
    return a[1:] == b[1:]


def merge_refuse(res, rng, tier):
    t0 = time.time()
    fam_cms = [("lin", 4, 2), ("lin", 5, 2), ("lin", 4, 3), ("log16", 4, 2, 10**6, 1023), ("log16", 5, 2, 10**6, 1023), ("log16", 4, 3, 10**6, 1023),
               ("log16", 4, 2, 10**6 + 1, 1023), ("log16", 4, 2, 10**6, 1022), ("log8", 4, 2, 10**6, 15), ("log8", 5, 2, 10**6, 15), ("log8", 4, 3, 10**6, 15),
               ("log8", 4, 2, 10**6 + 1, 15), ("log8", 4, 2, 10**6, 14), ("log8", 4, 2, 2**32 - 1, 15), ("log16", 4, 2, 2**32 - 1, 1023),
               ("log16", 4, 2, 2**40, 1023), ("log16", 4, 2, 2**40 + 1, 1023), ("log16", 4, 2, 2**48, 1023), ("log16", 4, 2, 2**48 + 100, 1023),
               ("log8", 4, 2, 2**60, 15), ("log8", 4, 2, 2**60 + 1, 15), ("log8", 4, 2, 2**32 - 2, 15),
               # values that differ by Python's integer-hash modulus 2^61 − 1 (equal hash(), equal low bits of many digests): still different parameters
               ("log16", 4, 2, 10**6 + 2**61 - 1, 1023), ("log8", 4, 2, 10**6 + 2**61 - 1, 15)]
    fam_hll = [("hll", 8, 0), ("hll", 9, 0), ("hll", 8, 1), ("hll", 8, 2**32), ("hll", 8, 2**63), ("hll", 8, 2**64 - 1), ("hll", 16, 0), ("hll", 7, 0),
               ("hll", 8, 2**61 - 1), ("hll", 8, 2**61), ("hll", 8, 2**63 + 3), ("hll", 8, 7)]   # 0 ≡ 2^61−1, 1 ≡ 2^61, 7 ≡ 2^63+3 (mod 2^61 − 1)
    fam_hh = [("hh", 4, 2, 8, 0.5), ("hh", 5, 2, 8, 0.5), ("hh", 4, 3, 8, 0.5), ("hh", 4, 2, 7, 0.5), ("hh", 4, 2, 8, 0.25), ("hh", 4, 2, 8, None), ("hh", 1, 1, 1, None)]
    ops = []
    n = 0
    for fam in (fam_cms, fam_hll, fam_hh):
        for da in fam:
            for db in fam:
                a, b = _mk(da), _mk(db)
                for o in (a, b):
                    for j in range(3):
                        o.add(bytes([j, 7]) * (j + 1), j + 1)
                # the same pair with an EMPTY argument (an idle worker's sketch) and with an empty receiver: compatibility does not depend on contents
                for ea, eb in ((False, True), (True, False)):
                    a0, b0 = (_mk(da) if ea else a), (_mk(db) if eb else b)
                    s0a, s0b = _arrays(a0), _arrays(b0)
                    want0 = "accept" if _compatible(da, db) else "TypeError"
                    if want0 == "TypeError":
                        try:
                            a0.merge(b0)
                            got0 = "accept"
                        except TypeError:
                            got0 = "TypeError"
                        except Exception as e:  # noqa
                            got0 = type(e).__name__
                        res.evaluations += 1
                        if got0 != "TypeError":
                            res.oracle_failures.append({"pid": "C15", "what": f"C15 {da}.merge({db}) with an EMPTY {'receiver' if ea else 'argument'} -> {got0}, the property requires TypeError",
                                                        "a": da, "b": db})
                        elif _arrays(a0) != s0a or _arrays(b0) != s0b:
                            res.oracle_failures.append({"pid": "C15", "what": f"C15 refused merge {da}.merge({db}) (one operand empty) changed an operand", "a": da, "b": db})
                    if ea:
                        del a0
                    if eb:
                        del b0
                sa, sb = _arrays(a), _arrays(b)

                def answers(o):
                    """what the operand ANSWERS (queries, bookkeeping) — 'unchanged' must hold for these too, not only for the arrays:
                    a sketch that keeps caches (heavy hitters' candidate set) can be damaged without touching a table"""
                    out = []
                    if hasattr(o, "registers"):
                        out.append(fbits(o.query()))
                    else:
                        mk_ = int(o.max_key_len) if hasattr(o, "lhh") else 99
                        out.append([fbits(o[(bytes([j, 7]) * (j + 1))[:mk_]]) for j in range(3)])
                        out.append([int(o.n_added()), int(o.n_records())])
                        if hasattr(o, "lhh"):
                            out.append([(k.hex(), int(c)) for k, c in o.query(5)])
                            out.append([(k.hex(), int(c)) for k, c in o.query(5, 1)])
                            out.append([(k.hex(), int(c)) for k, c in o.query(5)])
                    return out

                qa, qb = answers(a), answers(b)      # also populates the query caches before the merge
                try:
                    a.merge(b)
                    got = "accept"
                except TypeError:
                    got = "TypeError"
                except AttributeError:
                    got = "AttributeError"
                except Exception as e:  # noqa
                    got = type(e).__name__
                want = "accept" if _compatible(da, db) else "TypeError"
                n += 1
                res.evaluations += 1
                res.nontrivial(["merge_refuse", da, db])
                if got != want:
                    res.oracle_failures.append({"pid": "C15", "what": f"C15 {da}.merge({db}) -> {got}, the property requires {want}", "a": da, "b": db})
                if got != "accept":
                    if _arrays(a) != sa or _arrays(b) != sb:
                        res.oracle_failures.append({"pid": "C15", "what": f"C15 refused merge {da}.merge({db}) changed an operand", "a": da, "b": db})
                    elif answers(a) != qa or answers(b) != qb:
                        res.oracle_failures.append({"pid": "C15", "what": f"C15 refused merge {da}.merge({db}) left the arrays alone but changed what an operand answers "
                                                                             f"(queries / n_added / n_records before {qa} {qb}, after {answers(a)} {answers(b)})", "a": da, "b": db})
                elif _arrays(b) != sb:
                    res.oracle_failures.append({"pid": "C15", "what": f"C15 accepted merge {da}.merge({db}) changed its argument", "a": da, "b": db})

                def enc(d):
                    if d[0] == "hh":
                        return f"hh {d[1]} {d[2]} {d[3]} {0 if d[4] is None else fbits(d[4])}"
                    return " ".join(str(x) for x in d)

                ops.append([f"merge.verdict {enc(da)} {enc(db)}", got, "exact"])
                del a, b
    sess = Session()
    sess.add_case({"slice": "merge_refuse"}, ops)
    mism, ncmp = sess.run()
    res.mismatches += mism
    res.exhaustive = True
    res.sample({"slice": "merge_refuse", "pair": [list(map(str, fam_cms[3])), list(map(str, fam_cms[0]))], "expected": "TypeError"})
    res.sample({"slice": "merge_refuse", "pair": [list(map(str, fam_hh[0])), list(map(str, fam_hh[4]))], "expected": "accept (phi is not a merge parameter)"})
    res.slices["merge_refuse"] = {"ordered_pairs": n, "comparisons": ncmp, "mismatches": len(mism), "wall_s": round(time.time() - t0, 1)}


# =============================================================================== C20 truncate


def _saved_files(rng, tier):
    """(label, class loader, module loader or None, bytes, original object)"""
    s = sk()
    out = []
    shapes = [(3, 2), (7, 1)] if tier == "quick" else [(3, 2), (7, 1), (64, 4), (200, 3)]
    for w, d in shapes:
        objs = [("linear", s.CountMinLinear(w, d), s.CountMinLinear.load, s.load), ("log16", s.CountMinLog16(w, d), s.CountMinLog16.load, s.load),
                ("log8", s.CountMinLog8(w, d), s.CountMinLog8.load, s.load), ("hh", s.HeavyHitters(w, d, 5), s.HeavyHitters.load, None)]
        for label, o, cl, ml in objs:
            for j in range(6):
                o.add(bytes([rng.randrange(256) for _ in range(rng.randrange(0, 6))]), rng.randrange(1, 9))
            p = tmpfile()
            o.save(p)
            data = open(p, "rb").read()
            os.unlink(p)
            out.append((f"{label}-{w}x{d}", cl, ml, data, o))
            if (w, d) == shapes[0]:
                # the same contents saved by a sketch that LIVES IN SHARED MEMORY (what parallel_add returns and what is usually saved): same container rules
                try:
                    osh = type(o)(w, d, shared_memory=True) if label != "hh" else type(o)(w, d, 5, shared_memory=True)
                    for nm in ("cms", "lhh", "lhh_count", "key_lens", "n_added_records"):
                        if hasattr(o, nm):
                            getattr(osh, nm)[...] = getattr(o, nm)
                    p = tmpfile()
                    osh.save(p)
                    data3 = open(p, "rb").read()
                    os.unlink(p)
                    out.append((f"{label}-{w}x{d}-saved-from-shared-memory", cl, ml, data3, o))
                    del osh
                    gc.collect()
                except Exception as e:
                    out.append((f"{label}-{w}x{d}-saved-from-shared-memory:ERROR {type(e).__name__}: {e}", cl, ml, b"", o))
                # the same sketch saved OVER an existing, larger file of the same class (a re-used checkpoint path):
                # what is on disk afterwards must again be exactly one complete container
                p = tmpfile()
                big = type(o)(w + 40, d + 1) if label != "hh" else type(o)(w + 40, d + 1, 5)
                big.add(b"old", 3)
                big.save(p)
                o.save(p)
                data2 = open(p, "rb").read()
                os.unlink(p)
                out.append((f"{label}-{w}x{d}-overwrite", cl, ml, data2, o))
    for pp in ([7] if tier == "quick" else [7, 9]):
        h = s.HyperLogLog(pp, rng.randrange(2**64))
        for j in range(20):
            h.add(bytes([j]))
        p = tmpfile()
        h.save(p)
        data = open(p, "rb").read()
        os.unlink(p)
        out.append((f"hll-p{pp}", s.HyperLogLog.load, None, data, h))
        if pp == 7:
            p = tmpfile()
            s.HyperLogLog(9, 1).save(p)
            h.save(p)
            data2 = open(p, "rb").read()
            os.unlink(p)
            out.append((f"hll-p{pp}-overwrite", s.HyperLogLog.load, None, data2, h))
    return out


def _load_outcome(loader, path):
    try:
        o = loader(path)
        return "O", o
    except EOFError:
        return "E", None
    except zipfile.BadZipFile:
        return "B", None
    except ValueError:
        return "V", None
    except Exception as e:  # any other exception still is "raises"
        return "X:" + type(e).__name__, None


def _container_constants(res):
    """the constants the Lean Npz model hard-codes, read from the installed NumPy / CPython"""
    import inspect
    import re

    import numpy

    want = {"zipfile.stringEndArchive": (zipfile.stringEndArchive, b"PK\x05\x06"), "zipfile.sizeEndCentDir": (zipfile.sizeEndCentDir, 22),
            "numpy.lib.format.MAGIC_PREFIX": (numpy.lib.format.MAGIC_PREFIX, b"\x93NUMPY")}
    src = inspect.getsource(numpy.load)
    m1 = re.search(r"_ZIP_PREFIX\s*=\s*(b'[^']*')", src)
    m2 = re.search(r"_ZIP_SUFFIX\s*=\s*(b'[^']*')", src)
    want["np.load._ZIP_PREFIX"] = (eval(m1.group(1)) if m1 else None, b"PK\x03\x04")
    want["np.load._ZIP_SUFFIX"] = (eval(m2.group(1)) if m2 else None, b"PK\x05\x06")
    esrc = inspect.getsource(zipfile._EndRecData)
    want["_EndRecData searches the last 64 KiB + 22"] = ("(1 << 16) - sizeEndCentDir" in esrc.replace("filesize - ", "") or "(1 << 16)" in esrc, True)
    for k, (got, exp) in want.items():
        if got != exp:
            res.mismatches.append({"kind": "container-constants", "line": k, "expected": repr(exp), "got": repr(got), "case": {"slice": "truncate"}})
    res.count("container_constants_checked", len(want))


def truncate(res, rng, tier):
    t0 = time.time()
    sess = Session()
    ops = []
    n = 0
    _container_constants(res)
    path = tmpfile()
    try:
        for label, cl, ml, data, orig in _saved_files(rng, tier):
            real = []
            for L in range(len(data) + 1):
                with open(path, "wb") as f:
                    f.write(data[:L])
                oc, obj = _load_outcome(cl, path)
                if ml is not None:
                    oc2, obj2 = _load_outcome(ml, path)
                    if (oc2 == "O") != (oc == "O"):
                        res.oracle_failures.append({"pid": "C20", "what": f"C20 {label}: module-level load() and class loader disagree on prefix {L}/{len(data)}", "label": label, "L": L})
                    del obj2
                real.append(oc[0])
                n += 1
                if L < len(data) and oc == "O":
                    res.oracle_failures.append({"pid": "C20", "what": f"C20 {label}: loading the {L}-byte prefix of a {len(data)}-byte file RETURNED an object", "label": label, "L": L})
                if L == len(data) and oc != "O":
                    res.oracle_failures.append({"pid": "C20", "what": f"C20 {label}: the complete file does not load ({oc})", "label": label, "L": L})
                del obj
            # the SAME path, first holding the complete file (loaded with shared_memory=True through every loader, the sketches kept alive),
            # then truncated in place: whatever a loader remembers about a path must not stand in for reading the file
            keep = []
            p2 = tmpfile()
            try:
                with open(p2, "wb") as f:
                    f.write(data)
                for ldr in [cl] + ([ml] if ml is not None else []):
                    try:
                        keep.append(ldr(p2, shared_memory=True))
                    except TypeError:
                        keep.append(ldr(p2, True))
                nL = len(data)
                for L in sorted({0, 1, 4, 30, nL // 3, nL // 2, nL - 23, nL - 22, nL - 1}):
                    if L < 0 or L >= nL:
                        continue
                    with open(p2, "wb") as f:
                        f.write(data[:L])
                    for ldr in [cl] + ([ml] if ml is not None else []):
                        for shm_flag in (True, False):
                            try:
                                obj = ldr(p2, shm_flag)
                                oc = "O"
                            except Exception:
                                obj, oc = None, "raise"
                            n += 1
                            if oc == "O":
                                res.oracle_failures.append({"pid": "C20", "what": f"C20 {label}: the file at a path that had been loaded before (shared_memory=True, sketch still alive) was "
                                                                                     f"truncated to {L} of {nL} bytes and load(path, shared_memory={shm_flag}) RETURNED a sketch",
                                                            "label": label, "L": L, "signature": "C20:stale-path-loaded"})
                            del obj
                res.count("prefixes_at_a_previously_loaded_path")
            finally:
                del keep
                gc.collect()
                if os.path.exists(p2):
                    os.unlink(p2)
            # the truncated copy under ANOTHER name next to the complete file (`x.part`, `x.tmp`, `x` beside `x.npz` — an interrupted
            # copy or download): the loader must open the file it is given, not a sibling
            d = tempfile.mkdtemp(prefix="skverif_sib_", dir=TMPDIR)
            try:
                with open(os.path.join(d, "sk.npz"), "wb") as f:
                    f.write(data)
                nL = len(data)
                for nm in ("sk.part", "sk.tmp", "sk", "sk.npz.part", "sk.bak"):
                    for L in sorted({0, 1, 4, 30, nL // 3, nL // 2, nL - 23, nL - 22, nL - 1}):
                        if L < 0 or L >= nL:
                            continue
                        pth = os.path.join(d, nm)
                        with open(pth, "wb") as f:
                            f.write(data[:L])
                        for ldr in [cl] + ([ml] if ml is not None else []):
                            oc, obj = _load_outcome(ldr, pth)
                            n += 1
                            if oc == "O":
                                res.oracle_failures.append({"pid": "C20", "what": f"C20 {label}: the {L}-byte prefix stored as `{nm}` next to the complete `sk.npz` LOADED "
                                                                                     f"(the loader did not open the file it was given)", "label": label, "L": L,
                                                            "signature": "C20:sibling-file-loaded"})
                            del obj
                        os.unlink(pth)
                res.count("prefixes_under_other_names")
            finally:
                for fn_ in os.listdir(d):
                    os.unlink(os.path.join(d, fn_))
                os.rmdir(d)
            res.nontrivial(["truncate", label, len(data)])
            res.count("prefixes", len(data) + 1)
            res.sample({"slice": "truncate", "file": label, "bytes": len(data), "outcomes": "".join(real[:8]) + "…" + "".join(real[-3:])})
            if len(data) <= 4000:
                ops.append([f"npz.prefixes {data.hex()}", "true " + "".join("B" if c == "X" else c for c in real), "exact"])
                res.count("files_compared_with_model")
    finally:
        if os.path.exists(path):
            os.unlink(path)
    res.evaluations += n
    res.exhaustive = True
    sess.add_case({"slice": "truncate"}, ops)
    mism, ncmp = sess.run()
    res.mismatches += mism
    res.slices["truncate"] = {"prefix_loads": n, "comparisons": ncmp, "mismatches": len(mism), "wall_s": round(time.time() - t0, 1)}


def _embed_cases(rng, tier):
    """Files written by save() whose ARRAY DATA spells a zip archive: the 32-bit counters of a linear count-min sketch and the
    32-bit counts of a heavy-hitter sketch are caller-chosen values (add(key, v) on a fresh cell), stored uncompressed.
    yields (label, class loader, file bytes, kind, start of the embedded archive, end) with kind = 'complete' (the embedded
    archive is itself a complete saved sketch of the class) or 'drop:<member>' / 'only-args' (a required member is missing)."""
    s = sk()
    import struct

    fams = [("linear", lambda w: s.CountMinLinear(w, 1), s.CountMinLinear.load, lambda: s.CountMinLinear(1, 1)),
            ("hh", lambda w: s.HeavyHitters(w, 1, 4), s.HeavyHitters.load, lambda: s.HeavyHitters(1, 1, 4))]
    for fam, mk, loader, mk_tiny in fams:
        tiny = mk_tiny()
        tiny.add(b"x", 7)
        p = tmpfile()
        tiny.save(p)
        with np().load(p) as z:
            members = {k: z[k] for k in z.files}
        os.unlink(p)
        names = list(members)
        variants = [("complete", names)] + [(f"drop:{m}", [x for x in names if x != m]) for m in names if m != "args"] + [("only-args", ["args"])]
        if tier == "quick":
            keep = {"complete", "only-args", f"drop:{names[-1]}", f"drop:{names[1]}"}
            variants = [v for v in variants if v[0] in keep]
        for kind, subset in variants:
            bio = io.BytesIO()
            np().savez(bio, **{k: members[k] for k in subset})
            Z = bio.getvalue()
            Z += b"\0" * (-len(Z) % 4)
            cells = [struct.unpack_from("<I", Z, 4 * i)[0] for i in range(len(Z) // 4)]
            lead = rng.randrange(1, 6)
            W = len(cells) + lead + rng.randrange(2, 9)
            keys = {}
            i = 0
            while len(keys) < W:
                k = b"%d" % i if fam == "hh" else b"k%d" % i
                k = k[:4] if fam == "hh" else k
                i += 1
                keys.setdefault(int(s.fasthash64(k, np().uint64(0))) % W, k)
            big = mk(W)
            for c, v in enumerate(cells):
                if v:
                    big.add(keys[lead + c], v)
            p = tmpfile()
            big.save(p)
            data = open(p, "rb").read()
            os.unlink(p)
            pos = data.find(Z)
            if pos < 0:
                raise RuntimeError(f"embedded archive not found verbatim in the {fam} file")
            yield f"{fam}-embedded-{kind}", loader, data, kind, pos, pos + len(Z), big


def truncate_crafted(res, rng, tier):
    """C20 on files whose array data contains the end-of-central-directory signature (the `uniqueSig` hypothesis of theorem
    C20_prefix fails).  `zipfile` accepts leading bytes and trailing junk, so a prefix that contains an embedded archive opens
    as THAT archive.  If the embedded archive is a complete sketch file the loader returns it — a genuine defect of the
    unchanged tree (known finding); if a required member is missing the loader must raise."""
    t0 = time.time()
    sess = Session()
    ops = []
    n = 0
    path = tmpfile()
    try:
        for label, loader, data, kind, pos, end, big in _embed_cases(rng, tier):
            real = []
            for L in range(len(data) + 1):
                if L < pos - 2 and L % 7:      # before the embedded archive the file is an ordinary one (covered by `truncate`): sample
                    real.append("?")
                    continue
                with open(path, "wb") as f:
                    f.write(data[:L])
                oc, obj = _load_outcome(loader, path)
                n += 1
                real.append("K" if oc == "X:KeyError" else oc[0])
                if L < len(data) and oc == "O":
                    if kind == "complete":
                        sig = "C20:embedded-complete-archive"
                        what = (f"C20 {label}: the {L}-byte prefix of a {len(data)}-byte file written by save() loads as a sketch: the counters spell a complete saved sketch "
                                f"(bytes {pos}..{end}) and zipfile finds ITS end record")
                    else:
                        sig = "C20:incomplete-archive-accepted"
                        what = (f"C20 {label}: the {L}-byte prefix of a {len(data)}-byte file RETURNED a sketch although the archive that opens lacks a member the loader needs ({kind})")
                    if not any(f.get("signature") == sig and f.get("label") == label for f in res.oracle_failures):
                        res.oracle_failures.append({"pid": "C20", "what": what, "signature": sig, "label": label, "L": L, "file_hex": data.hex() if len(data) < 6000 else None})
                    res.count("crafted_prefixes_loaded_" + kind.split(":")[0])
                if L == len(data) and oc != "O":
                    res.oracle_failures.append({"pid": "C20", "what": f"C20 {label}: the complete file does not load ({oc})", "label": label, "L": L})
                del obj
            res.nontrivial(["truncate-crafted", label, len(data)])
            res.count("crafted_files")
            res.sample({"slice": "truncate-crafted", "file": label, "bytes": len(data), "embedded": [pos, end], "outcomes_from_embedded_end": "".join(real[end - 2:end + 6])})
            if len(data) <= 4000:
                # container level: where the model says the zip opens, the real loader either returns (complete) or fails on a missing member (KeyError);
                # elsewhere the exception class must agree
                def pred(got, real=real, kind=kind):
                    parts = got.split(" ")
                    if len(parts) != 2 or parts[0] != "false" or len(parts[1]) != len(real):
                        return False
                    for m, r in zip(parts[1], real):
                        if r == "?":
                            continue
                        if m == "O":
                            if r not in ("O", "K", "X", "B", "V"):   # opened: what happens next is the member reader's business
                                return False
                        elif m != ("B" if r == "X" else r):
                            return False
                    return True
                ops.append([f"npz.prefixes {data.hex()}", pred, "crafted"])
                res.count("crafted_files_compared_with_model")
    finally:
        if os.path.exists(path):
            os.unlink(path)
    res.evaluations += n
    sess.add_case({"slice": "truncate-crafted"}, ops)
    mism, ncmp = sess.run()
    res.mismatches += mism
    res.slices["truncate_crafted"] = {"prefix_loads": n, "comparisons": ncmp, "mismatches": len(mism), "wall_s": round(time.time() - t0, 1)}


def truncate_all(res, rng, tier):
    truncate(res, rng, tier)
    truncate_crafted(res, rng, tier)


# =============================================================================== C16 shm


def _shm_names():
    try:
        return set(os.listdir("/dev/shm"))
    except OSError:
        return set()


def _state(o):
    out = {}
    for n in ("cms", "registers", "lhh", "lhh_count", "key_lens", "n_added_records"):
        if hasattr(o, n):
            out[n] = np().array(getattr(o, n)).tolist()
    return out


def shm_slice(res, rng, tier):
    s = sk()
    t0 = time.time()
    ops = []
    n = 0
    ncfg = 8 if tier == "quick" else 30
    for _ in range(ncfg):
        kind = rng.choice(["linear", "log16", "log8", "hh", "hll"])
        w, d = rng.choice([1, 3, 5, 7, 11]), rng.choice([1, 3, 5])
        mkl = rng.choice([1, 3, 5, 7])
        p = rng.choice([7, 8])
        if kind == "linear":
            mk = lambda shm: s.CountMinLinear(w, d, shared_memory=shm)
            args = ("cms", {"cms_type": "linear", "width": w, "depth": d})
            ops.append([f"shm.cms 4 {w} {d}", None, "layout"])
        elif kind == "log16":
            mc, nrv = rng.choice([(2**32 - 1, 1023), (10**6, 1023), (2**40, 0)])
            mk = lambda shm: s.CountMinLog16(w, d, mc, nrv, shared_memory=shm)
            args = None
            ops.append([f"shm.cms 2 {w} {d}", None, "layout"])
        elif kind == "log8":
            mc, nrv = rng.choice([(2**32 - 1, 15), (1000, 15), (10**6, 3)])
            mk = lambda shm: s.CountMinLog8(w, d, mc, nrv, shared_memory=shm)
            args = None
            ops.append([f"shm.cms 1 {w} {d}", None, "layout"])
        elif kind == "hh":
            mk = lambda shm: s.HeavyHitters(w, d, mkl, shared_memory=shm)
            args = ("hh", {"width": w, "depth": d, "max_key_len": mkl})
            ops.append([f"shm.hh {mkl} {w} {d}", None, "layout"])
        else:
            mk = lambda shm: s.HyperLogLog(p, 3, shared_memory=shm)
            args = ("hll", {"p": p, "seed": 3})
            ops.append([f"shm.hll {p}", None, "layout"])
        before = _shm_names()
        plain = mk(False)
        # where the shared-memory owner comes from: the constructor, or `load(file, shared_memory=True)` of a saved non-empty sketch
        # (a loader that rebinds an array instead of copying into the block leaves the views looking at zeros)
        origin = rng.choice(["ctor", "load", "load"])
        if origin == "load":
            for kk in key_alphabet(rng, 4):
                plain.add(kk, rng.randrange(1, 9))
            if kind != "hll":
                plain.n_added_records[1] += np().uint64(rng.randrange(1, 5))
            f = tmpfile()
            plain.save(f)
            owner = type(plain).load(f, shared_memory=True)
            os.unlink(f)
            res.count("shm_owner_from_load")
        else:
            owner = mk(True)
        name = owner.shm.name.lstrip("/")
        if args is None:
            args = ("cms", owner.args)  # the documented way: rebuild a view from the owner's `args`
        views = [s.attach_shared_memory(args[0], args[1], owner.shm.name) for _ in range(rng.choice([1, 2]))]
        for vv in views:
            if _state(vv) != _state(plain) or _state(owner) != _state(plain):
                res.oracle_failures.append({"pid": "C16", "what": f"C16 {kind} {w}x{d} (owner from {origin}): right after attaching, the state seen through "
                                            f"{'the view' if _state(vv) != _state(plain) else 'the owner'} differs from the in-memory sketch "
                                            f"(n_added/n_records: view {[int(x) for x in getattr(vv, 'n_added_records', [])]}, plain {[int(x) for x in getattr(plain, 'n_added_records', [])]})",
                                            "kind": kind, "origin": origin})
            if _public(vv) != _public(owner):
                res.oracle_failures.append({"pid": "C16", "what": f"C16 {kind}: a view attached through attach_shared_memory(owner.args) has other parameters than the owner: "
                                            f"{ {k: (_public(owner).get(k), _public(vv).get(k)) for k in _public(owner) if _public(owner).get(k) != _public(vv).get(k)} }", "kind": kind})
        # real layout: offsets of every array inside the block, through the owner and through a view
        def layout(o, blk):
            base = np().frombuffer(blk.buf, np().uint8).__array_interface__["data"][0]
            segs = []
            for nm in ("cms", "registers", "lhh", "lhh_count", "key_lens", "n_added_records"):
                if hasattr(o, nm):
                    a = getattr(o, nm)
                    st = a.__array_interface__["data"][0] - base
                    segs.append(f"{st}:{st + a.nbytes}")
            return " ".join(segs)
        lo = layout(owner, owner.shm)
        lv = layout(views[0], views[0].existing_shm)
        ops[-1][1] = f"{lo} | {owner.shm.size} | {lv}"
        if kind in ("log16", "log8"):
            draws = np().array([0.0 if rng.random() < 0.5 else 1.0 - 2.0**-53 for _ in range(2048)])
            for o in [plain, owner] + views:
                o.rand_nums[:] = draws
                o.rand_ptr = 0
        keys = key_alphabet(rng, 5)
        ptr = 0
        for step in range(rng.randrange(4, 14)):
            k = rng.choice(keys)
            v = rng.randrange(1, 6)
            actor = rng.choice([owner] + views)
            if kind in ("log16", "log8"):
                actor.rand_ptr = ptr
                plain.rand_ptr = ptr
            # every entry point through every handle (a handle may have bound the arrays it was BUILT with, before it was attached)
            entry = rng.choice(["add", "add", "update_list", "update_dict", "add_ngram", "update_ngram"])
            ng = rng.choice([1, 2, 3])
            for o_ in (plain, actor):
                if entry == "add":
                    o_.add(k, v)
                elif entry == "update_list":
                    o_.update([k, keys[(keys.index(k) + 1) % len(keys)]])
                elif entry == "update_dict":
                    o_.update({k: v})
                elif entry == "add_ngram":
                    o_.add_ngram(k, ng)
                else:
                    o_.update_ngram([k, keys[(keys.index(k) + 2) % len(keys)]], ng)
            o_ = None
            res.count("shm_entry_" + entry)
            if kind in ("log16", "log8"):
                ptr = int(actor.rand_ptr)
                if int(plain.rand_ptr) != ptr:
                    res.oracle_failures.append({"pid": "C16", "what": f"C16 {kind} {w}x{d}: draw consumption differs between in-memory and shared sketch"})
            st = _state(plain)
            if kind != "hll":
                qs = [plain[kk[:mkl] if kind == "hh" else kk] for kk in keys]
            for idx, o in enumerate([owner] + views):
                if kind == "hll" and fbits(o.query()) != fbits(plain.query()):
                    # every handle is queried at every step: a handle that remembers an estimate must notice writes made through ANOTHER handle
                    res.oracle_failures.append({"pid": "C16", "what": f"C16 hll p={p}: after step {step} query() through {'the owner' if idx == 0 else 'view %d' % idx} = {float(o.query())!r}, "
                                                                         f"the in-memory sketch under the same operations gives {float(plain.query())!r}", "kind": kind})
                    break
                if kind != "hll" and [o[kk[:mkl] if kind == "hh" else kk] for kk in keys] != qs:
                    res.oracle_failures.append({"pid": "C16", "what": f"C16 {kind} shape {w}x{d}: queries through {'the owner' if idx == 0 else 'view %d' % idx} differ from the in-memory sketch", "kind": kind})
                    break
                if _state(o) != st:
                    res.oracle_failures.append({"pid": "C16", "what": f"C16 {kind} shape {w}x{d} (mkl {mkl}, p {p}): after step {step} the state seen through "
                                                f"{'the owner' if idx == 0 else 'view %d' % idx} differs from the in-memory sketch", "kind": kind, "w": w, "d": d})
                    break
            n += 1
        # a handle that OWNS a block of its own (built with shared_memory=True, as load(..., shared_memory=True) or args carrying the flag give) and is then
        # attached to this owner's block: dropping it may release its own block, never the owner's — later attaches by name must still work
        if rng.random() < 0.6:
            snap = _state(owner)
            import contextlib, io
            try:
                v2 = mk(True)
                v2.attach_existing_shm(owner.shm.name)
                seen = _state(v2)
                with contextlib.redirect_stderr(io.StringIO()):
                    del v2
                    gc.collect()
                what = None
                if seen != snap:
                    what = "a shared-memory sketch attached to the owner's block does not see the owner's state"
                elif name not in _shm_names():
                    what = "dropping a handle that had a block of its own and was attached to the owner's block removed the OWNER's segment"
                elif _state(owner) != snap:
                    what = "dropping such a handle changed the owner's contents"
                else:
                    try:
                        v3 = s.attach_shared_memory(args[0], args[1], owner.shm.name)
                        if _state(v3) != snap:
                            what = "a view attached after such a handle was dropped sees another state than the owner"
                        del v3
                        gc.collect()
                    except Exception as e:
                        what = f"cannot attach to the owner's block after such a handle was dropped: {type(e).__name__}: {e}"
                if what:
                    res.oracle_failures.append({"pid": "C16", "what": f"C16 {kind} {w}x{d}: {what}", "kind": kind})
                res.count("shm_owning_handle_dropped")
            except Exception as e:
                res.oracle_failures.append({"pid": "C16", "what": f"C16 {kind} {w}x{d}: attaching a shared-memory sketch to another owner's block raised {type(e).__name__}: {e}", "kind": kind})
        # drop a view: owner intact, segment still there
        snap = _state(owner)
        v0 = views.pop()
        del v0
        gc.collect()
        if name not in _shm_names() or _state(owner) != snap:
            res.oracle_failures.append({"pid": "C16", "what": f"C16 {kind}: dropping an attached view damaged the owner's block", "kind": kind})
        while views:
            vv = views.pop()
            del vv
        del actor
        gc.collect()
        del owner
        gc.collect()
        if name in _shm_names():
            res.oracle_failures.append({"pid": "C16", "what": f"C16 {kind}: dropping the owner left segment {name} in /dev/shm", "kind": kind})
        leaked = _shm_names() - before - {name}
        leaked = {x for x in leaked if not x.startswith("skverif_")}
        res.evaluations += 1
        res.nontrivial(["shm", kind, w, d, mkl, p])
        res.sample({"slice": "shm", "kind": kind, "width": w, "depth": d, "max_key_len": mkl, "layout": lo})
        res.count("shm_" + kind)
    sess = Session()
    sess.add_case({"slice": "shm"}, ops)
    mism, ncmp = sess.run()
    res.mismatches += mism
    res.slices["shm"] = {"configs": ncfg, "steps": n, "comparisons": ncmp, "mismatches": len(mism), "wall_s": round(time.time() - t0, 1)}


# =============================================================================== C10 persist

ONE_MINUS = 1.0 - 2.0 ** -53


def _rand_sketch(rng):
    """(cls name, constructor kwargs, object) with random non-default parameters"""
    s = sk()
    kind = rng.choice(["linear", "log16", "log8", "hh", "hll"])
    w, d = rng.choice([1, 1, 2, 3, 7, 16]), rng.choice([1, 1, 2, 4])
    if kind == "linear":
        return kind, dict(width=w, depth=d), s.CountMinLinear(w, d)
    if kind in ("log16", "log8"):
        cls = s.CountMinLog16 if kind == "log16" else s.CountMinLog8
        for _ in range(20):
            mc = rng.choice([2**32 - 1, 10**6, 10**9, 2**40, 2**63, 5000 if kind == "log8" else 10**7])
            nr = rng.choice([0, 1, 15, 100, 200] if kind == "log8" else [0, 1, 1023, 30000])
            try:
                return kind, dict(width=w, depth=d, max_count=mc, num_reserved=nr), cls(w, d, mc, nr)
            except ValueError:
                continue
        return kind, dict(width=w, depth=d), cls(w, d)
    if kind == "hh":
        mkl = rng.choice([1, 3, 8, 16])
        phi = rng.choice([None, None, 0.5, 1.0, 0.001])
        try:
            return kind, dict(width=w, depth=d, max_key_len=mkl, phi=phi), s.HeavyHitters(w, d, mkl, phi)
        except ValueError:  # an explicit phi the constructor refuses: fall back to the default
            return kind, dict(width=w, depth=d, max_key_len=mkl, phi=None), s.HeavyHitters(w, d, mkl, None)
    p = rng.choice([7, 8, 12, 16])
    seed = rng.choice([0, 1, 2**32, 2**63, 2**64 - 1, rng.randrange(2**64)])
    return kind, dict(p=p, seed=seed), s.HyperLogLog(p, seed)


PUBLIC = ("width", "depth", "max_count", "num_reserved", "base", "p", "seed", "phi", "max_key_len", "uint_maxval", "m", "alpha", "threshold")


def _public(o):
    out = {}
    for a in PUBLIC:
        if hasattr(o, a):
            v = getattr(o, a)
            out[a] = (type(v).__name__, repr(v))
    out["class"] = type(o).__name__
    return out


def _place(o, draws):
    if hasattr(o, "rand_nums"):
        o.rand_nums[:] = draws
        o.rand_ptr = 0


def persist(res, rng, tier):
    s = sk()
    t0 = time.time()
    ops = []
    n = 0
    ncases = 40 if tier == "quick" else 400
    loaders = {"linear": s.CountMinLinear.load, "log16": s.CountMinLog16.load, "log8": s.CountMinLog8.load, "hh": s.HeavyHitters.load, "hll": s.HyperLogLog.load}
    # the cases share THREE file paths (a checkpoint path is re-used, also by sketches of another class or counter type):
    # whatever a loader remembers about a path must not outlive the file's contents
    shared_paths = [tmpfile() for _ in range(3)]
    for _ in range(ncases):
        kind, kw, o = _rand_sketch(rng)
        draws = np().array([0.0 if rng.random() < 0.5 else ONE_MINUS for _ in range(2048)])
        _place(o, draws)
        keys = key_alphabet(rng, 6, max_key_len=kw.get("max_key_len"))
        for _ in range(rng.randrange(0, 12)):
            o.add(rng.choice(keys), rng.choice([1, 1, 2, 5, 2**32 - 1 if kind in ("linear", "hh") else 3]))
        if kind != "hll":
            o.n_added_records[1] += np().uint64(rng.randrange(0, 50))
        path = rng.choice(shared_paths)
        res.count("persist_saves_over_an_existing_file")
        try:
            o.save(path)
            shm = rng.random() < 0.4
            what = f"{kind}{kw} shared_memory={shm}"
            try:
                l = loaders[kind](path, shared_memory=shm)
            except Exception as e:
                res.oracle_failures.append({"pid": "C10", "what": f"C10 load of a saved {what} raised {type(e).__name__}: {e}", "kind": kind, "kw": str(kw)})
                continue
            if _public(l) != _public(o):
                diff = {k: (_public(o).get(k), _public(l).get(k)) for k in set(_public(o)) | set(_public(l)) if _public(o).get(k) != _public(l).get(k)}
                res.oracle_failures.append({"pid": "C10", "what": f"C10 loaded {what}: public attributes differ {diff}", "kind": kind, "kw": str(kw)})
            if _state(l) != _state(o):
                res.oracle_failures.append({"pid": "C10", "what": f"C10 loaded {what}: tables / n_added / n_records differ from the saved sketch", "kind": kind, "kw": str(kw)})
            if kind != "hll":
                if int(l.n_added()) != int(o.n_added()) or int(l.n_records()) != int(o.n_records()):
                    res.oracle_failures.append({"pid": "C10", "what": f"C10 loaded {what}: n_added/n_records differ", "kind": kind})
                for k in keys:
                    kk = k[: kw.get("max_key_len", 10**9)]
                    if l[kk] != o[kk]:
                        res.oracle_failures.append({"pid": "C10", "what": f"C10 loaded {what}: query({kk!r}) {l[kk]} != {o[kk]}", "kind": kind})
                        break
            else:
                if struct.pack("<d", l.query()) != struct.pack("<d", o.query()):
                    res.oracle_failures.append({"pid": "C10", "what": f"C10 loaded {what}: query() differs", "kind": kind})
            if kind == "hh" and l.query(5) != o.query(5):
                res.oracle_failures.append({"pid": "C10", "what": f"C10 loaded {what}: query(5) differs: {l.query(5)} vs {o.query(5)}", "kind": kind})
            # module-level dispatch and cross-loaders (count-min)
            if kind in ("linear", "log16", "log8"):
                try:
                    m = s.load(path)
                except Exception as e:
                    m = None
                    res.oracle_failures.append({"pid": "C10", "what": f"C10 module-level load() of a file just written by {what} raised {type(e).__name__}: {e} "
                                                                         "(the path had held sketches of other classes before)", "kind": kind})
                if m is not None and (type(m) is not type(o) or _state(m) != _state(o)):
                    res.oracle_failures.append({"pid": "C10", "what": f"C10 module-level load() of a saved {what} gave {type(m).__name__}", "kind": kind})
                for other in ("linear", "log16", "log8"):
                    if other != kind:
                        try:
                            loaders[other](path)
                            res.oracle_failures.append({"pid": "C10", "what": f"C10 {other} loader accepted a {kind} file", "kind": kind})
                        except TypeError:
                            pass
                        except Exception as e:
                            res.oracle_failures.append({"pid": "C10", "what": f"C10 {other} loader on a {kind} file raised {type(e).__name__} instead of TypeError", "kind": kind})
            # continued use: same ops, same draws -> same state; then merge with the original works
            _place(o, draws)
            _place(l, draws)
            for _ in range(rng.randrange(1, 8)):
                k, v = rng.choice(keys), rng.randrange(1, 9)
                o.add(k, v)
                l.add(k, v)
            if _state(l) != _state(o):
                res.oracle_failures.append({"pid": "C10", "what": f"C10 loaded {what} diverged from the original under the same further adds (same draws)", "kind": kind})
            try:
                l.merge(o)
            except Exception as e:
                res.oracle_failures.append({"pid": "C10", "what": f"C10 loaded {what} cannot be merged with the original: {type(e).__name__}: {e}", "kind": kind})
            # save -> load -> save chain: second file loads to the same state
            p2 = tmpfile()
            try:
                l.save(p2)
                l2 = loaders[kind](p2)
                if _state(l2) != _state(l) or _public(l2) != _public(l):
                    res.oracle_failures.append({"pid": "C10", "what": f"C10 second save/load generation of {what} differs", "kind": kind})
                del l2
            finally:
                os.unlink(p2)
            # model tie: constructor acceptance and loader verdicts
            a = [kind, kw.get("width", 0), kw.get("depth", 0), kw.get("max_count", 0 if kind not in ("log16", "log8") else 4294967295),
                 kw.get("num_reserved", 0 if kind not in ("log16", "log8") else (1023 if kind == "log16" else 15)), kw.get("p", 0), kw.get("seed", 0), kw.get("max_key_len", 0)]
            phi = kw.get("phi")
            if phi is None:
                a += ["-", "-"]
            else:
                from fractions import Fraction
                fr = Fraction(phi)
                a += [fr.numerator, fr.denominator]
            line = " ".join(str(x) for x in a)
            ops.append([f"persist.load 1 {kind} {line}", (lambda got: got.startswith("same ok")), "exact"])
            if kind in ("linear", "log16", "log8"):
                ops.append([f"persist.load 1 any {line}", (lambda got: got.startswith("same ok")), "exact"])
                other = rng.choice([x for x in ("linear", "log16", "log8") if x != kind])
                ops.append([f"persist.load 1 {other} {line}", "TypeError", "exact"])
            del l
        finally:
            os.unlink(path)
        n += 1
        res.evaluations += 1
        res.nontrivial(["persist", kind, str(kw), n])
        res.count("persist_" + kind)
        res.sample({"slice": "persist", "class": kind, "args": {k: str(v) for k, v in kw.items()}, "shared_memory_load": shm})
        del o
    for sp in shared_paths:
        if os.path.exists(sp):
            os.unlink(sp)
    # heavy hitters at a default-threshold rounding boundary: width w and n_added = m·w with (1.0 / w)·n just below m, a key with count m − 1:
    # "every query equals the original's" must also hold where the original (phi defaulted) and the loaded copy (phi explicit) could round differently
    ws = [w for w in range(2, 200) if any((1.0 / w) * (m * w) < m for m in range(2, 12))]
    for w in rng.sample(ws, 2 if tier == "quick" else len(ws)):
        m = rng.choice([m for m in range(2, 12) if (1.0 / w) * (m * w) < m])
        o = s.HeavyHitters(w, rng.choice([1, 2]), 4)
        nn = m * w
        o.add(b"hv", nn - (m - 1) - m)
        o.add(b"r1", m - 1)
        o.add(b"r2", m)
        path = tmpfile()
        try:
            o.save(path)
            for shm in (False, True):
                l = s.HeavyHitters.load(path, shared_memory=shm)
                for kq in (1000, 2, None):
                    a1, a2 = o.query(kq), l.query(kq)
                    if [(k, int(c)) for k, c in a1] != [(k, int(c)) for k, c in a2]:
                        res.oracle_failures.append({"pid": "C10", "what": f"C10 HeavyHitters(width={w}) with n_added = {nn} = {m}·width (phi·n_added rounds just below {m}): query({kq}) of the "
                                                                             f"original {a1} != of the loaded copy {a2} (shared_memory={shm})", "kind": "hh", "w": w, "m": m})
                        break
                del l
        finally:
            os.unlink(path)
        n += 1
        res.evaluations += 1
        res.nontrivial(["persist-threshold-boundary", w, m])
        res.count("persist_threshold_boundary")
        del o
    # constructor validation grid: real acceptance vs the model's ctorValid
    grid = []
    for w, d in ((0, 1), (1, 0), (1, 1), (-1, 2)):
        grid.append(("linear", dict(width=w, depth=d)))
        grid.append(("hh", dict(width=w, depth=d, max_key_len=4, phi=None)))
    for mkl in (0, 1, 255, 256):
        grid.append(("hh", dict(width=2, depth=1, max_key_len=mkl, phi=None)))
    for phi in (0.0, 1.0, 1.5, 0.25, -0.5):
        grid.append(("hh", dict(width=2, depth=1, max_key_len=4, phi=phi)))
    for p in (6, 7, 16, 17):
        grid.append(("hll", dict(p=p, seed=0)))
    for nr in (254, 255, 256):
        grid.append(("log8", dict(width=1, depth=1, max_count=2**32 - 1, num_reserved=nr)))
    for nr in (65534, 65535):
        grid.append(("log16", dict(width=1, depth=1, max_count=2**63, num_reserved=nr)))
    ctors = {"linear": s.CountMinLinear, "log16": s.CountMinLog16, "log8": s.CountMinLog8, "hh": s.HeavyHitters, "hll": s.HyperLogLog}
    for kind, kw in grid:
        try:
            ctors[kind](**kw)
            real = "ok"
        except ValueError:
            real = "ValueError"
        except Exception as e:
            real = type(e).__name__
        if min(kw.get("width", 1), kw.get("depth", 1)) < 0:
            continue  # negative sizes are not Nat in the model; real code must simply refuse them
        a = [kind, kw.get("width", 0), kw.get("depth", 0), kw.get("max_count", 0), kw.get("num_reserved", 0), kw.get("p", 0), kw.get("seed", 0), kw.get("max_key_len", 0)]
        phi = kw.get("phi")
        if phi is None:
            a += ["-", "-"]
        else:
            from fractions import Fraction
            if phi < 0:
                continue
            fr = Fraction(phi)
            a += [fr.numerator, fr.denominator]
        base_ok = 1
        if kind in ("log8", "log16") and real == "ValueError" and kw["num_reserved"] < (255 if kind == "log8" else 65535):
            base_ok = 0  # refused by _find_base
        ops.append([f"persist.ctor {base_ok} " + " ".join(str(x) for x in a), (lambda got, r=real: got.startswith("ok") == (r == "ok") and (r == "ok" or got == r)), "ctor"])
        res.count("ctor_grid")
    sess = Session()
    sess.add_case({"slice": "persist"}, ops)
    mism, ncmp = sess.run()
    res.mismatches += mism
    res.slices["persist"] = {"cases": n, "comparisons": ncmp, "mismatches": len(mism), "wall_s": round(time.time() - t0, 1)}


def persist_fresh_process(res, rng, tier):
    """save here, load in a NEW interpreter: the usual life of a sketch file.  Whatever the loaded sketch is made of must come from the file, not from what
    this process happens to have computed or cached before (bases, tables, registries).  The files are loaded there in the REVERSE order of creation and
    the set includes log16/log8 pairs with equal (max_count, num_reserved) created in both orders."""
    import subprocess
    import shutil
    s = sk()
    t0 = time.time()
    d = tempfile.mkdtemp(prefix="skverif_fresh_", dir=TMPDIR)
    items, origs = [], {}
    try:
        made = []
        for mc, nr in [(10**6, 15), (2**32 - 1, 50)] + ([(10**9, 3), (2**40, 100)] if tier != "quick" else []):
            first = rng.choice(["log8", "log16"])
            for kind in (first, "log16" if first == "log8" else "log8"):
                cls = s.CountMinLog16 if kind == "log16" else s.CountMinLog8
                w, dd = rng.choice([2, 3, 7]), rng.choice([1, 2, 4])
                try:
                    made.append((kind, dict(width=w, depth=dd, max_count=mc, num_reserved=nr), cls(w, dd, mc, nr)))
                except ValueError:
                    pass
            res.count("fresh_process_log_pairs")
        for _ in range(6 if tier == "quick" else 40):
            made.append(_rand_sketch(rng))
        for idx, (kind, kw, o) in enumerate(made):
            keys = key_alphabet(rng, 6)
            draws = np().array([0.0 if rng.random() < 0.5 else ONE_MINUS for _ in range(2048)])
            _place(o, draws)
            for _ in range(rng.randrange(2, 30)):
                o.add(rng.choice(keys), rng.choice([1, 1, 2, 7, 40, 300]))
            if kind in ("log16", "log8"):
                # a counter far above num_reserved, so that the answers depend on the base
                o.cms[:, :] = np().minimum(o.cms + np().array(int(kw.get("num_reserved", 15)) + 40, dtype=o.cms.dtype), o.cms.dtype.type(int(o.uint_maxval)))
            path = os.path.join(d, f"f{idx}.npz")
            o.save(path)
            qk = [k[: kw.get("max_key_len", 10**9)] for k in keys]
            shm = rng.random() < 0.3
            loader = "any" if kind in ("linear", "log16", "log8") and rng.random() < 0.4 else kind
            items.append({"id": idx, "path": path, "kind": kind, "loader": loader, "shm": shm, "keys": [k.hex() for k in qk]})
            rec = {"class": type(o).__name__, "public": {k: list(v) if isinstance(v, tuple) else v for k, v in _public(o).items() if k != "class"}, "state": _state(o), "kw": {k: str(v) for k, v in kw.items()}}
            if kind == "hll":
                rec["answers"] = ["%016x" % fbits(o.query())]
            else:
                rec["answers"] = ["%016x" % fbits(o[k]) for k in qk]
                rec["n"] = [int(o.n_added()), int(o.n_records())]
            if kind == "hh":
                rec["top"] = [[k.hex(), int(c)] for k, c in o.query(5)]
            origs[idx] = rec
            res.count("fresh_process_" + kind)
        man = os.path.join(d, "manifest.json")
        outp = os.path.join(d, "out.json")
        from real import REPO
        json.dump({"repo": REPO, "files": list(reversed(items))}, open(man, "w"))
        env = dict(os.environ)
        env["PYTHONPATH"] = REPO
        pr = subprocess.run([sys.executable, os.path.join(os.path.dirname(os.path.abspath(__file__)), "fresh_load.py"), man, outp], env=env, capture_output=True, text=True, timeout=600)
        if pr.returncode != 0 or not os.path.exists(outp):
            res.oracle_failures.append({"pid": "C10", "what": f"C10 a fresh interpreter could not load the saved files at all: exit {pr.returncode}: {pr.stderr[-400:]}", "kind": "fresh-process"})
            got = []
        else:
            got = json.load(open(outp))
        for rec in got:
            o = origs[rec["id"]]
            it = items[rec["id"]]
            what = f"{it['kind']}{o['kw']} saved here and loaded in a fresh interpreter (loader {it['loader']}, shared_memory={it['shm']})"
            if "error" in rec:
                res.oracle_failures.append({"pid": "C10", "what": f"C10 {what}: load raised {rec['error']}", "kind": it["kind"]})
                continue
            if rec["class"] != o["class"]:
                res.oracle_failures.append({"pid": "C10", "what": f"C10 {what}: class {rec['class']} instead of {o['class']}", "kind": it["kind"]})
            pub = {k: list(v) for k, v in rec["public"].items()}
            if pub != o["public"]:
                diff = {k: (o["public"].get(k), pub.get(k)) for k in set(pub) | set(o["public"]) if pub.get(k) != o["public"].get(k)}
                res.oracle_failures.append({"pid": "C10", "what": f"C10 {what}: public attributes differ (original, loaded): {diff}", "kind": it["kind"]})
            if rec["state"] != o["state"] or rec.get("n") != o.get("n"):
                res.oracle_failures.append({"pid": "C10", "what": f"C10 {what}: tables / n_added / n_records differ", "kind": it["kind"]})
            if rec["answers"] != o["answers"] or rec.get("top") != o.get("top"):
                i = next((j for j, (a, b) in enumerate(zip(rec["answers"], o["answers"])) if a != b), 0)
                fl = lambda h: struct.unpack("<d", struct.pack("<Q", int(h, 16)))[0]
                res.oracle_failures.append({"pid": "C10", "what": f"C10 {what}: query #{i} answers {fl(rec['answers'][i])!r}, the original answered {fl(o['answers'][i])!r}", "kind": it["kind"]})
            res.evaluations += 1
            res.nontrivial(["fresh-process", it["kind"], o["kw"], rec["id"]])
        res.slices["persist_fresh_process"] = {"files": len(items), "loaded": len(got), "wall_s": round(time.time() - t0, 1)}
    finally:
        del made
        gc.collect()
        shutil.rmtree(d, ignore_errors=True)


def persist_all(res, rng, tier):
    persist(res, rng, tier)
    persist_fresh_process(res, rng, tier)


# =============================================================================== C12 entry points (real vs real)


def _windows(key, n):
    if len(key) <= n:
        return [key]
    return [key[i:i + n] for i in range(len(key) - (n - 1))]


def entry_real(res, rng, tier):
    """each entry point on one real sketch vs the loop of single adds on another real sketch"""
    s = sk()
    t0 = time.time()
    n = 0
    ncases = 60 if tier == "quick" else 600
    for _ in range(ncases):
        kind = rng.choice(["linear", "log16", "log8", "hh", "hll"])
        w, d = rng.choice([1, 2, 3, 5]), rng.choice([1, 2, 3])
        if kind == "linear":
            mk = lambda: s.CountMinLinear(w, d)
        elif kind == "log16":
            mk = lambda: s.CountMinLog16(w, d, 10**6, rng_nr16)
        elif kind == "log8":
            mk = lambda: s.CountMinLog8(w, d, 10**6, rng_nr8)
        elif kind == "hh":
            mk = lambda: s.HeavyHitters(w, d, mkl)
        else:
            mk = lambda: s.HyperLogLog(pp, sd)
        rng_nr16, rng_nr8 = rng.choice([0, 3, 1023]), rng.choice([0, 3, 15])
        mkl, pp, sd = rng.choice([2, 4, 8]), rng.choice([7, 9]), rng.choice([0, 2**63])
        a, b = mk(), mk()
        draws = np().array([0.0 if rng.random() < 0.5 else ONE_MINUS for _ in range(2048)])
        _place(a, draws)
        _place(b, draws)
        keys = key_alphabet(rng, 6)
        entry = rng.choice(["update_list", "update_dict", "add_mult", "add_ngram", "update_ngram", "getitem"])
        budget = 1500  # keep log draws inside the first batch
        # "identical resulting state" includes whatever decides the future: in half of the cases a key is added (or queried) first on both sketches and
        # added once more on both after the entry point — two sketches in the same state must still be in the same state afterwards
        prelude = rng.choice(keys) if rng.random() < 0.5 and entry != "getitem" else None
        pre_mode = rng.choice(["add", "query"])
        if prelude is not None:
            for o in (a, b):
                if pre_mode == "add" or kind == "hll":
                    o.add(prelude)
                else:
                    try:
                        o.query(prelude[:mkl]) if kind != "hh" else o[prelude[:mkl]]
                    except Exception:
                        pass
            res.count("entry_with_continuation")
        if entry == "update_list":
            l = [rng.choice(keys) for _ in range(rng.randrange(0, 12))]
            a.update(l)
            for k in l:
                b.add(k)
            desc = {"list": [k.hex() for k in l]}
        elif entry == "update_dict":
            dct = {k: rng.choice([1, 2, 3, 7, 50, 300]) for k in rng.sample(keys, rng.randrange(0, 5))}
            a.update(dct)
            for k, v in dct.items():
                b.add(k, v)
            desc = {"dict": {k.hex(): v for k, v in dct.items()}}
        elif entry == "add_mult":
            k, v = rng.choice(keys), rng.choice([1, 2, 5, 17, 100, 1000, 10**4 if kind in ("linear", "hh", "hll") else 700])
            if kind in ("linear", "hh") and rng.random() < 0.4:
                # start close below the 32-bit ceiling: the multiplicity add must saturate exactly like the single adds do
                room = rng.choice([0, 1, 2, v - 1, v, v + 1, v // 2])
                a.add(k, CAP - max(room, 0))
                b.add(k, CAP - max(room, 0))
                res.count("entry_mult_near_ceiling")
            a.add(k, v)
            for _ in range(v):
                b.add(k)
            # a few other keys first would make it order dependent; do a second round on shared cells
            k2, v2 = rng.choice(keys), rng.choice([1, 3, 40])
            a.add(k2, v2)
            for _ in range(v2):
                b.add(k2, 1)
            desc = {"key": k.hex(), "v": v, "key2": k2.hex(), "v2": v2}
        elif entry == "add_ngram":
            k = rng.choice(keys + [bytes(rng.randrange(256) for _ in range(rng.randrange(0, 41)))])
            ng = rng.choice([1, 2, 3, max(len(k) - 1, 1), max(len(k), 1), len(k) + 1, len(k) + 2, 256, 2**32 + 1])
            a.add_ngram(k, ng)
            for wdw in _windows(k, ng):
                b.add(wdw)
            desc = {"key": k.hex(), "n": ng}
        elif entry == "update_ngram":
            l = [rng.choice(keys) for _ in range(rng.randrange(0, 5))]
            ng = rng.choice([1, 2, 3, 5])
            a.update_ngram(l, ng)
            for k in l:
                b.add_ngram(k, ng)
            desc = {"list": [k.hex() for k in l], "n": ng}
        else:
            for k in keys[:3]:
                a.add(k, 3)
                b.add(k, 3)
            if kind != "hll":
                for k in keys:
                    kk = k[:mkl] if kind == "hh" else k
                    if a[kk] != (a.query(kk) if kind != "hh" else a[kk]):
                        res.oracle_failures.append({"pid": "C12", "what": f"C12 {kind}: sketch[key] != query(key) for {kk!r}"})
            desc = {}
        if _state(a) != _state(b) or (hasattr(a, "rand_ptr") and int(a.rand_ptr) != int(b.rand_ptr)):
            res.oracle_failures.append({"pid": "C12", "what": f"C12 {kind} (width {w}, depth {d}): {entry} {desc} differs from the loop of single adds", "kind": kind, "entry": entry, "desc": desc})
        elif prelude is not None:
            a.add(prelude)
            b.add(prelude)
            if _state(a) != _state(b) or (hasattr(a, "rand_ptr") and int(a.rand_ptr) != int(b.rand_ptr)):
                res.oracle_failures.append({"pid": "C12", "what": f"C12 {kind} (width {w}, depth {d}): after {pre_mode}({prelude.hex()}) and {entry} {desc} the sketch and the one filled by single adds hold the same "
                                                                 f"counters, yet one more add({prelude.hex()}) on each sends them apart — the entry point left a different state behind",
                                            "kind": kind, "entry": entry, "desc": desc, "prelude": prelude.hex()})
            desc = dict(desc, prelude=prelude.hex(), pre_mode=pre_mode)
        n += 1
        res.evaluations += 1
        res.nontrivial(["entry", kind, entry, desc, w, d])
        res.count(f"entry_{entry}")
        res.count(f"entry_cls_{kind}")
        res.sample({"slice": "entry", "class": kind, "entry": entry, "width": w, "depth": d, **desc})
    res.slices["entry_real"] = {"cases": n, "wall_s": round(time.time() - t0, 1)}


# =============================================================================== C17 / C07 hll-query


def _py_estimator(p, regs, raw, bias, thr):
    """independent Python rendering of the documented HyperLogLog++ estimator"""
    m = 1 << p
    V = sum(1 for r in regs if r == 0)
    alpha = 0.7213 / (1.0 + 1.079 / m)
    def E():
        tot = 0.0
        for r in regs:
            tot += 2.0 ** (-float(r))
        return alpha * float(m * m) / tot
    def interp(x):
        return float(np().interp(x, raw, bias))
    if V > 0:
        lc = m * math.log(m / V)
        if lc > thr:
            e = E()
            return e - interp(e), "corrected(V>0)"
        return lc, "linear_counting"
    e = E()
    if e <= 5 * m:
        return e - interp(e), "corrected(V=0)"
    return e, "raw"


def hll_query(res, rng, tier):
    s = sk()
    t0 = time.time()
    from sketchnu.hll_constants import bias_data, raw_estimate, sub_algorithm_threshold
    ops = []
    n = 0
    ps = [7, 8, 10, 12, 14, 16] if tier == "quick" else list(range(7, 17))
    for p in ps:
        m = 1 << p
        h = s.HyperLogLog(p, 0)
        raw, bias, thr = raw_estimate[p - 7], bias_data[p - 7], float(sub_algorithm_threshold[p - 7])
        arrays = []
        arrays.append(("empty", np().zeros(m, np().uint8)))
        arrays.append(("all-max", np().full(m, 64 - p + 1, np().uint8)))
        one0 = np().full(m, 3, np().uint8)
        one0[rng.randrange(m)] = 0
        arrays.append(("single-zero", one0))
        for load in ([0.01, 0.3, 1.0, 3.0, 6.0, 30.0] if tier == "quick" else [0.01, 0.05, 0.3, 0.7, 1.0, 2.0, 2.6, 3.0, 4.0, 5.0, 6.0, 10.0, 30.0, 100.0]):
            nkeys = max(1, int(load * m))
            hashes = np().random.RandomState(rng.randrange(2**31)).randint(0, 2**63, size=nkeys, dtype=np().int64).astype(np().uint64) * np().uint64(2) + np().random.RandomState(rng.randrange(2**31)).randint(0, 2, size=nkeys).astype(np().uint64)
            idx = (hashes & np().uint64(m - 1)).astype(np().int64)
            bits = hashes >> np().uint64(p)
            # rank = 64-p - bit_length(bits) + 1
            bl = np().zeros(nkeys, np().int64)
            tmp = bits.copy()
            for sh in (32, 16, 8, 4, 2, 1):
                big = tmp >= (np().uint64(1) << np().uint64(sh))
                bl[big] += sh
                tmp[big] >>= np().uint64(sh)
            bl += (tmp > 0).astype(np().int64)
            rank = (64 - p) - bl + 1
            regs = np().zeros(m, np().uint8)
            np().maximum.at(regs, idx, rank.astype(np().uint8))
            arrays.append((f"load-{load}", regs))
        # arrays placing LC just below / above the threshold: choose V so that m*ln(m/V) crosses thr
        vstar = m / math.exp(thr / m)
        for dv in (-2, -1, 0, 1, 2):
            V = int(vstar) + dv
            if 0 < V < m:
                regs = np().full(m, 2, np().uint8)
                regs[:V] = 0
                arrays.append((f"lc-near-threshold(V={V})", regs))
        # uniform small ranks: E around 5m boundary (V = 0)
        for r in (1, 2, 3, 4):
            arrays.append((f"uniform-{r}", np().full(m, r, np().uint8)))
        # the same register states through the two handles of a shared-memory block (owner and an attached view): query() is a function of the
        # registers, whatever kind of handle holds them
        hmod = s.hyperloglog if hasattr(s, "hyperloglog") else __import__("sketchnu.hyperloglog", fromlist=["x"])
        if getattr(hmod.sleep, "__name__", "") == "sleep":
            hmod.sleep = lambda s_: None
        try:
            owner = s.HyperLogLog(p, 0, shared_memory=True)
            view = s.HyperLogLog(p, 0)
            view.attach_existing_shm(owner.shm.name)
        except Exception as e:
            owner = view = None
            res.oracle_failures.append({"pid": "C17", "what": f"C17 p={p}: cannot build a shared-memory sketch with an attached handle: {type(e).__name__}: {e}", "p": p})
        for label, regs in arrays:
            h.registers[:] = regs
            try:
                real = float(h.query())
                if owner is not None:
                    owner.registers[:m] = regs
                    for hname, hh_ in (("the owner of a shared-memory block", owner), ("a handle attached to a shared-memory block", view)):
                        got = float(hh_.query())
                        res.count("hll_query_through_shared_handles")
                        if struct.pack("<d", got) != struct.pack("<d", real):
                            for pid_ in ("C17", "C07"):
                                res.oracle_failures.append({"pid": pid_, "what": f"{pid_} p={p} registers `{label}`: query() through {hname} = {got!r}, the in-memory sketch holding the same "
                                                                                 f"registers answers {real!r}", "p": p, "label": label})
                    hh_ = None
            except Exception as e:  # the estimator must return a number for EVERY register state
                res.oracle_failures.append({"pid": "C17", "what": f"C17 p={p} registers `{label}`: query() raised {type(e).__name__}: {e}", "p": p, "label": label})
                res.oracle_failures.append({"pid": "C07", "what": f"C07 p={p} registers `{label}`: query() raised {type(e).__name__}: {e}", "p": p, "label": label})
                continue
            lst = [int(x) for x in regs]
            want, branch = _py_estimator(p, lst, raw, bias, thr)
            # margin to the branch boundary
            V = lst.count(0)
            margin_ok = True
            if V > 0:
                lc = m * math.log(m / V)
                margin_ok = abs(lc - thr) > 1e-6 * thr
            n += 1
            res.evaluations += 1
            res.count("branch_" + branch)
            res.nontrivial(["hll_query", p, label, branch])
            if label == "empty" and struct.pack("<d", real) != struct.pack("<d", 0.0):
                res.oracle_failures.append({"pid": "C07", "what": f"C07/C17 empty sketch p={p}: query() = {real!r}, expected exactly 0.0", "p": p})
            if margin_ok and not (abs(real - want) <= 1e-9 * max(1.0, abs(want))):
                res.oracle_failures.append({"pid": "C17", "what": f"C17 p={p} registers '{label}' ({branch}): query() = {real!r}, documented estimator gives {want!r}", "p": p, "label": label})
            if V > 0 and branch == "linear_counting":
                nocc = m - V
                cap = m * math.log(m / (m - nocc))
                if real > cap * (1 + 1e-12):
                    res.oracle_failures.append({"pid": "C07", "what": f"C07 p={p}: linear-counting estimate {real} exceeds the value for {nocc} occupied registers", "p": p})
            if margin_ok and (p <= 10 or label in ("empty", "all-max", "single-zero")):
                def near(got, w=real):
                    try:
                        g = struct.unpack("<d", struct.pack("<Q", int(got)))[0]
                    except Exception:
                        return False
                    return abs(g - w) <= 1e-9 * max(1.0, abs(w))
                ops.append([f"hll.set 9 {p} " + " ".join(map(str, lst)), None, "setup"])
                ops.append(["hll.query 9", near, "float"])
        res.sample({"slice": "hll_query", "p": p, "arrays": [a[0] for a in arrays][:8]})
        view = None
        gc.collect()
        owner = None
        gc.collect()
    sess = Session()
    sess.add_case({"slice": "hll_query"}, ops)
    mism, ncmp = sess.run()
    res.mismatches += mism
    res.slices["hll_query"] = {"register_arrays": n, "comparisons": ncmp, "mismatches": len(mism), "wall_s": round(time.time() - t0, 1)}


# =============================================================================== C14 columns + statistical search


def cols_slice(res, rng, tier):
    """probe-observed column per row, in every kernel family, vs fasthash64(key, row) % width"""
    from slice_hash import ref_fasthash64

    t0 = time.time()
    ops = []
    n = 0
    for _ in range(12 if tier == "quick" else 80):
        kind = rng.choice(["linear", "log16", "log8", "hh"])
        w = rng.choice([1, 2, 3, 7, 16, 64, 1000, 2**20 + 7])
        d = rng.choice([1, 2, 4, 8])
        kw = {"max_key_len": 16} if kind == "hh" else {}
        if w > 10**5:
            d = min(d, 2)
        probe = Probe(kind, d, w, **kw)
        for key in key_alphabet(rng, 5, max_key_len=16 if kind == "hh" else None):
            k = key[:16] if kind == "hh" else key
            cols = probe.cols(k)
            want = [ref_fasthash64(k, r) % w for r in range(d)]
            n += 1
            res.evaluations += 1
            res.nontrivial(["cols", kind, w, d, k.hex()])
            if cols != want:
                # the exact column rule is the MODEL's (and the documentation's) — C14 itself only asks for uniform, independent rows.  A different
                # rule is therefore a broken correspondence; whether C14 fails is decided by the statistical searches below.
                res.mismatches.append({"kind": "cols-exact", "case": {"slice": "cols", "kind": kind, "w": w, "d": d, "key": k.hex()}, "line": "column rule",
                                       "expected": str(want), "got": str(cols)})
            ops.append([f"cols {hexk(k)} {d} {w}", " ".join(map(str, cols)), "exact"])
        res.count("cols_" + kind)
        res.sample({"slice": "cols", "kind": kind, "width": w, "depth": d})
    sess = Session()
    sess.add_case({"slice": "cols"}, ops)
    mism, ncmp = sess.run()
    res.mismatches += mism
    res.slices["cols"] = {"keys": n, "comparisons": ncmp, "mismatches": len(mism), "wall_s": round(time.time() - t0, 1)}


def _chi2_crit(dof, z=6.2):
    """Wilson–Hilferty upper quantile, z = 6.2 ↔ tail ≈ 3e-10"""
    return dof * (1 - 2 / (9 * dof) + z * math.sqrt(2 / (9 * dof))) ** 3


def row_independence(res, rng, tier):
    """refutation search (not a proof): joint column distribution of every pair of rows"""
    s = sk()
    t0 = time.time()
    W = 16
    nkeys = 6000 if tier == "quick" else 20000
    # depths that are NOT powers of two as well (row seeds derived from the depth alias there), and a population of LONG keys
    # (rows derived from fewer than `depth` hash evaluations show up only beyond one or two 8-byte blocks)
    plan = [(4, "short"), (3, "short"), (7, "long"), (5, "long")] if tier == "quick" else [(d, pop) for d in (2, 3, 4, 5, 6, 7, 8) for pop in ("short", "long")]
    for depth, pop in plan:
        c = s.CountMinLinear(W, depth)
        cols = np().zeros((nkeys, depth), np().int64)
        base = rng.randrange(2**60)
        for i in range(nkeys):
            if pop == "short":
                k = (base + i * 2654435761).to_bytes(12, "little")[: rng.choice([5, 8, 12])]
            else:
                k = (base + i * 2654435761).to_bytes(12, "little") + b"-long-key-" + bytes([i % 251, (i // 251) % 251]) + b"x" * rng.choice([1, 9, 17])
            c.query(k)
            cols[i] = c.buckets
        crit1 = _chi2_crit(W - 1)
        crit2 = _chi2_crit(W * W - 1)
        for r in range(depth):
            cnt = np().bincount(cols[:, r], minlength=W)
            chi = float(((cnt - nkeys / W) ** 2 / (nkeys / W)).sum())
            res.evaluations += 1
            if chi > crit1:
                res.oracle_failures.append({"pid": "C14", "what": f"C14 (search) row {r}: columns of {nkeys} keys at width {W} are not uniform (chi2 {chi:.1f} > {crit1:.1f})"})
            for r2 in range(r + 1, depth):
                joint = np().bincount(cols[:, r] * W + cols[:, r2], minlength=W * W)
                e = nkeys / (W * W)
                chi = float(((joint - e) ** 2 / e).sum())
                res.evaluations += 1
                res.nontrivial(["row_independence", depth, r, r2])
                if chi > crit2:
                    res.oracle_failures.append({"pid": "C14", "what": f"C14 (search) depth {depth}, {pop} keys, rows {r},{r2}: joint column distribution of {nkeys} keys at width {W} is not "
                                                f"uniform (chi2 {chi:.1f} > {crit2:.1f}) — the rows are not independent", "rows": [r, r2], "depth": depth, "pop": pop})
    # degenerate rows at large widths (a hash evaluated once and cut into digits runs out of bits when width^depth > 2^64)
    for Wbig in ([65536] if tier == "quick" else [65536, 2**20 + 7, 2**31 - 1]):
        depth = 8
        c = s.CountMinLinear(Wbig, depth) if Wbig <= 2**20 + 7 else None
        if c is None:
            continue
        nk = 400
        cols = np().zeros((nk, depth), np().int64)
        base = rng.randrange(2**60)
        for i in range(nk):
            c.query((base + i * 40503).to_bytes(9, "little"))
            cols[i] = c.buckets
        for r in range(depth):
            distinct = len(set(cols[:, r].tolist()))
            res.evaluations += 1
            if distinct < nk // 2:
                res.oracle_failures.append({"pid": "C14", "what": f"C14 (search) width {Wbig} depth {depth}: row {r} sends {nk} random keys to only {distinct} distinct columns — "
                                                                     "the row's counter is not chosen uniformly", "row": r, "width": Wbig})
        res.nontrivial(["degenerate_rows", Wbig])
    res.slices["row_independence"] = {"keys": nkeys, "plan": [list(x) for x in plan], "wall_s": round(time.time() - t0, 1)}


def zipf_bound(res, rng, tier):
    """refutation search: fraction of keys with estimate > true + e·N/width must be ≤ exp(-depth) (allowing binomial noise at 1e-9)"""
    s = sk()
    t0 = time.time()
    depth = 8
    for width in ([32] if tier == "quick" else [32, 64, 128]):
        nk = 3000 if tier == "quick" else 5000
        c = s.CountMinLinear(width, depth)
        base = rng.randrange(2**60)
        keys = [(base + i).to_bytes(9, "little") for i in range(nk)]
        true = [max(1, int(3000 / (i + 1) ** 1.1)) for i in range(nk)]
        order = list(range(nk))
        rng.shuffle(order)
        for i in order:
            c.add(keys[i], true[i])
        N = int(c.n_added())
        lim = math.e * N / width
        bad = sum(1 for i in range(nk) if int(c.query(keys[i])) > true[i] + lim)
        allowed = 15 if nk * math.exp(-depth) < 2 else int(nk * math.exp(-depth) * 4 + 15)
        res.evaluations += nk
        res.nontrivial(["zipf", width, nk])
        res.count("zipf_bad_keys", bad)
        if bad > allowed:
            res.oracle_failures.append({"pid": "C14", "what": f"C14 (search) width {width} depth {depth}: {bad} of {nk} keys exceed true + e·N/width; exp(-depth) allows about {nk*math.exp(-depth):.1f}",
                                        "width": width})
    res.slices["zipf_bound"] = {"wall_s": round(time.time() - t0, 1)}
