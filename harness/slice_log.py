"""
slice_log.py — log8 / log16 count-min (C05 log part, C06, C09 log part, C18 log part).

  log_step      one unit add on a 1×1 sketch whose counter and draw are placed by the harness
                (draw at thr·(1∓1e-9), 0.0, 1-2^-53): real counter / rand_ptr vs Lean `logCounter`
  log_history   random histories (adds with multiplicities, merges, save/load) on small log sketches
                with two-point draws: full table, n_added and consumed draws vs the Lean model;
                python oracles for C05 / C06_lower / C06_exact / C18
  rand_refill   seeded Numba generator, runs crossing 2-3 refills: consumed positions and the
                refilled batch vs the model's stream  (draws are fresh, never recycled)
  merge_pairs   log8: ALL 256×256 counter pairs per configuration; log16: all counters against the
                empty sketch + sampled pairs: real merge vs Lean float mirror (exact) vs the exact
                nearest-counter specification (Lean, scaled integers, log8) and a model-independent
                high-precision oracle (ties within 1e-9 of the gap accept either neighbour)
"""
import os
import struct
import time
from decimal import Decimal, getcontext
from fractions import Fraction

from core import Session
from real import Probe, hexk, key_alphabet, np, sk

ONE_MINUS = 1.0 - 2.0 ** -53


def fbits(x):
    return "%016x" % struct.unpack("<Q", struct.pack("<d", float(x)))[0]


SHM_COUNT = 0


def shm_shape(width, depth):
    """shapes whose sketches are created in shared memory: odd sizes ≥ 9 cells (w ≡ d mod 8), about one random shape in twelve"""
    if (width - depth) % 8 == 0 and width >= 3 and (width * depth) % 8 != 0:
        cm = sk().countmin
        if getattr(cm.sleep, "__name__", "") == "sleep":
            cm.sleep = lambda s_: None   # the 0.25 s pause in __del__ (test-side patch, these slices only; C16 keeps the original)
        global SHM_COUNT
        SHM_COUNT += 1
        return True
    return False


def make(kind, width, depth, max_count=None, nr=None):
    s = sk()
    cls = s.CountMinLog8 if kind == "log8" else s.CountMinLog16
    kw = {}
    if max_count is not None:
        kw["max_count"] = max_count
    if nr is not None:
        kw["num_reserved"] = nr
    # one case in eight lives in a shared-memory block (the property is about every count-min sketch; a block whose size is not a
    # multiple of 8 leaves the bookkeeping counters unaligned, next to the last counters of the table)
    if shm_shape(width, depth):
        kw["shared_memory"] = True
    return cls(width, depth, **kw)


GRID8 = [(2**32 - 1, 15), (1000, 15), (65536, 0), (10**6, 100), (2**40, 1), (5000, 200), (2**32 - 1, 240), (300, 15)]
GRID16 = [(2**32 - 1, 1023), (10**9, 0), (2**40, 30000), (2**63, 1), (10**6, 1023)]


def configs(kind):
    out = []
    for mc, nr in (GRID8 if kind == "log8" else GRID16):
        try:
            c = make(kind, 1, 1, mc, nr)
        except ValueError:
            continue
        out.append((mc, nr, float(c.base)))
    return out


# ------------------------------------------------------------------------------------ log_step


def log_step(res, rng, tier):
    t0 = time.time()
    sess = Session()
    n = 0
    for kind in ("log8", "log16"):
        maxc = 255 if kind == "log8" else 65535
        for mc, nr, base in configs(kind):
            cm = make(kind, 1, 1, mc, nr)
            cs = sorted(set([0, 1, max(nr - 1, 0), nr, nr + 1, nr + 2, nr + 3, maxc - 2, maxc - 1, maxc] +
                            (list(range(0, 256)) if kind == "log8" and tier != "quick" else [rng.randrange(maxc + 1) for _ in range(12 if tier == "quick" else 200)])))
            ops = [[f"log.cfg {nr} {maxc} {fbits(base)}", None, "setup"]]
            for c in cs:
                cp = c - nr
                thr = base ** (-float(cp)) if cp >= 0 else 1.0
                draws = [0.0, ONE_MINUS]
                if cp > 0:
                    draws += [thr * (1 - 1e-9), thr * (1 + 1e-9)]
                for u in draws:
                    # multiplicities ≥ 2^16 / 2^32 are only deterministic where no draw is needed: at the maximum counter
                    for v in ((1, 3) if c < maxc else (1, 3, 65535, 65536, 65539, 2**32 + 5)):
                        cm.cms[0, 0] = c
                        cm.rand_nums[:] = u
                        cm.rand_ptr = 0
                        na0 = int(cm.n_added())
                        cm.add(b"k", v)
                        newc = int(cm.cms[0, 0])
                        ptr = int(cm.rand_ptr)
                        ops.append(["log.drawsclear", None, "setup"])
                        ops.append([f"log.draws " + " ".join([fbits(u)] * min(v, 4)), None, "setup"])
                        ops.append([f"log.counter {c} {v} 0 0", f"{newc} {ptr}", "exact"])
                        # model-independent oracle: the documented rule
                        exp = c
                        used = 0
                        for _ in range(v):
                            if exp >= maxc:
                                break
                            if exp < nr:
                                exp += 1
                            else:
                                used += 1
                                if u < base ** (-float(exp - nr)):
                                    exp += 1
                        if (newc, ptr) != (exp, used) or int(cm.n_added()) != na0 + v:
                            res.oracle_failures.append({"pid": "C06", "what": f"C06 {kind}(max_count={mc}, num_reserved={nr}): counter {c} + {v} with draw {u!r}: got counter {newc}, "
                                                        f"{ptr} draws consumed; the documented rule gives {exp}, {used}", "kind": kind, "mc": mc, "nr": nr, "c": c, "v": v, "u": u})
                        n += 1
                        res.nontrivial(["log_step", kind, mc, nr, c, "lo" if u == 0.0 else "hi" if u == ONE_MINUS else "below" if u < thr else "above", v])
            sess.add_case({"slice": "log_step", "kind": kind, "max_count": mc, "nr": nr}, ops)
            res.sample({"slice": "log_step", "kind": kind, "max_count": mc, "num_reserved": nr, "base": base, "counters": cs[:6]})
    res.evaluations += n
    mism, ncmp = sess.run()
    res.mismatches += mism
    res.count("log_step_comparisons", ncmp)
    res.slices["log_step"] = {"steps": n, "comparisons": ncmp, "mismatches": len(mism), "wall_s": round(time.time() - t0, 1)}


# ------------------------------------------------------------------------------------ log_history


def gen_history(rng, tier):
    kind = rng.choice(["log8", "log8", "log16"])
    cfgs = configs(kind)
    mc, nr, base = rng.choice(cfgs)
    width = rng.choice([1, 1, 2, 2, 3, 4, 8, 16])
    depth = rng.choice([1, 2, 2, 3, 4])
    nkeys = rng.choice([2, 3, 4, 6, 9])
    keys = key_alphabet(rng, nkeys)
    nsk = rng.choice([1, 2, 2, 3])
    nops = rng.randrange(4, 30 if tier == "quick" else 60)
    plow = rng.choice([0.0, 0.2, 0.5, 0.8, 1.0])
    ops = []
    focus = rng.random() < 0.3
    if focus:
        # ngram-focused history: every key is first driven into the probabilistic zone (counter ≥ num_reserved),
        # then add_ngram is used with n ≥ len(key) (whole-key branch) and n < len(key) (window branch) so that
        # every add_ngram consumes draws
        small = [c for c in cfgs if c[1] <= 100]
        if small:
            mc, nr, base = rng.choice(small)
        for s_ in range(nsk):
            for k in range(nkeys):
                ops.append(["add", s_, k, nr + rng.choice([0, 1, 2])])
    for _ in range(nops):
        x = rng.random()
        s = rng.randrange(nsk)
        if focus and x < 0.6:
            k = rng.randrange(nkeys)
            ops.append(["addngram", s, k, rng.choice([len(keys[k]), len(keys[k]) + 1, max(len(keys[k]) - 1, 1), 1, 256])])
        elif x < 0.7:
            v = rng.choice([0, 1, 1, 1, 2, 3, 5, nr, nr + 1, nr + 2, rng.randrange(1, 60), rng.randrange(1, 300)])
            ops.append(["add", s, rng.randrange(nkeys), v])
        elif x < 0.88 and nsk > 1:
            ops.append(["merge", s, rng.choice([t for t in range(nsk) if t != s])])
        else:
            ops.append(["addngram", s, rng.randrange(nkeys), rng.choice([1, 2, 3, 256, 257, 2**32 + 1])])
    return {"kind": kind, "mc": mc, "nr": nr, "width": width, "depth": depth, "keys": [k.hex() for k in keys], "nsk": nsk, "ops": ops,
            "plow": plow, "dseed": rng.randrange(2**31)}


def windows(key, n):
    if len(key) <= n:
        return [key]
    return [key[i:i + n] for i in range(len(key) - (n - 1))]


def run_history(case):
    import random

    kind, mc, nr = case["kind"], case["mc"], case["nr"]
    maxc = 255 if kind == "log8" else 65535
    W, D = case["width"], case["depth"]
    keys = [bytes.fromhex(h) for h in case["keys"]]
    probe = Probe(kind, D, W, max_count=mc, num_reserved=nr)
    kid = {}
    allk = []

    def K(k):
        if k not in kid:
            kid[k] = len(allk)
            allk.append(k)
            probe.cols(k)
        return kid[k]

    for k in keys:
        K(k)
    dr = random.Random(case["dseed"])
    draws = [0.0 if dr.random() < case["plow"] else ONE_MINUS for _ in range(2048)]
    sks = [make(kind, W, D, mc, nr) for _ in range(case["nsk"])]
    base = float(sks[0].base)
    for c in sks:
        c.rand_nums[:] = draws
        c.rand_ptr = 0
    ops = [[f"cfg {D} {W}", None, "setup"]]
    ops.append([f"log.cfg {nr} {maxc} {fbits(base)}", None, "setup"])
    ops.append(["log.drawsclear", None, "setup"])
    ops.append(["log.draws " + " ".join("z" if u == 0.0 else "o" for u in draws), None, "setup"])
    body = []
    fails = []
    stats = {"ngram_draws": 0, "ngram_whole_key_draws": 0}
    truth = [dict() for _ in sks]
    loads = [[[0] * W for _ in range(D)] for _ in sks]

    def dump(i):
        c = sks[i]
        return " / ".join(" ".join(str(int(v)) for v in row) for row in c.cms) + f" | {int(c.n_added())} {int(c.n_records())} | {int(c.rand_ptr)}"

    def F(pid, what):
        fails.append({"pid": pid, "what": f"{pid} {kind}(max_count={mc},num_reserved={nr}) {what}", "case": case})

    def qc(i, k):
        cols = probe.cols(k)
        return min(int(sks[i].cms[r, cols[r]]) for r in range(D))

    def one_add(i, key, v):
        k = K(key)
        before = np().array(sks[i].cms, copy=True)
        qb = [qc(i, kk) for kk in allk]
        na = int(sks[i].n_added())
        if int(sks[i].rand_ptr) + v >= 2040:
            return False
        ref_tab, ref_ptr = py_log_add([[int(x) for x in row] for row in before], probe.cols(key), v, draws, int(sks[i].rand_ptr), nr, maxc)
        sks[i].add(key, v)
        after = sks[i].cms
        if [[int(x) for x in row] for row in after] != ref_tab or int(sks[i].rand_ptr) != ref_ptr:
            F("C06", f"add({key!r},{v}) with placed draws: table/rand_ptr {[[int(x) for x in row] for row in after]}/{int(sks[i].rand_ptr)} differ from the documented rule "
                     f"{ref_tab}/{ref_ptr} (a draw was recycled, skipped or mis-used)")
        qa = [qc(i, kk) for kk in allk]
        truth[i][k] = truth[i].get(k, 0) + v
        for r, c in enumerate(probe.cols(key)):
            loads[i][r][c] += v
        body.append([f"log.add {i} {k} {v}", None, "op"])
        body.append([f"log.dump {i}", dump(i), "exact"])
        # C05 oracles
        if not (qb[k] <= qa[k] <= qb[k] + v):
            F("C05", f"add({key!r},{v}): smallest counter {qb[k]} -> {qa[k]} (must advance by 0..v)")
        if qb[k] + v <= nr + 1 and qa[k] != qb[k] + v:
            F("C05", f"add({key!r},{v}): smallest counter {qb[k]} -> {qa[k]}, exact zone requires {qb[k]+v}")
        if qb[k] + v <= nr + 1 and float(sks[i].query(key)) != float(qb[k] + v):
            F("C05", f"add({key!r},{v}): estimate {sks[i].query(key)} != old + v = {qb[k]+v} in the exact zone")
        for j in range(len(allk)):
            if qa[j] < qb[j]:
                F("C05", f"add lowered another key's counter {qb[j]} -> {qa[j]}")
            if qa[j] > max(qb[j], qa[k]):
                F("C05", f"add raised key {j}'s counter to {qa[j]} above max(own old {qb[j]}, added key's new {qa[k]})")
        cols = probe.cols(key)
        for r in range(D):
            ch = [c for c in range(W) if int(after[r, c]) != int(before[r, c])]
            if len(ch) > 1 or (ch and ch[0] != cols[r]):
                F("C05", f"add changed cells {ch} of row {r} (key's column {cols[r]})")
            if any(int(after[r, c]) < int(before[r, c]) for c in range(W)):
                F("C18", f"a counter decreased on add in row {r}")
        if int(sks[i].n_added()) != na + v:
            F("C05", f"n_added {na} -> {int(sks[i].n_added())} after add of {v}")
        for j in range(len(allk)):
            if qb[j] == maxc and qa[j] != maxc:
                F("C18", f"counter at the ceiling left it on add")
        return True

    mcbits = fbits(float(mc))
    for op in case["ops"]:
        if op[0] == "add":
            _, i, ki, v = op
            one_add(i, keys[ki], v)
        elif op[0] == "addngram":
            _, i, ki, n = op
            ws = windows(keys[ki], n)
            if int(sks[i].rand_ptr) + len(ws) >= 2040:
                continue
            before_na = int(sks[i].n_added())
            ptr0 = int(sks[i].rand_ptr)
            ref_tab, ref_ptr = [[int(x) for x in row] for row in sks[i].cms], ptr0
            for w in ws:
                K(w)
                ref_tab, ref_ptr = py_log_add(ref_tab, probe.cols(w), 1, draws, ref_ptr, nr, maxc)
            sks[i].add_ngram(keys[ki], n)
            if [[int(x) for x in row] for row in sks[i].cms] != ref_tab or int(sks[i].rand_ptr) != ref_ptr:
                F("C06", f"add_ngram({keys[ki]!r},{n}) with placed draws: table/rand_ptr {[[int(x) for x in row] for row in sks[i].cms]}/{int(sks[i].rand_ptr)} differ from "
                         f"the documented rule {ref_tab}/{ref_ptr} (a draw was recycled, skipped or mis-used)")
            if int(sks[i].rand_ptr) != ptr0:
                stats["ngram_draws"] += 1
                if len(keys[ki]) <= n:
                    stats["ngram_whole_key_draws"] += 1
            for w in ws:
                k = K(w)
                truth[i][k] = truth[i].get(k, 0) + 1
                for r, c in enumerate(probe.cols(w)):
                    loads[i][r][c] += 1
                body.append([f"log.add {i} {k} 1", None, "op"])
            body.append([f"log.dump {i}", dump(i), "entry"])
        elif op[0] == "merge":
            _, a, b = op
            A = np().array(sks[a].cms, copy=True)
            B = np().array(sks[b].cms, copy=True)
            nb = (int(sks[a].n_added()), int(sks[b].n_added()), int(sks[a].n_records()), int(sks[b].n_records()))
            sks[a].merge(sks[b])
            R = sks[a].cms
            for k, v in truth[b].items():
                truth[a][k] = truth[a].get(k, 0) + v
            loads[a] = [[x + y for x, y in zip(ra, rb)] for ra, rb in zip(loads[a], loads[b])]
            body.append([f"log.merge {a} {b} {mcbits}", None, "op"])
            body.append([f"log.dump {a}", dump(a), "exact"])
            if not (np().array_equal(B, sks[b].cms)):
                F("C09", "merge modified its argument")
            if int(sks[a].n_added()) != nb[0] + nb[1] or int(sks[a].n_records()) != nb[2] + nb[3]:
                F("C09", "bookkeeping is not the sum after merge")
            for r in range(D):
                for c in range(W):
                    if int(R[r, c]) < max(int(A[r, c]), int(B[r, c])):
                        F("C18", f"merged counter {int(R[r,c])} below an input ({int(A[r,c])},{int(B[r,c])})")
                    if int(A[r, c]) + int(B[r, c]) <= nr and int(R[r, c]) != int(A[r, c]) + int(B[r, c]):
                        F("C09", f"merged counter {int(R[r,c])} != {int(A[r,c])}+{int(B[r,c])} inside the reserved range")
    # C06_lower / C06_exact on final states
    for i in range(len(sks)):
        for k, key in enumerate(allk):
            t = truth[i].get(k, 0)
            est = qc(i, key)
            if est < min(t, nr + 1):
                F("C06", f"estimate counter {est} of {key!r} below min(true={t}, num_reserved+1)")
            cols = probe.cols(key)
            free = any(loads[i][r][cols[r]] == t for r in range(D))
            if free and t <= nr + 1 and float(sks[i].query(key)) != float(t):
                F("C06", f"collision-free key {key!r} with true count {t} ≤ num_reserved+1 estimated as {sks[i].query(key)}")
    pre = []
    for k, key in enumerate(allk):
        pre.append([f"key {k} {hexk(key)} " + " ".join(map(str, probe.cols(key))), None, "setup"])
    for i in range(len(sks)):
        pre.append([f"log.new {i}", None, "setup"])
    shared = len({(r, c) for key in allk for r, c in enumerate(probe.cols(key))}) < len(allk) * D
    return ops + pre + body, fails, {"shared": shared, **stats}


def py_log_add(tab, cols, v, draws, ptr, nr, maxc):
    """the documented rule, two-point draws: returns (new table, new rand_ptr)"""
    m = min(tab[r][c] for r, c in enumerate(cols))
    c = m
    for _ in range(v):
        if c >= maxc:
            break
        if c < nr:
            c += 1
        else:
            u = draws[ptr]
            ptr += 1
            if u == 0.0 or c == nr:
                c += 1
    new = [row[:] for row in tab]
    if c != m:
        for r, col in enumerate(cols):
            if new[r][col] < c:
                new[r][col] = c
    return new, ptr


def log_history(res, rng, tier, pids, n_cases, budget_s):
    t0 = time.time()
    sess = Session()
    n = 0
    while n < n_cases and time.time() - t0 < budget_s:
        case = gen_history(rng, tier)
        ops, fails, st = run_history(case)
        res.oracle_failures += [f for f in fails if f["pid"] in pids][:3]
        sess.add_case(case, ops)
        n += 1
        res.evaluations += 1
        if st["shared"]:
            res.nontrivial(case)
            res.count("log_cases_with_shared_cell")
        res.count("log_" + case["kind"])
        res.count("ngram_adds_consuming_draws", st["ngram_draws"])
        res.count("whole_key_ngram_adds_consuming_draws_" + case["kind"], st["ngram_whole_key_draws"])
        res.sample({"slice": "log_history", "kind": case["kind"], "max_count": case["mc"], "num_reserved": case["nr"], "width": case["width"],
                    "depth": case["depth"], "ops": case["ops"][:6]})
    mism, ncmp = sess.run()
    res.mismatches += mism
    res.traces += n
    res.count("log_history_comparisons", ncmp)
    res.slices["log_history"] = {"cases": n, "comparisons": ncmp, "mismatches": len(mism), "wall_s": round(time.time() - t0, 1)}


# ------------------------------------------------------------------------------------ fresh_draw_state


def fresh_draw_state(res, rng, tier):
    """The draw state of a NEW instance (constructor, load, a fresh target of a merge): the model's `RandState.init` is
    (batch 0, pointer 0) over a batch of 2048 fresh uniform draws.  Every other log slice PLACES its own draws, so this is the
    only place where the instance's own first batch is used: `rand_ptr == 0`, 2048 distinct values in [0, 1), and the first unit
    add on a counter above num_reserved consumes exactly `rand_nums[0]` and advances iff `rand_nums[0] < base ** -(c - nr)`."""
    s = sk()
    t0 = time.time()
    n = 0
    seen_batches = []  # (label, first batch) of every instance made here: "never recycled" also means that two instances are not handed the same numbers
    for kind, cls, mc, nr in (("log8", s.CountMinLog8, 2**32 - 1, 15), ("log16", s.CountMinLog16, 2**32 - 1, 1023), ("log8", s.CountMinLog8, 10**6, 3)):
        for origin in ("ctor", "load", "merge-into-new"):
            for rep in range(3 if tier == "quick" else 12):
                src = cls(3, 2, mc, nr)
                c0 = nr + rng.randrange(2, 40)
                src.cms[:] = c0
                if origin == "ctor":
                    o = cls(3, 2, mc, nr)
                    o.cms[:] = c0
                elif origin == "load":
                    p = os.path.join("/dev/shm" if os.path.isdir("/dev/shm") else "/tmp", "skverif_fd_%d.npz" % os.getpid())
                    src.save(p)
                    o = cls.load(p)
                    os.unlink(p)
                else:
                    o = cls(3, 2, mc, nr)
                    o.merge(src)
                what = None
                ptr0 = int(o.rand_ptr)
                draws = np().array(o.rand_nums, dtype=np().float64).copy()
                for lab, arr in ((f"{kind} source #{n}", np().array(src.rand_nums, dtype=np().float64).copy()), (f"{kind} from {origin} #{n}", draws)):
                    seen_batches.append((lab, arr))
                if ptr0 != 0:
                    what = f"rand_ptr of a new instance is {ptr0}, not 0"
                elif len(draws) != 2048 or not ((draws >= 0.0) & (draws < 1.0)).all() or len(set(draws.tolist())) < 2000:
                    what = f"the first batch of a new instance is not 2048 fresh uniform [0,1) draws ({len(set(draws.tolist()))} distinct values, min {draws.min()}, max {draws.max()})"
                else:
                    c = int(o.cms[0, 0])
                    before = int(o.query(b"k") if False else min(int(o.cms[r, :].min()) for r in range(2)))
                    o.add(b"k", 1)
                    after_ptr = int(o.rand_ptr)
                    cols = [int(np().nonzero(o.cms[r] != c)[0][0]) if (o.cms[r] != c).any() else None for r in range(2)]
                    advanced = any(x is not None for x in cols)
                    want = bool(draws[0] < float(o.base) ** (-(c - nr)))
                    if after_ptr != 1:
                        what = f"the first unit add on a counter above num_reserved moved rand_ptr from 0 to {after_ptr} (one draw expected)"
                    elif advanced != want:
                        what = (f"the first unit add on counter {c} (num_reserved {nr}) {'advanced' if advanced else 'did not advance'} the counter, but its draw rand_nums[0] = {draws[0]!r} "
                                f"{'<' if want else '>='} base**-(c-nr) = {float(o.base) ** (-(c - nr))!r}")
                n += 1
                res.evaluations += 1
                res.nontrivial(["fresh_draw_state", kind, mc, nr, origin, rep])
                res.count("fresh_instances_" + origin)
                if what:
                    res.oracle_failures.append({"pid": "C06", "what": f"C06 {kind}(max_count={mc}, num_reserved={nr}) instance from {origin}: {what}",
                                                "kind": kind, "origin": origin})
                del o, src
    # no two instances of this process share draws (2048-value batches of doubles: a single common value has probability ~ 1e-9)
    index = {}
    shared = None
    for lab, arr in seen_batches:
        if len(arr) == 0:
            continue
        key = (float(arr[0]), float(arr[-1]), float(arr[len(arr) // 2]))
        if key in index and index[key] != lab:
            shared = (index[key], lab, float(arr[0]))
            break
        index[key] = lab
    res.evaluations += 1
    res.count("fresh_instances_pairwise", len(seen_batches))
    if shared:
        res.oracle_failures.append({"pid": "C06", "what": f"C06 two instances created in one process hold the SAME first batch of draws ({shared[0]} and {shared[1]}, rand_nums[0] = {shared[2]!r}): "
                                                         f"the second one recycles the numbers the first one consumes", "kind": "shared-batch"})
    res.slices["fresh_draw_state"] = {"instances": n, "batches_compared": len(seen_batches), "wall_s": round(time.time() - t0, 1)}


# ------------------------------------------------------------------------------------ rand_refill

_NJ = {}


def _nj():
    if not _NJ:
        from numba import njit
        import numpy

        @njit
        def seed(s):
            numpy.random.seed(s)

        @njit
        def batch():
            return numpy.random.rand(2048)

        _NJ["seed"], _NJ["batch"] = seed, batch
    return _NJ


def rand_refill(res, rng, tier):
    t0 = time.time()
    nj = _nj()
    sess = Session()
    runs = 2 if tier == "quick" else 8
    for _ in range(runs):
        s = rng.randrange(2**31)
        kind = rng.choice(["log16", "log8"])
        mc, nr = (2**32 - 1, 0) if kind == "log16" else (2**40, 1)
        maxc = 255 if kind == "log8" else 65535
        cm = make(kind, 1, 1, mc, nr)
        base = float(cm.base)
        first = np().array([rng.random() for _ in range(2048)])
        nj["seed"](s)
        b1 = np().array(nj["batch"]())
        b2 = np().array(nj["batch"]())
        b3 = np().array(nj["batch"]())
        nj["seed"](s)
        cm.rand_nums[:] = first
        cm.rand_ptr = 0
        total = rng.choice([4100, 5000, 6000])
        chunks = [rng.randrange(1, 1500) for _ in range(8)]
        ops = [[f"cfg 1 1", None, "setup"], ["key 0 6b 0", None, "setup"], [f"log.cfg {nr} {maxc} {fbits(base)}", None, "setup"], ["log.drawsclear", None, "setup"]]
        for arr in (first, b1, b2, b3):
            ops.append(["log.draws " + " ".join(fbits(x) for x in arr), None, "setup"])
        ops.append(["log.new 0", None, "setup"])
        done = 0
        refills = 0
        for v in chunks:
            if done + v > total:
                break
            prev_ptr = int(cm.rand_ptr)
            cm.add(b"k", v)
            done += v
            ptr = int(cm.rand_ptr)
            if ptr < prev_ptr:
                refills += 1
            consumed = refills * 2048 + ptr
            ops.append([f"log.add 0 0 {v}", None, "op"])
            ops.append([f"log.dump 0", f"{int(cm.cms[0,0])} | {int(cm.n_added())} 0 | {consumed}", "exact"])
        # the batch now in rand_nums must be the refills-th fresh batch, not a recycled one
        want = [first, b1, b2, b3][refills]
        if not np().array_equal(np().array(cm.rand_nums), want):
            res.oracle_failures.append({"pid": "C06", "what": f"C06 rand batch after {refills} refills is not the {refills}-th fresh batch of the seeded generator (recycled or skipped draws)",
                                        "seed": s, "kind": kind})
        if refills >= 1 and np().array_equal(np().array(cm.rand_nums), first):
            res.oracle_failures.append({"pid": "C06", "what": "C06 rand batch was recycled", "seed": s, "kind": kind})
        res.count("refills_crossed", refills)
        res.evaluations += 1
        res.nontrivial(["rand_refill", s, kind, refills])
        sess.add_case({"slice": "rand_refill", "seed": s, "kind": kind}, ops)
        res.sample({"slice": "rand_refill", "numba_seed": s, "kind": kind, "chunks": chunks, "refills": refills})
    # one add with a multiplicity ≥ 2^16 far below the ceiling: 65539 unit steps, ~32 refills of the seeded generator
    s = rng.randrange(2**31)
    cm = make("log8", 1, 1)
    base = float(cm.base)
    first = np().array([rng.random() for _ in range(2048)])
    nj["seed"](s)
    batches = [np().array(nj["batch"]()) for _ in range(34)]
    nj["seed"](s)
    cm.rand_nums[:] = first
    cm.rand_ptr = 0
    v = 65539
    cm.add(b"k", v)
    ops = [["cfg 1 1", None, "setup"], ["key 0 6b 0", None, "setup"], [f"log.cfg 15 255 {fbits(base)}", None, "setup"], ["log.drawsclear", None, "setup"]]
    for arr in [first] + batches:
        ops.append(["log.draws " + " ".join(fbits(x) for x in arr), None, "setup"])
    ops.append(["log.new 0", None, "setup"])
    ops.append([f"log.add 0 0 {v}", None, "op"])
    cnt, na = int(cm.cms[0, 0]), int(cm.n_added())
    # consumed draws = v - 15 unconditional steps (no draw below num_reserved) unless the ceiling is reached
    ops.append(["log.dump 0", (lambda got, c=cnt, n=na: got.split(" | ")[0] == str(c) and got.split(" | ")[1] == f"{n} 0"), "exact"])
    if na != v:
        res.oracle_failures.append({"pid": "C05", "what": f"C05 log8 add(key, {v}) far below the ceiling (counter reached {cnt} of 255): n_added() grew by {na}, not by {v}", "kind": "log8", "v": v})
    if cnt >= 255:
        res.notes.append("big-multiplicity run reached the ceiling")
    res.evaluations += 1
    res.nontrivial(["big_multiplicity", s, v])
    res.count("big_multiplicity_adds")
    sess.add_case({"slice": "rand_refill-big", "seed": s, "v": v}, ops)
    mism, ncmp = sess.run()
    res.mismatches += mism
    res.slices["rand_refill"] = {"runs": runs, "comparisons": ncmp, "mismatches": len(mism), "wall_s": round(time.time() - t0, 1)}


# ------------------------------------------------------------------------------------ merge_pairs


def dec_fraction(base, nr, maxc):
    """exact decoded values scaled by S^K (integers), base = B/S — same scaling as the Lean `decS`; returns (table, scale)"""
    fr = Fraction(base)
    B, S = fr.numerator, fr.denominator
    K = maxc - nr
    scale = S ** K
    out = []
    acc = 0
    for c in range(maxc + 1):
        if c <= nr:
            out.append(c * scale)
        else:
            n = c - nr - 1
            acc += B ** n * S ** (K - n)
            out.append(nr * scale + acc)
    return out, scale


def nearest_set(dec, t, mc, maxc, lo_hint=None):
    """set of acceptable counters for target t (exact arithmetic type), ties within 1e-9 of the gap accept both"""
    import bisect

    if t >= mc:
        return {maxc}
    i = bisect.bisect_right(dec, t) - 1  # dec[i] <= t
    if i >= maxc:
        return {maxc}
    lo, hi = dec[i], dec[i + 1]
    gap = hi - lo
    dl, dh = t - lo, hi - t
    if abs(dl - dh) * 10**9 <= gap:
        return {i, i + 1}
    return {i} if dl < dh else {i + 1}


def _touch_other_type(kind_other, mc, nr, res):
    """a merge of the OTHER log counter type with the same (max_count, num_reserved) earlier in the same process: whatever a merge
    remembers per configuration (decode tables, bases) must not leak between the 8-bit and the 16-bit class"""
    try:
        x = make(kind_other, 2, 2, mc, nr)
        y = make(kind_other, 2, 2, mc, nr)
    except ValueError:
        return
    x.cms[:] = 3
    y.cms[:] = 5
    x.merge(y)
    res.count("merges_preceded_by_other_type_same_config")


def merge_pairs(res, rng, tier, pids, light=False):
    t0 = time.time()
    sess = Session()
    npairs = 0
    # ---- log8: all pairs
    cfg8 = configs("log8")
    if light:
        cfg8 = [rng.choice(cfg8)]
    elif tier == "quick":
        cfg8 = cfg8[:1] + rng.sample(cfg8[1:], min(2, len(cfg8) - 1))
    for mc, nr, base in cfg8:
        _touch_other_type("log16", mc, nr, res)
        a = make("log8", 256, 256, mc, nr)
        b = make("log8", 256, 256, mc, nr)
        a.cms[:, :] = np().arange(256, dtype=np().uint8)[:, None]
        b.cms[:, :] = np().arange(256, dtype=np().uint8)[None, :]
        bb = np().array(b.cms, copy=True)
        a.merge(b)
        R = np().array(a.cms)
        if not np().array_equal(bb, b.cms):
            res.oracle_failures.append({"pid": "C09", "what": "C09 merge modified its argument", "mc": mc, "nr": nr, "kind": "log8"})
        dec, scale = dec_fraction(base, nr, 255)
        mcs = mc * scale
        bad = 0
        for i in range(256):
            for j in range(256):
                ok = nearest_set(dec, dec[i] + dec[j], mcs, 255)
                if int(R[i, j]) not in ok:
                    bad += 1
                    if bad <= 2:
                        res.oracle_failures.append({"pid": "C09", "what": f"C09 log8(max_count={mc},num_reserved={nr}): merge of counters {i},{j} gave {int(R[i,j])}, "
                                                    f"nearest counter to decoded sum is {sorted(ok)}", "mc": mc, "nr": nr, "kind": "log8", "a": i, "b": j})
                if int(R[i, j]) < max(i, j) and "C18" in pids:
                    res.oracle_failures.append({"pid": "C18", "what": f"C18 log8 merged counter {int(R[i,j])} below inputs {i},{j}", "mc": mc, "nr": nr, "kind": "log8", "a": i, "b": j})
        npairs += 65536
        res.count("log8_pairs", 65536)
        B = Fraction(base).numerator
        S = Fraction(base).denominator
        ops = [[f"log.cfg {nr} 255 {fbits(base)}", None, "setup"]]
        rows = range(256) if tier != "quick" else sorted(set([0, 1, nr, nr + 1, 128, 254, 255] + [rng.randrange(256) for _ in range(24)]))
        for i in rows:
            row = " ".join(str(int(x)) for x in R[i])
            ops.append([f"log.mergerow {fbits(float(mc))} {i}", row, "mirror"])
            ops.append([f"log.specrow {B} {S} {nr} 255 {mc} {i}", (lambda got, rr=[int(x) for x in R[i]], d=dec, ii=i, m=mcs: _spec_ok(got, rr, d, ii, m)), "spec"])
        sess.add_case({"slice": "merge_pairs", "kind": "log8", "max_count": mc, "nr": nr}, ops)
        res.nontrivial(["merge_pairs", "log8", mc, nr])
        res.sample({"slice": "merge_pairs", "kind": "log8", "max_count": mc, "num_reserved": nr, "base": base, "pairs": 65536})
    # ---- log16: all counters vs empty, sampled pairs
    getcontext().prec = 50
    cfg16 = configs("log16")
    if light:
        cfg16 = []
    elif tier == "quick":
        cfg16 = [rng.choice(cfg16)]
    for mc, nr, base in cfg16:
        bD = Decimal(base)
        dec = []
        acc = Decimal(0)
        p = Decimal(1)
        for c in range(65536):
            if c <= nr:
                dec.append(Decimal(c))
            else:
                acc += p
                p *= bD
                dec.append(nr + acc)
        n = 256
        if nr < 255:
            _touch_other_type("log8", mc, nr, res)
        a = make("log16", 256, 256, mc, nr)
        z = make("log16", 256, 256, mc, nr)
        a.cms[:, :] = np().arange(65536, dtype=np().uint16).reshape(256, 256)
        a.merge(z)
        if not np().array_equal(np().array(a.cms).reshape(-1), np().arange(65536, dtype=np().uint16)):
            ii = int(np().nonzero(np().array(a.cms).reshape(-1) != np().arange(65536, dtype=np().uint16))[0][0])
            res.oracle_failures.append({"pid": "C09", "what": f"C09 log16(max_count={mc},num_reserved={nr}): merging an empty sketch changed counter {ii} to {int(np().array(a.cms).reshape(-1)[ii])}",
                                        "mc": mc, "nr": nr, "kind": "log16", "a": ii, "b": 0})
        res.count("log16_vs_empty", 65536)
        side = 200 if tier == "quick" else 1000
        A = np().array([rng.choice([rng.randrange(65536), rng.randrange(nr + 3), 65535 - rng.randrange(4), rng.randrange(65536)]) for _ in range(side)], dtype=np().uint16)
        Bv = np().array([rng.choice([rng.randrange(65536), rng.randrange(nr + 3), 65535 - rng.randrange(4), rng.randrange(65536)]) for _ in range(side)], dtype=np().uint16)
        x = make("log16", side, side, mc, nr)
        y = make("log16", side, side, mc, nr)
        x.cms[:, :] = A[:, None]
        y.cms[:, :] = Bv[None, :]
        x.merge(y)
        R = np().array(x.cms)
        bad = 0
        for i in range(side):
            for j in range(side):
                ai, bj = int(A[i]), int(Bv[j])
                ok = nearest_set(dec, dec[ai] + dec[bj], mc, 65535)
                if int(R[i, j]) not in ok:
                    bad += 1
                    if bad <= 2:
                        res.oracle_failures.append({"pid": "C09", "what": f"C09 log16(max_count={mc},num_reserved={nr}): merge of counters {ai},{bj} gave {int(R[i,j])}, nearest is {sorted(ok)}",
                                                    "mc": mc, "nr": nr, "kind": "log16", "a": ai, "b": bj})
        npairs += side * side
        res.count("log16_pairs", side * side)
        ops = [[f"log.cfg {nr} 65535 {fbits(base)}", None, "setup"]]
        for _ in range(400 if tier == "quick" else 4000):
            i, j = rng.randrange(side), rng.randrange(side)
            ops.append([f"log.mergecell {fbits(float(mc))} {int(A[i])} {int(Bv[j])}", str(int(R[i, j])), "mirror"])
        sess.add_case({"slice": "merge_pairs", "kind": "log16", "max_count": mc, "nr": nr}, ops)
        res.nontrivial(["merge_pairs", "log16", mc, nr])
        res.sample({"slice": "merge_pairs", "kind": "log16", "max_count": mc, "num_reserved": nr, "base": base, "pairs": side * side})
    res.evaluations += npairs
    mism, ncmp = sess.run()
    res.mismatches += mism
    res.slices["merge_pairs"] = {"pairs": npairs, "driver_comparisons": ncmp, "mismatches": len(mism), "wall_s": round(time.time() - t0, 1)}


def _spec_ok(got, real_row, dec, i, mc):
    """Lean exact spec row vs real row: equal except at near-ties where the real float evaluation may pick the other neighbour"""
    try:
        spec = [int(x) for x in got.split()]
    except ValueError:
        return False
    if len(spec) != len(real_row):
        return False
    for j, (s, r) in enumerate(zip(spec, real_row)):
        if s != r:
            ok = nearest_set(dec, dec[i] + dec[j], mc, len(dec) - 1)
            if not (s in ok and r in ok):
                return False
    return True
