#!/bin/bash
# usage: confirm_mutant.sh <worktree>   -> writes <worktree>/confirm.log
wt=$1; cd $wt || exit 9
{
git checkout -q -- sketchnu
git apply patch.diff || { echo "PATCH DOES NOT APPLY"; exit 9; }
git diff --stat
PYTHONPATH=$wt timeout 600 /venv/bin/python demo.py > demo_with.out 2>&1; echo "demo_with_rc=$?"
git checkout -q -- sketchnu
PYTHONPATH=$wt timeout 600 /venv/bin/python demo.py > demo_without.out 2>&1; echo "demo_without_rc=$?"
git apply patch.diff
PYTHONPATH=$wt timeout 2400 /venv/bin/python -m pytest -q -p no:cacheprovider --timeout=900 -n 3 2>&1 | tail -3
} > confirm.log 2>&1
