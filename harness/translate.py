#!/usr/bin/env python3
"""
translate.py — regenerate the generated part of the Lean model from /repo's current source.

Writes (only when the content changed, so that an unchanged tree gives a no-op `lake build`):

  lean/Model/Generated/Constants.lean   literal constants of the hash kernels, the HLL estimator,
                                        the log-counter batch size and the storage ceilings
  lean/Model/Generated/HllTables.lean   sub_algorithm_threshold / raw_estimate / bias_data as exact
                                        decimals scaled by 10^5 (per-precision `List Int`)
  harness/fingerprints.json (returned)  sha256 of the normalised AST of every modelled kernel

Uses only the standard library (ast, decimal, hashlib); never imports sketchnu.
"""
import ast
import hashlib
import json
import os
import sys
from decimal import Decimal

VERIF = os.path.dirname(os.path.dirname(os.path.abspath(__file__)))
REPO = os.environ.get("SKETCHNU_REPO", "/repo")
GEN = os.path.join(VERIF, "lean", "Model", "Generated")


class TranslateError(Exception):
    pass


def _parse(path):
    with open(path, "r") as f:
        src = f.read()
    return src, ast.parse(src)


def _func(tree, name):
    for node in ast.walk(tree):
        if isinstance(node, ast.FunctionDef) and node.name == name:
            return node
    raise TranslateError(f"function {name} not found")


def _int_consts(node):
    """integer literals of a subtree in source order"""
    out = []
    nodes = node.body if isinstance(node, ast.FunctionDef) else [node]  # never the decorators
    for top in nodes:
        for n in ast.walk(top):
            if isinstance(n, ast.Constant) and isinstance(n.value, int) and not isinstance(n.value, bool):
                out.append((n.lineno, n.col_offset, n.value))
    out.sort()
    return [v for _, _, v in out]


def _const_of_call(node):
    """uint64(0x...) -> int ; plain literal -> int"""
    if isinstance(node, ast.Constant) and isinstance(node.value, int):
        return node.value
    if isinstance(node, ast.Call) and len(node.args) == 1:
        return _const_of_call(node.args[0])
    raise TranslateError(f"expected integer literal, got {ast.dump(node)[:80]}")


def _assign_value(fn, target):
    for n in ast.walk(fn):
        if isinstance(n, ast.Assign) and len(n.targets) == 1:
            t = n.targets[0]
            if isinstance(t, ast.Name) and t.id == target:
                return n.value
    raise TranslateError(f"assignment to {target} not found in {fn.name}")


def _subscript_index(node):
    """tail[6] -> 6"""
    if isinstance(node, ast.Call) and len(node.args) == 1:
        node = node.args[0]
    if isinstance(node, ast.Subscript):
        s = node.slice
        if isinstance(s, ast.Constant):
            return s.value
    raise TranslateError(f"expected tail[i], got {ast.dump(node)[:80]}")


def _switch_branches(fn, var):
    """Return {case_value: [stmts]} for an if/elif chain `if var == N:`"""
    out = {}

    def visit_if(node):
        t = node.test
        if (
            isinstance(t, ast.Compare)
            and isinstance(t.left, ast.Name)
            and t.left.id == var
            and len(t.ops) == 1
            and isinstance(t.ops[0], ast.Eq)
            and isinstance(t.comparators[0], ast.Constant)
        ):
            out[t.comparators[0].value] = node.body
            if len(node.orelse) == 1 and isinstance(node.orelse[0], ast.If):
                visit_if(node.orelse[0])

    for n in fn.body:
        if isinstance(n, ast.If):
            visit_if(n)
    return out


# constants of the pinned tree: used ONLY as a fallback so that the model still builds when a section of hashes.py can no
# longer be translated; the section's error is reported and counts as a broken obligation of the properties that rest on it
PINNED_FASTHASH = {"fh_shift_a": 23, "fh_mix_mul": 0x2127599BF4325C37, "fh_shift_b": 47, "fh_m": 0x880355F21E6D1965, "fh32_shift": 32,
                   "fh_tails": {n: ([(i, 8 * i) for i in range(n - 1, 0, -1)], 0) for n in range(1, 8)}}
PINNED_MURMUR = {"mm_fmix_shift_a": 16, "mm_fmix_mul_a": 0x85EBCA6B, "mm_fmix_shift_b": 13, "mm_fmix_mul_b": 0xC2B2AE35, "mm_fmix_shift_c": 16,
                 "mm_c1": 0xCC9E2D51, "mm_c2": 0x1B873593, "mm_c3": 0xE6546B64, "mm_rot_k": 15, "mm_rot_h": 13, "mm_h_mul": 5,
                 "mm_tails": {n: ([(i, 8 * i) for i in range(n - 1, 0, -1)], 0) for n in range(1, 4)}}


def hash_constants():
    """returns (constants, {section: error}) — sections `fasthash` and `murmur3` are translated independently"""
    src, tree = _parse(os.path.join(REPO, "sketchnu", "hashes.py"))
    errors = {}
    c = {}
    try:
        c.update(_fasthash_constants(tree))
    except TranslateError as e:
        errors["fasthash"] = str(e)
        c.update(PINNED_FASTHASH)
    try:
        c.update(_murmur_constants(tree))
    except TranslateError as e:
        errors["murmur3"] = str(e)
        c.update(PINNED_MURMUR)
    return c, errors


def _fasthash_constants(tree):
    c = {}
    mix = _int_consts(_func(tree, "_fhmix64"))
    if len(mix) != 3:
        raise TranslateError(f"_fhmix64: expected 3 integer literals, found {mix}")
    c["fh_shift_a"], c["fh_mix_mul"], c["fh_shift_b"] = mix
    fh = _func(tree, "fasthash64")
    c["fh_m"] = _const_of_call(_assign_value(fh, "m"))
    tails = {}
    br = _switch_branches(fh, "switch_case")
    for case in range(1, 8):
        if case not in br:
            raise TranslateError(f"fasthash64: no branch switch_case == {case}")
        pairs = []
        last = None
        for st in br[case]:
            # v = _xor_shiftl(v, tail[i], S)
            if (
                isinstance(st, ast.Assign)
                and isinstance(st.value, ast.Call)
                and getattr(st.value.func, "id", None) == "_xor_shiftl"
            ):
                a = st.value.args
                pairs.append((_subscript_index(a[1]), _const_of_call(a[2])))
            # v ^= uint64(tail[0])
            if isinstance(st, ast.AugAssign) and isinstance(st.op, ast.BitXor) and getattr(st.target, "id", "") == "v":
                last = _subscript_index(st.value)
        if last is None:
            raise TranslateError(f"fasthash64 case {case}: no final v ^= tail[i]")
        tails[case] = (pairs, last)
    c["fh_tails"] = tails
    f32 = _int_consts(_func(tree, "fasthash32"))
    if len(f32) != 1:
        raise TranslateError(f"fasthash32: expected one literal, found {f32}")
    c["fh32_shift"] = f32[0]
    return c


def _murmur_constants(tree):
    c = {}
    fm = _int_consts(_func(tree, "_fmix32"))
    if len(fm) != 5:
        raise TranslateError(f"_fmix32: expected 5 literals, found {fm}")
    (c["mm_fmix_shift_a"], c["mm_fmix_mul_a"], c["mm_fmix_shift_b"], c["mm_fmix_mul_b"], c["mm_fmix_shift_c"]) = fm
    mm = _func(tree, "murmur3")
    c["mm_c1"] = _const_of_call(_assign_value(mm, "c1"))
    c["mm_c2"] = _const_of_call(_assign_value(mm, "c2"))
    c["mm_c3"] = _const_of_call(_assign_value(mm, "c3"))
    # block loop: k1 = _rotl32(k1, 15); h = _rotl32(h, 13); h = h * uint32(5) + c3
    loop = [n for n in mm.body if isinstance(n, ast.For)]
    if len(loop) != 1:
        raise TranslateError("murmur3: expected exactly one for loop")
    rots = []
    hmul = None
    for n in ast.walk(loop[0]):
        if isinstance(n, ast.Call) and getattr(n.func, "id", None) == "_rotl32":
            rots.append((n.lineno, _const_of_call(n.args[1])))
        if isinstance(n, ast.BinOp) and isinstance(n.op, ast.Mult) and isinstance(n.right, ast.Call):
            try:
                hmul = _const_of_call(n.right)
            except TranslateError:
                pass
    rots.sort()
    if len(rots) != 2 or hmul is None:
        raise TranslateError(f"murmur3 loop: rotations {rots}, multiplier {hmul}")
    c["mm_rot_k"], c["mm_rot_h"] = rots[0][1], rots[1][1]
    c["mm_h_mul"] = hmul
    mtails = {}
    br = _switch_branches(mm, "switch_len")
    for case in range(1, 4):
        if case not in br:
            raise TranslateError(f"murmur3: no branch switch_len == {case}")
        pairs = []
        last = None
        krot = []
        for st in br[case]:
            if isinstance(st, ast.Assign) and isinstance(st.value, ast.Call) and getattr(st.value.func, "id", None) == "_xor32":
                arg = st.value.args[1]
                if isinstance(arg, ast.Call) and getattr(arg.func, "id", None) == "_shift32l":
                    pairs.append((_subscript_index(arg.args[0]), _const_of_call(arg.args[1])))
                elif isinstance(arg, ast.Subscript):
                    last = _subscript_index(arg)
            if isinstance(st, ast.Assign) and isinstance(st.value, ast.Call) and getattr(st.value.func, "id", None) == "_rotl32":
                krot.append(_const_of_call(st.value.args[1]))
        if last is None:
            raise TranslateError(f"murmur3 case {case}: no final xor with tail[i]")
        if krot != [c["mm_rot_k"]]:
            raise TranslateError(f"murmur3 case {case}: tail rotation {krot} differs from the block loop's")
        mtails[case] = (pairs, last)
    c["mm_tails"] = mtails
    return c


def other_constants():
    c = {}
    src, tree = _parse(os.path.join(REPO, "sketchnu", "countmin.py"))
    r = sorted(set(_int_consts(_func(tree, "_rand"))))
    c["rand_literals"] = r
    src2, tree2 = _parse(os.path.join(REPO, "sketchnu", "hyperloglog.py"))
    q = _func(tree2, "_query")
    c["hll_query_ints"] = _int_consts(q)
    init = None
    for n in ast.walk(tree2):
        if isinstance(n, ast.ClassDef) and n.name == "HyperLogLog":
            for m in n.body:
                if isinstance(m, ast.FunctionDef) and m.name == "__init__":
                    init = m
    if init is None:
        raise TranslateError("HyperLogLog.__init__ not found")
    floats = []
    for n in ast.walk(init):
        if isinstance(n, ast.Constant) and isinstance(n.value, float):
            floats.append((n.lineno, n.col_offset, ast.get_source_segment(src2, n)))
    floats.sort()
    c["hll_init_floats"] = [f for _, _, f in floats]
    c["hll_init_ints"] = _int_consts(init)
    return c


ATTR_ENUM = {"width": ".width", "depth": ".depth", "uint_maxval": ".uintMaxval", "max_count": ".maxCount", "num_reserved": ".numReserved",
             "p": ".p", "seed": ".seed", "max_key_len": ".maxKeyLen"}


def merge_attrs():
    """for each class: the attributes its merge() compares (`self.X != other.X or …`) before raising TypeError, in source order"""
    out = {}
    for mod, cls, name in (("countmin", "CountMinLinear", "mergeAttrsLinear"), ("countmin", "CountMinLog16", "mergeAttrsLog16"), ("countmin", "CountMinLog8", "mergeAttrsLog8"),
                           ("hyperloglog", "HyperLogLog", "mergeAttrsHll"), ("heavyhitters", "HeavyHitters", "mergeAttrsHH")):
        src, tree = _parse(os.path.join(REPO, "sketchnu", mod + ".py"))
        fn = None
        for n in ast.walk(tree):
            if isinstance(n, ast.ClassDef) and n.name == cls:
                for m in n.body:
                    if isinstance(m, ast.FunctionDef) and m.name == "merge":
                        fn = m
        if fn is None:
            raise TranslateError(f"{cls}.merge not found")
        guard = None
        for st in fn.body:
            if isinstance(st, ast.If) and st.body and isinstance(st.body[0], ast.Raise):
                exc = st.body[0].exc
                if isinstance(exc, ast.Call) and getattr(exc.func, "id", None) == "TypeError":
                    guard = st.test
                    break
            elif not (isinstance(st, ast.Expr) and isinstance(st.value, ast.Constant)):
                break  # anything before the guard other than the docstring: not the shape we model
        if guard is None:
            raise TranslateError(f"{cls}.merge: no leading `if …: raise TypeError`")
        terms = guard.values if isinstance(guard, ast.BoolOp) and isinstance(guard.op, ast.Or) else [guard]
        attrs = []
        for t in terms:
            ok = (isinstance(t, ast.Compare) and len(t.ops) == 1 and isinstance(t.ops[0], ast.NotEq)
                  and isinstance(t.left, ast.Attribute) and isinstance(t.left.value, ast.Name) and t.left.value.id == "self"
                  and isinstance(t.comparators[0], ast.Attribute) and isinstance(t.comparators[0].value, ast.Name)
                  and t.comparators[0].value.id == "other" and t.comparators[0].attr == t.left.attr)
            if not ok:
                raise TranslateError(f"{cls}.merge: unsupported comparison `{ast.unparse(t)}`")
            if t.left.attr not in ATTR_ENUM:
                raise TranslateError(f"{cls}.merge compares attribute `{t.left.attr}`, which is not a modelled merge parameter")
            attrs.append(ATTR_ENUM[t.left.attr])
        out[name] = attrs
    return out


def render_merge_attrs():
    L = ["/- GENERATED by harness/translate.py from the merge() methods of the current /repo source — do not edit. -/",
         "import Model.MergeAttr", "namespace Sketchnu.Gen", ""]
    errors = []
    try:
        ma = merge_attrs()
        for name, attrs in ma.items():
            L.append(f"def {name} : List Attr := [" + ", ".join(attrs) + "]")
    except TranslateError as e:
        errors.append(str(e))
        L.append(f"-- TRANSLATION FAILED: {e}\n-- (no definitions emitted: Model.MergeCheck and Properties/C15.lean no longer build)")
    L += ["", "end Sketchnu.Gen"]
    return "\n".join(L) + "\n", errors


def _lean_u64(v):
    return f"0x{v:016x}"


def render_constants(c, o):
    L = []
    A = L.append
    A("/- GENERATED by harness/translate.py from /repo/sketchnu/{hashes,countmin,hyperloglog}.py — do not edit. -/")
    A("namespace Sketchnu.Gen")
    A("")
    for k in ("fh_m", "fh_mix_mul"):
        A(f"def {k} : UInt64 := {_lean_u64(c[k])}")
    for k in ("fh_shift_a", "fh_shift_b", "fh32_shift"):
        A(f"def {k} : UInt64 := {c[k]}")
    A("/-- unrolled tail of fasthash64: for `switch_case == n`, the `(index, shift)` pairs of the")
    A("    `_xor_shiftl(v, tail[index], shift)` calls in source order, then the index of the final `v ^= tail[i]` -/")
    for n in range(1, 8):
        pairs, last = c["fh_tails"][n]
        ps = ", ".join(f"({i}, {s})" for i, s in pairs)
        A(f"def fh_tail_{n} : List (Nat × UInt64) × Nat := ([{ps}], {last})")
    for k in ("mm_c1", "mm_c2", "mm_c3", "mm_fmix_mul_a", "mm_fmix_mul_b"):
        A(f"def {k} : UInt32 := 0x{c[k]:08x}")
    for k in ("mm_fmix_shift_a", "mm_fmix_shift_b", "mm_fmix_shift_c", "mm_rot_k", "mm_rot_h", "mm_h_mul"):
        A(f"def {k} : UInt32 := {c[k]}")
    for n in range(1, 4):
        pairs, last = c["mm_tails"][n]
        ps = ", ".join(f"({i}, {s})" for i, s in pairs)
        A(f"def mm_tail_{n} : List (Nat × UInt32) × Nat := ([{ps}], {last})")
    A("")
    A(f"/-- integer literals of `_rand` (sorted, distinct) -/")
    A(f"def rand_literals : List Nat := {o['rand_literals']}")
    A(f"/-- integer literals of `hyperloglog._query` in source order (`n_zero > 0`, `5 * m`) -/")
    A(f"def hll_query_ints : List Nat := {o['hll_query_ints']}")
    A(f"/-- float literals of `HyperLogLog.__init__` as written (alpha = 0.7213 / (1.0 + 1.079 / m)) -/")
    A("def hll_init_floats : List String := [" + ", ".join(json.dumps(s) for s in o["hll_init_floats"]) + "]")
    A(f"def hll_init_ints : List Nat := {o['hll_init_ints']}")
    A("")
    A("end Sketchnu.Gen")
    return "\n".join(L) + "\n"


def hll_tables():
    path = os.path.join(REPO, "sketchnu", "hll_constants.py")
    src, tree = _parse(path)
    out = {}
    for node in tree.body:
        if isinstance(node, ast.Assign) and len(node.targets) == 1 and isinstance(node.targets[0], ast.Name):
            name = node.targets[0].id
            if name in ("sub_algorithm_threshold", "raw_estimate", "bias_data"):
                call = node.value
                if not (isinstance(call, ast.Call) and call.args):
                    raise TranslateError(f"{name}: expected np.array([...])")
                lit = call.args[0]
                out[name] = (lit, src)
    for name in ("sub_algorithm_threshold", "raw_estimate", "bias_data"):
        if name not in out:
            raise TranslateError(f"{name} not found in hll_constants.py")

    def dec(n, src):
        seg = ast.get_source_segment(src, n)
        return Decimal(seg.replace("_", ""))

    lit, src = out["sub_algorithm_threshold"]
    thr = [int(dec(e, src)) for e in lit.elts]
    rows = {}
    for name in ("raw_estimate", "bias_data"):
        lit, src = out[name]
        rs = []
        for row in lit.elts:
            vals = []
            for e in row.elts:
                d = dec(e, src) * 100000
                if d != d.to_integral_value():
                    raise TranslateError(f"{name}: {e.lineno}: more than 5 decimals")
                vals.append(int(d))
            rs.append(vals)
        rows[name] = rs
    return thr, rows["raw_estimate"], rows["bias_data"]


def render_tables(thr, raw, bias):
    L = []
    A = L.append
    A("/- GENERATED by harness/translate.py from /repo/sketchnu/hll_constants.py — do not edit.")
    A("   Values are exact decimals scaled by 10^5. -/")
    A("namespace Sketchnu.Gen")
    A("")
    A(f"def hllThreshold : List Int := {thr}")
    for name, rows in (("hllRaw", raw), ("hllBias", bias)):
        for i, r in enumerate(rows):
            A(f"def {name}{i} : List Int := [" + ", ".join(str(v) for v in r) + "]")
        A(f"def {name} : List (List Int) := [" + ", ".join(f"{name}{i}" for i in range(len(rows))) + "]")
    A("")
    A("end Sketchnu.Gen")
    return "\n".join(L) + "\n"


class _Norm(ast.NodeTransformer):
    """normalise an AST for fingerprinting: drop docstrings"""

    def visit_FunctionDef(self, node):
        self.generic_visit(node)
        if node.body and isinstance(node.body[0], ast.Expr) and isinstance(getattr(node.body[0], "value", None), ast.Constant) and isinstance(node.body[0].value.value, str):
            node.body = node.body[1:] or [ast.Pass()]
        return node


def fingerprints():
    fp = {}
    for mod in ("hashes", "countmin", "hyperloglog", "heavyhitters", "helpers"):
        src, tree = _parse(os.path.join(REPO, "sketchnu", f"{mod}.py"))
        tree = _Norm().visit(tree)

        def rec(body, prefix):
            for n in body:
                if isinstance(n, ast.FunctionDef):
                    fp[f"{prefix}{n.name}"] = hashlib.sha256(ast.unparse(n).encode()).hexdigest()[:16]
                elif isinstance(n, ast.ClassDef):
                    rec(n.body, f"{prefix}{n.name}.")

        rec(tree.body, f"{mod}.")
    return fp


def _write_if_changed(path, text):
    os.makedirs(os.path.dirname(path), exist_ok=True)
    try:
        with open(path) as f:
            if f.read() == text:
                return False
    except FileNotFoundError:
        pass
    tmp = path + ".tmp%d" % os.getpid()
    with open(tmp, "w") as f:
        f.write(text)
    os.replace(tmp, path)
    return True


def run():
    """returns dict(changed=[...], fingerprints={...}); raises TranslateError"""
    changed = []
    c, section_errors = hash_constants()
    o = other_constants()
    if _write_if_changed(os.path.join(GEN, "Constants.lean"), render_constants(c, o)):
        changed.append("Constants.lean")
    thr, raw, bias = hll_tables()
    if _write_if_changed(os.path.join(GEN, "HllTables.lean"), render_tables(thr, raw, bias)):
        changed.append("HllTables.lean")
    text, merr = render_merge_attrs()
    if _write_if_changed(os.path.join(GEN, "MergeAttrs.lean"), text):
        changed.append("MergeAttrs.lean")
    import kernels
    kch, kerr = kernels.run()
    kerr = merr + kerr
    changed += kch
    import kernels2
    kch2, kerr2 = kernels2.run()
    kerr += kerr2
    changed += kch2
    import schema
    kch3, kerr3 = schema.run()
    kerr += kerr3
    changed += kch3
    import methods
    kch4, kerr4 = methods.run()
    kerr += kerr4
    changed += kch4
    import hashtr
    kch5, kerr5 = hashtr.run()
    kerr += kerr5
    changed += kch5
    import floattr
    kch6, kerr6 = floattr.run()
    kerr += kerr6
    changed += kch6
    kerr += [f"hashes.py section {k}: {v}" for k, v in section_errors.items()]
    return {"changed": changed, "fingerprints": fingerprints(), "kernel_errors": kerr, "section_errors": section_errors}


if __name__ == "__main__":
    try:
        r = run()
    except TranslateError as e:
        print("TRANSLATE-ERROR", e)
        sys.exit(3)
    print(json.dumps({"changed": r["changed"], "n_fingerprints": len(r["fingerprints"]), "kernel_errors": r["kernel_errors"]}))
