"""
floattr.py — the float code of the log counters, translated as it reads (source → Lean `Float` programs, on every run).

`kernels2.py` renders `_merge_log16/8` with the body of the innermost loop as a function parameter (`merge_cell`).  This translator renders
that body itself, and `_counter2value`, over Lean's `Float` (IEEE binary64, the same operations: + − × ÷, `pow`, `log`, conversions), typed
the way Numba types it from the explicit `@njit` signatures:

  * a parameter / array element has the type its signature gives it (`uint8`, `uint16`, `uint64`, `float64`);
  * `uintN(x)` of a float is `x.toUInt64.toNat % 2^N`, of an integer `x % 2^N` (nothing when it already fits);
  * unsigned + unsigned is computed in 64 bits (no wrap below 2^64 — the operands here are < 2^17);
  * an argument is converted to the callee's declared parameter type (`_counter2value(uint16, uint16, float64)`), a stored value to
    the array's element type;
  * integer − integer is accepted only under a guard that makes it non-negative (the else-branch of `a <= b` for `a − b`);
  * an integer meeting a float is converted with `Float.ofNat`.

Output: `Model/Generated/FloatCells.lean` (`Src.counter2value`, `Src.merge_log16_cell`, `Src.merge_log8_cell`, and the two float helpers of the
HyperLogLog estimator, `Src.linear_counting`, `Src.estimation_function` — a `for r in registers: total += …` loop is a left fold over the register list);
`Properties/SrcFloat.lean` proves them equal to the hand-written float mirror (`counter2valueF`, `mergeLogCellF`) that the driver
evaluates in the bit-for-bit correspondence.  Anything outside the listed forms is a translation error.
"""
import ast
import os

from translate import TranslateError, REPO, GEN, _parse, _write_if_changed

UINTS = {"uint8": 8, "uint16": 16, "uint32": 32, "uint64": 64}


def _sig_types(fn):
    """parameter types from the explicit @njit signature: list of 'f' | ('u', bits) | ('arr', bits) | other"""
    for d in fn.decorator_list:
        if isinstance(d, ast.Call) and ast.unparse(d.func) in ("njit", "jit") and d.args:
            sig = d.args[0]
            if isinstance(sig, ast.Call):
                out = []
                for a in sig.args:
                    out.append(_ty(a))
                return out, _ty(sig.func) if not ast.unparse(sig.func).startswith("types.") else None
    raise TranslateError(f"{fn.name}: no explicit @njit signature")


def _ty(n):
    s = ast.unparse(n)
    if s == "float64":
        return "f"
    if s in UINTS:
        return ("u", UINTS[s])
    if isinstance(n, ast.Subscript) and ast.unparse(n.value) in UINTS:
        return ("arr", UINTS[ast.unparse(n.value)])
    if isinstance(n, ast.Subscript) and ast.unparse(n.value) == "float64":
        return ("arrf",)
    return ("other", s)


class FT:
    def __init__(self, fname, env, callee_sigs, cell=None):
        self.fname, self.env, self.sigs, self.cell = fname, dict(env), callee_sigs, cell
        self.facts = []  # (a, b) meaning b < a is known (so a - b is a natural subtraction)

    def err(self, msg):
        raise TranslateError(f"{self.fname}: {msg}")

    def to_f(self, e, t):
        if t == "f":
            return e
        if t == "lit":
            return f"{e}.0" if "." not in e else e
        if isinstance(t, tuple) and t[0] == "u":
            return f"(Float.ofNat {e})"
        self.err(f"cannot convert {t} to float")

    def cast_u(self, e, t, bits):
        """value `e` of type `t` converted to an unsigned integer of `bits` bits"""
        if t == "f":
            return f"((Float.toUInt64 {e}).toNat % {2 ** bits})"
        if t == "lit":
            return e
        if isinstance(t, tuple) and t[0] == "u":
            return e if t[1] <= bits else f"({e} % {2 ** bits})"
        self.err(f"cannot convert {t} to uint{bits}")

    def expr(self, n):
        if isinstance(n, ast.Constant):
            if isinstance(n.value, bool):
                self.err("boolean constant")
            if isinstance(n.value, int):
                return str(n.value), "lit"
            if isinstance(n.value, float):
                return repr(n.value), "f"
        if isinstance(n, ast.Name):
            if n.id not in self.env:
                self.err(f"name `{n.id}` is not defined here")
            return n.id, self.env[n.id]
        if isinstance(n, ast.Subscript):
            if self.cell is None:
                self.err(f"subscript `{ast.unparse(n)}`")
            key = ast.unparse(n)
            if key not in self.cell:
                self.err(f"array access `{key}` is not one of the two cells")
            return self.cell[key]
        if isinstance(n, ast.UnaryOp) and isinstance(n.op, ast.USub):
            e, t = self.expr(n.operand)
            if t != "f":
                self.err(f"negation of a non-float `{ast.unparse(n)}`")
            return f"(-{e})", "f"
        if isinstance(n, ast.Call):
            f = ast.unparse(n.func)
            if n.keywords:
                self.err("keyword arguments")
            if f in UINTS and len(n.args) == 1:
                e, t = self.expr(n.args[0])
                return self.cast_u(e, t, UINTS[f]), ("u", UINTS[f])
            if f == "float64" and len(n.args) == 1:
                e, t = self.expr(n.args[0])
                return self.to_f(e, t), "f"
            if f == "np.log" and len(n.args) == 1:
                e, t = self.expr(n.args[0])
                if t != "f":
                    self.err("np.log of a non-float")
                return f"(Float.log {e})", "f"
            if f in self.sigs:
                lean, ptys, rty = self.sigs[f]
                if len(ptys) != len(n.args):
                    self.err(f"call `{ast.unparse(n)}`: arity")
                parts = [lean]
                for a, pt in zip(n.args, ptys):
                    e, t = self.expr(a)
                    if pt == "f":
                        parts.append(self.to_f(e, t))
                    elif pt[0] == "u":
                        parts.append(self.cast_u(e, t, pt[1]))
                    else:
                        self.err(f"parameter type {pt}")
                return "(" + " ".join(parts) + ")", rty
            self.err(f"unsupported call `{ast.unparse(n)}`")
        if isinstance(n, ast.BinOp):
            l, lt = self.expr(n.left)
            r, rt = self.expr(n.right)
            if "f" in (lt, rt):
                lf, rf = self.to_f(l, lt), self.to_f(r, rt)
                if isinstance(n.op, ast.Pow):
                    return f"(Float.pow {lf} {rf})", "f"
                ops = {ast.Add: "+", ast.Sub: "-", ast.Mult: "*", ast.Div: "/"}
                if type(n.op) not in ops:
                    self.err(f"unsupported float operation `{ast.unparse(n)}`")
                return f"({lf} {ops[type(n.op)]} {rf})", "f"
            # integers
            if isinstance(n.op, ast.Add):
                return f"({l} + {r})", ("u", 64)
            if isinstance(n.op, ast.Pow) and rt == "lit":
                return f"({l} ^ {r})", ("u", 64)
            if isinstance(n.op, ast.Sub):
                if (l, r) in self.facts:
                    return f"({l} - {r})", ("u", 64)
                self.err(f"integer subtraction `{ast.unparse(n)}` is not guarded (it may be negative)")
            self.err(f"unsupported integer operation `{ast.unparse(n)}`")
        self.err(f"unsupported expression `{ast.unparse(n)}`")

    def test(self, n):
        """(lean proposition, fact-if-false)"""
        if not (isinstance(n, ast.Compare) and len(n.ops) == 1):
            self.err(f"unsupported condition `{ast.unparse(n)}`")
        l, lt = self.expr(n.left)
        r, rt = self.expr(n.comparators[0])
        ops = {ast.LtE: "≤", ast.GtE: "≥", ast.Lt: "<", ast.Gt: ">"}
        if type(n.ops[0]) not in ops:
            self.err(f"unsupported comparison `{ast.unparse(n)}`")
        op = ops[type(n.ops[0])]
        if "f" in (lt, rt):
            return f"{self.to_f(l, lt)} {op} {self.to_f(r, rt)}", None
        fact = (l, r) if isinstance(n.ops[0], ast.LtE) else None  # not (l ≤ r)  ⇒  r < l
        return f"{l} {op} {r}", fact

    def block(self, stmts, ind, mode, store=None):
        """mode 'ret': the value is the returned float; mode 'cell': the value is what is stored into the cell (element width `store`)"""
        stmts = [s for s in stmts if not (isinstance(s, ast.Expr) and isinstance(s.value, ast.Constant))]
        code = ""
        for i, s in enumerate(stmts):
            last = i == len(stmts) - 1
            if isinstance(s, ast.Assign) and len(s.targets) == 1 and isinstance(s.targets[0], ast.Name):
                e, t = self.expr(s.value)
                if t == "lit":
                    t = ("u", 64)
                nm = s.targets[0].id
                self.env[nm] = t
                self.facts = [f for f in self.facts if nm not in f]
                code += f"{ind}let {nm} := {e}\n"
            elif isinstance(s, ast.For) and isinstance(s.target, ast.Name) and isinstance(s.iter, ast.Name) and not s.orelse \
                    and isinstance(self.env.get(s.iter.id), tuple) and self.env[s.iter.id][0] == "arr" and len(s.body) == 1 \
                    and isinstance(s.body[0], ast.AugAssign) and isinstance(s.body[0].op, ast.Add) and isinstance(s.body[0].target, ast.Name) \
                    and self.env.get(s.body[0].target.id) == "f":
                acc, it = s.body[0].target.id, s.target.id
                save = dict(self.env)
                self.env[it] = ("u", self.env[s.iter.id][1])
                e, t = self.expr(s.body[0].value)
                self.env = save
                code += f"{ind}let {acc} := {s.iter.id}.foldl (fun {acc} {it} => ({acc} + {self.to_f(e, t)})) {acc}\n"
            elif isinstance(s, ast.If) and last:
                c, fact = self.test(s.test)
                save_env, save_facts = dict(self.env), list(self.facts)
                a = self.block(s.body, ind + "  ", mode, store)
                self.env, self.facts = dict(save_env), list(save_facts) + ([fact] if fact else [])
                if not s.orelse:
                    self.err("`if` without `else` at the end of a block")
                b = self.block(s.orelse, ind + "  ", mode, store)
                self.env, self.facts = save_env, save_facts
                return code + f"{ind}if {c} then\n{a}{ind}else\n{b}"
            elif mode == "ret" and isinstance(s, ast.Return) and last and s.value is not None:
                e, t = self.expr(s.value)
                return code + f"{ind}{self.to_f(e, t)}\n"
            elif mode == "cell" and isinstance(s, ast.Assign) and last and len(s.targets) == 1 and isinstance(s.targets[0], ast.Subscript):
                if ast.unparse(s.targets[0]) != self.cell["__target__"]:
                    self.err(f"store into `{ast.unparse(s.targets[0])}`")
                e, t = self.expr(s.value)
                return code + f"{ind}{self.cast_u(e, t, store)}\n"
            else:
                self.err(f"unsupported statement `{ast.unparse(s)[:70]}`")
        self.err("a path ends without a result")


def translate_all():
    out, errors = {}, []
    tree = _parse(os.path.join(REPO, "sketchnu", "countmin.py"))[1]
    fns = {n.name: n for n in tree.body if isinstance(n, ast.FunctionDef)}
    sigs = {}
    # _counter2value
    try:
        fn = fns.get("_counter2value")
        if fn is None:
            raise TranslateError("_counter2value not found")
        ptys, rty = _sig_types(fn)
        names = [a.arg for a in fn.args.args]
        if rty != "f" or len(ptys) != len(names):
            raise TranslateError("_counter2value: unexpected signature")
        tr = FT("_counter2value", dict(zip(names, ptys)), {})
        body = tr.block(fn.body, "  ", "ret")
        args = " ".join(f"({n} : {'Float' if t == 'f' else 'Nat'})" for n, t in zip(names, ptys))
        out["counter2value"] = (f"/-- `countmin._counter2value` as it reads, over `Float`; signature " + ast.unparse(fn.decorator_list[0].args[0]) + " -/\n"
                                f"def counter2value {args} : Float :=\n{body}")
        sigs["_counter2value"] = ("Src.counter2value", ptys, "f")
    except TranslateError as e:
        errors.append(f"counter2value: {e}")
        out["counter2value"] = f"-- TRANSLATION FAILED for counter2value: {e}\n"
    for py, lean in (("_merge_log16", "merge_log16_cell"), ("_merge_log8", "merge_log8_cell")):
        try:
            fn = fns.get(py)
            if fn is None:
                raise TranslateError(f"{py} not found")
            if "_counter2value" not in sigs:
                raise TranslateError("needs _counter2value")
            ptys, _ = _sig_types(fn)
            names = [a.arg for a in fn.args.args]
            env = dict(zip(names, ptys))
            fors = [n for n in ast.walk(fn) if isinstance(n, ast.For)]
            inner = [f for f in fors if not any(isinstance(x, ast.For) for b in f.body for x in ast.walk(b))]
            if len(inner) != 1:
                raise TranslateError(f"{py}: expected one innermost loop")
            inner = inner[0]
            outer = [f for f in fors if f is not inner and any(x is inner for x in ast.walk(f))]
            if len(outer) != 1:
                raise TranslateError(f"{py}: expected a two-level loop nest")
            row, col = outer[0].target.id, inner.target.id
            if env.get("cms", (None,))[0] != "arr" or env.get("other_cms", (None,))[0] != "arr":
                raise TranslateError(f"{py}: cms / other_cms are not integer arrays in the signature")
            cell = {f"cms[{row}, {col}]": ("a", ("u", env["cms"][1])), f"other_cms[{row}, {col}]": ("b", ("u", env["other_cms"][1])), "__target__": f"cms[{row}, {col}]"}
            scal = {n: t for n, t in env.items() if t == "f" or (isinstance(t, tuple) and t[0] == "u")}
            tr = FT(py, scal, sigs, cell)
            body = tr.block(inner.body, "  ", "cell", env["cms"][1])
            used = {x.id for b in inner.body for x in ast.walk(b) if isinstance(x, ast.Name)}
            params = [n for n in names if n in scal and n in used]
            args = " ".join(f"({n} : {'Float' if scal[n] == 'f' else 'Nat'})" for n in params)
            out[lean] = (f"/-- the body of the innermost loop of `countmin.{py}` as it reads, over `Float`: the new value of `cms[{row}, {col}]` from `a = cms[{row}, {col}]`, "
                         f"`b = other_cms[{row}, {col}]` (element type uint{env['cms'][1]}) and the scalar parameters {params} -/\n"
                         f"def {lean} (a b : Nat) {args} : Nat :=\n{body}")
        except TranslateError as e:
            errors.append(f"{lean}: {e}")
            out[lean] = f"-- TRANSLATION FAILED for {lean}: {e}\n"
    # hyperloglog: the two float helpers of the estimator
    htree = _parse(os.path.join(REPO, "sketchnu", "hyperloglog.py"))[1]
    hfns = {n.name: n for n in htree.body if isinstance(n, ast.FunctionDef)}
    for py, lean in (("_linear_counting", "linear_counting"), ("_estimation_function", "estimation_function")):
        try:
            fn = hfns.get(py)
            if fn is None:
                raise TranslateError(f"{py} not found")
            ptys, rty = _sig_types(fn)
            names = [a.arg for a in fn.args.args]
            if rty != "f" or len(ptys) != len(names):
                raise TranslateError(f"{py}: unexpected signature")
            tr = FT(py, dict(zip(names, ptys)), {})
            body = tr.block(fn.body, "  ", "ret")
            lty = lambda t: "Float" if t == "f" else ("List Nat" if isinstance(t, tuple) and t[0] == "arr" else "Nat")
            args = " ".join(f"({n} : {lty(t)})" for n, t in zip(names, ptys))
            out[lean] = (f"/-- `hyperloglog.{py}` as it reads, over `Float`; signature " + ast.unparse(fn.decorator_list[0].args[0]) + " -/\n"
                         f"def {lean} {args} : Float :=\n{body}")
        except TranslateError as e:
            errors.append(f"{lean}: {e}")
            out[lean] = f"-- TRANSLATION FAILED for {lean}: {e}\n"
    return out, errors


def run():
    defs, errors = translate_all()
    changed = []
    for fname, names, what in (("FloatCells.lean", ("counter2value", "merge_log16_cell", "merge_log8_cell"),
                                "The float code of the log counters (`_counter2value`, the cell body of `_merge_log16/8`) as Lean `Float` programs."),
                               ("FloatHll.lean", ("linear_counting", "estimation_function"),
                                "The float helpers of the HyperLogLog estimator (`_linear_counting`, `_estimation_function`) as Lean `Float` programs.")):
        L = ["/- GENERATED by harness/floattr.py from the current /repo source — do not edit.", f"   {what} -/", "namespace Sketchnu.Src", ""]
        for n in names:
            L.append(defs[n])
        L.append("end Sketchnu.Src")
        if _write_if_changed(os.path.join(GEN, fname), "\n".join(L) + "\n"):
            changed.append(fname)
    return changed, errors


if __name__ == "__main__":
    d, e = translate_all()
    for v in d.values():
        print(v)
    print(e)
