"""
props.py — one `check_Cxx(tier, seed)` per property: which Lean theorems must check, which
correspondence slices run, which oracle decides a concrete violation, and the failing-input
search used when a proof obligation or the correspondence breaks.
"""
import json
import os
import sys
import time

import core
from core import Result, finish, lean_check, log, rng_for

QUICK = "quick"


def _sig(c):
    return c.get("signature")


def replay_generic(pid, rp):
    """re-run the recorded failing cases on the real code with the property's oracle"""
    print(json.dumps({k: rp.get(k) for k in ("property", "kind", "no_longer_checks")}, indent=1, default=str))
    fails = rp.get("failing") or []
    if not fails:
        print("replay names the theorem / correspondence that no longer checks; no concrete input recorded")
        return 1
    fn = globals().get("rerun_" + pid)
    if fn is None:
        print(json.dumps(fails[0], indent=1, default=str)[:3000])
        return 1
    bad = 0
    for f in fails:
        r = fn(f)
        print(("STILL FAILS: " if r else "passes now: ") + str(f.get("what")))
        bad += 1 if r else 0
    return 1 if bad else 0


# =============================================================================== linear count-min


def _cms_linear(pid, tier, seed, kinds, n_quick, n_thorough, exh_quick, exh_thorough, rule, assumptions, extra_search_props=None):
    import slice_cms

    res = Result(pid, tier, seed)
    res.rule = rule
    lean = lean_check(pid)
    rng = rng_for(seed, pid + "/cms")
    n = n_quick if tier == QUICK else n_thorough
    budget = 30 if tier == QUICK else 420
    slice_cms.run_slice(res, rng, tier, {pid}, kinds, n, budget, exhaustive_len=exh_quick if tier == QUICK else exh_thorough)
    res.exhaustive = False

    def search():
        r2 = Result(pid, tier, seed)
        rng2 = rng_for(seed, pid + "/search")
        slice_cms.run_slice(r2, rng2, "thorough", {pid}, set(), 4000, 240 if tier == QUICK else 900,
                            exhaustive_len=3 if tier == QUICK else 4, label="search")
        res.notes.append(f"search ran {r2.evaluations} extra cases on the real code")
        return r2.oracle_failures

    return finish(res, lean, "proof", search, _sig, assumptions=assumptions)


def rerun_cms(pid):
    def f(fail):
        import slice_cms

        run = slice_cms.LinearRun(fail["case"], rng_for(0, "replay")).run()
        return bool(run.oracle_failures({pid}))

    return f


rerun_C01 = rerun_cms("C01")
rerun_C05 = rerun_cms("C05")
rerun_C09 = rerun_cms("C09")
rerun_C18 = rerun_cms("C18")


def check_C01(tier, seed):
    return _cms_linear(
        "C01", tier, seed, {"contract", "qkernel", "ocross"}, 400, 6000, 2, 3,
        rule="random histories (5-60 ops: add/update/dict/add_ngram/merge/save-load on 1-4 CountMinLinear sketches, widths 1-64, depths 1-8, "
             "NUL/high-byte/empty keys, multiplicities incl. 2^32-1±3, 2^32, 2^40 and distance-to-ceiling±1) plus ALL histories of length ≤ L over a 3-key "
             "alphabet (2 sketches, width 2, values {1, 2^32-2}); a case is distinct by its resolved op list and non-trivial when ≥ 1 cell is shared by ≥ 2 keys "
             "or a counter reached the ceiling. Compared: Lean addOKb/mergeOKb on the real before/after tables, Lean tquery of the real table vs real query(), "
             "Lean trueCount/cellLoad vs the Python oracle, and true ≤ estimate ≤ collision bound on the real estimates.",
        assumptions=["hash is a parameter of the theorems: columns are observed from a probe sketch", "uint64 overflow of n_added (> 2^64) outside the model"],
    )
