"""
props.py — one `check_Cxx(tier, seed)` per property: which Lean theorems must check, which
correspondence slices run, which oracle decides a concrete violation, and the failing-input
search used when a proof obligation or the correspondence breaks.
"""
import json
import os
import sys
import time

import core
from core import Result, finish, lean_check, log, rng_for

QUICK = "quick"


def _sig(c):
    return c.get("signature")


def replay_generic(pid, rp):
    """re-run the recorded failing cases on the real code with the property's oracle"""
    print(json.dumps({k: rp.get(k) for k in ("property", "kind", "no_longer_checks")}, indent=1, default=str))
    fails = rp.get("failing") or []
    if not fails:
        print("replay names the theorem / correspondence that no longer checks; no concrete input recorded")
        return 1
    fn = globals().get("rerun_" + pid)
    if fn is None:
        print(json.dumps(fails[0], indent=1, default=str)[:3000])
        return 1
    bad = 0
    for f in fails:
        r = fn(f)
        print(("STILL FAILS: " if r else "passes now: ") + str(f.get("what")))
        bad += 1 if r else 0
    return 1 if bad else 0


# =============================================================================== linear count-min


def _cms_linear(pid, tier, seed, kinds, n_quick, n_thorough, exh_quick, exh_thorough, rule, assumptions, extra_search_props=None):
    import slice_cms

    res = Result(pid, tier, seed)
    res.rule = rule
    lean = lean_check(pid)
    rng = rng_for(seed, pid + "/cms")
    n = n_quick if tier == QUICK else n_thorough
    budget = 30 if tier == QUICK else 420
    slice_cms.run_slice(res, rng, tier, {pid}, kinds, n, budget, exhaustive_len=exh_quick if tier == QUICK else exh_thorough)
    res.exhaustive = False

    def search():
        r2 = Result(pid, tier, seed)
        rng2 = rng_for(seed, pid + "/search")
        slice_cms.run_slice(r2, rng2, "thorough", {pid}, set(), 4000, 240 if tier == QUICK else 900,
                            exhaustive_len=3 if tier == QUICK else 4, label="search")
        res.notes.append(f"search ran {r2.evaluations} extra cases on the real code")
        return r2.oracle_failures

    return finish(res, lean, "proof", search, _sig, assumptions=assumptions)


def rerun_cms(pid):
    def f(fail):
        import slice_cms

        run = slice_cms.LinearRun(fail["case"], rng_for(0, "replay")).run()
        return bool(run.oracle_failures({pid}))

    return f


rerun_C01 = rerun_cms("C01")
rerun_C05 = rerun_cms("C05")
rerun_C09 = rerun_cms("C09")
rerun_C18 = rerun_cms("C18")


def check_C01(tier, seed):
    return _cms_linear(
        "C01", tier, seed, {"contract", "qkernel", "ocross"}, 400, 6000, 2, 3,
        rule="random histories (5-60 ops: add/update/dict/add_ngram/merge/save-load on 1-4 CountMinLinear sketches, widths 1-64, depths 1-8, "
             "NUL/high-byte/empty keys, multiplicities incl. 2^32-1±3, 2^32, 2^40 and distance-to-ceiling±1) plus ALL histories of length ≤ L over a 3-key "
             "alphabet (2 sketches, width 2, values {1, 2^32-2}); a case is distinct by its resolved op list and non-trivial when ≥ 1 cell is shared by ≥ 2 keys "
             "or a counter reached the ceiling. Compared: Lean addOKb/mergeOKb on the real before/after tables, Lean tquery of the real table vs real query(), "
             "Lean trueCount/cellLoad vs the Python oracle, and true ≤ estimate ≤ collision bound on the real estimates.",
        assumptions=["hash is a parameter of the theorems: columns are observed from a probe sketch", "uint64 overflow of n_added (> 2^64) outside the model"],
    )


# =============================================================================== C02 HyperLogLog state


def check_C02(tier, seed):
    import slice_hll

    res = Result("C02", tier, seed)
    res.rule = ("random histories of add/update/dict/add_ngram/merge/self-merge on 1-5 HyperLogLog sketches (p 7..16, seeds incl. 0, 2^32-1, 2^32, 2^63, 2^64-1), "
                "keys from the NUL/high-byte alphabet plus constructed 8-byte FastHash preimages for chosen rank (1..64-p+1) and register index (0, m-1, random); registers after "
                "every op compared with the Lean model (which computes FastHash itself); oracle: registers and query() equal those of a fresh real sketch fed the distinct keys, "
                "and registers = max rank per index under an independent Python reference hash; plus exhaustively all orderings × all 2-way partitions (with duplicates) of key sets "
                "of size ≤ 4. Distinct by case content; non-trivial when two keys share a register or a rank ≥ 20 is reached.")
    lean = lean_check("C02")
    rng = rng_for(seed, "C02")
    slice_hll.run_slice(res, rng, tier, 250 if tier == QUICK else 4000, 25 if tier == QUICK else 300)
    slice_hll.exhaustive_small(res, rng)

    def search():
        r2 = Result("C02", tier, seed)
        slice_hll.run_slice(r2, rng_for(seed, "C02/search"), "thorough", 100000, 200 if tier == QUICK else 600)
        res.notes.append(f"search ran {r2.evaluations} extra cases")
        return r2.oracle_failures

    return finish(res, lean, "proof", search, _sig,
                  assumptions=["theorems hold for an arbitrary hash H : K → Nat; the concrete FastHash is tied by C11 and by this full-stack slice"])


def rerun_C02(fail):
    import slice_hll

    case = fail["case"]
    if "ops" not in case:
        return True
    return bool(slice_hll.run_case(case)[1])


# =============================================================================== C11 hashes


def check_C11(tier, seed):
    import slice_hash

    res = Result("C11", tier, seed)
    res.rule = ("keys of length 0..257 (every len%8 / len%4 tail × 0,1,≥2 blocks), bytes biased to 00/7f/80/ff, produced plainly / by slicing at offsets 0..8 / bytes(bytearray) / "
                "concatenation; seeds {0,1,2^32-1,2^32,2^63,2^64-1,random}; real fasthash64/fasthash32/murmur3 compared with Lean Impl.* (constants generated from the source) "
                "and Lean Ref.* (published constants); model-independent oracle = Python transcription of fasthash.c / MurmurHash3_x86_32. Distinct by "
                "(len%8, blocks≥1, blocks≥2, len%4, last byte, construction, min(len,70)).")
    lean = lean_check("C11")
    rng = rng_for(seed, "C11")
    slice_hash.run_slice(res, rng, tier, 25 if tier == QUICK else 240)
    if tier != QUICK:
        # a second interpreter with another PYTHONHASHSEED must agree on a sample
        import subprocess
        code = ("import sys,warnings;warnings.simplefilter('ignore');sys.path.insert(0,%r);import numpy as np;from sketchnu import fasthash64;"
                "print([int(fasthash64(bytes(range(i)),np.uint64(7))) for i in range(40)])" % core.REPO)
        outs = []
        for hs in ("1", "12345"):
            p = subprocess.run([sys.executable, "-c", code], capture_output=True, text=True, env={**os.environ, "PYTHONHASHSEED": hs}, timeout=300)
            outs.append(p.stdout.strip().splitlines()[-1] if p.stdout.strip() else p.stderr[-200:])
        from slice_hash import ref_fasthash64
        want = str([ref_fasthash64(bytes(range(i)), 7) for i in range(40)])
        for o in outs:
            if o != want:
                res.oracle_failures.append({"what": "fasthash64 differs in a second interpreter process", "key": "", "seed": 7, "fn": "fasthash64"})
        res.count("second_interpreter_runs", 2)

    def search():
        r2 = Result("C11", tier, seed)
        slice_hash.run_slice(r2, rng_for(seed, "C11/search"), "thorough", 200)
        res.notes.append(f"search ran {r2.evaluations} extra keys")
        return r2.oracle_failures

    return finish(res, lean, "proof", search, _sig,
                  assumptions=["Ref.* is a hand transcription of the published C sources, anchored by the C++-derived vectors of tests/test_hashes.py and the standard Murmur3 vectors (decide)",
                               "little-endian platform"])


def rerun_C11(fail):
    import slice_hash

    return slice_hash.rerun(fail)


# =============================================================================== heavy hitters C03 C04 C13

HH_RULE = ("random histories (4-60 ops: add/update/dict/add_ngram/merge/save-load/query on 1-4 HeavyHitters sketches, widths 1-16 (40% ≤ 2), depths 1-4, max_key_len 1-16, "
           "keys incl. b'', all-NUL, (k, k+NUL) pairs, over-long keys sharing a prefix, values incl. 0, current count ±1, distance-to-ceiling ±1, ≥ 2^32); after every op the cells "
           "(key identity, length, count, clean padding), bookkeeping, hh[k] and every query answer are compared with the Lean model, and the property oracles are evaluated on the "
           "real values for every key identity; distinct by resolved op list, non-trivial when two added keys share a cell. ")


def _hh(pid, tier, seed, extra=None, assumptions=None):
    import slice_hh

    res = Result(pid, tier, seed)
    res.rule = HH_RULE + (extra or "")
    lean = lean_check(pid)
    rng = rng_for(seed, pid + "/hh")
    slice_hh.run_slice(res, rng, tier, [pid], 300 if tier == QUICK else 5000, 28 if tier == QUICK else 400)
    if pid in ("C03", "C04"):
        slice_hh.exhaustive_width1(res, rng, 4 if tier == QUICK else 6)
        res.oracle_failures = [f for f in res.oracle_failures if f.get("pid", pid) == pid]

    def search():
        r2 = Result(pid, tier, seed)
        slice_hh.run_slice(r2, rng_for(seed, pid + "/search"), "thorough", [pid], 100000, 200 if tier == QUICK else 600, label="search")
        res.notes.append(f"search ran {r2.evaluations} extra cases")
        return [f for f in r2.oracle_failures if f.get("pid", pid) == pid]

    return finish(res, lean, "proof", search, _sig, assumptions=assumptions or [])


def check_C03(tier, seed):
    return _hh("C03", tier, seed, "Exhaustive: all sequences of ≤ L weighted adds over {b'a', b'a\\0', b'\\0'} in a width-1 sketch × partitions.",
               ["key identity = first max_key_len bytes (padKey_inj); hh[key] for keys longer than max_key_len raises ValueError on the real code and is observed at identities only"])


def check_C04(tier, seed):
    return _hh("C04", tier, seed, "Exhaustive: all orderings of small weighted multisets in a width-1 sketch with 2-way partitions and merge.",
               ["absent 32-bit saturation = total multiplicity ≤ 2^32-1 (hypothesis NoSat of the theorems; the oracle is applied only to such histories)"])


def check_C13(tier, seed):
    return _hh("C13", tier, seed, "Queries use k ∈ {1,2,3,5,∞} and thresholds None/0/1/small/2^32-1/'same as last' so that both the cache-hit and the cache-miss path are taken "
               "(counted in branch_counters); every answer is also compared with HeavyHitters.load(save()).query(...).",
               ["Counter.most_common is modelled as a stable descending sort (insertion order = row-major scan)",
                "default threshold floor(phi*n_added) computed in the model with Lean Float (IEEE multiply)"])


def _rerun_hh(pid):
    def f(fail):
        import slice_hh

        case = fail.get("case", {})
        if "ops" not in case:
            return True
        run = slice_hh.HHRun(case, rng_for(0, "replay")).run()
        return any(x.get("pid", pid) == pid for x in run.fails)

    return f


rerun_C03 = _rerun_hh("C03")
rerun_C04 = _rerun_hh("C04")
rerun_C13 = _rerun_hh("C13")
