"""
props.py — one `check_Cxx(tier, seed)` per property: which Lean theorems must check, which
correspondence slices run, which oracle decides a concrete violation, and the failing-input
search used when a proof obligation or the correspondence breaks.
"""
import json
import math
import os
import sys
import time

import core
from core import Result, finish, lean_check, log, rng_for

QUICK = "quick"


def _sig(c):
    return c.get("signature")


def replay_generic(pid, rp):
    """re-run the recorded failing cases on the real code with the property's oracle"""
    print(json.dumps({k: rp.get(k) for k in ("property", "kind", "no_longer_checks")}, indent=1, default=str))
    fails = rp.get("failing") or []
    if not fails:
        print("replay names the theorem / correspondence that no longer checks; no concrete input recorded")
        return 1
    fn = globals().get("rerun_" + pid)
    if fn is None:
        # no case-level re-execution for this property: re-run the whole (seeded, deterministic) check that found it
        print(f"re-running check {pid} with the recorded seed {rp.get('seed')} and tier {rp.get('tier')} …")
        print(json.dumps(fails[0], indent=1, default=str)[:2000])
        return globals()["check_" + pid](rp.get("tier", "quick"), int(rp.get("seed", 0)))
    bad = 0
    for f in fails:
        r = fn(f)
        print(("STILL FAILS: " if r else "passes now: ") + str(f.get("what")))
        bad += 1 if r else 0
    return 1 if bad else 0


# =============================================================================== linear count-min


def _cms_linear(pid, tier, seed, kinds, n_quick, n_thorough, exh_quick, exh_thorough, rule, assumptions, extra_search_props=None):
    import slice_cms

    res = Result(pid, tier, seed)
    res.rule = rule
    lean = lean_check(pid)
    rng = rng_for(seed, pid + "/cms")
    n = n_quick if tier == QUICK else n_thorough
    budget = core.B(30) if tier == QUICK else 420
    slice_cms.run_slice(res, rng, tier, {pid}, kinds, n, budget, exhaustive_len=exh_quick if tier == QUICK else exh_thorough)
    res.exhaustive = False

    def search():
        r2 = Result(pid, tier, seed)
        rng2 = rng_for(seed, pid + "/search")
        slice_cms.run_slice(r2, rng2, "thorough", {pid}, set(), 4000, 120 if tier == QUICK else 900,
                            exhaustive_len=3 if tier == QUICK else 4, label="search")
        res.notes.append(f"search ran {r2.evaluations} extra cases on the real code")
        return r2.oracle_failures

    return finish(res, lean, "proof", search, _sig, assumptions=assumptions)


def rerun_cms(pid):
    def f(fail):
        import slice_cms

        run = slice_cms.LinearRun(fail["case"], rng_for(0, "replay")).run()
        return bool(run.oracle_failures({pid}))

    return f


rerun_C01 = rerun_cms("C01")
rerun_C05 = rerun_cms("C05")
rerun_C09 = rerun_cms("C09")
rerun_C18 = rerun_cms("C18")


def check_C01(tier, seed):
    return _cms_linear(
        "C01", tier, seed, {"contract", "qkernel", "ocross"}, 400, 6000, 2, 3,
        rule="random histories (5-60 ops: add/update/dict/add_ngram/merge/save-load on 1-4 CountMinLinear sketches, widths 1-64, depths 1-8, "
             "NUL/high-byte/empty keys, multiplicities incl. 2^32-1±3, 2^32, 2^40 and distance-to-ceiling±1) plus ALL histories of length ≤ L over a 3-key "
             "alphabet (2 sketches, width 2, values {1, 2^32-2}); a case is distinct by its resolved op list and non-trivial when ≥ 1 cell is shared by ≥ 2 keys "
             "or a counter reached the ceiling. Compared: Lean addOKb/mergeOKb on the real before/after tables, Lean tquery of the real table vs real query(), "
             "Lean trueCount/cellLoad vs the Python oracle, and true ≤ estimate ≤ collision bound on the real estimates.",
        assumptions=["hash is a parameter of the theorems: columns are observed from a probe sketch", "uint64 overflow of n_added (> 2^64) outside the model"],
    )


# =============================================================================== C02 HyperLogLog state


def check_C02(tier, seed):
    import slice_hll

    res = Result("C02", tier, seed)
    res.rule = ("random histories of add/update/dict/add_ngram/merge/self-merge on 1-5 HyperLogLog sketches (p 7..16, seeds incl. 0, 2^32-1, 2^32, 2^63, 2^64-1), "
                "keys from the NUL/high-byte alphabet plus constructed 8-byte FastHash preimages for chosen rank (1..64-p+1) and register index (0, m-1, random); registers after "
                "every op compared with the Lean model (which computes FastHash itself); oracle: registers and query() equal those of a fresh real sketch fed the distinct keys, "
                "and registers = max rank per index under an independent Python reference hash; plus exhaustively all orderings × all 2-way partitions (with duplicates) of key sets "
                "of size ≤ 4. Distinct by case content; non-trivial when two keys share a register or a rank ≥ 20 is reached.")
    lean = lean_check("C02")
    rng = rng_for(seed, "C02")
    slice_hll.run_slice(res, rng, tier, core.B(250) if tier == QUICK else 4000, core.B(25) if tier == QUICK else 300)
    slice_hll.exhaustive_small(res, rng)

    def search():
        r2 = Result("C02", tier, seed)
        slice_hll.run_slice(r2, rng_for(seed, "C02/search"), "thorough", 100000, 120 if tier == QUICK else 600)
        res.notes.append(f"search ran {r2.evaluations} extra cases")
        return r2.oracle_failures

    return finish(res, lean, "proof", search, _sig,
                  assumptions=["theorems hold for an arbitrary hash H : K → Nat; the concrete FastHash is tied by C11 and by this full-stack slice"])


def rerun_C02(fail):
    import slice_hll

    case = fail["case"]
    if "ops" not in case:
        return True
    return bool(slice_hll.run_case(case)[1])


# =============================================================================== C11 hashes


def check_C11(tier, seed):
    import slice_hash

    res = Result("C11", tier, seed)
    res.rule = ("keys of length 0..257 (every len%8 / len%4 tail × 0,1,≥2 blocks), bytes biased to 00/7f/80/ff, produced plainly / by slicing at offsets 0..8 / bytes(bytearray) / "
                "concatenation; seeds {0,1,2^32-1,2^32,2^63,2^64-1,random}; real fasthash64/fasthash32/murmur3 compared with Lean Impl.* (constants generated from the source) "
                "and Lean Ref.* (published constants); model-independent oracle = Python transcription of fasthash.c / MurmurHash3_x86_32. Distinct by "
                "(len%8, blocks≥1, blocks≥2, len%4, last byte, construction, min(len,70)).")
    lean = lean_check("C11")
    rng = rng_for(seed, "C11")
    slice_hash.run_slice(res, rng, tier, core.B(25) if tier == QUICK else 240)
    if tier != QUICK:
        # a second interpreter with another PYTHONHASHSEED must agree on a sample
        import subprocess
        code = ("import sys,warnings;warnings.simplefilter('ignore');sys.path.insert(0,%r);import numpy as np;from sketchnu import fasthash64;"
                "print([int(fasthash64(bytes(range(i)),np.uint64(7))) for i in range(40)])" % core.REPO)
        outs = []
        for hs in ("1", "12345"):
            p = subprocess.run([sys.executable, "-c", code], capture_output=True, text=True, env={**os.environ, "PYTHONHASHSEED": hs}, timeout=300)
            outs.append(p.stdout.strip().splitlines()[-1] if p.stdout.strip() else p.stderr[-200:])
        from slice_hash import ref_fasthash64
        want = str([ref_fasthash64(bytes(range(i)), 7) for i in range(40)])
        for o in outs:
            if o != want:
                res.oracle_failures.append({"what": "fasthash64 differs in a second interpreter process", "key": "", "seed": 7, "fn": "fasthash64"})
        res.count("second_interpreter_runs", 2)

    def search():
        r2 = Result("C11", tier, seed)
        slice_hash.run_slice(r2, rng_for(seed, "C11/search"), "thorough", 200)
        if not r2.oracle_failures:
            slice_hash.huge_keys(r2)
        res.notes.append(f"search ran {r2.evaluations} extra keys")
        return r2.oracle_failures

    return finish(res, lean, "proof", search, _sig,
                  assumptions=["Ref.* is a hand transcription of the published C sources, anchored by the C++-derived vectors of tests/test_hashes.py and the standard Murmur3 vectors (decide)",
                               "little-endian platform"])


def rerun_C11(fail):
    import slice_hash

    return slice_hash.rerun(fail)


# =============================================================================== heavy hitters C03 C04 C13

HH_RULE = ("random histories (4-60 ops: add/update/dict/add_ngram/merge/save-load/query on 1-4 HeavyHitters sketches, widths 1-16 (40% ≤ 2), depths 1-4, max_key_len 1-16, "
           "keys incl. b'', all-NUL, (k, k+NUL) pairs, over-long keys sharing a prefix, values incl. 0, current count ±1, distance-to-ceiling ±1, ≥ 2^32); after every op the cells "
           "(key identity, length, count, clean padding), bookkeeping, hh[k] and every query answer are compared with the Lean model, and the property oracles are evaluated on the "
           "real values for every key identity; distinct by resolved op list, non-trivial when two added keys share a cell. ")


def _hh(pid, tier, seed, extra=None, assumptions=None):
    import slice_hh

    res = Result(pid, tier, seed)
    res.rule = HH_RULE + (extra or "")
    lean = lean_check(pid)
    rng = rng_for(seed, pid + "/hh")
    slice_hh.run_slice(res, rng, tier, [pid], core.B(300) if tier == QUICK else 5000, core.B(28) if tier == QUICK else 400)
    if pid in ("C03", "C04"):
        slice_hh.exhaustive_width1(res, rng, 4 if tier == QUICK else 6)
        res.oracle_failures = [f for f in res.oracle_failures if f.get("pid", pid) == pid]

    def search():
        r2 = Result(pid, tier, seed)
        slice_hh.run_slice(r2, rng_for(seed, pid + "/search"), "thorough", [pid], 100000, 120 if tier == QUICK else 600, label="search")
        res.notes.append(f"search ran {r2.evaluations} extra cases")
        return [f for f in r2.oracle_failures if f.get("pid", pid) == pid]

    return finish(res, lean, "proof", search, _sig, assumptions=assumptions or [])


def check_C03(tier, seed):
    return _hh("C03", tier, seed, "Exhaustive: all sequences of ≤ L weighted adds over {b'a', b'a\\0', b'\\0'} in a width-1 sketch × partitions.",
               ["key identity = first max_key_len bytes (padKey_inj); hh[key] for keys longer than max_key_len raises ValueError on the real code and is observed at identities only"])


def check_C04(tier, seed):
    return _hh("C04", tier, seed, "Exhaustive: all orderings of small weighted multisets in a width-1 sketch with 2-way partitions and merge.",
               ["absent 32-bit saturation = total multiplicity ≤ 2^32-1 (hypothesis NoSat of the theorems; the oracle is applied only to such histories)"])


def check_C13(tier, seed):
    return _hh("C13", tier, seed, "Queries use k ∈ {1,2,3,5,∞} and thresholds None/0/1/small/2^32-1/'same as last' so that both the cache-hit and the cache-miss path are taken "
               "(counted in branch_counters); every answer is also compared with HeavyHitters.load(save()).query(...).",
               ["Counter.most_common is modelled as a stable descending sort (insertion order = row-major scan)",
                "default threshold floor(phi*n_added) computed in the model with Lean Float (IEEE multiply)"])


def _rerun_hh(pid):
    def f(fail):
        import slice_hh

        case = fail.get("case", {})
        if "ops" not in case:
            return True
        run = slice_hh.HHRun(case, rng_for(0, "replay")).run()
        bad = any(x.get("pid", pid) == pid for x in run.fails)
        run.close()
        return bad

    return f


rerun_C03 = _rerun_hh("C03")
rerun_C04 = _rerun_hh("C04")
rerun_C13 = _rerun_hh("C13")


# =============================================================================== count-min: C05 C06 C09 C18 (linear + log)


def _only(res, pid):
    res.oracle_failures = [f for f in res.oracle_failures if f.get("pid", pid) == pid]


def check_C05(tier, seed):
    import slice_cms
    import slice_log

    pid = "C05"
    res = Result(pid, tier, seed)
    res.rule = ("linear: random + exhaustive-small histories as in C01, here with EXACT comparison of the whole table, n_added and all estimates after every add, plus the one-step oracle "
                "(own estimate = min(old+v, 2^32-1); no other estimate falls or ends above max(own old, added key's new); ≤ 1 cell per row changes; n_added grows by v when uncut). "
                "log8/log16: unit/multi-step adds with placed draws on every counter class × configuration grid (log_step), random histories with two-point draws (log_history) "
                "compared cell by cell incl. consumed draws. Non-trivial: shared cell or ceiling hit (linear), distinct (config, counter, draw side, v) (log).")
    lean = lean_check(pid)
    rng = rng_for(seed, pid)
    slice_cms.run_slice(res, rng, tier, {pid}, {"exact"}, core.B(200) if tier == QUICK else 4000, core.B(12) if tier == QUICK else 200, exhaustive_len=2 if tier == QUICK else 3)
    slice_log.log_step(res, rng, tier)
    slice_log.log_history(res, rng, tier, {pid}, core.B(150) if tier == QUICK else 3000, core.B(12) if tier == QUICK else 200)
    slice_log.rand_refill(res, rng, tier)
    _only(res, pid)

    def search():
        r2 = Result(pid, tier, seed)
        g = rng_for(seed, pid + "/search")
        slice_cms.run_slice(r2, g, "thorough", {pid}, set(), 100000, 40 if tier == QUICK else 400, exhaustive_len=3, label="search")
        slice_log.log_history(r2, g, "thorough", {pid}, 100000, 40 if tier == QUICK else 400)
        _only(r2, pid)
        return r2.oracle_failures

    return finish(res, lean, "proof", search, _sig,
                  assumptions=["log theorems hold for arbitrary draws and an arbitrary decision function with inc(0,u)=true; the float decision rand < base**-c' is tied by log_step"])


def check_C06(tier, seed):
    import slice_log

    pid = "C06"
    res = Result(pid, tier, seed)
    res.rule = ("log_step: every counter class (0, nr-1..nr+3, max-2..max, random; all 256 for log8 in thorough) × grid of (max_count,num_reserved) × draws placed at 0, 1-2^-53, "
                "thr·(1∓1e-9) × v∈{1,3}; log_history: random histories with adds/merges/add_ngram on shared cells, oracle estimate ≥ min(true, nr+1) and exactness for collision-free "
                "keys; rand_refill: seeded Numba generator, runs crossing 1-2 refills, consumed positions and refilled batch compared with the model's stream; fresh_draw_state: new instances (constructor, load, merge into a new sketch) start at pointer 0 of a "
                "batch of 2048 distinct uniform draws and their first probabilistic step consumes exactly rand_nums[0]. In thorough additionally "
                "a seeded Monte-Carlo comparison of mean estimates with the true count (refutation search, not a proof).")
    lean = lean_check(pid)
    rng = rng_for(seed, pid)
    slice_log.log_step(res, rng, tier)
    slice_log.log_history(res, rng, tier, {pid}, core.B(200) if tier == QUICK else 3000, core.B(14) if tier == QUICK else 200)
    slice_log.rand_refill(res, rng, tier)
    slice_log.fresh_draw_state(res, rng, tier)
    if tier != QUICK:
        _log_unbiased_mc(res, rng)
    _only(res, pid)

    def search():
        r2 = Result(pid, tier, seed)
        g = rng_for(seed, pid + "/search")
        slice_log.log_step(r2, g, "thorough")
        slice_log.log_history(r2, g, "thorough", {pid}, 100000, 60 if tier == QUICK else 400)
        _log_unbiased_mc(r2, g)
        _only(r2, pid)
        return r2.oracle_failures

    return finish(res, lean, "proof", search, _sig,
                  assumptions=["P(rand < base^-c') = base^-c': uniformity and independence of the PRNG draws is assumed (trusted base); only the use of the draws is proved",
                               "chain_mean is over an arbitrary field with exact base; the float evaluation of base**-c' is tied by log_step with a 1e-9 margin"])


def _log_unbiased_mc(res, rng):
    """refutation search: mean decoded estimate of N unit adds vs N (Hoeffding-style bound via empirical variance, 8 sigma)"""
    import slice_log
    from real import np

    t0 = time.time()
    for kind, mc, nr, N, runs in (("log8", 2**32 - 1, 15, 500, 3000), ("log8", 10**6, 100, 2000, 1500), ("log16", 2**32 - 1, 1023, 5000, 600)):
        try:
            cm = slice_log.make(kind, runs, 1, mc, nr)
        except ValueError:
            continue
        # `runs` independent counters in one row: width=runs, keys chosen to hit distinct columns is not needed — set counters directly by adding to each column via distinct keys
        probe = {}
        i = 0
        keys = []
        while len(keys) < min(runs, 400) and i < 100000:
            k = i.to_bytes(4, "little")
            i += 1
            cm2 = None
            col = None
            # column of k: query then read buckets
            cm.query(k)
            col = int(cm.buckets[0])
            if col not in probe:
                probe[col] = k
                keys.append(k)
        for k in keys:
            cm.add(k, N)
        ests = np().array([float(cm.query(k)) for k in keys])
        mean = float(ests.mean())
        se = float(ests.std(ddof=1) / (len(keys) ** 0.5))
        res.count("mc_counters", len(keys))
        res.evaluations += len(keys)
        if abs(mean - N) > 8 * se + 1e-9:
            res.oracle_failures.append({"pid": "C06", "what": f"C06 unbiasedness (search): {kind}(max_count={mc},num_reserved={nr}) mean estimate of {N} unit adds over {len(keys)} "
                                        f"independent counters = {mean:.2f} (standard error {se:.2f})", "kind": kind})
    res.slices["log_unbiased_mc"] = {"wall_s": round(time.time() - t0, 1)}


def check_C09(tier, seed):
    import slice_cms
    import slice_log

    pid = "C09"
    res = Result(pid, tier, seed)
    res.rule = ("linear: histories with merges (exact table comparison, cell = min(a+b, 2^32-1), argument untouched, bookkeeping sums, merged estimate ≥ sum of estimates); "
                "log8: ALL 256×256 counter pairs per configuration (real merge vs the Lean float mirror exactly, vs the Lean exact nearest-counter specification over scaled integers, "
                "and vs an exact Fraction oracle; ties within 1e-9 of the gap accept either neighbour); log16: all 65536 counters against the empty sketch and sampled pairs incl. "
                "reserved-range and near-ceiling counters vs a 50-digit oracle. Non-trivial: each (kind, configuration) block and each linear history with a shared cell.")
    lean = lean_check(pid)
    rng = rng_for(seed, pid)
    slice_cms.run_slice(res, rng, tier, {pid}, {"exact", "contract"}, core.B(150) if tier == QUICK else 3000, core.B(10) if tier == QUICK else 150)
    slice_log.merge_pairs(res, rng, tier, {pid})
    slice_log.log_history(res, rng, tier, {pid}, core.B(80) if tier == QUICK else 1500, core.B(8) if tier == QUICK else 120)
    _only(res, pid)

    def search():
        r2 = Result(pid, tier, seed)
        g = rng_for(seed, pid + "/search")
        slice_cms.run_slice(r2, g, "thorough", {pid}, set(), 100000, 60, label="search")
        slice_log.merge_pairs(r2, g, "thorough", {pid})
        _only(r2, pid)
        return r2.oracle_failures

    return finish(res, lean, "proof", search, _sig,
                  assumptions=["the log merge is evaluated in float64 by the code; the theorems are about the exact nearest-counter specification, tied to the code by all-pairs comparison",
                               "base is taken as the exact rational value of the sketch's float64 `base` attribute"])


def check_C18(tier, seed):
    import slice_cms
    import slice_log

    pid = "C18"
    res = Result(pid, tier, seed)
    res.rule = ("linear: histories whose multiplicities land within ±3 of 2^32-1 from below and beyond, repeated after saturation, merges at the ceiling: no estimate or counter ever "
                "falls, the ceiling is sticky; log: log_step at max-2..max, histories and all-pairs merges (merged counter never below an input); heavy hitters: saturating adds/merges of a key "
                "alone in its cells; find_base: grid of max_count 300..2^63 × num_reserved: the top counter decodes to max_count within 1e-6 or the constructor raises ValueError.")
    lean = lean_check(pid)
    rng = rng_for(seed, pid)
    slice_cms.run_slice(res, rng, tier, {pid}, {"exact"}, core.B(150) if tier == QUICK else 3000, core.B(9) if tier == QUICK else 150)
    slice_log.log_history(res, rng, tier, {pid}, core.B(100) if tier == QUICK else 1500, core.B(8) if tier == QUICK else 120)
    slice_log.merge_pairs(res, rng, tier, {pid}, light=(tier == QUICK))
    _hh_ceiling(res, rng, tier)
    _find_base_grid(res, rng, tier)
    _only(res, pid)

    def search():
        r2 = Result(pid, tier, seed)
        g = rng_for(seed, pid + "/search")
        slice_cms.run_slice(r2, g, "thorough", {pid}, set(), 100000, 90, label="search")
        slice_log.log_history(r2, g, "thorough", {pid}, 100000, 60)
        _hh_ceiling(r2, g, "thorough")
        _find_base_grid(r2, g, "thorough")
        _only(r2, pid)
        return r2.oracle_failures

    return finish(res, lean, "proof", search, _sig,
                  assumptions=["_find_base is a floating-point Newton iteration: its result is checked against its specification on a grid, not proved"])


def _hh_ceiling(res, rng, tier):
    """a key alone in its cells: count = min(f, 2^32-1), only grows, sticky"""
    from real import CAP, sk

    s = sk()
    t0 = time.time()
    n = 0
    for _ in range(core.B(20) if tier == QUICK else 200):
        w, d = rng.choice([1, 2, 5]), rng.choice([1, 2, 4])
        key = bytes(rng.randrange(256) for _ in range(rng.randrange(0, 6)))
        parts = [s.HeavyHitters(w, d, 8) for _ in range(rng.choice([1, 2, 3]))]
        f = [0] * len(parts)
        prev = 0
        for _ in range(rng.randrange(1, 8)):
            i = rng.randrange(len(parts))
            cur = int(parts[i][key])
            v = rng.choice([1, 5, CAP - cur, max(CAP - cur - 1, 0), CAP - cur + 1, CAP, 2**32 + 7, CAP - 3])
            parts[i].add(key, v)
            f[i] += v
            got = int(parts[i][key])
            if got != min(f[i], CAP):
                res.oracle_failures.append({"pid": "C18", "what": f"C18 heavy hitters: key alone in its cells, true {f[i]}, hh[key] = {got}, expected min(f, 2^32-1)"})
            n += 1
        while len(parts) > 1:
            b = parts.pop()
            fb = f.pop()
            parts[0].merge(b)
            f[0] += fb
            got = int(parts[0][key])
            if got != min(f[0], CAP):
                res.oracle_failures.append({"pid": "C18", "what": f"C18 heavy hitters: merged count of a key alone in its cells = {got}, expected min({f[0]}, 2^32-1)"})
            n += 1
    res.evaluations += n
    res.count("hh_ceiling_steps", n)
    res.slices["hh_ceiling"] = {"steps": n, "wall_s": round(time.time() - t0, 1)}


def _find_base_grid(res, rng, tier):
    from fractions import Fraction

    from real import sk

    s = sk()
    t0 = time.time()
    n = acc = rej = 0
    mcs = [300, 1000, 5000, 65536, 10**6, 2**32 - 1, 2**40, 2**63]
    # dense part: FEW log steps (K = ceiling - num_reserved ≤ 16, thorough ≤ 48) × every power of two, 3·2^k and 10^k, plus random
    # points — the Newton iteration of `_find_base` converges slowest there (resonant max_count values)
    kmax = 16 if tier == "quick" else 48
    dense_mc = sorted(set([2**k for k in range(9, 64)] + [3 * 2**k for k in range(8, 62)] + [10**k for k in range(3, 19)]
                          + [rng.randrange(300, 2**63) for _ in range(core.B(10) if tier == "quick" else 200)]))
    if tier == "quick":
        dense_mc = [m for m in dense_mc if m & (m - 1) == 0] + rng.sample(dense_mc, 25)
    grid = []
    for cls, um, nrs in ((s.CountMinLog8, 255, [0, 1, 15, 100, 200, 240, 250, 253]), (s.CountMinLog16, 65535, [0, 1, 1023, 30000, 65000, 65533])):
        for mc in mcs:
            for nr in nrs:
                grid.append((cls, um, mc, nr))
        for K in range(1, kmax + 1):
            for mc in dense_mc:
                grid.append((cls, um, mc, um - K))
    res.count("find_base_dense_points", sum(1 for g in grid if g[1] - g[3] <= kmax))
    if True:
        if True:
            for cls, um, mc, nr in grid:
                if nr >= mc:
                    continue
                n += 1
                try:
                    c = cls(1, 1, mc, nr)
                except ValueError:
                    rej += 1
                    continue
                acc += 1
                K = um - nr
                b = float(c.base)
                if K <= 600:
                    bf = Fraction(b)
                    top = float(nr + (bf ** K - 1) / (bf - 1))
                else:
                    from decimal import Decimal, getcontext
                    getcontext().prec = 60
                    bd = Decimal(b)
                    top = float(nr + (bd ** K - 1) / (bd - 1))
                res.nontrivial(["find_base", cls.__name__, mc, nr])
                if abs(top - mc) > 1e-6 * mc:
                    res.oracle_failures.append({"pid": "C18", "what": f"C18 {cls.__name__}(max_count={mc}, num_reserved={nr}) accepted with base {b!r}: top counter decodes to {top}, not max_count",
                                                "signature": f"find_base:{cls.__name__}:{mc}:{nr}"})
    res.evaluations += n
    res.count("find_base_grid_points", n)
    res.count("find_base_accepted", acc)
    res.count("find_base_rejected", rej)
    res.slices["find_base"] = {"grid_points": n, "accepted": acc, "rejected": rej, "wall_s": round(time.time() - t0, 1)}


# =============================================================================== C15 C16 C20


def _simple(pid, tier, seed, slice_fn, rule, level="proof", assumptions=None):
    res = Result(pid, tier, seed)
    res.rule = rule
    lean = lean_check(pid)
    rng = rng_for(seed, pid)
    slice_fn(res, rng, tier)
    _only(res, pid)

    def search():
        r2 = Result(pid, tier, seed)
        slice_fn(r2, rng_for(seed, pid + "/search"), "thorough")
        _only(r2, pid)
        return r2.oracle_failures

    return finish(res, lean, level, search, _sig, assumptions=assumptions or [])


def check_C15(tier, seed):
    import slice_misc

    return _simple("C15", tier, seed, slice_misc.merge_refuse,
                   "EVERY ordered pair from a grid per family (count-min: 15 configurations = each differing from a base in exactly one of width/depth/max_count/num_reserved, for all three counter "
                   "types; HyperLogLog: 8 (p, seed) incl. seeds 2^32, 2^63, 2^64-1; heavy hitters: 7 incl. differing phi), both operands non-empty: exception class vs the Lean mergeVerdict, "
                   "byte snapshot of every array of both operands before/after. Exhaustive over the grid; each ordered pair is one distinct case.",
                   assumptions=["cross-family merges (e.g. HyperLogLog with count-min) are outside the property"])


def check_C20(tier, seed):
    import slice_misc

    return _simple("C20", tier, seed, slice_misc.truncate_all,
                   "files written by save() for the five classes and several shapes; EVERY prefix length 0..len through the class loader and (count-min) the module-level load(): raise vs return, "
                   "and the exception class compared with the Lean npLoad model prefix by prefix (files ≤ 4000 bytes); `uniqueSig` (the end-record signature occurs exactly once) is evaluated by "
                   "the model on every file. Exhaustive over all crash points of each file. "
                   "CRAFTED stream: linear count-min and heavy-hitter files whose 32-bit counters spell an embedded zip archive (uniqueSig false): a complete embedded sketch file makes "
                   "hundreds of strict prefixes load on the UNCHANGED tree (known finding C20:embedded-complete-archive); an embedded archive lacking a required member must make the loader raise.",
                   assumptions=["np.load / zipfile._EndRecData are modelled from the installed NumPy 2.x / CPython 3.12 sources, not verified",
                                "theorem C20_prefix needs the uniqueSig hypothesis; theorem C20_needs_uniqueSig and the known finding show that it cannot be dropped"])


def check_C16(tier, seed):
    import slice_misc

    return _simple("C16", tier, seed, slice_misc.shm_slice,
                   "all five classes, shapes with odd byte sizes (width, depth ∈ {1,3,5,7,11}, max_key_len ∈ {1,3,5,7}): the same random add sequence on an in-memory sketch and interleaved between "
                   "a shared-memory owner and 1-2 attached views (attach_shared_memory); every view's full state compared with the in-memory sketch after every step; real array offsets inside the "
                   "block (owner and view) compared with the Lean layouts; dropping a view leaves block and contents intact, dropping the owner removes the /dev/shm entry.",
                   assumptions=["mapping coherence between views and unlink semantics are the operating system's (modelled, not proved)"])


def check_C10(tier, seed):
    import slice_misc

    return _simple("C10", tier, seed, slice_misc.persist_all,
                   "all five classes with random shapes (incl. width/depth 1), non-default max_count/num_reserved/phi (incl. default phi at width 1 and phi=1.0)/seeds ≥ 2^63, states from random adds, "
                   "load with shared_memory False/True: class, every public attribute (type and repr), all tables, n_added/n_records, queries compared with the original; module-level load() "
                   "dispatch and TypeError from the other count-min loaders; continued adds under the same placed draws; merge with the original; a second save/load generation; plus a grid of "
                   "valid/invalid constructor arguments compared with the model's ctorValid. FRESH PROCESS: sketches of all classes (incl. log16/log8 pairs with equal max_count/num_reserved, created in "
                   "both orders, counters far above num_reserved) are saved here and loaded in a new interpreter in reverse order; class, public attributes, tables and every answer are compared. "
                   "Distinct by (class, arguments, case number).",
                   assumptions=["NumPy container I/O (np.savez / np.load) is modelled as storing and returning members unchanged",
                                "_find_base acceptance is a parameter (BaseOK) of the persistence model: a deterministic function of its arguments"])


def check_C12(tier, seed):
    import slice_cms
    import slice_hh
    import slice_hll
    import slice_log
    import slice_misc

    pid = "C12"
    res = Result(pid, tier, seed)
    res.rule = ("real vs real: each entry point (update(list), update(dict), add(key, v) with v up to 10^4, add_ngram with n ∈ {1,2,3,len-1,len,len+1,len+2,256,2^32+1}, update_ngram, "
                "sketch[key]) on one real sketch vs the loop of single adds on another, all five classes, widths 1-5 so that order-dependent collisions occur, log draws placed identically; "
                "real vs model: the batch/dict/ngram ops of the count-min, heavy-hitter, HyperLogLog and log slices, where the Lean model executes the loop of single adds. "
                "Distinct by (class, entry point, input, shape).")
    lean = lean_check(pid)
    rng = rng_for(seed, pid)
    slice_misc.entry_real(res, rng, tier)
    slice_cms.run_slice(res, rng, tier, {pid}, {"exact", "entry"}, core.B(80) if tier == QUICK else 1500, core.B(5) if tier == QUICK else 90)
    slice_hh.run_slice(res, rng, tier, [pid], core.B(60) if tier == QUICK else 1000, core.B(5) if tier == QUICK else 90)
    slice_hll.run_slice(res, rng, tier, core.B(60) if tier == QUICK else 1000, core.B(5) if tier == QUICK else 90)
    slice_log.log_history(res, rng, tier, {pid}, core.B(60) if tier == QUICK else 1000, core.B(4) if tier == QUICK else 60)
    _only(res, pid)

    def search():
        r2 = Result(pid, tier, seed)
        slice_misc.entry_real(r2, rng_for(seed, pid + "/search"), "thorough")
        _only(r2, pid)
        return r2.oracle_failures

    return finish(res, lean, "proof", search, _sig,
                  assumptions=["add(key, v) for v > 2^32-1 is capped by the API (documented), so 'v single adds' is claimed for v ≤ 2^32-1",
                               "ngram size n ≥ 1"])


def check_C17(tier, seed):
    import slice_misc

    return _simple("C17", tier, seed, slice_misc.hll_query,
                   "p ∈ 7..16 (quick: 6 of them); register arrays: empty, all-maximum, single zero register, real-hash-like arrays at loads 0.01..100 keys/register, arrays placing the linear-counting "
                   "value on each side of threshold[p], uniform small ranks around the 5m boundary; real query() vs an independent Python rendering of the documented estimator (1e-9, cases "
                   "within 1e-6 of a branch boundary excluded) and vs the Lean Float mirror over the tables regenerated from the source; branch taken is counted. Distinct by (p, array label, branch).",
                   level="proof",
                   assumptions=["float evaluation is compared with tolerance 1e-9, nothing is proved about IEEE arithmetic: this property is translation-validation in nature",
                                "the theorems are about the generated tables (decide +kernel) and the branch/interpolation structure over an ordered field"])


def check_C07(tier, seed):
    import slice_hll
    import slice_misc

    pid = "C07"
    res = Result(pid, tier, seed)
    res.rule = ("deterministic clauses: empty sketch → exactly 0.0; linear-counting value never above that of n occupied registers (hll_query arrays, p 7..16); registers via the hll slice. "
                "Envelope clause (NOT a theorem): seeded Monte-Carlo refutation search on the real code — n on a log grid 0..40·2^p incl. threshold[p], 5·2^p and 6.5·2^p/8·2^p (beyond the table end with empty registers left), several seeds per cell, "
                "relative error ≤ k·1.04/√m with k = 7 (normal-tail false-alarm bound < 1e-9 per run incl. the union over cells).")
    lean = lean_check(pid)
    rng = rng_for(seed, pid)
    slice_misc.hll_query(res, rng, tier)
    slice_hll.run_slice(res, rng, tier, core.B(60) if tier == QUICK else 600, core.B(5) if tier == QUICK else 60)
    _hll_envelope(res, rng, tier)
    _only(res, pid)

    def search():
        r2 = Result(pid, tier, seed)
        _hll_envelope(r2, rng_for(seed, pid + "/search"), "thorough")
        slice_misc.hll_query(r2, rng_for(seed, pid + "/search2"), "thorough")
        _only(r2, pid)
        return r2.oracle_failures

    return finish(res, lean, "proof", search, _sig,
                  assumptions=["THE ERROR ENVELOPE IS STATISTICAL AND NOT PROVED: it assumes FastHash behaves like a random function and relies on the empirical HLL++ bias tables; "
                               "the Monte-Carlo test is a refutation search only",
                               "proved: empty ⇒ 0, at most n occupied registers for n distinct keys, monotonicity of the linear-counting value"])


def _hll_envelope(res, rng, tier):
    from real import np, sk

    s = sk()
    t0 = time.time()
    ps = [7, 10, 14] if tier == QUICK else [7, 8, 9, 10, 11, 12, 13, 14, 15, 16]
    cells = 0
    for p in ps:
        m = 1 << p
        from sketchnu.hll_constants import sub_algorithm_threshold
        thr = int(sub_algorithm_threshold[p - 7])
        # 6.5m / 8m: above the 5m switch point while some register is usually still empty (the bias-corrected branch beyond the table end)
        grid = sorted(set([1, 2, m // 10 or 1, m // 2, m, thr, int(2.5 * m), 5 * m, int(6.5 * m)] + ([8 * m] if p >= 12 else []) + ([10 * m, 40 * m] if (tier != QUICK and p <= 13) else [])))
        for n in grid:
            for rep in range(core.B(1) if tier == QUICK else 3):
                seed = rng.choice([0, rng.randrange(2**64)])
                h = s.HyperLogLog(p, seed)
                base = rng.randrange(2**40)
                klen = rng.choice([4, 8, 13])
                h.update([(base + i).to_bytes(8, "little")[:klen] + b"\x01" * (klen - min(klen, 8)) if klen <= 8 else (base + i).to_bytes(8, "little") + b"pad!!" for i in range(n)])
                try:
                    est = float(h.query())
                except Exception as e:
                    res.oracle_failures.append({"pid": "C07", "what": f"C07 p={p} seed={seed} n={n}: query() raised {type(e).__name__}: {e}", "p": p, "n": n, "seed": seed})
                    continue
                rel = abs(est - n) / n
                k = 7.0
                bound = k * 1.04 / math.sqrt(m)
                small = n <= 5  # for tiny n the estimate is exact-ish: |est - n| < 1
                cells += 1
                res.evaluations += 1
                if (small and abs(est - n) > 1.0) or (not small and rel > bound):
                    res.oracle_failures.append({"pid": "C07", "what": f"C07 envelope (search): p={p} seed={seed} n={n} distinct keys: estimate {est:.1f}, relative error {rel:.4f} > {bound:.4f}",
                                                "p": p, "n": n, "seed": seed, "base": base, "klen": klen})
        res.nontrivial(["hll_envelope", p, len(grid)])
    res.count("envelope_cells", cells)
    res.slices["hll_envelope"] = {"cells": cells, "wall_s": round(time.time() - t0, 1)}


def check_C14(tier, seed):
    import slice_misc

    pid = "C14"
    res = Result(pid, tier, seed)
    res.rule = ("cols: probe-observed column per row for every kernel family (linear/log8/log16/heavy hitters), widths 1..2^20+7, depths 1..8, NUL/high-byte keys vs the Lean "
                "Impl.fasthash64(key, row) % width and an independent Python reference (a different column rule is a BROKEN CORRESPONDENCE, not by itself a violation of C14); searches (NOT "
                "proofs) that decide whether C14 fails: χ² uniformity of each row and of the joint distribution of every pair of rows over 6000-20000 keys at width 16 (tail < 1e-9) for depths "
                "incl. 3, 5, 6, 7 and for short and long (> 16 byte) keys, degenerate rows at width 65536/2^20+7, and Zipf streams of 3000-5000 keys at widths 32-128, depth 8 against exp(-depth).")
    lean = lean_check(pid)
    rng = rng_for(seed, pid)
    slice_misc.cols_slice(res, rng, tier)
    slice_misc.row_independence(res, rng, tier)
    slice_misc.zipf_bound(res, rng, tier)
    _only(res, pid)

    def search():
        r2 = Result(pid, tier, seed)
        g = rng_for(seed, pid + "/search")
        slice_misc.cols_slice(r2, g, "thorough")
        slice_misc.row_independence(r2, g, "thorough")
        slice_misc.zipf_bound(r2, g, "thorough")
        _only(r2, pid)
        return r2.oracle_failures

    return finish(res, lean, "proof", search, _sig,
                  assumptions=["THAT FASTHASH WITH SEEDS 0..d-1 BEHAVES LIKE INDEPENDENT UNIFORM HASH FUNCTIONS IS AN ASSUMPTION (statistical; searched, not proved)",
                               "proved: the ideal-hash counting bound C14_ideal ((N-w_x)/(W·T))^d, its transfer through C01's upper bound; checked exactly: column = fasthash64(key,row) % width"])


# =============================================================================== C08 C19 parallel_add


def _parallel(pid, tier, seed, rule, assumptions):
    import slice_parallel

    res = Result(pid, tier, seed)
    res.rule = rule
    lean = lean_check(pid)
    rng = rng_for(seed, pid)
    slice_parallel.run_slice(res, rng, tier, pid)
    if tier != QUICK:
        slice_parallel.spawned_runs(res, rng, pid)
    _only(res, pid)

    def search():
        r2 = Result(pid, tier, seed)
        slice_parallel.run_slice(r2, rng_for(seed, pid + "/search"), "thorough", pid)
        _only(r2, pid)
        return r2.oracle_failures

    return finish(res, lean, "proof", search, _sig, assumptions=assumptions)


def check_C08(tier, seed):
    return _parallel("C08", tier, seed,
                     "the REAL parallel_add/_fill_queue/_worker/parallel_merging/_merge_worker in-process under a synchronous process context with real shared-memory sketches: ALL assignments of "
                     "≤ 3 (thorough 5) items to ≤ 3 (4) workers, random valid protocol traces with 1-9 workers (odd counts → carried sketch), all 7 combinations of cms/hh/hll, list and generator "
                     "input, parallel_merging alone for 1..9 sketches with the merge pairs recorded; oracles: HyperLogLog registers = sequential, n_added = total multiplicity, n_records = Σ returns, "
                     "C01/C03/C04 of the result w.r.t. the whole stream; model: each schedule is validated as a run of the Lean protocol (par.run), the count-min result equals the Lean model of the "
                     "same schedule and merge rounds. Thorough adds real spawned runs (1,2,3,5 workers).",
                     ["the OS scheduler, spawn, pickling and shared-memory coherence are runtime behaviour; the model assumes the queue's FIFO / exactly-once delivery",
                      "under the synchronous context items are delivered according to the schedule's per-worker assignment (workers interact only through the queue)"])


def check_C19(tier, seed):
    return _parallel("C19", tier, seed,
                     "in-process as C08: all assignments with random raise-before/raise-after marks, EVERY subset of 3 (thorough 5) items marked to raise × 1..3 workers × random valid traces, a worker "
                     "dying (BaseException, exit code 3) on its k-th item for k = 0..2 × 1..3 workers (parallel_add must end with an exception), the monitor loop driven by scripted exit-code "
                     "snapshots compared with the Lean `monitor`; thorough adds a real spawned run in which a worker calls os._exit(3) and a wall-clock bound.",
                     ["process death, signals and the fact that the exception stems from using a closed multiprocessing queue are runtime behaviour (modelled by the fake queue raising ValueError)",
                      "a worker that dies with exit code 0 is outside the property's fault model"])
