"""
schema.py — translator for the CLASS-LEVEL code of the five sketch classes (plain Python, not Numba):

  * persistence schema: the members `save()` writes (`np.savez(filename, name=expr, …)`), and what `load()` does — the
    dtype check, the constructor call, the `np.copyto(obj.attr, npzfile[member])` copies, anything else verbatim;
  * constructor validation: the conditions of the leading `if …: raise ValueError` statements of `__init__`;
  * shared-memory layout: the byte segments `__init__(shared_memory=True)` carves out of the block
    (`np.frombuffer(self.shm.buf[a:b], dtype)`, block size `SharedMemory(create=True, size=…)`) and the segments
    `attach_existing_shm` computes SEPARATELY from the local arrays' `nbytes` — both by symbolic execution of the
    straight-line code over `Nat` expressions in `width`, `depth`, `max_key_len`, `p`.

Output: `lean/Model/Generated/Schema.lean` (namespace `Sketchnu.Gen.Schema`).  `lean/Properties/SrcSchema.lean` proves that every
state array is saved and restored under its own member, that `load()` does nothing else, that the validation is the
modelled one, and that the generated layouts equal `Model/Shm.lean`'s (`cmsInitLayout`, `hhAttachLayout`, …) for all shapes.
Anything outside the expected statement forms raises TranslateError.
"""
import ast
import os

from translate import TranslateError, REPO, GEN, _parse, _write_if_changed

ITEMSIZE = {"uint8": 1, "uint16": 2, "uint32": 4, "uint64": 8, "float64": 8}
CLASSES = [("countmin", "CountMinLinear"), ("countmin", "CountMinLog16"), ("countmin", "CountMinLog8"), ("hyperloglog", "HyperLogLog"), ("heavyhitters", "HeavyHitters")]
PARAMS = {"CountMinLinear": ["width", "depth"], "CountMinLog16": ["width", "depth"], "CountMinLog8": ["width", "depth"],
          "HyperLogLog": ["p"], "HeavyHitters": ["max_key_len", "width", "depth"]}


def _methods(tree, cls):
    """methods of a class, following single inheritance inside the module"""
    classes = {n.name: n for n in tree.body if isinstance(n, ast.ClassDef)}
    out = {}
    chain = []
    c = classes.get(cls)
    while c is not None:
        chain.append(c)
        b = c.bases[0].id if c.bases and isinstance(c.bases[0], ast.Name) else None
        c = classes.get(b)
    for c in reversed(chain):
        for m in c.body:
            if isinstance(m, ast.FunctionDef):
                out[m.name] = m
    if not out:
        raise TranslateError(f"class {cls} not found")
    return out


def _body(fn):
    b = list(fn.body)
    if b and isinstance(b[0], ast.Expr) and isinstance(b[0].value, ast.Constant):
        b = b[1:]
    return b


def _dtype(node, local=None):
    s = ast.unparse(node)
    if local and s.startswith("self.") and s.endswith(".dtype") and s[5:-6] in local:
        return local[s[5:-6]][1]  # `self.cms.dtype`: the dtype the array was allocated with
    s = s.split(".")[-1]
    if s not in ITEMSIZE:
        raise TranslateError(f"unknown dtype `{ast.unparse(node)}`")
    return s


class Layout:
    """symbolic execution of layout code over Lean Nat expressions"""

    def __init__(self, cls, local_shapes=None):
        self.cls = cls
        self.env = {}
        self.local_shapes = local_shapes or {}
        self.segs = []     # (array, start, stop or None for "to the end of the block")
        self.size = None

    def expr(self, n):
        if isinstance(n, ast.Constant) and isinstance(n.value, int):
            return str(n.value)
        if isinstance(n, ast.Name):
            if n.id in self.env:
                return self.env[n.id]
            if n.id in PARAMS[self.cls]:
                return n.id
            raise TranslateError(f"{self.cls}: unknown name `{n.id}` in layout code")
        if isinstance(n, ast.Attribute) and isinstance(n.value, ast.Name) and n.value.id == "self":
            if n.attr in PARAMS[self.cls]:
                return n.attr
            if n.attr == "m" and self.cls == "HyperLogLog":
                return "(2 ^ p)"
            raise TranslateError(f"{self.cls}: unsupported attribute `self.{n.attr}` in layout code")
        if isinstance(n, ast.Attribute) and n.attr == "nbytes" and isinstance(n.value, ast.Attribute) and isinstance(n.value.value, ast.Name) \
                and n.value.value.id == "self":
            a = n.value.attr
            if a not in self.local_shapes:
                raise TranslateError(f"{self.cls}: `self.{a}.nbytes` but no in-memory allocation of `{a}` is known")
            shape, dt = self.local_shapes[a]
            return "(" + " * ".join(shape + [str(ITEMSIZE[dt])]) + ")"
        if isinstance(n, ast.Call) and isinstance(n.func, ast.Name) and n.func.id == "int" and len(n.args) == 1:
            return self.expr(n.args[0])
        if isinstance(n, ast.BinOp) and isinstance(n.op, (ast.Add, ast.Mult)):
            return f"({self.expr(n.left)} {'+' if isinstance(n.op, ast.Add) else '*'} {self.expr(n.right)})"
        raise TranslateError(f"{self.cls}: unsupported layout expression `{ast.unparse(n)}`")

    def run(self, stmts, bufname):
        for s in stmts:
            u = ast.unparse(s)
            if isinstance(s, ast.Assign) and len(s.targets) == 1 and isinstance(s.targets[0], ast.Name):
                v = s.value
                if isinstance(v, ast.Call) and ast.unparse(v.func) == "SharedMemory":
                    continue  # existing_shm = SharedMemory(name=…)
                self.env[s.targets[0].id] = self.expr(v)
            elif isinstance(s, ast.AugAssign) and isinstance(s.target, ast.Name) and isinstance(s.op, ast.Add):
                self.env[s.target.id] = f"({self.env[s.target.id]} + {self.expr(s.value)})"
            elif isinstance(s, ast.Assign) and len(s.targets) == 1 and isinstance(s.targets[0], ast.Attribute):
                attr = s.targets[0].attr
                v = s.value
                if isinstance(v, ast.Call) and ast.unparse(v.func) == "SharedMemory":
                    kw = {k.arg: k.value for k in v.keywords}
                    if "size" in kw:
                        self.size = self.expr(kw["size"])
                    continue
                if isinstance(v, ast.Name):
                    continue  # self.existing_shm = existing_shm
                # self.X = np.frombuffer(BUF[a:b], dtype)[.reshape(...)]
                call = v
                if isinstance(call, ast.Call) and isinstance(call.func, ast.Attribute) and call.func.attr == "reshape":
                    call = call.func.value
                if not (isinstance(call, ast.Call) and ast.unparse(call.func) == "np.frombuffer" and len(call.args) == 2):
                    raise TranslateError(f"{self.cls}: unsupported layout statement `{u[:80]}`")
                buf = call.args[0]
                if isinstance(buf, ast.Subscript):
                    if ast.unparse(buf.value) != bufname or not isinstance(buf.slice, ast.Slice) or buf.slice.step is not None:
                        raise TranslateError(f"{self.cls}: `{ast.unparse(buf)}` is not a slice of `{bufname}`")
                    lo = self.expr(buf.slice.lower) if buf.slice.lower is not None else "0"
                    hi = self.expr(buf.slice.upper) if buf.slice.upper is not None else None
                else:
                    if ast.unparse(buf) != bufname:
                        raise TranslateError(f"{self.cls}: `{ast.unparse(buf)}` is not `{bufname}`")
                    lo, hi = "0", None
                self.segs.append((attr, lo, hi, _dtype(call.args[1], self.local_shapes)))
            else:
                raise TranslateError(f"{self.cls}: unsupported layout statement `{u[:80]}`")


def class_schema(mod, cls):
    src, tree = _parse(os.path.join(REPO, "sketchnu", mod + ".py"))
    M = _methods(tree, cls)
    out = {"name": cls}
    # ---- constructor: leading validation, state arrays, layouts
    init = _body(M["__init__"])
    checks = []
    for s in init:
        if isinstance(s, ast.If) and len(s.body) == 1 and isinstance(s.body[0], ast.Raise) and not s.orelse:
            exc = s.body[0].exc
            if not (isinstance(exc, ast.Call) and getattr(exc.func, "id", None) == "ValueError"):
                raise TranslateError(f"{cls}.__init__: a validation raises `{ast.unparse(exc)[:40]}`, not ValueError")
            checks.append(ast.unparse(s.test))
    out["ctorChecks"] = checks
    shm_if = [s for s in init if isinstance(s, ast.If) and ast.unparse(s.test) == "shared_memory"]
    if len(shm_if) != 1:
        raise TranslateError(f"{cls}.__init__: expected exactly one `if shared_memory:`")
    shm_if = shm_if[0]
    # in-memory allocations: self.X = np.zeros(shape, dtype)
    local = {}
    for s in shm_if.orelse:
        ok = (isinstance(s, ast.Assign) and len(s.targets) == 1 and isinstance(s.targets[0], ast.Attribute) and isinstance(s.value, ast.Call)
              and ast.unparse(s.value.func) == "np.zeros" and len(s.value.args) == 2)
        if not ok:
            raise TranslateError(f"{cls}.__init__: unsupported in-memory allocation `{ast.unparse(s)[:80]}`")
        shp = s.value.args[0]
        elts = list(shp.elts) if isinstance(shp, ast.Tuple) else [shp]
        lay = Layout(cls)
        local[s.targets[0].attr] = ([lay.expr(e) if not (isinstance(e, ast.Constant)) else str(e.value) for e in elts], _dtype(s.value.args[1]))
    out["stateArrays"] = list(local)
    # statements before the `if` that define sizes (only plain `name = expr` with layout expressions are kept)
    lay = Layout(cls, local)
    pre = []
    for s in init:
        if s is shm_if:
            break
        if isinstance(s, ast.Assign) and len(s.targets) == 1 and isinstance(s.targets[0], ast.Name) and s.targets[0].id.endswith(("_nbytes", "_size")):
            pre.append(s)
    lay.run(pre + list(shm_if.body), "self.shm.buf")
    if lay.size is None:
        raise TranslateError(f"{cls}.__init__: no SharedMemory(create=True, size=…)")
    if [a for a, *_ in lay.segs] != list(local):
        raise TranslateError(f"{cls}.__init__: shared-memory branch binds {[a for a, *_ in lay.segs]}, in-memory branch {list(local)}")
    for (a, lo, hi, dt) in lay.segs:
        if dt != local[a][1]:
            raise TranslateError(f"{cls}.__init__: `{a}` is {dt} in shared memory but {local[a][1]} in memory")
    out["initSegs"] = [(a, lo, hi if hi is not None else lay.size) for a, lo, hi, dt in lay.segs]
    out["initSize"] = lay.size
    att = Layout(cls, local)
    att.run(_body(M["attach_existing_shm"]), "existing_shm.buf")
    if [a for a, *_ in att.segs] != list(local):
        raise TranslateError(f"{cls}.attach_existing_shm binds {[a for a, *_ in att.segs]}, the constructor {list(local)}")
    for (a, lo, hi, dt) in att.segs:
        if dt != local[a][1]:
            raise TranslateError(f"{cls}.attach_existing_shm: `{a}` viewed as {dt}, allocated as {local[a][1]}")
    out["attachSegs"] = [(a, lo, hi if hi is not None else "blockSize") for a, lo, hi, dt in att.segs]
    # ---- save
    sv = _body(M["save"])
    if len(sv) != 1 or not (isinstance(sv[0], ast.Expr) and isinstance(sv[0].value, ast.Call) and ast.unparse(sv[0].value.func) == "np.savez"):
        raise TranslateError(f"{cls}.save is not a single np.savez(...) call")
    call = sv[0].value
    if len(call.args) != 1 or ast.unparse(call.args[0]) != "filename":
        raise TranslateError(f"{cls}.save: np.savez is not called with `filename` alone positionally")
    out["saveMembers"] = [(k.arg, ast.unparse(k.value)) for k in call.keywords]
    # ---- load
    ld = _body(M["load"])
    if not (ld and isinstance(ld[0], ast.With) and len(ld[0].items) == 1 and ast.unparse(ld[0].items[0].context_expr) == "np.load(filename)"
            and ast.unparse(ld[0].items[0].optional_vars) == "npzfile"):
        raise TranslateError(f"{cls}.load does not start with `with np.load(filename) as npzfile:`")
    copies, other, ctor, dcheck = [], [], None, None
    objname = None
    for s in ld[0].body:
        u = ast.unparse(s)
        if isinstance(s, ast.Assign) and isinstance(s.value, ast.Call) and isinstance(s.value.func, ast.Name) and s.value.func.id == cls:
            ctor = ast.unparse(s.value)
            objname = ast.unparse(s.targets[0])
        elif isinstance(s, ast.Expr) and isinstance(s.value, ast.Call) and ast.unparse(s.value.func) == "np.copyto" and len(s.value.args) == 2:
            dst, srcm = s.value.args
            okd = isinstance(dst, ast.Attribute) and objname is not None and ast.unparse(dst.value) == objname
            oks = isinstance(srcm, ast.Subscript) and ast.unparse(srcm.value) == "npzfile" and isinstance(srcm.slice, ast.Constant)
            if not (okd and oks):
                raise TranslateError(f"{cls}.load: unsupported copy `{u}`")
            copies.append((dst.attr, srcm.slice.value))
        elif isinstance(s, ast.If) and len(s.body) == 1 and isinstance(s.body[0], ast.Raise):
            dcheck = ast.unparse(s.test) + " -> " + ast.unparse(s.body[0].exc.func)
        else:
            other.append(u)
    for s in ld[1:]:
        other.append(ast.unparse(s))
    if ctor is None:
        raise TranslateError(f"{cls}.load never calls {cls}(…)")
    out["loadCtor"], out["loadCopies"], out["loadOther"], out["loadDtypeCheck"] = ctor, copies, other, dcheck
    return out


def _ls(xs):
    return "[" + ", ".join(xs) + "]"


def _q(s):
    return '"' + s.replace("\\", "\\\\").replace('"', '\\"') + '"'


def render():
    L = ["/- GENERATED by harness/schema.py from the class-level code of the current /repo source — do not edit. -/",
         "import Model.Shm", "namespace Sketchnu.Gen.Schema", "open Sketchnu", ""]
    errors = []
    for mod, cls in CLASSES:
        try:
            c = class_schema(mod, cls)
        except TranslateError as e:
            errors.append(f"schema {cls}: {e}")
            L.append(f"-- TRANSLATION FAILED for class {cls}: {e}\n-- (no definitions emitted: the obligations in Properties/SrcSchema.lean that mention it no longer check)\n")
            continue
        n = cls
        L.append(f"/-- `{cls}.__init__`: conditions of the leading `if …: raise ValueError`, in source order -/")
        L.append(f"def ctorChecks_{n} : List String := " + _ls([_q(x) for x in c["ctorChecks"]]))
        L.append(f"/-- arrays that make up the state (allocated by both branches of `if shared_memory:`) -/")
        L.append(f"def stateArrays_{n} : List String := " + _ls([_q(x) for x in c["stateArrays"]]))
        L.append(f"/-- `{cls}.save`: members of the `.npz` file as (name, expression) -/")
        L.append(f"def saveMembers_{n} : List (String × String) := " + _ls([f"({_q(a)}, {_q(b)})" for a, b in c["saveMembers"]]))
        L.append(f"/-- `{cls}.load`: the constructor call, the `np.copyto(obj.attr, npzfile[member])` copies as (attr, member), the dtype check, and every OTHER statement verbatim -/")
        L.append(f"def loadCtor_{n} : String := {_q(c['loadCtor'])}")
        L.append(f"def loadCopies_{n} : List (String × String) := " + _ls([f"({_q(a)}, {_q(b)})" for a, b in c["loadCopies"]]))
        L.append(f"def loadDtypeCheck_{n} : Option String := " + (f"some {_q(c['loadDtypeCheck'])}" if c["loadDtypeCheck"] else "none"))
        L.append(f"def loadOther_{n} : List String := " + _ls([_q(x) for x in c["loadOther"]]))
        ps = " ".join(PARAMS[cls])
        L.append(f"/-- `{cls}.__init__(shared_memory=True)`: byte segments of the block in allocation order ({', '.join(a for a, _, _ in c['initSegs'])}) and the block size -/")
        L.append(f"def initLayout_{n} ({ps} : Nat) : List Seg × Nat :=\n  (" + _ls([f"⟨{lo}, {hi}⟩" for _, lo, hi in c["initSegs"]]) + f", {c['initSize']})")
        L.append(f"/-- `{cls}.attach_existing_shm`: the segments computed from the local arrays' `nbytes`; an open-ended slice ends at the block size -/")
        L.append(f"def attachLayout_{n} ({ps} blockSize : Nat) : List Seg :=\n  " + _ls([f"⟨{lo}, {hi}⟩" for _, lo, hi in c["attachSegs"]]))
        L.append("")
    L.append("end Sketchnu.Gen.Schema")
    return "\n".join(L) + "\n", errors


def run():
    text, errors = render()
    changed = ["Schema.lean"] if _write_if_changed(os.path.join(GEN, "Schema.lean"), text) else []
    return changed, errors


if __name__ == "__main__":
    t, e = render()
    print(t)
    print(e)
